package main

import (
	"bytes"
	"fmt"
	"go/ast"
	"go/printer"
	"go/token"
	"strings"
)

func init() {
	register(&Prop{
		ID:        "C35",
		Level:     "other",
		Technique: "clone agreement of the two declared-duplicate lag computations (printed AST after alpha-normalisation), guard-fact rules on every store to lag/perr in both blocks, field-map of the result literal, shape rules for the totals; type-only rule for the wrapper accessors and guard/exit rules for the member/topic/partition iteration",
		Explanation: "(1) the assigned-partition and committed-only lag computations of CalculateGroupLagWithStartOffsets are statement-for-statement identical (the code declares them duplicates); " +
			"(2) in both: perr starts as errListMissing and is cleared only when the partition is found in the end listing, then takes the commit error, then the end-offset error; the commit looked up for the partition is used whenever it is present (no extra condition); every store to lag other than the -1 initialisation is under perr == nil; lag is the end offset, overridden by end-start when the start offset has no error and by end-commit when something is committed (commit last), floored at zero; the result literal stores Lag: lag and Err: perr together with the commit, start and end used; " +
			"(3) each result is stored at l[topic][partition]; the committed-only block skips partitions already present; CalculateGroupLag delegates to the start-offset variant; " +
			"(4) TotalByTopic adds only positive lags, under no other condition and over the whole maps without early exits, and Total is the sum of TotalByTopic (so the -1 error markers never enter a total and no valid lag is left out); " +
			"(5) round 3: every As*/Raw accessor of the `struct{ i any }` wrappers (GroupMemberAssignment, GroupMemberMetadata) returns the value and ok of one comma-ok type assertion on the wrapped value to the accessor's result type, ok/value are never rewritten, a constant true/false result is only returned under the matching ok fact (so ok depends on the dynamic type alone, never on Version or another decoded field); " +
			"(6) round 3: in CalculateGroupLagWithStartOffsets the assigned result store is guarded by nothing but ok of m.Assigned.AsConsumer() on the member of `range group.Members`, sits in `range c.Topics { range t.Partitions` over the unsliced lists, no break/return/labelled or inner continue leaves those loops and a member is skipped only under !ok, the result carries Member: &group.Members[mi], Topic: t.Topic, Partition: p and is stored at l[t.Topic][p] (a fresh per-topic map is published in l).",
		NotDecided: "arithmetic on actual offsets over all inputs; the third (listed-only) block, which is outside the statement; that DescribeGroups wraps a *kmsg.ConsumerMemberAssignment for every member of a \"consumer\" group (decoding side); accessors written as a type switch are reported undecided.",
		Run:        runC35,
	})
}

func printNode(fset *token.FileSet, n ast.Node) string {
	var b bytes.Buffer
	printer.Fprint(&b, fset, n)
	return b.String()
}

func runC35(c *Ctx) {
	m := c.Load("pkg/kadm")
	if m == nil {
		return
	}
	// the wrapper without start offsets is a pure delegation: every partition the
	// full calculation reports (incl. the -1/errListMissing ones when end offsets
	// are missing) is reported by it too
	if wf := c.NeedFunc(m, "kadm.CalculateGroupLag"); wf != nil {
		ok := false
		if len(wf.Decl.Body.List) == 1 {
			if r, isR := wf.Decl.Body.List[0].(*ast.ReturnStmt); isR && len(r.Results) == 1 {
				if call, isC := r.Results[0].(*ast.CallExpr); isC && calleeName(wf.Info(), call) == "kadm.CalculateGroupLagWithStartOffsets" && len(call.Args) == 4 {
					var params []string
					for _, fl := range wf.Decl.Type.Params.List {
						for _, nm := range fl.Names {
							params = append(params, nm.Name)
						}
					}
					ok = len(params) == 3 && exprStr(call.Args[0]) == params[0] && exprStr(call.Args[1]) == params[1] && exprStr(call.Args[2]) == "nil" && exprStr(call.Args[3]) == params[2]
				}
			}
		}
		c.Check(ok, "wrapper-delegates", wf.Key, wf.Pos(), m, "return CalculateGroupLagWithStartOffsets(group, commit, nil, endOffsets)", "CalculateGroupLag is not a pure delegation to CalculateGroupLagWithStartOffsets(group, commit, nil, endOffsets): some inputs (e.g. empty end offsets) take a shortcut that drops partitions which must be reported with Lag -1 and an error")
	}
	f := c.NeedFunc(m, "kadm.CalculateGroupLagWithStartOffsets")
	if f == nil {
		return
	}
	info := f.Info()
	g := f.Graph()
	// find the blocks: a statement list containing `perr = errListMissing`
	type lagBlock struct {
		list  []ast.Stmt
		start int
		end   int // index of the composite-literal store
	}
	var blocks []lagBlock
	ast.Inspect(f.Decl.Body, func(x ast.Node) bool {
		bs, ok := x.(*ast.BlockStmt)
		if !ok {
			return true
		}
		for i, st := range bs.List {
			if nosp(nodeStr(st)) == "perr=errListMissing" {
				for j := i; j < len(bs.List); j++ {
					if as, ok := bs.List[j].(*ast.AssignStmt); ok && len(as.Rhs) == 1 {
						if cl, ok := as.Rhs[0].(*ast.CompositeLit); ok && exprStr(cl.Type) == "GroupMemberLag" {
							blocks = append(blocks, lagBlock{bs.List, i, j})
						}
					}
				}
			}
		}
		return true
	})
	c.Check(len(blocks) == 2, "lag-blocks-found", f.Key, f.Pos(), m, "assigned and committed-only computations", fmt.Sprintf("expected 2 lag computations starting at `perr = errListMissing`, found %d", len(blocks)))
	if len(blocks) != 2 {
		return
	}
	// (1) clone agreement
	norm := func(b lagBlock) []string {
		var out []string
		for _, st := range b.list[b.start:b.end] {
			s := printNode(m.Fset, st)
			// strip comments
			var lines []string
			for _, ln := range strings.Split(s, "\n") {
				if i := strings.Index(ln, "//"); i >= 0 {
					ln = ln[:i]
				}
				ln = strings.TrimSpace(ln)
				if ln != "" {
					lines = append(lines, ln)
				}
			}
			out = append(out, strings.Join(lines, " "))
		}
		return out
	}
	a, b := norm(blocks[0]), norm(blocks[1])
	same := len(a) == len(b)
	diffAt := ""
	for i := 0; same && i < len(a); i++ {
		if a[i] != b[i] {
			same = false
			diffAt = fmt.Sprintf("statement %d: `%s` vs `%s`", i, a[i], b[i])
		}
	}
	if len(a) != len(b) {
		diffAt = fmt.Sprintf("%d vs %d statements", len(a), len(b))
	}
	c.Check(same, "lag-blocks-agree", f.Key+"#assigned-vs-committed-only", blocks[1].list[blocks[1].start].Pos(), m, fmt.Sprintf("%d statements identical", len(a)), "the two duplicated lag computations differ: "+diffAt)

	// round 3: the accessors that decide which members take part, and the member/topic/partition iteration
	c35accessors(c, m)
	c35members(c, m, f, blocks[0].list[blocks[0].end].(*ast.AssignStmt))

	// (2) per-block rules
	for bi, blk := range blocks {
		name := []string{"assigned", "committed-only"}[bi]
		lo, hi := blk.list[blk.start].Pos(), blk.list[blk.end].End()
		inBlk := func(n ast.Node) bool { return n.Pos() >= lo && n.End() <= hi }
		var lagStores, perrStores []*ast.AssignStmt
		ast.Inspect(f.Decl.Body, func(x ast.Node) bool {
			as, ok := x.(*ast.AssignStmt)
			if !ok || !inBlk(as) || len(as.Lhs) != 1 {
				return true
			}
			switch exprStr(as.Lhs[0]) {
			case "lag":
				lagStores = append(lagStores, as)
			case "perr":
				perrStores = append(perrStores, as)
			}
			return true
		})
		var lagVals []string
		for _, as := range lagStores {
			rhs := nosp(exprStr(as.Rhs[0]))
			l, _ := g.LocOf(as)
			facts := g.FactsAt(l)
			cons := fmt.Sprintf("%s#%s: lag = %s", f.Key, name, rhs)
			if as.Tok == token.DEFINE {
				c.Check(rhs == "int64(-1)", "lag-err-coupling", cons, as.Pos(), m, "lag starts at -1", "lag is initialised to "+rhs)
				continue
			}
			noErr := factMatches(facts, func(ft Fact) bool { return ft.Val && nosp(exprStr(ft.Cond)) == "perr==nil" })
			c.Check(noErr, "lag-err-coupling", cons, as.Pos(), m, "only when perr == nil", "lag is computed although perr may be non-nil (lag must be -1 exactly when there is an error)")
			lagVals = append(lagVals, rhs)
			switch rhs {
			case "pend.Offset":
			case "pend.Offset-pstart.Offset":
				okc := factMatches(facts, func(ft Fact) bool { return ft.Val && nosp(exprStr(ft.Cond)) == "pstart.Err==nil" })
				c.Check(okc, "lag-formula", cons, as.Pos(), m, "end - start only when the start offset is usable", "end-start is used without checking pstart.Err == nil")
			case "pend.Offset-pcommit.At":
				okc := factMatches(facts, func(ft Fact) bool { return ft.Val && nosp(exprStr(ft.Cond)) == "pcommit.At>=0" })
				c.Check(okc, "lag-formula", cons, as.Pos(), m, "end - commit when committed", "end-commit is used without checking pcommit.At >= 0")
			case "0":
				okc := factMatches(facts, func(ft Fact) bool { return ft.Val && nosp(exprStr(ft.Cond)) == "lag<0" })
				c.Check(okc, "lag-formula", cons, as.Pos(), m, "floored at zero", "lag = 0 outside `lag < 0`")
			default:
				c.Fail("lag-formula", cons, as.Pos(), m, "unexpected lag expression")
			}
		}
		c.Check(strings.Join(lagVals, ";") == "pend.Offset;pend.Offset-pstart.Offset;pend.Offset-pcommit.At;0", "lag-formula", f.Key+"#"+name+"#order", blk.list[blk.start].Pos(), m,
			"end, then end-start, then end-commit (commit wins), then floor", "lag stores are "+strings.Join(lagVals, "; "))
		// perr chain
		var perrVals []string
		for _, as := range perrStores {
			rhs := nosp(exprStr(as.Rhs[0]))
			perrVals = append(perrVals, rhs)
			l, _ := g.LocOf(as)
			facts := g.FactsAt(l)
			cons := fmt.Sprintf("%s#%s: perr = %s", f.Key, name, rhs)
			switch rhs {
			case "errListMissing":
			case "nil":
				found := factMatches(facts, func(ft Fact) bool { id, ok := ft.Cond.(*ast.Ident); return ok && id.Name == "ok" && ft.Val }) &&
					factMatches(facts, func(ft Fact) bool { return ft.Val && nosp(exprStr(ft.Cond)) == "tend!=nil" })
				c.Check(found, "lag-err-coupling", cons, as.Pos(), m, "cleared only when the end offset was listed", "perr is cleared without the partition being present in the end listing")
			case "pcommit.Err", "pend.Err":
				okc := factMatches(facts, func(ft Fact) bool { return ft.Val && nosp(exprStr(ft.Cond)) == "perr==nil" })
				c.Check(okc, "lag-err-coupling", cons, as.Pos(), m, "", "error priority broken: perr overwritten while already set")
			default:
				c.Fail("lag-err-coupling", cons, as.Pos(), m, "unexpected perr source")
			}
		}
		c.Check(strings.Join(perrVals, ";") == "errListMissing;nil;pcommit.Err;pend.Err", "lag-err-coupling", f.Key+"#"+name+"#perr-chain", blk.list[blk.start].Pos(), m,
			"missing -> commit error -> end error", "perr sources are "+strings.Join(perrVals, "; "))
		// literal
		lit := blk.list[blk.end].(*ast.AssignStmt).Rhs[0].(*ast.CompositeLit)
		got := map[string]string{}
		for _, e := range lit.Elts {
			if kv, ok := e.(*ast.KeyValueExpr); ok {
				got[exprStr(kv.Key)] = nosp(exprStr(kv.Value))
			}
		}
		okLit := got["Lag"] == "lag" && got["Err"] == "perr" && got["Commit"] == "pcommit.Offset" && got["Start"] == "pstart" && got["End"] == "pend" && got["Partition"] == "p"
		c.Check(okLit, "lag-result-literal", f.Key+"#"+name, lit.Pos(), m, "Lag: lag, Err: perr, Commit/Start/End as used", fmt.Sprintf("result literal fields: %v", got))
		c.Check(nosp(exprStr(blk.list[blk.end].(*ast.AssignStmt).Lhs[0])) == "lt[p]", "lag-result-literal", f.Key+"#"+name+"#key", lit.Pos(), m, "stored at lt[p]", "result is not stored at lt[p]")
	}
	// the commit looked up is used whenever present
	nC := 0
	ast.Inspect(f.Decl.Body, func(x ast.Node) bool {
		as, ok := x.(*ast.AssignStmt)
		if !ok || len(as.Lhs) != 1 || exprStr(as.Lhs[0]) != "pcommit" || exprStr(as.Rhs[0]) != "pcommitActual" {
			return true
		}
		nC++
		l, _ := g.LocOf(as)
		var extra []string
		for _, ft := range g.FactsAt(l) {
			s := nosp(exprStr(ft.Cond))
			if (s == "ok" && ft.Val) || (s == "tcommit!=nil" && ft.Val) {
				continue
			}
			if strings.Contains(s, "pcommit") {
				extra = append(extra, s)
			}
		}
		c.Check(len(extra) == 0, "commit-used-when-present", f.Key+": pcommit = pcommitActual", as.Pos(), m, "", "the partition's commit is used only under "+strings.Join(extra, ", ")+": a commit carrying an error would be ignored and a normal-looking lag reported")
		return true
	})
	c.Check(nC == 1, "commit-used-when-present", f.Key+"#lookup", f.Pos(), m, "", "commit lookup for assigned partitions not found")
	// committed-only block skips existing keys first
	okSkip := false
	ast.Inspect(f.Decl.Body, func(x ast.Node) bool {
		rs, ok := x.(*ast.RangeStmt)
		if !ok || exprStr(rs.X) != "ps" || len(rs.Body.List) == 0 {
			return true
		}
		if ifs, ok := rs.Body.List[0].(*ast.IfStmt); ok && ifs.Init != nil && nosp(nodeStr(ifs.Init)) == "_,ok:=lt[p]" && exprStr(ifs.Cond) == "ok" {
			if br, ok := ifs.Body.List[0].(*ast.BranchStmt); ok && br.Tok == token.CONTINUE {
				okSkip = true
			}
		}
		return true
	})
	c.Check(okSkip, "each-partition-once", f.Key+"#committed-only-skips-assigned", f.Pos(), m, "", "the committed-only pass does not skip partitions already reported for a member")
	_ = info
	if d := c.NeedFunc(m, "kadm.CalculateGroupLag"); d != nil {
		okD := false
		if r, ok := d.Decl.Body.List[len(d.Decl.Body.List)-1].(*ast.ReturnStmt); ok && len(r.Results) == 1 {
			if call, ok := r.Results[0].(*ast.CallExpr); ok && exprStr(call.Fun) == "CalculateGroupLagWithStartOffsets" && len(call.Args) == 4 &&
				exprStr(call.Args[0]) == "group" && exprStr(call.Args[1]) == "commit" && exprStr(call.Args[3]) == "endOffsets" {
				okD = true
			}
		}
		c.Check(okD, "each-partition-once", d.Key+"#delegates", d.Pos(), m, "", "CalculateGroupLag does not delegate to CalculateGroupLagWithStartOffsets(group, commit, nil, endOffsets)")
	}
	// totals
	if t := c.NeedFunc(m, "kadm.GroupLag.TotalByTopic"); t != nil {
		tg := t.Graph()
		n := 0
		ast.Inspect(t.Decl.Body, func(x ast.Node) bool {
			as, ok := x.(*ast.AssignStmt)
			if !ok || as.Tok != token.ADD_ASSIGN || !strings.HasSuffix(exprStr(as.Lhs[0]), ".Lag") {
				return true
			}
			n++
			l, _ := tg.LocOf(as)
			pos := factMatches(tg.FactsAt(l), func(ft Fact) bool {
				return ft.Val && (nosp(exprStr(ft.Cond)) == nosp(exprStr(as.Rhs[0]))+">0" || nosp(exprStr(ft.Cond)) == nosp(exprStr(as.Rhs[0]))+">=0")
			})
			c.Check(pos, "totals-exclude-errors", t.Key+": "+nodeStr(as), as.Pos(), m, "only positive lags are added", "a lag is added to the topic total without `> 0` (the -1 error marker would be subtracted)")
			// Necessary condition of "totals equal the sum of the non-negative
			// lags": nothing but the sign of the lag itself decides whether a
			// partition's lag enters the total (seed C35-G: an extra conjunct on
			// Commit.At dropped the valid lag of never-committed partitions).
			var extra []string
			for _, ft := range tg.FactsAt(l) {
				cs := nosp(exprStr(ft.Cond))
				added := nosp(exprStr(as.Rhs[0]))
				if ft.Val && (cs == added+">0" || cs == added+">=0") {
					continue
				}
				extra = append(extra, fmt.Sprintf("%s=%v", cs, ft.Val))
			}
			c.Check(len(extra) == 0, "totals-sum-every-valid-lag", t.Key+": "+nodeStr(as), as.Pos(), m, "the sign of the lag is the only condition on adding it",
				"a partition's lag enters the topic total only under the additional condition(s) "+strings.Join(extra, ", ")+": a valid non-negative lag (e.g. of a partition with no commit) can be left out of TotalByTopic and Total")
			return true
		})
		nEsc := 0
		ast.Inspect(t.Decl.Body, func(x ast.Node) bool {
			switch b := x.(type) {
			case *ast.BranchStmt:
				nEsc++
				c.Fail("totals-sum-every-valid-lag", t.Key+"#"+b.Tok.String(), b.Pos(), m, "`"+b.Tok.String()+"` inside the summing loops skips partitions or topics of the lag map")
			case *ast.ReturnStmt:
				if b != t.Decl.Body.List[len(t.Decl.Body.List)-1] {
					nEsc++
					c.Fail("totals-sum-every-valid-lag", t.Key+"#early-return", b.Pos(), m, "TotalByTopic returns before every topic and partition was summed")
				}
			case *ast.RangeStmt:
				xs := nosp(exprStr(b.X))
				c.Check(xs == "l" || xs == "ps", "totals-sum-every-valid-lag", t.Key+"#range "+xs, b.Pos(), m, "ranges over the whole map", "the summing loop ranges over `"+xs+"`, not over the whole lag map / the topic's whole partition map")
			}
			return true
		})
		if nEsc == 0 {
			c.OK("totals-sum-every-valid-lag", t.Key+"#no-early-exit", t.Pos(), m, "no break/continue/early return in the summing loops")
		}
		c.Check(n == 1, "totals-exclude-errors", t.Key+"#sum", t.Pos(), m, "", "per-topic sum not found")
	}
	if t := c.NeedFunc(m, "kadm.GroupLag.Total"); t != nil {
		okT := false
		ast.Inspect(t.Decl.Body, func(x ast.Node) bool {
			rs, ok := x.(*ast.RangeStmt)
			if !ok || nosp(exprStr(rs.X)) != "l.TotalByTopic()" || rs.Value == nil || len(rs.Body.List) != 1 {
				return true
			}
			if as, ok := rs.Body.List[0].(*ast.AssignStmt); ok && as.Tok == token.ADD_ASSIGN && exprStr(as.Rhs[0]) == exprStr(rs.Value)+".Lag" {
				okT = true
			}
			return true
		})
		c.Check(okT, "totals-exclude-errors", t.Key, t.Pos(), m, "Total = sum of TotalByTopic", "Total is not the sum of TotalByTopic (it can include the -1 error markers)")
	}
}
