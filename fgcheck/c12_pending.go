package main

import (
	"fmt"
	"go/ast"
	"go/token"
	"go/types"
	"strings"
)

// (3) pendingAcks discipline, callback ring, FlushAcks.

func (e *c12env) rulePending() {
	c, m := e.c, e.m
	rule := "pending-count"
	pend := m.Field("kgo", "shareConsumer", "pendingAcks")
	curPend := m.Field("kgo", "shareCursor", "pendingAcks")
	closed := m.Field("kgo", "shareCursor", "closed")
	ring := m.Field("kgo", "shareConsumer", "callbackRing")
	sub := e.need("kgo.shareConsumer.subtractPendingAcks")
	drainCB := e.need("kgo.shareConsumer.drainCallbacks")
	enqCB := e.need("kgo.shareConsumer.enqueueCallback")
	flush := e.need("kgo.Client.FlushAcks")
	if pend == nil || curPend == nil || closed == nil || ring == nil {
		c.Undecided("anchor", "kgo.shareConsumer.pendingAcks / callbackRing, kgo.shareCursor.pendingAcks / closed", token.NoPos, m, "field not found")
		return
	}
	if sub == nil || drainCB == nil || enqCB == nil || flush == nil {
		return
	}

	// --- writers of sc.pendingAcks
	nInc, nDec := 0, 0
	for _, s := range StoreSites(e.funcs, pend) {
		f := s.Fn
		c.Touch(f)
		info := f.Info()
		if s.Kind != "atomic:Add" {
			c.Fail(rule, e.cons(f.Key+"#pendingAcks "+s.Kind), s.Node.Pos(), m, "sc.pendingAcks is written by "+s.Kind+": the counter no longer equals queued-minus-settled acks, FlushAcks returns early or never")
			continue
		}
		call := s.Node.(*ast.CallExpr)
		arg := unparen(call.Args[0])
		if u, ok := arg.(*ast.UnaryExpr); ok && u.Op == token.SUB {
			nDec++
			cons := e.cons(f.Key + "#pendingAcks.Add(-n)")
			g := f.GraphFor(call)
			l, _ := g.LocOf(call)
			pos := false
			if obj := c12obj(info, u.X); obj != nil && e.isParam(f, u.X) {
				for _, ft := range g.FactsAt(l) {
					s := nosp(exprStr(ft.Cond))
					n := obj.Name()
					if (!ft.Val && (s == n+"<=0" || s == n+"<1")) || (ft.Val && (s == n+">0" || s == n+">=1")) {
						pos = true
					}
				}
			}
			c.Check(f.Key == sub.Key && pos, rule, cons, call.Pos(), m, "the only decrement, by a positive parameter", "sc.pendingAcks is decremented outside subtractPendingAcks (or by a value not known to be positive): acks are subtracted before their callback ran, FlushAcks returns early")
			continue
		}
		// increment
		nInc++
		cons := e.cons(f.Key + "#pendingAcks.Add(" + nosp(exprStr(arg)) + ")")
		var probs []string
		// amount
		var amountOf types.Object // nil for the constant 1
		if v, isC := constInt(info, arg); isC {
			if v != 1 {
				probs = append(probs, fmt.Sprintf("increments by the constant %d", v))
			}
		} else if lc, ok := c12strip(info, arg).(*ast.CallExpr); ok && exprStr(lc.Fun) == "len" && len(lc.Args) == 1 && c12obj(info, lc.Args[0]) != nil {
			amountOf = c12obj(info, lc.Args[0])
		} else {
			probs = append(probs, "increments by `"+exprStr(arg)+"`, neither 1 nor the length of the appended entries")
		}
		// same block: the append to cursor.pendingAcks with the same amount, lock held, not closed
		g := f.GraphFor(call)
		l, okL := g.LocOf(call)
		var app *ast.AssignStmt
		if okL {
			for _, nd := range g.C.Blocks[l.B].Nodes {
				as, ok := nd.(*ast.AssignStmt)
				if !ok || len(as.Lhs) != 1 || !sameField(fieldOfSel(info, as.Lhs[0]), curPend) {
					continue
				}
				app = as
			}
		}
		base := ""
		if app == nil {
			probs = append(probs, "no append to cursor.pendingAcks in the same straight-line section: the counter and the queue are not updated together")
		} else {
			base = canonPath(f, unparen(app.Lhs[0]).(*ast.SelectorExpr).X)
			ac, ok := unparen(app.Rhs[0]).(*ast.CallExpr)
			switch {
			case !ok || exprStr(ac.Fun) != "append" || len(ac.Args) != 2 || nosp(exprStr(ac.Args[0])) != nosp(exprStr(app.Lhs[0])):
				probs = append(probs, "cursor.pendingAcks is not extended by append")
			case amountOf == nil && ac.Ellipsis.IsValid():
				probs = append(probs, "a list of entries is appended but the counter grows by 1")
			case amountOf != nil && (!ac.Ellipsis.IsValid() || c12obj(info, ac.Args[1]) != amountOf):
				probs = append(probs, "the counter grows by len("+amountOf.Name()+") but that is not what is appended")
			}
			env := newLockEnv(f, nil, nil)
			for _, nd := range []ast.Node{call, app} {
				held, ok := env.HeldAtNode(nd)
				if !ok || !held.Holds(base+".ackMu", true) {
					probs = append(probs, "`"+nodeStr(nd)+"` runs without "+base+".ackMu (must-lockset "+held.String()+"): a closing drain (drainAcks(true)) can run between the append and the increment, so FlushAcks can observe 0 while an ack is queued")
				}
			}
			// no lock operation between the two statements
			al, _ := g.LocOf(app)
			lo, hi := al.I, l.I
			if lo > hi {
				lo, hi = hi, lo
			}
			for i := lo + 1; i < hi; i++ {
				if containsNode(g.C.Blocks[l.B].Nodes[i], false, func(y ast.Node) bool {
					cc, ok := y.(*ast.CallExpr)
					if !ok {
						return false
					}
					_, _, isLock := lockOp(f, cc)
					return isLock
				}) {
					probs = append(probs, "the lock is released between the append and the increment")
				}
			}
			if !c12factField(f, g.FactsAt(l), closed, base, false) {
				probs = append(probs, "not guarded by the closed test of "+base+": an ack queued on a closed cursor is never drained, its callback never runs and FlushAcks hangs (or the ack is silently lost)")
			}
		}
		c.Check(len(probs) == 0, rule, cons, call.Pos(), m, "under "+base+".ackMu, after the closed test, together with the matching append", strings.Join(probs, "; "))
	}
	c.Floor(rule+"/increments", nInc, 2)
	c.Floor(rule+"/decrements", nDec, 1)

	// --- writers of cursor.pendingAcks
	allowed := map[string]string{
		"kgo.shareAckState.appendAck":      "counted append",
		"kgo.shareConsumer.enqueueAllAcks": "counted append",
		"kgo.cursorAckDrain.requeue":       "re-queue of already counted entries",
		"kgo.shareCursor.drainAcks":        "drain",
	}
	nCur := 0
	for _, s := range StoreSites(e.funcs, curPend) {
		f := s.Fn
		nCur++
		cons := e.cons(f.Key + "#cursor.pendingAcks " + s.Kind)
		why, ok := allowed[f.Key]
		if !ok {
			c.Undecided(rule, cons, s.Node.Pos(), m, "new writer of shareCursor.pendingAcks: the counted-append table must be re-confirmed")
			continue
		}
		sel, _ := unparen(s.LHS).(*ast.SelectorExpr)
		held, okH := newLockEnv(f, nil, nil).HeldAtNode(s.Node)
		lockOK := sel != nil && okH && held.Holds(canonPath(f, sel.X)+".ackMu", true)
		extra := ""
		if f.Key == "kgo.cursorAckDrain.requeue" && sel != nil {
			g := f.GraphFor(s.Node)
			l, _ := g.LocOf(s.Node)
			if !c12factField(f, g.FactsAt(l), closed, canonPath(f, sel.X), false) {
				lockOK = false
				extra = " / not after the closed test"
			}
		}
		c.Check(lockOK, rule, cons, s.Node.Pos(), m, why+", under ackMu", "cursor.pendingAcks is written without the cursor's ackMu"+extra)
	}
	c.Floor(rule+"/cursor-writers", nCur, 4)

	// --- subtractPendingAcks: only from drainCallbacks
	for _, site := range CallSites(e.funcs, sub.Obj) {
		c.Check(site.Fn.Key == drainCB.Key && site.Lit == nil, rule, e.cons(site.Fn.Key+"#calls subtractPendingAcks"), site.Node.Pos(), m, "", "subtractPendingAcks is called outside the callback drainer: the count drops before the ShareAckCallback for these acks ran, so FlushAcks returns before the callbacks of earlier acknowledgements have run")
	}
	// zero crossing wakes the waiters under ackMu
	{
		info := sub.Info()
		g := sub.Graph()
		var bc *ast.CallExpr
		ast.Inspect(sub.Decl.Body, func(x ast.Node) bool {
			if call, ok := x.(*ast.CallExpr); ok && strings.HasSuffix(nosp(exprStr(call.Fun)), ".ackC.Broadcast") {
				bc = call
			}
			return true
		})
		cons := sub.Key + "#zero crossing broadcasts"
		if bc == nil {
			c.Fail(rule, cons, sub.Pos(), m, "no ackC.Broadcast: FlushAcks waiters are never woken")
		} else {
			bl, _ := g.LocOf(bc)
			zero := false
			for _, ft := range g.FactsAt(bl) {
				be, ok := unparen(ft.Cond).(*ast.BinaryExpr)
				if !ok || !ft.Val {
					continue
				}
				v, isC := constInt(info, unparen(be.Y))
				if call, ok := unparen(be.X).(*ast.CallExpr); ok && isC && v == 0 && (be.Op == token.EQL || be.Op == token.LEQ) {
					if sel, ok := call.Fun.(*ast.SelectorExpr); ok && sel.Sel.Name == "Add" && sameField(fieldOfSel(info, sel.X), pend) {
						zero = true
					}
				}
			}
			// Lock+Unlock of ackMu before the broadcast (serialises with the waiter's check-then-wait)
			locked := false
			for _, nd := range g.C.Blocks[bl.B].Nodes[:bl.I] {
				if containsNode(nd, false, func(y ast.Node) bool {
					cc, ok := y.(*ast.CallExpr)
					if !ok {
						return false
					}
					p, op, isLock := lockOp(sub, cc)
					return isLock && op == "Lock" && strings.HasSuffix(p, ".ackMu")
				}) {
					locked = true
				}
			}
			c.Check(zero && locked, rule, cons, bc.Pos(), m, "Broadcast when Add(-n) reaches 0, after passing through ackMu", "the wake-up of FlushAcks waiters is not tied to the counter reaching 0 behind ackMu: a waiter can miss it (FlushAcks hangs) ")
		}
	}

	// --- drainCallbacks: callback, then subtract, for the same entry
	e.checkDrainCallbacks(drainCB, sub, ring)

	// --- the ring: push only in enqueueCallback, dropPeek only in drainCallbacks; drainer started by first push
	nRing := 0
	for _, f := range e.funcs {
		info := f.Info()
		pm := parentMap(f.Decl.Body)
		for _, r := range readsOf(f.Decl.Body, info, ring, true) {
			nRing++
			cons := e.cons(f.Key + "#callbackRing")
			sel, ok := pm[r].(*ast.SelectorExpr)
			call, ok2 := pm[ast.Node(sel)].(*ast.CallExpr)
			if !ok || !ok2 || sel == nil || call.Fun != ast.Expr(sel) {
				c.Undecided(rule, cons, r.Pos(), m, "callbackRing is used other than by a method call")
				continue
			}
			switch sel.Sel.Name {
			case "push":
				c.Check(f.Key == enqCB.Key, rule, cons, call.Pos(), m, "", "callback entries are pushed outside enqueueCallback (no drainer may be started for them)")
			case "dropPeek":
				c.Check(f.Key == drainCB.Key, rule, cons, call.Pos(), m, "", "ring entries are consumed outside drainCallbacks: their pending count is dropped without running the callback and subtracting")
			default:
				c.Undecided(rule, cons, call.Pos(), m, "callbackRing."+sel.Sel.Name+" is not in the confirmed table (push, dropPeek)")
			}
		}
	}
	c.Floor(rule+"/ring-uses", nRing, 2)
	{
		info := enqCB.Info()
		g := enqCB.Graph()
		sites := CallSites(e.funcs, drainCB.Obj)
		for _, site := range sites {
			call := site.Node.(*ast.CallExpr)
			cons := e.cons(site.Fn.Key + "#starts drainCallbacks")
			if site.Fn.Key != enqCB.Key {
				c.Fail(rule, cons, call.Pos(), m, "a second callback drainer is started outside enqueueCallback: two drainers run callbacks concurrently and out of order")
				continue
			}
			_, isGo := parentMap(enqCB.Decl.Body)[call].(*ast.GoStmt)
			l, _ := g.LocOf(call)
			// guarded by the `first` result of the push of the same entry
			first := false
			for _, ft := range g.FactsAt(l) {
				o := c12obj(info, ft.Cond)
				if o == nil || !ft.Val {
					continue
				}
				ast.Inspect(enqCB.Decl.Body, func(x ast.Node) bool {
					as, ok := x.(*ast.AssignStmt)
					if !ok || len(as.Rhs) != 1 || len(as.Lhs) < 1 || c12obj(info, as.Lhs[0]) != o {
						return true
					}
					if pc, ok := unparen(as.Rhs[0]).(*ast.CallExpr); ok {
						if sel, ok := pc.Fun.(*ast.SelectorExpr); ok && sel.Sel.Name == "push" && sameField(fieldOfSel(info, sel.X), ring) &&
							len(pc.Args) == 1 && len(call.Args) == 1 && nosp(exprStr(pc.Args[0])) == nosp(exprStr(call.Args[0])) {
							first = true
						}
					}
					return true
				})
			}
			c.Check(isGo && first, rule, cons, call.Pos(), m, "go drainCallbacks(entry) iff push(entry) made the ring non-empty", "the drainer is not started exactly when the push found the ring empty (or not with the pushed entry): entries are stranded (FlushAcks hangs) or two drainers run")
		}
		c.Floor(rule+"/drainer-starts", len(sites), 1)
	}

	// --- FlushAcks
	e.checkFlush(flush, pend)
}

func (e *c12env) checkDrainCallbacks(f *Func, sub *Func, ring *types.Var) {
	c, m := e.c, e.m
	rule := "pending-count"
	info := f.Info()
	g := f.Graph()
	subs := callsTo(f.Decl.Body, info, sub.Obj, false)
	cons := f.Key + "#callback before subtract"
	if len(subs) != 1 || len(subs[0].Args) != 1 {
		c.Fail(rule, cons, f.Pos(), m, fmt.Sprintf("drainCallbacks calls subtractPendingAcks %d times per entry", len(subs)))
		return
	}
	sc := subs[0]
	// entry variable: subtract(entry.nAcks)
	asel, ok := unparen(sc.Args[0]).(*ast.SelectorExpr)
	if !ok || asel.Sel.Name != "nAcks" || c12obj(info, asel.X) == nil {
		c.Fail(rule, cons, sc.Pos(), m, "subtractPendingAcks is not given the ring entry's nAcks (`"+exprStr(sc.Args[0])+"`)")
		return
	}
	entry := c12obj(info, asel.X)
	// the user callback: a call through a func-typed local/field with entry.results among the args
	isCB := func(n ast.Node) bool {
		return containsNode(n, false, func(y ast.Node) bool {
			call, ok := y.(*ast.CallExpr)
			if !ok {
				return false
			}
			if _, isVar := calleeObj(info, call).(*types.Var); !isVar {
				return false
			}
			for _, a := range call.Args {
				if s, ok := unparen(a).(*ast.SelectorExpr); ok && s.Sel.Name == "results" && c12obj(info, s.X) == entry {
					return true
				}
			}
			return false
		})
	}
	isReassign := func(n ast.Node) bool {
		as, ok := n.(*ast.AssignStmt)
		if !ok {
			return false
		}
		for _, l := range as.Lhs {
			if c12obj(info, l) == entry {
				return true
			}
		}
		return false
	}
	var cbIf *ast.IfStmt
	var cbCall ast.Node
	ast.Inspect(f.Decl.Body, func(x ast.Node) bool {
		if es, ok := x.(*ast.ExprStmt); ok && isCB(es) {
			cbCall = es
			cbIf = c12enclosingStmtIf(f.Decl.Body, es)
		}
		return true
	})
	if cbCall == nil {
		c.Fail(rule, cons, f.Pos(), m, "drainCallbacks does not invoke the ShareAckCallback with the entry's results")
		return
	}
	var probs []string
	sl, _ := g.LocOf(sc)
	// after the subtract, the callback for the same entry must not run
	if p, late := g.FindPath(sl, SearchOpts{Stop: isReassign, GoalNode: isCB}); late {
		probs = append(probs, "the callback for an entry runs after its acks were subtracted ("+pathStr(p)+"): FlushAcks can return before the callback of an earlier acknowledgement has run")
	}
	// when the callback condition holds, the subtract is reached only through the callback
	if cbIf != nil {
		cl, _ := g.LocOf(cbIf.Cond)
		if p, skip := g.FindPath(cl, SearchOpts{
			Stop: func(n ast.Node) bool { return isCB(n) || isReassign(n) },
			GoalNode: func(n ast.Node) bool {
				return containsNode(n, false, func(y ast.Node) bool { return y == ast.Node(sc) })
			},
			EdgeOK: c12onlyEdge(cl.B, 0),
		}); skip {
			probs = append(probs, "with a callback configured and results present the subtract is reachable without calling it ("+pathStr(p)+")")
		}
		for _, part := range c12flatten(cbIf.Cond, token.LAND, nil) {
			s := nosp(exprStr(part))
			if strings.HasSuffix(s, "!=nil") || s == "len("+entry.Name()+".results)>0" || s == "len("+entry.Name()+".results)!=0" {
				continue
			}
			probs = append(probs, "the callback is additionally skipped by `"+exprStr(part)+"`")
		}
	}
	// the subtract is unconditional per entry: every path from entry/reassign to the next reassign or exit passes it
	if p, lost := g.FindPath(Loc{-1, 0}, SearchOpts{
		Stop: func(n ast.Node) bool {
			return containsNode(n, false, func(y ast.Node) bool { return y == ast.Node(sc) })
		},
		GoalNode: isReassign,
		GoalExit: func(ExitKind, ast.Node) bool { return true },
	}); lost {
		probs = append(probs, "an entry can be dropped without subtracting its acks ("+pathStr(p)+"): FlushAcks never returns")
	}
	// next entry comes from dropPeek of the ring
	okNext := false
	ast.Inspect(f.Decl.Body, func(x ast.Node) bool {
		as, ok := x.(*ast.AssignStmt)
		if ok && isReassign(as) && len(as.Rhs) == 1 {
			if pc, ok := unparen(as.Rhs[0]).(*ast.CallExpr); ok {
				if sel, ok := pc.Fun.(*ast.SelectorExpr); ok && sel.Sel.Name == "dropPeek" && sameField(fieldOfSel(info, sel.X), ring) && c12obj(info, as.Lhs[0]) == entry {
					okNext = true
				}
			}
		}
		return true
	})
	if !okNext || !e.isParam(f, asel.X) {
		probs = append(probs, "the entry is not the pushed entry followed by callbackRing.dropPeek()")
	}
	c.Check(len(probs) == 0, rule, cons, sc.Pos(), m, "cb(entry.results) then subtractPendingAcks(entry.nAcks), per ring entry", strings.Join(probs, "; "))
}

// c12onlyEdge restricts the search to successor k when leaving block b.
func c12onlyEdge(b, k int) func(from *cfgBlock, kk int, to *cfgBlock) bool {
	return func(from *cfgBlock, kk int, to *cfgBlock) bool {
		if int(from.Index) == b {
			return kk == k
		}
		return true
	}
}

func (e *c12env) checkFlush(f *Func, pend *types.Var) {
	c, m := e.c, e.m
	rule := "pending-count"
	info := f.Info()
	g := f.Graph()
	cons := f.Key + "#waits for pendingAcks <= 0"
	// the waiter goroutine: a literal that closes a local channel and loops on pendingAcks.Load() > 0
	var waiter *ast.FuncLit
	var loop *ast.ForStmt
	var done types.Object
	ast.Inspect(f.Decl.Body, func(x ast.Node) bool {
		lit, ok := x.(*ast.FuncLit)
		if !ok {
			return true
		}
		ast.Inspect(lit.Body, func(y ast.Node) bool {
			fs, ok := y.(*ast.ForStmt)
			if !ok || fs.Cond == nil {
				return true
			}
			for _, part := range c12flatten(fs.Cond, token.LAND, nil) {
				be, ok := part.(*ast.BinaryExpr)
				if !ok || be.Op != token.GTR {
					continue
				}
				v, isC := constInt(info, unparen(be.Y))
				lc, ok := unparen(be.X).(*ast.CallExpr)
				if !ok || !isC || v != 0 {
					continue
				}
				if sel, ok := lc.Fun.(*ast.SelectorExpr); ok && sel.Sel.Name == "Load" && sameField(fieldOfSel(info, sel.X), pend) {
					waiter, loop = lit, fs
				}
			}
			return true
		})
		return true
	})
	if waiter == nil {
		c.Fail(rule, cons, f.Pos(), m, "FlushAcks has no waiter that loops while sc.pendingAcks.Load() > 0: it returns before the callbacks of earlier acknowledgements have run")
		return
	}
	var probs []string
	// close(done) only in the waiter, deferred
	nClose := 0
	ast.Inspect(f.Decl.Body, func(x ast.Node) bool {
		call, ok := x.(*ast.CallExpr)
		if !ok || exprStr(call.Fun) != "close" || len(call.Args) != 1 {
			return true
		}
		nClose++
		if !c12within(waiter, call) || !isDeferred(f, call) {
			probs = append(probs, "the done channel is closed outside the waiter's deferred close")
		}
		done = c12obj(info, call.Args[0])
		return true
	})
	if nClose != 1 || done == nil {
		probs = append(probs, "expected exactly one close of the done channel")
	}
	// the loop is the only way out of the waiter: no return before/inside, other conjunct only `!quit`
	lg := f.LitGraph(waiter)
	ll, _ := lg.LocOf(loop.Cond)
	for _, b := range lg.C.Blocks {
		if _, isExit := lg.exitOf(int(b.Index)); isExit && !lg.Dominates(ll, Loc{int(b.Index), len(b.Nodes)}) {
			probs = append(probs, "the waiter can finish without evaluating the pendingAcks loop condition")
		}
	}
	if containsNode(loop.Body, false, func(y ast.Node) bool {
		switch s := y.(type) {
		case *ast.BranchStmt:
			return s.Tok == token.BREAK || s.Tok == token.GOTO
		case *ast.ReturnStmt:
			return true
		}
		return false
	}) {
		probs = append(probs, "the wait loop can be left by break/return while acks are pending")
	}
	var quit types.Object
	for _, part := range c12flatten(loop.Cond, token.LAND, nil) {
		if u, ok := part.(*ast.UnaryExpr); ok && u.Op == token.NOT && c12obj(info, u.X) != nil {
			quit = c12obj(info, u.X)
			continue
		}
		if be, ok := part.(*ast.BinaryExpr); ok && be.Op == token.GTR {
			continue
		}
		probs = append(probs, "the wait loop also ends on `"+exprStr(part)+"`")
	}
	// quit is set only on the ctx.Done arm, which returns a non-nil error
	// and `return nil` happens only for sc == nil or in the <-done arm
	for _, nd := range findNodes(f.Decl.Body, false, func(x ast.Node) bool { _, ok := x.(*ast.ReturnStmt); return ok }) {
		ret := nd.(*ast.ReturnStmt)
		if len(ret.Results) != 1 {
			continue
		}
		isNil := exprStr(ret.Results[0]) == "nil"
		cc, inComm := c12enclosing[*ast.CommClause](f.Decl.Body, ret)
		recvDone := false
		if inComm && cc.Comm != nil {
			if es, ok := cc.Comm.(*ast.ExprStmt); ok {
				if u, ok := unparen(es.X).(*ast.UnaryExpr); ok && u.Op == token.ARROW && c12obj(info, u.X) == done {
					recvDone = true
				}
			}
		}
		if isNil && !recvDone {
			rl, _ := g.LocOf(ret)
			scNil := false
			for _, ft := range g.FactsAt(rl) {
				if s := nosp(exprStr(ft.Cond)); ft.Val && strings.HasSuffix(s, "==nil") {
					scNil = true
				}
			}
			if !scNil {
				probs = append(probs, "FlushAcks returns nil on a path that did not receive from the waiter's done channel")
			}
		}
	}
	if quit != nil {
		ast.Inspect(f.Decl.Body, func(x ast.Node) bool {
			as, ok := x.(*ast.AssignStmt)
			if !ok || as.Tok == token.DEFINE {
				return true
			}
			for _, l := range as.Lhs {
				if c12obj(info, l) != quit {
					continue
				}
				cc, inComm := c12enclosing[*ast.CommClause](f.Decl.Body, as)
				okArm := false
				if inComm {
					// the arm must end in a return of a non-nil value
					if n := len(cc.Body); n > 0 {
						if ret, ok := cc.Body[n-1].(*ast.ReturnStmt); ok && len(ret.Results) == 1 && exprStr(ret.Results[0]) != "nil" {
							okArm = true
						}
					}
					if es, ok := cc.Comm.(*ast.ExprStmt); ok {
						if u, ok := unparen(es.X).(*ast.UnaryExpr); ok && u.Op == token.ARROW && c12obj(info, u.X) == done {
							okArm = false
						}
					}
				}
				if !okArm {
					probs = append(probs, "the waiter's quit flag is set on a path that can still return nil")
				}
			}
			return true
		})
	}
	c.Check(len(probs) == 0, rule, cons, f.Pos(), m, "nil only after the waiter left `for !quit && pendingAcks.Load() > 0` with quit unset", strings.Join(probs, "; "))
}
