package main

import (
	"go/ast"
	"go/token"
	"go/types"
)

// Round-4 rules of C09: the client-side commit tracking map
// groupConsumer.uncommitted (topic -> partition -> {dirty, head, committed})
// only ever GROWS outside the revoke / lost / leave paths.
//
// updateCommitted records a successful commit only for partitions that have an
// entry ("just in case" skip), and CommittedOffsets reports exactly the
// entries.  fetchOffsets, updateUncommitted and the Mark* functions run in the
// middle of a live assignment (cooperative / KIP-848 rebalances fetch offsets
// for the ADDED partitions only), so a writer that replaces a topic's map, or
// the whole map, throws away the entries of partitions the member keeps: their
// later successful commits are never reflected by CommittedOffsets.
//
//	(a) g.uncommitted[K] = M : M is the local that was loaded from
//	    g.uncommitted[K] (same key) and the store is under the fact that the
//	    loaded value was nil / absent; between load and test the local is not
//	    reassigned, and every other assignment of the local is a fresh make
//	    under that same fact (so a fresh map reaches the store only when the
//	    lookup found nothing);
//	(b) g.uncommitted = make(...) only under the fact g.uncommitted == nil;
//	    g.uncommitted = nil only in the revoke / leave / abandon functions;
//	(c) entries are deleted (delete on the map or on a per-topic map) only in
//	    revoke.

func c09isUncommittedField(info *types.Info, e ast.Expr, fld *types.Var) bool {
	return sameField(fieldOfSel(info, e), fld)
}

// c09nilFact: does the fact say "the value of obj is nil / absent"?
// Accepted: obj == nil (true), obj != nil (false), len(obj) == 0 (true), and,
// when okObj is the comma-ok result of the load, okObj (false).
func c09nilFact(info *types.Info, ft Fact, obj, okObj types.Object) bool {
	isObj := func(e ast.Expr) bool {
		id, ok := unparen(e).(*ast.Ident)
		return ok && info.Uses[id] == obj
	}
	isNil := func(e ast.Expr) bool {
		id, ok := unparen(e).(*ast.Ident)
		if !ok {
			return false
		}
		_, isN := info.Uses[id].(*types.Nil)
		return isN
	}
	switch x := unparen(ft.Cond).(type) {
	case *ast.Ident:
		return okObj != nil && info.Uses[x] == okObj && !ft.Val
	case *ast.BinaryExpr:
		if x.Op != token.EQL && x.Op != token.NEQ {
			return false
		}
		want := x.Op == token.EQL
		if ft.Val != want {
			return false
		}
		if (isObj(x.X) && isNil(x.Y)) || (isObj(x.Y) && isNil(x.X)) {
			return true
		}
		// len(obj) == 0
		if call, ok := unparen(x.X).(*ast.CallExpr); ok && len(call.Args) == 1 && exprStr(call.Fun) == "len" && isObj(call.Args[0]) {
			if v, isC := constInt(info, x.Y); isC && v == 0 {
				return true
			}
		}
	}
	return false
}

type c09asg struct {
	stmt ast.Node // AssignStmt or ValueSpec's DeclStmt
	rhs  ast.Expr // nil: zero-value declaration
	ok   types.Object
}

// c09assignments lists every assignment of the local obj inside root (not
// descending into nested literals: a local captured and written by a closure
// is reported through the bool).
func c09assignments(fn *Func, root ast.Node, obj types.Object) (out []c09asg, closureWrite bool) {
	info := fn.Info()
	var walk func(n ast.Node, inLit bool)
	walk = func(n ast.Node, inLit bool) {
		ast.Inspect(n, func(x ast.Node) bool {
			switch s := x.(type) {
			case *ast.FuncLit:
				if x != n {
					walk(s.Body, true)
					return false
				}
			case *ast.AssignStmt:
				for i, l := range s.Lhs {
					id, ok := l.(*ast.Ident)
					if !ok || (info.Defs[id] != obj && info.Uses[id] != obj) {
						continue
					}
					if inLit {
						closureWrite = true
						continue
					}
					a := c09asg{stmt: s}
					if len(s.Rhs) == len(s.Lhs) {
						a.rhs = s.Rhs[i]
					} else if len(s.Rhs) == 1 && i == 0 {
						a.rhs = s.Rhs[0]
						if len(s.Lhs) == 2 {
							if oid, ok := s.Lhs[1].(*ast.Ident); ok && oid.Name != "_" {
								a.ok = info.Defs[oid]
								if a.ok == nil {
									a.ok = info.Uses[oid]
								}
							}
						}
					} else {
						a.rhs = s.Rhs[0] // second result of something: unclassifiable
						a.stmt = s
					}
					out = append(out, a)
				}
			case *ast.ValueSpec:
				for i, id := range s.Names {
					if info.Defs[id] != obj {
						continue
					}
					a := c09asg{stmt: s}
					if i < len(s.Values) {
						a.rhs = s.Values[i]
					}
					out = append(out, a)
				}
			case *ast.RangeStmt:
				for _, l := range []ast.Expr{s.Key, s.Value} {
					if id, ok := l.(*ast.Ident); ok && (info.Defs[id] == obj || info.Uses[id] == obj) {
						out = append(out, c09asg{stmt: s, rhs: s.X})
					}
				}
			case *ast.UnaryExpr:
				if s.Op == token.AND {
					if id, ok := unparen(s.X).(*ast.Ident); ok && info.Uses[id] == obj {
						closureWrite = true // address taken: writes cannot be enumerated
					}
				}
			}
			return true
		})
	}
	walk(root, false)
	return out, closureWrite
}

func c09isFreshMap(info *types.Info, e ast.Expr) bool {
	switch x := unparen(e).(type) {
	case *ast.CallExpr:
		if id, ok := unparen(x.Fun).(*ast.Ident); ok && id.Name == "make" {
			_, isB := info.Uses[id].(*types.Builtin)
			return isB
		}
	case *ast.CompositeLit:
		return true
	}
	return false
}

func c09tracking(c *Ctx, m *Module) {
	fld := m.Field("kgo", "groupConsumer", "uncommitted")
	if fld == nil {
		c.Undecided("anchor", "kgo.groupConsumer.uncommitted", 0, m, "field not found")
		return
	}
	funcs := m.FuncsIn("kgo")

	// (a) per-topic stores
	rule := "tracking-map-store-keeps-entries"
	n := 0
	why := "the per-topic commit tracking map is replaced although the topic may already have entries (fetchOffsets / polls / marks run in the middle of a cooperative or KIP-848 assignment, for the added partitions only): the entries of the partitions the member keeps are thrown away, updateCommitted skips partitions without an entry, so their later successful commits are never reported by CommittedOffsets"
	for _, fn := range funcs {
		info := fn.Info()
		for _, nd := range findNodes(fn.Decl.Body, true, func(x ast.Node) bool {
			as, ok := x.(*ast.AssignStmt)
			if !ok {
				return false
			}
			for _, l := range as.Lhs {
				if ix, ok := unparen(l).(*ast.IndexExpr); ok && c09isUncommittedField(info, ix.X, fld) {
					return true
				}
			}
			return false
		}) {
			as := nd.(*ast.AssignStmt)
			n++
			c.Touch(fn)
			cons := fn.Key + ": " + nodeStr(as)
			if len(as.Lhs) != 1 || len(as.Rhs) != 1 || as.Tok != token.ASSIGN {
				c.Undecided(rule, cons, as.Pos(), m, "store into groupConsumer.uncommitted is not a plain single assignment")
				continue
			}
			ix := unparen(as.Lhs[0]).(*ast.IndexExpr)
			id, isID := unparen(as.Rhs[0]).(*ast.Ident)
			if !isID {
				if c09isFreshMap(info, as.Rhs[0]) {
					// allowed only under the fact <base>[K] == nil
					g := fn.GraphFor(as)
					l, okL := g.LocOf(as)
					want := nosp(exprStr(ix))
					under := okL && factMatches(g.FactsAt(l), func(ft Fact) bool {
						be, ok := unparen(ft.Cond).(*ast.BinaryExpr)
						if !ok || (be.Op != token.EQL && be.Op != token.NEQ) || ft.Val != (be.Op == token.EQL) {
							return false
						}
						idn, ok := unparen(be.Y).(*ast.Ident)
						if !ok {
							return false
						}
						_, isN := info.Uses[idn].(*types.Nil)
						return isN && nosp(exprStr(be.X)) == want
					})
					c.Check(under, rule, cons, as.Pos(), m, "a fresh map only where the topic has none", "a fresh map is stored without the `"+want+" == nil` test: "+why)
				} else {
					c.Undecided(rule, cons, as.Pos(), m, "the stored per-topic map `"+exprStr(as.Rhs[0])+"` is not a local variable: cannot relate it to the previous entries")
				}
				continue
			}
			obj := info.Uses[id]
			if v, ok := obj.(*types.Var); !ok || v.IsField() || v.Parent() == nil || v.Parent() == v.Pkg().Scope() {
				c.Undecided(rule, cons, as.Pos(), m, "the stored per-topic map `"+id.Name+"` is not a local variable")
				continue
			}
			var root ast.Node = fn.Decl.Body
			if lit := innermostLit(fn, as); lit != nil {
				root = lit.Body
			}
			if obj.Pos() < root.Pos() || obj.Pos() > root.End() {
				c.Undecided(rule, cons, as.Pos(), m, "the stored local `"+id.Name+"` is declared outside the closure that stores it: its assignments cannot be enumerated")
				continue
			}
			g := fn.GraphFor(as)
			sl, okS := g.LocOf(as)
			if !okS {
				c.Undecided(rule, cons, as.Pos(), m, "store not located in the control-flow graph")
				continue
			}
			asgs, clos := c09assignments(fn, root, obj)
			if clos {
				c.Undecided(rule, cons, as.Pos(), m, "the stored local is written by a closure or has its address taken")
				continue
			}
			key := nosp(exprStr(ix.Index))
			base := nosp(exprStr(ix.X))
			// loads: local = g.uncommitted[K]
			var loads []c09asg
			for _, a := range asgs {
				if a.rhs == nil {
					continue
				}
				if lx, ok := unparen(a.rhs).(*ast.IndexExpr); ok && c09isUncommittedField(info, lx.X, fld) && nosp(exprStr(lx.X)) == base && nosp(exprStr(lx.Index)) == key {
					loads = append(loads, a)
				}
			}
			// find (load, fact) such that: the load dominates the test, the test's
			// fact holds at the store, no other assignment lies between load and test
			good := false
			var goodLoad c09asg
			var goodCond ast.Expr
			facts := g.FactsAt(sl)
			for _, ld := range loads {
				ll, ok := g.LocOf(ld.stmt)
				if !ok {
					continue
				}
				for _, ft := range facts {
					if !c09nilFact(info, ft, obj, ld.ok) {
						continue
					}
					cl, ok := g.LocOf(ft.Cond)
					if !ok || !g.Dominates(ll, cl) {
						continue
					}
					between := false
					for _, o := range asgs {
						if o.stmt == ld.stmt {
							continue
						}
						if _, ok := g.LocOf(o.stmt); !ok {
							continue // zero-value declaration outside the graph nodes
						}
						_, p1 := g.FindPath(ll, SearchOpts{Stop: func(x ast.Node) bool { return c09holds(x, ld.stmt) }, GoalNode: func(x ast.Node) bool { return c09holds(x, o.stmt) }})
						_, p2 := g.FindPath(c09mustLoc(g, o.stmt), SearchOpts{Stop: func(x ast.Node) bool { return c09holds(x, ld.stmt) }, GoalNode: func(x ast.Node) bool { return c09holds(x, ft.Cond) }})
						if p1 && p2 {
							between = true
						}
					}
					if !between {
						good, goodLoad, goodCond = true, ld, ft.Cond
					}
				}
			}
			if !good {
				c.Fail(rule, cons, as.Pos(), m, "the stored map `"+id.Name+"` is not the value looked up from "+exprStr(ix.X)+"["+exprStr(ix.Index)+"] tested to be nil/absent at this store: "+why)
				continue
			}
			// every other assignment of the local: zero declaration, another load of
			// the same key, nil, or a fresh map under the same nil fact
			bad := ""
			gcl, _ := g.LocOf(goodCond)
			for _, o := range asgs {
				if o.stmt == goodLoad.stmt || o.rhs == nil {
					continue
				}
				isLoad := false
				for _, ld := range loads {
					if ld.stmt == o.stmt {
						isLoad = true
					}
				}
				if isLoad {
					continue
				}
				if idn, ok := unparen(o.rhs).(*ast.Ident); ok {
					if _, isN := info.Uses[idn].(*types.Nil); isN {
						continue
					}
				}
				ol, okO := g.LocOf(o.stmt)
				if c09isFreshMap(info, o.rhs) && okO && g.Dominates(gcl, ol) && factMatches(g.FactsAt(ol), func(ft Fact) bool { return ft.Cond == goodCond && c09nilFact(info, ft, obj, goodLoad.ok) }) && g.Dominates(ol, sl) {
					continue
				}
				bad = nodeStr(o.stmt)
			}
			c.Check(bad == "", rule, cons, as.Pos(), m, "the looked-up per-topic map is kept; a fresh one is stored only when the lookup found nothing",
				"the local `"+id.Name+"` is also assigned by `"+bad+"` outside the lookup-found-nothing arm: "+why)
		}
	}
	c.Floor(rule, n, 4)

	// (b) whole-map stores
	rule2 := "tracking-map-reset-only-on-revoke"
	nilOK := map[string]bool{
		"kgo.groupConsumer.revoke":                    true,
		"kgo.groupConsumer.abandonAssignment":         true,
		"kgo.groupConsumer.manageFailWait":            true,
		"kgo.groupConsumer.setupAssignedAndHeartbeat": true,
	}
	k := 0
	for _, st := range StoreSites(funcs, fld) {
		k++
		c.Touch(st.Fn)
		info := st.Fn.Info()
		cons := st.Fn.Key + ": " + nodeStr(st.Node)
		if st.Kind == "complit" {
			c.Fail(rule2, cons, st.Node.Pos(), m, "groupConsumer literal initialises uncommitted")
			continue
		}
		if st.Kind != "assign" || st.RHS == nil {
			c.Fail(rule2, cons, st.Node.Pos(), m, "groupConsumer.uncommitted is modified by `"+st.Kind+"`")
			continue
		}
		if idn, ok := unparen(st.RHS).(*ast.Ident); ok {
			if _, isN := info.Uses[idn].(*types.Nil); isN {
				c.Check(nilOK[st.Fn.Key], rule2, cons, st.Node.Pos(), m, "cleared when the assignment is revoked / abandoned / the group is left",
					"the commit tracking map is cleared outside the revoke / leave / abandon functions: CommittedOffsets forgets every partition although the member still owns them and their last successful commits stand")
				continue
			}
		}
		if c09isFreshMap(info, st.RHS) {
			g := st.Fn.GraphFor(st.Node)
			l, okL := g.LocOf(st.Node)
			base := nosp(exprStr(st.LHS))
			under := okL && factMatches(g.FactsAt(l), func(ft Fact) bool {
				be, ok := unparen(ft.Cond).(*ast.BinaryExpr)
				if !ok || (be.Op != token.EQL && be.Op != token.NEQ) || ft.Val != (be.Op == token.EQL) {
					return false
				}
				idn, ok := unparen(be.Y).(*ast.Ident)
				if !ok {
					return false
				}
				_, isN := info.Uses[idn].(*types.Nil)
				return isN && c09isUncommittedField(info, be.X, fld) && nosp(exprStr(be.X)) == base
			})
			c.Check(under, rule2, cons, st.Node.Pos(), m, "created only when absent",
				"the whole commit tracking map is replaced by a fresh one without the `"+base+" == nil` test: every tracked partition's committed/head/dirty offsets are dropped in the middle of an assignment, so later successful commits of retained partitions are not reported by CommittedOffsets")
			continue
		}
		c.Fail(rule2, cons, st.Node.Pos(), m, "groupConsumer.uncommitted is stored `"+exprStr(st.RHS)+"`: neither nil (revoke paths) nor a fresh map under `== nil`")
	}
	c.Floor(rule2, k, 9)

	// (c) deletions only in revoke
	rule3 := "tracking-entries-deleted-only-on-revoke"
	isTracking := func(t types.Type) bool {
		if t == nil {
			return false
		}
		if types.Identical(t, fld.Type()) {
			return true
		}
		if mp, ok := t.Underlying().(*types.Map); ok {
			if fm, ok := fld.Type().Underlying().(*types.Map); ok && types.Identical(mp, fm.Elem().Underlying()) {
				return true
			}
		}
		return false
	}
	d := 0
	for _, fn := range funcs {
		info := fn.Info()
		for _, nd := range findNodes(fn.Decl.Body, true, func(x ast.Node) bool {
			call, ok := x.(*ast.CallExpr)
			if !ok || len(call.Args) < 1 {
				return false
			}
			id, ok := unparen(call.Fun).(*ast.Ident)
			if !ok {
				return false
			}
			b, isB := info.Uses[id].(*types.Builtin)
			if !isB || (b.Name() != "delete" && b.Name() != "clear") {
				return false
			}
			return isTracking(info.TypeOf(call.Args[0]))
		}) {
			call := nd.(*ast.CallExpr)
			d++
			c.Check(fn.Key == "kgo.groupConsumer.revoke", rule3, fn.Key+": "+exprStr(call), call.Pos(), m, "entries of lost partitions are removed after the revoke",
				"entries of the commit tracking map are deleted outside revoke: a partition the member still owns loses its committed/head/dirty entry, updateCommitted then skips it and CommittedOffsets no longer equals the last successful commit")
		}
	}
	c.Floor(rule3, d, 2)
}

func c09mustLoc(g *Graph, n ast.Node) Loc {
	l, _ := g.LocOf(n)
	return l
}

// c09holds: node x is, or contains, node y.
func c09holds(x, y ast.Node) bool {
	if x == y {
		return true
	}
	return containsNode(x, false, func(z ast.Node) bool { return z == y })
}
