package main

import (
	"fmt"
	"go/ast"
	"go/constant"
	"go/token"
	"go/types"
	"regexp"
	"sort"
	"strings"
)

// Bounds prover: for one function body, proves that index and slice
// expressions (and listed length-requiring calls) are within bounds from the
// branch facts that edge-dominate them, definitions of single-assignment
// variables, range-loop facts, type ranges and callee summaries.
//
// Constraints are difference bounds  X - Y >= c  over canonical terms
// (len(expr), variables/field paths, opaque pure expressions; "" is zero).
// Integer overflow of Go's 64-bit int is not modelled (stated assumption).

type lin struct {
	term string
	off  int64
	ok   bool
}

type dbc struct { // x - y >= c
	x, y string
	c    int64
	why  string
}

type boundsCtx struct {
	f       *Func
	g       *Graph
	info    *types.Info
	body    *ast.BlockStmt
	sum     map[string]calleeSummary
	roots   map[string][]ast.Node // canonical var term -> nodes that modify it
	defs    map[types.Object][]ast.Node
	entry   []dbc       // constraints holding at every call of this closure (inherited)
	sums2   [][3]string // t == a + b definitions valid at the current use
	parents map[ast.Node]ast.Node
	depth   int
	full    *boundsCtx // context of the enclosing function body (for captured variables)
	minSz   func(recv types.Type) (int64, bool)
}

// calleeSummary gives facts about results of a call `a, b := F(args)`.
// It yields constraints given the result variable terms and arg terms.
type calleeSummary func(res []string, args []string) []dbc

func pureExpr(e ast.Expr) bool {
	return !containsNode(e, true, func(x ast.Node) bool {
		switch c := x.(type) {
		case *ast.CallExpr:
			if id, ok := unparen(c.Fun).(*ast.Ident); ok {
				switch id.Name {
				case "len", "cap", "int", "int8", "int16", "int32", "int64", "uint", "uint8", "uint16", "uint32", "uint64", "byte":
					return false
				}
			}
			return true
		case *ast.FuncLit:
			return true
		case *ast.UnaryExpr:
			return c.Op == token.ARROW
		}
		return false
	})
}

func intRange(t types.Type) (lo, hi int64, signed, ok bool) {
	b, isB := t.Underlying().(*types.Basic)
	if !isB {
		return 0, 0, false, false
	}
	switch b.Kind() {
	case types.Int8:
		return -128, 127, true, true
	case types.Int16:
		return -32768, 32767, true, true
	case types.Int32:
		return -1 << 31, 1<<31 - 1, true, true
	case types.Int64, types.Int:
		return -1 << 63, 1<<63 - 1, true, true
	case types.Uint8:
		return 0, 255, false, true
	case types.Uint16:
		return 0, 65535, false, true
	case types.Uint32:
		return 0, 1<<32 - 1, false, true
	case types.Uint64, types.Uint, types.Uintptr:
		return 0, 1<<63 - 1, false, true // upper bound clipped; only lo is used for 64-bit
	case types.UntypedInt:
		return -1 << 63, 1<<63 - 1, true, true
	}
	return 0, 0, false, false
}

// valuePreserving reports whether converting from -> to keeps the numeric value.
func valuePreserving(from, to types.Type) bool {
	fl, fh, _, ok1 := intRange(from)
	tl, th, _, ok2 := intRange(to)
	if !ok1 || !ok2 {
		return false
	}
	fb := from.Underlying().(*types.Basic)
	if fb.Kind() == types.Uint64 || fb.Kind() == types.Uint || fb.Kind() == types.Uintptr {
		tb := to.Underlying().(*types.Basic)
		return tb.Kind() == types.Uint64 || tb.Kind() == types.Uint || tb.Kind() == types.Uintptr
	}
	return fl >= tl && fh <= th
}

// linOf canonicalises an integer expression.
func (bc *boundsCtx) linOf(e ast.Expr) lin {
	e = unparen(e)
	if v, ok := constInt(bc.info, e); ok {
		return lin{"", v, true}
	}
	switch x := e.(type) {
	case *ast.CallExpr:
		if len(x.Args) == 1 {
			if tv, ok := bc.info.Types[x.Fun]; ok && tv.IsType() {
				at := bc.info.Types[x.Args[0]].Type
				if at != nil && valuePreserving(at, tv.Type) {
					return bc.linOf(x.Args[0])
				}
				if !pureExpr(x.Args[0]) {
					return lin{}
				}
				return lin{tstr(bc.info, e), 0, true}
			}
			if id, ok := unparen(x.Fun).(*ast.Ident); ok && (id.Name == "len" || id.Name == "cap") {
				if _, isB := bc.info.Uses[id].(*types.Builtin); isB {
					if !pureExpr(x.Args[0]) {
						return lin{}
					}
					// len of array type is constant (handled by constInt); strings/slices:
					return lin{id.Name + "(" + tstr(bc.info, x.Args[0]) + ")", 0, true}
				}
			}
		}
		return lin{}
	case *ast.BinaryExpr:
		if x.Op == token.ADD || x.Op == token.SUB {
			a, b := bc.linOf(x.X), bc.linOf(x.Y)
			if a.ok && b.ok {
				if b.term == "" {
					if x.Op == token.ADD {
						return lin{a.term, a.off + b.off, true}
					}
					return lin{a.term, a.off - b.off, true}
				}
				if a.term == "" && x.Op == token.ADD {
					return lin{b.term, a.off + b.off, true}
				}
			}
		}
		if !pureExpr(e) {
			return lin{}
		}
		return lin{tstr(bc.info, e), 0, true}
	case *ast.Ident, *ast.SelectorExpr, *ast.IndexExpr, *ast.StarExpr:
		if !pureExpr(e) {
			return lin{}
		}
		return lin{tstr(bc.info, e), 0, true}
	}
	if !pureExpr(e) {
		return lin{}
	}
	return lin{tstr(bc.info, e), 0, true}
}

// typeBounds returns constraints implied by the static type/shape of e for term t.
func (bc *boundsCtx) shapeBounds(e ast.Expr, out []dbc) []dbc {
	e = unparen(e)
	l := bc.linOf(e)
	if !l.ok || l.term == "" {
		return out
	}
	// l.term + off == value(e); derive bounds for the term from the
	// innermost expression that produced the term.
	var inner ast.Expr = e
	for {
		inner = unparen(inner)
		if b, ok := inner.(*ast.BinaryExpr); ok && (b.Op == token.ADD || b.Op == token.SUB) {
			a, bb := bc.linOf(b.X), bc.linOf(b.Y)
			if a.ok && bb.ok && bb.term == "" {
				inner = b.X
				continue
			}
			if a.ok && bb.ok && a.term == "" && b.Op == token.ADD {
				inner = b.Y
				continue
			}
		}
		if c, ok := inner.(*ast.CallExpr); ok && len(c.Args) == 1 {
			if tv, ok := bc.info.Types[c.Fun]; ok && tv.IsType() {
				at := bc.info.Types[c.Args[0]].Type
				if at != nil && valuePreserving(at, tv.Type) {
					inner = c.Args[0]
					continue
				}
			}
		}
		break
	}
	t := l.term
	if strings.HasPrefix(t, "len(") || strings.HasPrefix(t, "cap(") {
		out = append(out, dbc{t, "", 0, "len>=0"})
		return out
	}
	if tv, ok := bc.info.Types[inner]; ok && tv.Type != nil {
		lo, hi, signed, ok := intRange(tv.Type)
		if ok {
			if !signed {
				out = append(out, dbc{t, "", 0, "unsigned"})
			}
			if hi < 1<<62 {
				out = append(out, dbc{"", t, -hi, "type max"})
			}
			if signed && lo > -1<<62 {
				out = append(out, dbc{t, "", lo, "type min"})
			}
		}
	}
	// x & const mask
	if b, ok := inner.(*ast.BinaryExpr); ok && b.Op == token.AND {
		for _, side := range []ast.Expr{b.X, b.Y} {
			if m, ok := constInt(bc.info, side); ok && m >= 0 {
				out = append(out, dbc{t, "", 0, "mask"}, dbc{"", t, -m, "mask"})
			}
		}
	}
	return out
}

// relOf converts a comparison fact into constraints.
func (bc *boundsCtx) relOf(f Fact, out []dbc) []dbc {
	if f.Tag != nil {
		if f.Val {
			a, b := bc.linOf(f.Tag), bc.linOf(f.Cond)
			if a.ok && b.ok {
				out = append(out, dbc{a.term, b.term, b.off - a.off, "switch =="}, dbc{b.term, a.term, a.off - b.off, "switch =="})
			}
		}
		return out
	}
	b, ok := unparen(f.Cond).(*ast.BinaryExpr)
	if !ok {
		return out
	}
	op := b.Op
	if !f.Val {
		switch op {
		case token.LSS:
			op = token.GEQ
		case token.LEQ:
			op = token.GTR
		case token.GTR:
			op = token.LEQ
		case token.GEQ:
			op = token.LSS
		case token.EQL:
			op = token.NEQ
		case token.NEQ:
			op = token.EQL
		default:
			return out
		}
	}
	A, B := bc.linOf(b.X), bc.linOf(b.Y)
	if !A.ok || !B.ok {
		return out
	}
	why := exprStr(f.Cond)
	if !f.Val {
		why = "!(" + why + ")"
	}
	// A.term + A.off  op  B.term + B.off
	switch op {
	case token.LSS: // B - A >= 1
		out = append(out, dbc{B.term, A.term, A.off - B.off + 1, why})
	case token.LEQ:
		out = append(out, dbc{B.term, A.term, A.off - B.off, why})
	case token.GTR:
		out = append(out, dbc{A.term, B.term, B.off - A.off + 1, why})
	case token.GEQ:
		out = append(out, dbc{A.term, B.term, B.off - A.off, why})
	case token.EQL:
		out = append(out, dbc{A.term, B.term, B.off - A.off, why}, dbc{B.term, A.term, A.off - B.off, why})
	case token.NEQ:
		out = append(out, dbc{A.term, B.term, B.off - A.off, "NEQ:" + why})
	}
	out = bc.shapeBounds(b.X, out)
	out = bc.shapeBounds(b.Y, out)
	return out
}

// solve computes the strongest derivable lower bound for x - y.
type dbSolver struct {
	idx  map[string]int
	w    [][]int64
	has  [][]bool
	neqs []dbc
}

func newSolver(cs []dbc) *dbSolver {
	s := &dbSolver{idx: map[string]int{"": 0}}
	var names []string
	for _, c := range cs {
		for _, t := range []string{c.x, c.y} {
			if _, ok := s.idx[t]; !ok {
				s.idx[t] = len(s.idx)
				names = append(names, t)
			}
		}
	}
	n := len(s.idx)
	s.w = make([][]int64, n)
	s.has = make([][]bool, n)
	for i := range s.w {
		s.w[i] = make([]int64, n)
		s.has[i] = make([]bool, n)
		s.has[i][i] = true
	}
	add := func(x, y string, c int64) {
		i, j := s.idx[y], s.idx[x] // edge y -> x weight c : x >= y + c
		if !s.has[i][j] || s.w[i][j] < c {
			s.has[i][j] = true
			s.w[i][j] = c
		}
	}
	for _, c := range cs {
		if strings.HasPrefix(c.why, "NEQ:") {
			s.neqs = append(s.neqs, c)
			continue
		}
		add(c.x, c.y, c.c)
	}
	s.close()
	// a != b + c  and a >= b + c  =>  a >= b + c + 1 (two rounds)
	for round := 0; round < 3; round++ {
		changed := false
		for _, q := range s.neqs {
			if lb, ok := s.lower(q.x, q.y); ok && lb == q.c {
				add(q.x, q.y, q.c+1)
				changed = true
			}
		}
		if !changed {
			break
		}
		s.close()
	}
	return s
}

func (s *dbSolver) close() {
	n := len(s.w)
	const capv = int64(1) << 40
	for k := 0; k < n; k++ {
		for i := 0; i < n; i++ {
			if !s.has[i][k] {
				continue
			}
			for j := 0; j < n; j++ {
				if !s.has[k][j] {
					continue
				}
				v := s.w[i][k] + s.w[k][j]
				if v > capv {
					v = capv
				}
				if v < -capv {
					v = -capv
				}
				if !s.has[i][j] || s.w[i][j] < v {
					s.has[i][j] = true
					s.w[i][j] = v
				}
			}
		}
	}
}

// lower returns the best known c with x - y >= c.
func (s *dbSolver) lower(x, y string) (int64, bool) {
	i, ok1 := s.idx[y]
	j, ok2 := s.idx[x]
	if x == y {
		return 0, true
	}
	if !ok1 || !ok2 || !s.has[i][j] {
		return 0, false
	}
	return s.w[i][j], true
}

func (s *dbSolver) proves(x, y string, c int64) bool {
	lb, ok := s.lower(x, y)
	return ok && lb >= c
}

// --- fact validity (no intervening modification) ---

// termRoots extracts the assignable roots (identifier / selector paths) a term mentions.
func rootsOfExprI(info *types.Info, e ast.Expr, out map[string]bool) {
	ast.Inspect(e, func(x ast.Node) bool {
		switch v := x.(type) {
		case *ast.SelectorExpr:
			out[tstr(info, v)] = true
			// also the base: a store to the base invalidates
			rootsOfExprI(info, v.X, out)
			return false
		case *ast.Ident:
			out[tstr(info, v)] = true
		}
		return true
	})
}

// tstr renders an expression as a canonical term string in which local
// variables carry their declaration position, so that shadowed variables of
// the same name are different terms.
func tstr(info *types.Info, e ast.Expr) string {
	switch x := e.(type) {
	case *ast.Ident:
		obj := info.Uses[x]
		if obj == nil {
			obj = info.Defs[x]
		}
		if v, ok := obj.(*types.Var); ok && !v.IsField() && v.Pkg() != nil && v.Parent() != v.Pkg().Scope() {
			return fmt.Sprintf("%s#%d", x.Name, v.Pos())
		}
		return x.Name
	case *ast.ParenExpr:
		return "(" + tstr(info, x.X) + ")"
	case *ast.SelectorExpr:
		return tstr(info, x.X) + "." + x.Sel.Name
	case *ast.StarExpr:
		return "*" + tstr(info, x.X)
	case *ast.IndexExpr:
		return tstr(info, x.X) + "[" + tstr(info, x.Index) + "]"
	case *ast.SliceExpr:
		s := tstr(info, x.X) + "["
		if x.Low != nil {
			s += tstr(info, x.Low)
		}
		s += ":"
		if x.High != nil {
			s += tstr(info, x.High)
		}
		if x.Max != nil {
			s += ":" + tstr(info, x.Max)
		}
		return s + "]"
	case *ast.CallExpr:
		var args []string
		for _, a := range x.Args {
			args = append(args, tstr(info, a))
		}
		return tstr(info, x.Fun) + "(" + strings.Join(args, ", ") + ")"
	case *ast.BinaryExpr:
		return tstr(info, x.X) + " " + x.Op.String() + " " + tstr(info, x.Y)
	case *ast.UnaryExpr:
		return x.Op.String() + tstr(info, x.X)
	case *ast.BasicLit:
		return x.Value
	}
	return types.ExprString(e)
}

// modifiers returns nodes in the body that may modify the assignable path.
func (bc *boundsCtx) modifiersOf(path string) []ast.Node {
	if bc.roots == nil {
		bc.roots = map[string][]ast.Node{}
		add := func(lhs ast.Expr, n ast.Node) {
			lhs = unparen(lhs)
			switch v := lhs.(type) {
			case *ast.Ident, *ast.SelectorExpr:
				bc.roots[tstr(bc.info, v)] = append(bc.roots[tstr(bc.info, v)], n)
			case *ast.IndexExpr, *ast.StarExpr:
				// element stores do not change len/identity of the path
			}
		}
		ast.Inspect(bc.body, func(x ast.Node) bool {
			switch s := x.(type) {
			case *ast.AssignStmt:
				for _, l := range s.Lhs {
					add(l, s)
				}
			case *ast.IncDecStmt:
				add(s.X, s)
			case *ast.RangeStmt:
				if s.Key != nil {
					add(s.Key, s)
				}
				if s.Value != nil {
					add(s.Value, s)
				}
			case *ast.UnaryExpr:
				if s.Op == token.AND {
					add(s.X, s) // address taken: treat as possible modification point
				}
			case *ast.ValueSpec:
				for _, n := range s.Names {
					bc.roots[tstr(bc.info, n)] = append(bc.roots[tstr(bc.info, n)], s)
				}
			}
			return true
		})
	}
	return bc.roots[path]
}

// reachAvoidingEdge: blocks reachable from block `start` without traversing edge (ef->et).
func (g *Graph) reachFromAvoiding(start int, ef, et int) []bool {
	n := len(g.C.Blocks)
	seen := make([]bool, n)
	stack := []int{start}
	// note: start itself is only "re-entered" if reachable via a cycle
	first := true
	for len(stack) > 0 {
		b := stack[len(stack)-1]
		stack = stack[:len(stack)-1]
		if !first {
			if seen[b] {
				continue
			}
			seen[b] = true
		}
		first = false
		for _, s := range g.succs[b] {
			if b == ef && s == et {
				continue
			}
			if !seen[s] {
				stack = append(stack, s)
			}
		}
	}
	return seen
}

// modifiedBetween reports whether some modifier node of any root lies on a
// path from the start of block `from` to location `use` that does not
// re-traverse the edge (ef->from).
func (bc *boundsCtx) modifiedBetween(ef, from int, use Loc, roots map[string]bool, useNode ast.Node) (ast.Node, bool) {
	ms := bc.modifiersBetween(ef, from, use, roots, useNode)
	if len(ms) == 0 {
		return nil, false
	}
	return ms[0], true
}

// modLoc locates a modifier node: directly, or - when it sits inside a
// nested function literal - at the statement that runs the literal: never
// (kind 1) for deferred literals, which run after every use in the body, the
// enclosing call for literals passed as call arguments (assumed to be invoked
// synchronously by the callee), unknown (kind 2) otherwise.
func (bc *boundsCtx) modLoc(mnode ast.Node) (Loc, int) {
	if l, ok := bc.g.LocOf(mnode); ok {
		return l, 0
	}
	if bc.parents == nil {
		bc.parents = parentMap(bc.body)
	}
	// outermost literal within the body containing mnode
	var lit *ast.FuncLit
	for n := ast.Node(mnode); n != nil; n = bc.parents[n] {
		if l, ok := n.(*ast.FuncLit); ok {
			lit = l
		}
	}
	if lit == nil {
		return Loc{}, 2
	}
	par := bc.parents[lit]
	if call, ok := par.(*ast.CallExpr); ok {
		if call.Fun == ast.Expr(lit) {
			switch bc.parents[call].(type) {
			case *ast.DeferStmt:
				return Loc{}, 1
			}
		}
		for _, a := range call.Args {
			if a == ast.Expr(lit) {
				if _, isGo := bc.parents[call].(*ast.GoStmt); isGo {
					return Loc{}, 2
				}
				if l, ok := bc.g.LocOf(call); ok {
					return l, 0
				}
			}
		}
		if call.Fun == ast.Expr(lit) {
			if _, isGo := bc.parents[call].(*ast.GoStmt); !isGo {
				if l, ok := bc.g.LocOf(call); ok {
					return l, 0
				}
			}
		}
	}
	return Loc{}, 2
}

// modifiersBetween lists the modifier nodes of the roots that can execute
// between the traversal of edge (ef->from) and the use.
func (bc *boundsCtx) modifiersBetween(ef, from int, use Loc, roots map[string]bool, useNode ast.Node) []ast.Node {
	g := bc.g
	var out []ast.Node
	reachFrom := g.reachFromAvoiding(from, ef, from) // blocks re-entered after leaving `from`
	for r := range roots {
		for _, mnode := range bc.modifiersOf(r) {
			if mnode == useNode {
				continue
			}
			ml, kind := bc.modLoc(mnode)
			if kind == 1 {
				continue
			}
			if kind == 2 {
				out = append(out, mnode)
				continue
			}
			after := ml.B == from || reachFrom[ml.B]
			if !after {
				continue
			}
			if ml.B == use.B && ml.I < use.I {
				out = append(out, mnode)
				continue
			}
			r2 := g.reachFromAvoiding(ml.B, ef, from)
			if r2[use.B] {
				out = append(out, mnode)
			}
		}
	}
	return out
}

// preservedBy reports whether the single-variable bound c (x - y >= k with
// one side the zero term) still holds after the modifier executes: the
// modifier must be a plain assignment of a value for which the same bound is
// provable at the modifier's own location.
func (bc *boundsCtx) preservedBy(c dbc, mnode ast.Node, depth int) bool {
	if depth > 2 {
		return false
	}
	as, ok := mnode.(*ast.AssignStmt)
	if !ok || (as.Tok != token.ASSIGN && as.Tok != token.DEFINE) || len(as.Lhs) != len(as.Rhs) {
		return false
	}
	v := c.x
	if v == "" {
		v = c.y
	}
	ml, ok := bc.g.LocOf(as)
	if !ok {
		return false
	}
	for i, l := range as.Lhs {
		lt := bc.linOf(l)
		if !lt.ok || lt.term != v || lt.off != 0 {
			continue
		}
		r := bc.linOf(as.Rhs[i])
		if !r.ok || !pureExpr(as.Rhs[i]) {
			return false
		}
		bc.depth = depth + 1
		cs := bc.constraintsAt(ml, as)
		cs = bc.defConstraints(ml, as, cs)
		cs = bc.shapeBounds(as.Rhs[i], cs)
		bc.depth = depth
		terms := map[string]bool{r.term: true}
		for _, q := range cs {
			terms[q.x] = true
			terms[q.y] = true
		}
		cs = bc.termFacts(terms, cs)
		cs = bc.applySums(cs)
		sv := newSolver(cs)
		if c.y == "" { // v >= k  -> need r.term + r.off >= k
			return sv.proves(r.term, "", c.c-r.off)
		}
		// -v >= k  -> need -(r.term + r.off) >= k
		return sv.proves("", r.term, c.c+r.off)
	}
	return false
}

// factsFor gathers valid constraints at location use.
func (bc *boundsCtx) constraintsAt(use Loc, useNode ast.Node) []dbc {
	g := bc.g
	var out []dbc
	// facts inherited from the call site(s) of this closure
	for _, e := range bc.entry {
		roots := map[string]bool{}
		for _, t := range []string{e.x, e.y} {
			rootsOfTerm(t, roots)
		}
		if bc.modifiedBeforeInBody(use, roots, useNode) {
			continue
		}
		out = append(out, e)
	}
	// tag-switch clause reached directly or through fallthrough: the tag equals one of the case constants
	out = bc.switchClauseFacts(use, useNode, out)
	// short-circuit facts inside the CFG node that contains the use:
	// in `A || B` B is evaluated only when A is false, in `A && B` only when true.
	if use.B < len(g.C.Blocks) && use.I < len(g.C.Blocks[use.B].Nodes) {
		for _, f := range shortCircuitFacts(g.C.Blocks[use.B].Nodes[use.I], useNode) {
			if pureExpr(f.Cond) {
				out = bc.relOf(f, out)
			}
		}
	}
	for _, b := range g.C.Blocks {
		if !g.live[b.Index] {
			continue
		}
		cond, tag, ok := g.condOf(b)
		if !ok {
			continue
		}
		for k, s := range b.Succs {
			if !g.EdgeDominates(int(b.Index), int(s.Index), use.B) {
				continue
			}
			var facts []Fact
			if tag != nil {
				facts = []Fact{{Cond: cond, Val: k == 0, Tag: tag}}
			} else {
				facts = decompose(cond, k == 0, nil)
			}
			for _, f := range facts {
				roots := map[string]bool{}
				rootsOfExprI(bc.info, f.Cond, roots)
				if f.Tag != nil {
					rootsOfExprI(bc.info, f.Tag, roots)
				}
				if !pureExpr(f.Cond) {
					// conditions with calls: only len/cap/conversions are pure; others skipped
					continue
				}
				if ms := bc.modifiersBetween(int(b.Index), int(s.Index), use, roots, useNode); len(ms) > 0 {
					// keep single-variable bounds that every intervening assignment preserves
					if bc.depth < 2 {
						for _, c := range bc.relOf(f, nil) {
							if (c.x == "") == (c.y == "") || strings.HasPrefix(c.why, "NEQ:") {
								continue
							}
							v := c.x
							if v == "" {
								v = c.y
							}
							if strings.ContainsAny(v, "(.[ +-*") {
								continue
							}
							all := true
							for _, mn := range ms {
								if !bc.preservedBy(c, mn, bc.depth) {
									all = false
									break
								}
							}
							if all {
								c.why += " (preserved by later assignments)"
								out = append(out, c)
							}
						}
					}
					continue
				}
				out = bc.relOf(f, out)
				out = bc.readFromFact(f, use, useNode, out)
			}
		}
		// range loops: for i := range X  => in body 0 <= i < len(X)
	}
	for _, b := range g.C.Blocks {
		if !g.live[b.Index] || len(b.Succs) != 2 {
			continue
		}
		rs, ok := b.Stmt.(*ast.RangeStmt)
		if !ok || b.Succs[0].Stmt != ast.Stmt(rs) {
			continue
		}
		body := b.Succs[0]
		if !g.EdgeDominates(int(b.Index), int(body.Index), use.B) {
			continue
		}
		if rs.Key == nil {
			continue
		}
		xt := bc.info.Types[rs.X].Type
		if xt == nil {
			continue
		}
		switch xt.Underlying().(type) {
		case *types.Slice, *types.Array, *types.Basic, *types.Pointer:
		default:
			continue
		}
		if bt, isB := xt.Underlying().(*types.Basic); isB && bt.Info()&types.IsString == 0 {
			// range over int: 0 <= i < n
			n := bc.linOf(rs.X)
			k := bc.linOf(rs.Key)
			if n.ok && k.ok && bt.Info()&types.IsInteger != 0 {
				roots := map[string]bool{}
				rootsOfExprI(bc.info, rs.X, roots)
				if _, bad := bc.modifiedBetween(int(b.Index), int(body.Index), use, roots, useNode); !bad {
					out = append(out, dbc{k.term, "", -k.off, "range int"}, dbc{n.term, k.term, k.off - n.off + 1, "range int"})
				}
			}
			continue
		}
		if !pureExpr(rs.X) {
			continue
		}
		k := bc.linOf(rs.Key)
		if !k.ok {
			continue
		}
		roots := map[string]bool{}
		rootsOfExprI(bc.info, rs.X, roots)
		// the key itself must not be modified in the body before use (other than by the range)
		kroots := map[string]bool{}
		rootsOfExprI(bc.info, rs.Key, kroots)
		if _, bad := bc.modifiedBetween(int(b.Index), int(body.Index), use, roots, useNode); bad {
			continue
		}
		if mn, bad := bc.modifiedBetween(int(b.Index), int(body.Index), use, kroots, useNode); bad && mn != ast.Node(rs) {
			continue
		}
		lt := "len(" + tstr(bc.info, rs.X) + ")"
		out = append(out, dbc{k.term, "", -k.off, "range"}, dbc{lt, k.term, k.off + 1, "range"})
	}
	return out
}

// defConstraints adds equalities from `v := expr` / `v = expr` definitions that
// dominate the use, where v has a single definition reaching (no other
// modifier between) and expr's roots are unmodified between.
func (bc *boundsCtx) defConstraints(use Loc, useNode ast.Node, out []dbc) []dbc {
	g := bc.g
	ast.Inspect(bc.body, func(x ast.Node) bool {
		if _, ok := x.(*ast.FuncLit); ok {
			return false
		}
		as, ok := x.(*ast.AssignStmt)
		if !ok || (as.Tok != token.DEFINE && as.Tok != token.ASSIGN) {
			return true
		}
		dl, ok := g.LocOf(as)
		if !ok || !g.Dominates(dl, use) {
			return true
		}
		// no modification of lhs or rhs roots between def and use
		check := func(lhs ast.Expr, cons func(lt string) []dbc, rhsRoots map[string]bool) {
			l := bc.linOf(lhs)
			if !l.ok || l.term == "" || l.off != 0 {
				return
			}
			roots := map[string]bool{}
			rootsOfExprI(bc.info, lhs, roots)
			for r := range rhsRoots {
				roots[r] = true
			}
			if bc.modBetweenLocs(dl, use, roots, as, useNode) {
				return
			}
			out = append(out, cons(l.term)...)
		}
		if len(as.Lhs) == len(as.Rhs) {
			for i := range as.Lhs {
				rhs := as.Rhs[i]
				r := bc.linOf(rhs)
				if bx, isAdd := unparen(rhs).(*ast.BinaryExpr); isAdd && bx.Op == token.ADD && pureExpr(rhs) {
					a, b := bc.linOf(bx.X), bc.linOf(bx.Y)
					if a.ok && b.ok && a.term != "" && b.term != "" && a.off == 0 && b.off == 0 {
						rr := map[string]bool{}
						rootsOfExprI(bc.info, rhs, rr)
						check(as.Lhs[i], func(lt string) []dbc {
							bc.sums2 = append(bc.sums2, [3]string{lt, a.term, b.term})
							cs := bc.shapeBounds(bx.X, nil)
							return bc.shapeBounds(bx.Y, cs)
						}, rr)
					}
				}
				if r.ok && pureExpr(rhs) {
					rr := map[string]bool{}
					rootsOfExprI(bc.info, rhs, rr)
					check(as.Lhs[i], func(lt string) []dbc {
						cs := []dbc{{lt, r.term, r.off, "def"}, {r.term, lt, -r.off, "def"}}
						return bc.shapeBounds(rhs, cs)
					}, rr)
				} else if c, ok := unparen(rhs).(*ast.CallExpr); ok {
					bc.callSummary(c, []ast.Expr{as.Lhs[i]}, check, dl, use, as, useNode)
				}
				// v = X[lo:hi]  =>  len(v) == hi - lo
				if se, ok := unparen(rhs).(*ast.SliceExpr); ok && pureExpr(se) {
					lo := lin{"", 0, true}
					if se.Low != nil {
						lo = bc.linOf(se.Low)
					}
					var hi lin
					if se.High != nil {
						hi = bc.linOf(se.High)
					} else {
						hi = lin{"len(" + tstr(bc.info, se.X) + ")", 0, true}
					}
					if lo.ok && hi.ok && (lo.term == "" || hi.term == "") {
						rr := map[string]bool{}
						rootsOfExprI(bc.info, se, rr)
						check(as.Lhs[i], func(lt string) []dbc {
							l := "len(" + lt + ")"
							if lo.term == "" { // len == hi - lo.off
								return []dbc{{l, hi.term, hi.off - lo.off, "def slice"}, {hi.term, l, lo.off - hi.off, "def slice"}}
							}
							// hi constant: len == hi.off - lo
							return []dbc{{"", l, -hi.off + lo.off, "def slice"}}
						}, rr)
					}
				}
			}
		} else if len(as.Rhs) == 1 {
			if c, ok := unparen(as.Rhs[0]).(*ast.CallExpr); ok {
				bc.callSummary(c, as.Lhs, check, dl, use, as, useNode)
			}
		}
		return true
	})
	return out
}

// callSummary applies a registered summary for call with result expressions lhs.
func (bc *boundsCtx) callSummary(c *ast.CallExpr, lhs []ast.Expr, check func(lhs ast.Expr, cons func(string) []dbc, rhsRoots map[string]bool), dl, use Loc, defNode, useNode ast.Node) {
	obj := calleeObj(bc.info, c)
	if obj == nil {
		return
	}
	name := obj.Name()
	if fn, ok := obj.(*types.Func); ok {
		name = keyOfObj(fn)
	}
	sum, ok := bc.sum[name]
	if !ok {
		return
	}
	var args []string
	argRoots := map[string]bool{}
	for _, a := range c.Args {
		l := bc.linOf(a)
		if l.ok && l.off == 0 {
			args = append(args, l.term)
		} else if pureExpr(a) {
			args = append(args, tstr(bc.info, a))
		} else {
			args = append(args, "?")
		}
		rootsOfExprI(bc.info, a, argRoots)
	}
	// summaries refer to len(arg): modifications of arg roots invalidate
	for i := range lhs {
		i := i
		if id, ok := lhs[i].(*ast.Ident); ok && id.Name == "_" {
			continue
		}
		check(lhs[i], func(lt string) []dbc {
			res := make([]string, len(lhs))
			for j := range res {
				res[j] = "?"
			}
			res[i] = lt
			var out []dbc
			// self-assignment (x = f(x, ..)): the argument denotes the OLD value;
			// rename it and import what is known about the old value at the call.
			useArgs := args
			var imported []dbc
			for ai, a := range args {
				if a != lt {
					continue
				}
				oldT := fmt.Sprintf("old@%d:%s", c.Pos(), a)
				useArgs = append([]string{}, useArgs...)
				useArgs[ai] = oldT
				if bc.depth < 2 {
					bc.depth++
					pre := bc.constraintsAt(dl, defNode)
					pre = bc.defConstraints(dl, defNode, pre)
					bc.depth--
					for _, q := range pre {
						lenA, lenOld := "len("+a+")", "len("+oldT+")"
						if q.x != lenA && q.y != lenA {
							continue
						}
						other := q.x
						if q.x == lenA {
							other = q.y
						}
						if other == lenA {
							continue
						}
						oroots := map[string]bool{}
						rootsOfTerm(other, oroots)
						if bc.modBetweenLocs(dl, use, oroots, defNode, useNode) {
							continue
						}
						nq := q
						if nq.x == lenA {
							nq.x = lenOld
						}
						if nq.y == lenA {
							nq.y = lenOld
						}
						imported = append(imported, nq)
					}
				}
			}
			for _, d := range sum(res, useArgs) {
				if d.x == "?" || d.y == "?" || strings.Contains(d.x, "(?)") || strings.Contains(d.y, "(?)") {
					continue
				}
				out = append(out, d)
			}
			return append(out, imported...)
		}, argRoots)
	}
}

// modBetweenLocs: some modifier of roots lies on a path def -> use that does
// not pass def again (def dominates use).
func (bc *boundsCtx) modBetweenLocs(def, use Loc, roots map[string]bool, defNode, useNode ast.Node) bool {
	g := bc.g
	for r := range roots {
		for _, mnode := range bc.modifiersOf(r) {
			if mnode == defNode || mnode == useNode {
				continue
			}
			ml, kind := bc.modLoc(mnode)
			if kind == 1 {
				continue
			}
			if kind == 2 {
				return true
			}
			after := (ml.B == def.B && ml.I > def.I) || (ml.B != def.B && g.reachNoLoc(def.B, ml.B, def.B))
			if !after {
				continue
			}
			if ml.B == use.B && ml.I < use.I {
				return true
			}
			if g.reachNoLoc(ml.B, use.B, def.B) {
				return true
			}
		}
	}
	return false
}

// reachNoLoc: block `to` reachable from a successor of `from` without entering block `avoid`.
func (g *Graph) reachNoLoc(from, to, avoid int) bool {
	n := len(g.C.Blocks)
	seen := make([]bool, n)
	stack := append([]int{}, g.succs[from]...)
	for len(stack) > 0 {
		b := stack[len(stack)-1]
		stack = stack[:len(stack)-1]
		if b == avoid || seen[b] {
			continue
		}
		seen[b] = true
		if b == to {
			return true
		}
		stack = append(stack, g.succs[b]...)
	}
	return false
}

// monotoneNonNeg: variable (identifier) whose every assignment in the body is
// a non-negative constant initialisation, ++, or += of a provably
// non-negative expression (len, unsigned, constant >= 0).
func (bc *boundsCtx) monotoneNonNeg(name string) bool {
	if bc.full != nil {
		return bc.full.monotoneNonNeg(name)
	}
	mods := bc.modifiersOf(name)
	if len(mods) == 0 {
		return false
	}
	for _, m := range mods {
		switch s := m.(type) {
		case *ast.IncDecStmt:
			if s.Tok != token.INC {
				return false
			}
		case *ast.AssignStmt:
			for i, l := range s.Lhs {
				if tstr(bc.info, unparen(l)) != name {
					continue
				}
				if len(s.Rhs) != len(s.Lhs) {
					return false
				}
				r := s.Rhs[i]
				switch s.Tok {
				case token.DEFINE, token.ASSIGN:
					if v, ok := constInt(bc.info, r); !ok || v < 0 {
						return false
					}
				case token.ADD_ASSIGN:
					if v, ok := constInt(bc.info, r); ok {
						if v < 0 {
							return false
						}
						continue
					}
					lr := bc.linOf(r)
					if !lr.ok {
						return false
					}
					cs := bc.shapeBounds(r, nil)
					sv := newSolver(append(cs, dbc{"", "", 0, ""}))
					if !sv.proves(lr.term, "", -lr.off) {
						return false
					}
				default:
					return false
				}
			}
		case *ast.ValueSpec:
			// var x int (zero) or with constant values
			for i, n := range s.Names {
				if n.Name != name {
					continue
				}
				if i < len(s.Values) {
					if v, ok := constInt(bc.info, s.Values[i]); !ok || v < 0 {
						return false
					}
				}
			}
		default:
			return false
		}
	}
	return true
}

// Sink is one bounds obligation.
type Sink struct {
	Node ast.Node
	Desc string
	OK   bool
	Why  string
}

// needs describes what must be proven: list of (x, y, c) meaning x - y >= c, with label.
type need struct {
	x, y  string
	c     int64
	label string
}

func isMapOrFuncIndex(info *types.Info, ix *ast.IndexExpr) bool {
	tv, ok := info.Types[ix.X]
	if !ok || tv.Type == nil {
		return true
	}
	if tv.IsType() {
		return true // generic instantiation
	}
	switch t := tv.Type.Underlying().(type) {
	case *types.Map:
		return true
	case *types.Signature:
		return true
	case *types.Pointer:
		_, isArr := t.Elem().Underlying().(*types.Array)
		return !isArr
	}
	return false
}

func (bc *boundsCtx) arrayLen(e ast.Expr) (int64, bool) {
	tv, ok := bc.info.Types[e]
	if !ok || tv.Type == nil {
		return 0, false
	}
	t := tv.Type.Underlying()
	if p, ok := t.(*types.Pointer); ok {
		t = p.Elem().Underlying()
	}
	if a, ok := t.(*types.Array); ok {
		return a.Len(), true
	}
	if tv.Value != nil && tv.Value.Kind() == constant.String {
		return int64(len(constant.StringVal(tv.Value))), true
	}
	return 0, false
}

// lenRequiringCalls: callee key -> bytes required of the first argument.
var lenRequiringCalls = map[string]int64{
	"binary.bigEndian.Uint16": 2, "binary.bigEndian.Uint32": 4, "binary.bigEndian.Uint64": 8,
	"binary.littleEndian.Uint16": 2, "binary.littleEndian.Uint32": 4, "binary.littleEndian.Uint64": 8,
	"binary.bigEndian.PutUint16": 2, "binary.bigEndian.PutUint32": 4, "binary.bigEndian.PutUint64": 8,
	"binary.littleEndian.PutUint16": 2, "binary.littleEndian.PutUint32": 4, "binary.littleEndian.PutUint64": 8,
}

// BoundsCheck proves every index/slice sink of the body (function or
// literal) and returns the sinks with verdicts.
// BoundsOpts configures the prover for one body.
type BoundsOpts struct {
	Sums    map[string]calleeSummary
	Entry   []dbc                               // facts holding whenever the body (a closure) is entered
	MinSize func(recv types.Type) (int64, bool) // minimal input length for a successful ReadFrom on the receiver type
	NoUpper bool                                // AllocCheck: require only size >= 0
}

func newBoundsCtx(f *Func, body *ast.BlockStmt, g *Graph, o BoundsOpts) *boundsCtx {
	bc := &boundsCtx{f: f, g: g, info: f.Info(), body: body, sum: o.Sums, entry: o.Entry, minSz: o.MinSize}
	if body != f.Decl.Body {
		bc.full = &boundsCtx{f: f, g: f.Graph(), info: f.Info(), body: f.Decl.Body, sum: o.Sums}
	}
	return bc
}

// FactsAtCall returns the constraints that hold at a call expression of the body (for closure inheritance).
func FactsAtCall(f *Func, body *ast.BlockStmt, g *Graph, o BoundsOpts, call ast.Node) ([]dbc, bool) {
	bc := newBoundsCtx(f, body, g, o)
	use, ok := g.LocOf(call)
	if !ok || !g.Reachable(use) {
		return nil, false
	}
	cs := bc.constraintsAt(use, call)
	cs = bc.defConstraints(use, call, cs)
	return cs, true
}

func BoundsCheck(f *Func, body *ast.BlockStmt, g *Graph, o BoundsOpts, filter func(n ast.Node) bool) []Sink {
	bc := newBoundsCtx(f, body, g, o)
	var sinks []Sink
	var visit func(n ast.Node) bool
	visit = func(x ast.Node) bool {
		if x == nil {
			return false
		}
		if lit, ok := x.(*ast.FuncLit); ok && lit.Body != body {
			return false
		}
		var needs []need
		var desc string
		var sinkExtra []dbc
		switch e := x.(type) {
		case *ast.IndexExpr:
			if isMapOrFuncIndex(bc.info, e) {
				return true
			}
			desc = exprStr(e)
			idx := bc.linOf(e.Index)
			var extra []dbc
			if !idx.ok {
				// impure index: opaque unique term bounded by its static type only
				if tv, ok := bc.info.Types[e.Index]; ok && tv.Type != nil {
					if lo, hi, _, ok := intRange(tv.Type); ok && hi < 1<<62 {
						t := fmt.Sprintf("#idx@%d", e.Index.Pos())
						idx = lin{t, 0, true}
						extra = append(extra, dbc{t, "", lo, "type min"}, dbc{"", t, -hi, "type max"})
					}
				}
			}
			sinkExtra = extra
			lt := "len(" + tstr(bc.info, e.X) + ")"
			if n, ok := bc.arrayLen(e.X); ok {
				if idx.ok && idx.term == "" {
					return true // constant index into array: compile-time checked
				}
				if !idx.ok {
					sinks = append(sinks, Sink{x, desc, false, "index not analysable"})
					return true
				}
				needs = []need{{idx.term, "", -idx.off, "index >= 0"}, {"", idx.term, idx.off + 1 - n, fmt.Sprintf("index < %d", n)}}
			} else {
				if !idx.ok || !pureExpr(e.X) {
					sinks = append(sinks, Sink{x, desc, false, "index not analysable"})
					return true
				}
				needs = []need{{idx.term, "", -idx.off, "index >= 0"}, {lt, idx.term, idx.off + 1, "index < len"}}
			}
		case *ast.SliceExpr:
			desc = exprStr(e)
			if !pureExpr(e.X) {
				sinks = append(sinks, Sink{x, desc, false, "sliced expression not analysable"})
				return true
			}
			// upper limit: cap for slices, len for strings/arrays
			lim := "cap(" + tstr(bc.info, e.X) + ")"
			lenT := "len(" + tstr(bc.info, e.X) + ")"
			var limConst int64 = -1
			if n, ok := bc.arrayLen(e.X); ok {
				limConst = n
			}
			bound := func(l lin, label string) need {
				// l <= len(X)  (we prove against len, which is <= cap)
				if limConst >= 0 {
					return need{"", l.term, l.off - limConst, label}
				}
				return need{lenT, l.term, l.off, label}
			}
			_ = lim
			var lo, hi, mx lin
			if e.Low != nil {
				lo = bc.linOf(e.Low)
				if !lo.ok {
					sinks = append(sinks, Sink{x, desc, false, "low bound not analysable"})
					return true
				}
				needs = append(needs, need{lo.term, "", -lo.off, "low >= 0"})
			}
			if e.High != nil {
				hi = bc.linOf(e.High)
				if !hi.ok {
					sinks = append(sinks, Sink{x, desc, false, "high bound not analysable"})
					return true
				}
			}
			if e.Max != nil {
				mx = bc.linOf(e.Max)
				if !mx.ok {
					sinks = append(sinks, Sink{x, desc, false, "max bound not analysable"})
					return true
				}
				needs = append(needs, bound(mx, "max <= len"))
				if e.High != nil {
					needs = append(needs, need{mx.term, hi.term, hi.off - mx.off, "high <= max"})
				}
			} else if e.High != nil {
				if hi.term == "cap("+tstr(bc.info, e.X)+")" && hi.off <= 0 && limConst < 0 {
					// s[:cap(s)] is always within the slice's capacity
				} else {
					needs = append(needs, bound(hi, "high <= len"))
				}
			}
			if e.Low != nil && e.High != nil {
				needs = append(needs, need{hi.term, lo.term, lo.off - hi.off, "low <= high"})
			} else if e.Low != nil {
				needs = append(needs, bound(lo, "low <= len"))
			} else if e.High != nil {
				needs = append(needs, need{hi.term, "", -hi.off, "high >= 0"})
			}
			if len(needs) == 0 {
				return true // x[:]
			}
		case *ast.CallExpr:
			obj := calleeObj(bc.info, e)
			if fn, ok := obj.(*types.Func); ok && len(e.Args) >= 1 {
				if req, ok := lenRequiringCalls[keyOfObj(fn)]; ok {
					desc = exprStr(e)
					if !pureExpr(e.Args[0]) {
						sinks = append(sinks, Sink{x, desc, false, "argument not analysable"})
						return true
					}
					// argument may itself be a slice expression b[lo:hi] / b[lo:]: length = hi-lo
					arg := unparen(e.Args[0])
					if se, ok := arg.(*ast.SliceExpr); ok && se.Max == nil {
						lo := lin{"", 0, true}
						if se.Low != nil {
							lo = bc.linOf(se.Low)
						}
						var hi lin
						if se.High != nil {
							hi = bc.linOf(se.High)
						} else {
							hi = lin{"len(" + tstr(bc.info, se.X) + ")", 0, true}
						}
						if lo.ok && hi.ok {
							needs = []need{{hi.term, lo.term, lo.off - hi.off + req, fmt.Sprintf("len(arg) >= %d", req)}}
						}
					}
					if needs == nil {
						needs = []need{{"len(" + tstr(bc.info, arg) + ")", "", req, fmt.Sprintf("len(arg) >= %d", req)}}
					}
				}
			}
			if needs == nil {
				return true
			}
		default:
			return true
		}
		if filter != nil && !filter(x) {
			return true
		}
		use, ok := g.LocOf(x)
		if !ok {
			sinks = append(sinks, Sink{x, desc, false, "not located in CFG"})
			return true
		}
		if !g.Reachable(use) {
			return true
		}
		bc.sums2 = nil
		cs := bc.constraintsAt(use, x)
		cs = bc.defConstraints(use, x, cs)
		cs = append(cs, sinkExtra...)
		// shape bounds for the sink's own operands
		switch e := x.(type) {
		case *ast.IndexExpr:
			cs = bc.shapeBounds(e.Index, cs)
		case *ast.SliceExpr:
			for _, b := range []ast.Expr{e.Low, e.High, e.Max} {
				if b != nil {
					cs = bc.shapeBounds(b, cs)
				}
			}
		}
		// len/cap facts and monotone counters for all mentioned terms
		terms := map[string]bool{}
		for _, n := range needs {
			terms[n.x] = true
			terms[n.y] = true
		}
		for _, c := range cs {
			terms[c.x] = true
			terms[c.y] = true
		}
		cs = bc.termFacts(terms, cs)
		cs = bc.applySums(cs)
		sv := newSolver(cs)
		okAll := true
		var missing []string
		for _, n := range needs {
			if !sv.proves(n.x, n.y, n.c) {
				okAll = false
				missing = append(missing, n.label)
			}
		}
		why := ""
		if !okAll {
			var used []string
			for _, c := range cs {
				if c.why != "len>=0" && c.why != "cap>=len" {
					used = append(used, c.why)
				}
			}
			sort.Strings(used)
			used = dedupe(used)
			why = "cannot prove " + strings.Join(missing, ", ") + "; facts in scope: [" + strings.Join(used, "; ") + "]"
		}
		sinks = append(sinks, Sink{x, desc, okAll, why})
		return true
	}
	ast.Inspect(body, visit)
	return sinks
}

func dedupe(s []string) []string {
	var out []string
	for i, x := range s {
		if i == 0 || x != s[i-1] {
			out = append(out, x)
		}
	}
	return out
}

// AllocCheck proves, for every make(T, n[, m]) with a non-constant size in
// the body, that n >= 0 and that n is bounded above by the length of some
// slice/string in scope (plus a constant) or by a constant <= maxConst.
func AllocCheck(f *Func, body *ast.BlockStmt, g *Graph, o BoundsOpts, maxConst int64) []Sink {
	bc := newBoundsCtx(f, body, g, o)
	var sinks []Sink
	ast.Inspect(body, func(x ast.Node) bool {
		if x == nil {
			return false
		}
		if lit, ok := x.(*ast.FuncLit); ok && lit.Body != body {
			return false
		}
		call, ok := x.(*ast.CallExpr)
		if !ok {
			return true
		}
		id, ok := unparen(call.Fun).(*ast.Ident)
		if !ok || id.Name != "make" || len(call.Args) < 2 {
			return true
		}
		if _, isB := bc.info.Uses[id].(*types.Builtin); !isB {
			return true
		}
		for ai, szArg := range call.Args[1:] {
			if _, isConst := constInt(bc.info, szArg); isConst {
				continue
			}
			desc := exprStr(call)
			if ai == 1 {
				desc += " (cap)"
			}
			sz := bc.linOf(szArg)
			use, okl := g.LocOf(call)
			if !sz.ok || !okl {
				sinks = append(sinks, Sink{call, desc, false, "size not analysable"})
				continue
			}
			if !g.Reachable(use) {
				continue
			}
			bc.sums2 = nil
			cs := bc.constraintsAt(use, call)
			cs = bc.defConstraints(use, call, cs)
			cs = bc.shapeBounds(szArg, cs)
			terms := map[string]bool{}
			for _, c := range cs {
				terms[c.x] = true
				terms[c.y] = true
			}
			cs = bc.termFacts(terms, cs)
			cs = bc.applySums(cs)
			sv := newSolver(cs)
			var missing []string
			if !sv.proves(sz.term, "", -sz.off) {
				missing = append(missing, "size >= 0")
			}
			bounded := ""
			if sz.term == "" {
				bounded = "constant"
			}
			// by a len term: len(X) - size >= -K for a small K
			for t := range terms {
				if bounded != "" {
					break
				}
				if strings.HasPrefix(t, "len(") || strings.HasPrefix(t, "cap(") {
					if lb, ok := sv.lower(t, sz.term); ok && lb >= sz.off-1024 {
						bounded = "<= " + t + fmt.Sprintf("%+d", sz.off-lb)
					}
				}
			}
			if bounded == "" {
				if lb, ok := sv.lower("", sz.term); ok && -lb+sz.off <= maxConst {
					bounded = fmt.Sprintf("<= %d", -lb+sz.off)
				}
			}
			if bounded == "" && !o.NoUpper {
				missing = append(missing, "upper bound by remaining input or a constant")
			}
			why := ""
			if len(missing) > 0 {
				var used []string
				for _, c := range cs {
					if c.why != "len>=0" && c.why != "cap>=len" {
						used = append(used, c.why)
					}
				}
				sort.Strings(used)
				why = "cannot prove " + strings.Join(missing, ", ") + "; facts in scope: [" + strings.Join(dedupe(used), "; ") + "]"
			}
			sinks = append(sinks, Sink{call, desc, len(missing) == 0, why + bounded})
		}
		return true
	})
	return sinks
}

// shortCircuitFacts returns the facts implied by short-circuit evaluation
// for target inside root.
func shortCircuitFacts(root, target ast.Node) []Fact {
	var out []Fact
	var walk func(n ast.Node) bool
	contains := func(n ast.Node) bool { return n != nil && n.Pos() <= target.Pos() && target.End() <= n.End() }
	walk = func(n ast.Node) bool {
		if n == target {
			return true
		}
		found := false
		ast.Inspect(n, func(x ast.Node) bool {
			if x == nil || found {
				return false
			}
			if x == n {
				return true
			}
			if !contains(x) {
				return false
			}
			if b, ok := x.(*ast.BinaryExpr); ok && (b.Op == token.LOR || b.Op == token.LAND) && contains(b.Y) {
				out = decompose(b.X, b.Op == token.LAND, out)
			}
			if _, ok := x.(*ast.FuncLit); ok {
				return false
			}
			if x == target {
				found = true
				return false
			}
			return true
		})
		return found
	}
	if b, ok := root.(*ast.BinaryExpr); ok && (b.Op == token.LOR || b.Op == token.LAND) && contains(b.Y) {
		out = decompose(b.X, b.Op == token.LAND, out)
	}
	walk(root)
	return out
}

var termIdentRe = regexp.MustCompile(`[A-Za-z_][A-Za-z0-9_]*(#[0-9]+)?(\.[A-Za-z_][A-Za-z0-9_]*)*`)

// rootsOfTerm extracts assignable paths mentioned by a canonical term string.
func rootsOfTerm(t string, out map[string]bool) {
	for _, m := range termIdentRe.FindAllString(t, -1) {
		if m == "len" || m == "cap" {
			continue
		}
		parts := strings.Split(m, ".")
		for i := 1; i <= len(parts); i++ {
			out[strings.Join(parts[:i], ".")] = true
		}
	}
}

// modifiedBeforeInBody: some modifier of the roots inside this body can
// execute before the use (on a path from the body's entry).
func (bc *boundsCtx) modifiedBeforeInBody(use Loc, roots map[string]bool, useNode ast.Node) bool {
	for r := range roots {
		for _, mnode := range bc.modifiersOf(r) {
			if mnode == useNode {
				continue
			}
			ml, kind := bc.modLoc(mnode)
			if kind == 1 {
				continue
			}
			if kind == 2 {
				return true
			}
			if (ml.B == use.B && ml.I < use.I) || bc.g.reachNoLoc(ml.B, use.B, -1) {
				return true
			}
		}
	}
	return false
}

// termFacts adds facts that follow from the shape of the terms themselves:
// len/cap non-negativity, counters only incremented from >= 0, and local
// variables that are only ever assigned constants.
func (bc *boundsCtx) termFacts(terms map[string]bool, cs []dbc) []dbc {
	for t := range terms {
		if strings.HasPrefix(t, "len(") {
			cs = append(cs, dbc{t, "", 0, "len>=0"})
			inner := strings.TrimSuffix(strings.TrimPrefix(t, "len("), ")")
			cs = append(cs, dbc{"cap(" + inner + ")", t, 0, "cap>=len"})
		}
		if strings.HasPrefix(t, "cap(") {
			cs = append(cs, dbc{t, "", 0, "cap>=0"})
		}
		if t != "" && !strings.ContainsAny(t, "(.[ +-*") {
			if bc.monotoneNonNeg(t) {
				cs = append(cs, dbc{t, "", 0, "counter only incremented from >= 0"})
			}
			if lo, hi, ok := bc.constSet(t); ok {
				cs = append(cs, dbc{t, "", lo, "only assigned constants"}, dbc{"", t, -hi, "only assigned constants"})
			}
		}
	}
	return cs
}

// constSet: the local variable is only ever assigned integer constants
// (including its zero value); returns the range of those constants.
func (bc *boundsCtx) constSet(name string) (lo, hi int64, ok bool) {
	if bc.full != nil {
		return bc.full.constSet(name)
	}
	mods := bc.modifiersOf(name)
	if len(mods) == 0 {
		return 0, 0, false
	}
	first := true
	add := func(v int64) {
		if first || v < lo {
			lo = v
		}
		if first || v > hi {
			hi = v
		}
		first = false
	}
	for _, m := range mods {
		switch s := m.(type) {
		case *ast.AssignStmt:
			if s.Tok != token.ASSIGN && s.Tok != token.DEFINE {
				return 0, 0, false
			}
			if len(s.Lhs) != len(s.Rhs) {
				return 0, 0, false
			}
			for i, l := range s.Lhs {
				if tstr(bc.info, unparen(l)) != name {
					continue
				}
				v, isC := constInt(bc.info, s.Rhs[i])
				if !isC {
					return 0, 0, false
				}
				add(v)
			}
		case *ast.ValueSpec:
			for i, n := range s.Names {
				if tstr(bc.info, n) != name {
					continue
				}
				if i < len(s.Values) {
					v, isC := constInt(bc.info, s.Values[i])
					if !isC {
						return 0, 0, false
					}
					add(v)
				} else {
					add(0)
				}
			}
		default:
			return 0, 0, false
		}
	}
	return lo, hi, !first
}

// readFromFact: the fact `err == nil` (or !(err != nil)) where err was
// defined by `err := X.ReadFrom(arg)` implies len(arg) >= minSize(type of X).
func (bc *boundsCtx) readFromFact(f Fact, use Loc, useNode ast.Node, out []dbc) []dbc {
	if bc.minSz == nil || f.Tag != nil {
		return out
	}
	b, ok := unparen(f.Cond).(*ast.BinaryExpr)
	if !ok || exprStr(b.Y) != "nil" {
		return out
	}
	if !((b.Op == token.NEQ && !f.Val) || (b.Op == token.EQL && f.Val)) {
		return out
	}
	id, ok := unparen(b.X).(*ast.Ident)
	if !ok {
		return out
	}
	obj := bc.info.Uses[id]
	if obj == nil {
		return out
	}
	// find the single defining assignment of obj
	var def *ast.AssignStmt
	ndefs := 0
	ast.Inspect(bc.body, func(x ast.Node) bool {
		as, ok := x.(*ast.AssignStmt)
		if !ok {
			return true
		}
		for _, l := range as.Lhs {
			if lid, ok := l.(*ast.Ident); ok && (bc.info.Defs[lid] == obj || bc.info.Uses[lid] == obj) {
				ndefs++
				def = as
			}
		}
		return true
	})
	if ndefs != 1 || def == nil || len(def.Rhs) != 1 {
		return out
	}
	call, ok := unparen(def.Rhs[0]).(*ast.CallExpr)
	if !ok || len(call.Args) != 1 {
		return out
	}
	sel, ok := unparen(call.Fun).(*ast.SelectorExpr)
	if !ok || (sel.Sel.Name != "ReadFrom" && sel.Sel.Name != "UnsafeReadFrom") {
		return out
	}
	rt := bc.info.Types[sel.X].Type
	if rt == nil {
		return out
	}
	k, ok := bc.minSz(rt)
	if !ok {
		return out
	}
	arg := unparen(call.Args[0])
	if !pureExpr(arg) {
		return out
	}
	dl, ok := bc.g.LocOf(def)
	if !ok {
		return out
	}
	roots := map[string]bool{}
	rootsOfExprI(bc.info, arg, roots)
	if bc.modBetweenLocs(dl, use, roots, def, useNode) {
		return out
	}
	why := fmt.Sprintf("%s succeeded => input >= %d bytes", exprStr(call.Fun), k)
	if se, ok := arg.(*ast.SliceExpr); ok && se.Max == nil {
		lo := lin{"", 0, true}
		if se.Low != nil {
			lo = bc.linOf(se.Low)
		}
		var hi lin
		if se.High != nil {
			hi = bc.linOf(se.High)
		} else {
			hi = lin{"len(" + tstr(bc.info, se.X) + ")", 0, true}
		}
		if lo.ok && hi.ok {
			out = append(out, dbc{hi.term, lo.term, k - hi.off + lo.off, why})
		}
		return out
	}
	out = append(out, dbc{"len(" + tstr(bc.info, arg) + ")", "", k, why})
	return out
}

// argRootsFor: for a self-assignment the assigned variable itself is not a
// root whose later modification matters beyond the lhs (already included).
func argRootsFor(lt string, args []string, roots map[string]bool) map[string]bool {
	return roots
}

// applySums derives bounds for t == a + b from the lower bounds of a and b.
func (bc *boundsCtx) applySums(cs []dbc) []dbc {
	if len(bc.sums2) == 0 {
		return cs
	}
	for round := 0; round < 2; round++ {
		sv := newSolver(cs)
		for _, d := range bc.sums2 {
			t, a, b := d[0], d[1], d[2]
			la, oka := sv.lower(a, "")
			lb, okb := sv.lower(b, "")
			if oka {
				cs = append(cs, dbc{t, b, la, "sum: t = a + b, a >= lower"})
			}
			if okb {
				cs = append(cs, dbc{t, a, lb, "sum: t = a + b, b >= lower"})
			}
			if oka && okb {
				cs = append(cs, dbc{t, "", la + lb, "sum of lower bounds"})
			}
			// upper bounds
			ua, oka2 := sv.lower("", a)
			ub, okb2 := sv.lower("", b)
			if oka2 {
				cs = append(cs, dbc{b, t, ua, "sum: t = a + b, a <= upper"})
			}
			if okb2 {
				cs = append(cs, dbc{a, t, ub, "sum: t = a + b, b <= upper"})
			}
		}
	}
	return cs
}

// switchClauseFacts: when the use lies in a case clause of a tag switch whose
// case values are integer constants, the tag is bounded by the constants of
// that clause and of the preceding clauses that fall through into it.
func (bc *boundsCtx) switchClauseFacts(use Loc, useNode ast.Node, out []dbc) []dbc {
	var sw *ast.SwitchStmt
	var ci int = -1
	ast.Inspect(bc.body, func(x ast.Node) bool {
		s, ok := x.(*ast.SwitchStmt)
		if !ok || s.Tag == nil {
			return true
		}
		for i, cl := range s.Body.List {
			cc := cl.(*ast.CaseClause)
			for _, st := range cc.Body {
				if st.Pos() <= useNode.Pos() && useNode.End() <= st.End() {
					sw, ci = s, i
				}
			}
		}
		return true
	})
	if sw == nil || !pureExpr(sw.Tag) {
		return out
	}
	tag := bc.linOf(sw.Tag)
	if !tag.ok {
		return out
	}
	tl, ok := bc.g.LocOf(sw.Tag)
	if !ok {
		return out
	}
	roots := map[string]bool{}
	rootsOfExprI(bc.info, sw.Tag, roots)
	if bc.modBetweenLocs(tl, use, roots, sw, useNode) {
		return out
	}
	var lo, hi int64
	first := true
	for i := ci; i >= 0; i-- {
		cc := sw.Body.List[i].(*ast.CaseClause)
		if i != ci {
			// must end with fallthrough
			if len(cc.Body) == 0 {
				break
			}
			br, ok := cc.Body[len(cc.Body)-1].(*ast.BranchStmt)
			if !ok || br.Tok != token.FALLTHROUGH {
				break
			}
		}
		if cc.List == nil {
			return out // default clause: no information
		}
		for _, e := range cc.List {
			v, ok := constInt(bc.info, e)
			if !ok {
				return out
			}
			if first || v < lo {
				lo = v
			}
			if first || v > hi {
				hi = v
			}
			first = false
		}
	}
	if first {
		return out
	}
	out = append(out, dbc{tag.term, "", lo - tag.off, "switch clause (with fallthrough)"}, dbc{"", tag.term, tag.off - hi, "switch clause (with fallthrough)"})
	return out
}
