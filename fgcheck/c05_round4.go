package main

import (
	"fmt"
	"go/ast"
	"go/token"
	"go/types"
	"strings"

	"golang.org/x/tools/go/cfg"
)

// Round-4 rules of C05.
//
// c05aborterComplete (client half): the aborter that ProcessFetchPartition
// filters with holds EVERY entry of the response's AbortedTransactions list.
// A broker lists an aborted transaction in every response whose range overlaps
// it, so an entry whose FirstOffset lies before the fetch offset is exactly the
// one a fetch resuming inside that transaction depends on.
//
// c05kfakeOutcome (broker half): pidinfo.lastWasCommit - the outcome EndTxn
// retry detection answers from - is recorded where a transaction is ended
// (endTx, for every caller: EndTxn, the timeout abort, the fence abort), equal
// to the commit argument, and nowhere else except the tabled writers.

// c05isIdentOf reports whether e is an identifier denoting obj.
func c05isIdentOf(info *types.Info, e ast.Expr, obj types.Object) bool {
	id, ok := unparen(e).(*ast.Ident)
	if !ok || obj == nil {
		return false
	}
	return info.Uses[id] == obj || info.Defs[id] == obj
}

// c05selOn: e is X.<field> with X an identifier of obj; returns the field name.
func c05selOn(info *types.Info, e ast.Expr, obj types.Object) (string, bool) {
	sel, ok := unparen(e).(*ast.SelectorExpr)
	if !ok || !c05isIdentOf(info, sel.X, obj) {
		return "", false
	}
	if fv := fieldOfSel(info, sel); fv != nil {
		return fv.Name(), true
	}
	return "", false
}

func c05aborterComplete(c *Ctx, m *Module) {
	rule := "aborter-holds-every-aborted-entry"
	f := c.NeedFunc(m, "kgo.buildAborter")
	if f == nil {
		return
	}
	info := f.Info()
	g := f.Graph()
	// the response parameter: the (only) parameter with an AbortedTransactions field
	var rp types.Object
	sig := f.Obj.Type().(*types.Signature)
	for i := 0; i < sig.Params().Len(); i++ {
		p := sig.Params().At(i)
		t := p.Type()
		if pt, ok := t.(*types.Pointer); ok {
			t = pt.Elem()
		}
		if st, ok := t.Underlying().(*types.Struct); ok {
			for j := 0; j < st.NumFields(); j++ {
				if st.Field(j).Name() == "AbortedTransactions" {
					rp = p
				}
			}
		}
	}
	if rp == nil {
		c.Undecided(rule, f.Key+"#response-parameter", f.Pos(), m, "no parameter with an AbortedTransactions list")
		return
	}
	// the returned map: the identifier of the non-nil returns
	var acc types.Object
	var rets []*ast.ReturnStmt
	for _, rn := range findNodes(f.Decl.Body, false, func(x ast.Node) bool { _, ok := x.(*ast.ReturnStmt); return ok }) {
		r := rn.(*ast.ReturnStmt)
		rets = append(rets, r)
		if len(r.Results) == 1 {
			if id, ok := unparen(r.Results[0]).(*ast.Ident); ok && id.Name != "nil" {
				if o, isV := info.Uses[id].(*types.Var); isV {
					acc = o
				}
			}
		}
	}
	if acc == nil {
		c.Undecided(rule, f.Key+"#result", f.Pos(), m, "no return of a local aborter map found")
		return
	}
	// the fill loop: range over rp.AbortedTransactions (the whole list)
	var loops []*ast.RangeStmt
	ast.Inspect(f.Decl.Body, func(x ast.Node) bool {
		rs, ok := x.(*ast.RangeStmt)
		if !ok {
			return true
		}
		if name, on := c05selOn(info, rs.X, rp); on && name == "AbortedTransactions" {
			loops = append(loops, rs)
		}
		return true
	})
	c.Floor(rule+"/fill-loops", len(loops), 1)
	isInsert := func(n ast.Node, entry types.Object) bool {
		as, ok := n.(*ast.AssignStmt)
		if !ok || as.Tok != token.ASSIGN || len(as.Lhs) != 1 || len(as.Rhs) != 1 {
			return false
		}
		ix, ok := unparen(as.Lhs[0]).(*ast.IndexExpr)
		if !ok || !c05isIdentOf(info, ix.X, acc) {
			return false
		}
		if k, on := c05selOn(info, ix.Index, entry); !on || k != "ProducerID" {
			return false
		}
		call, ok := unparen(as.Rhs[0]).(*ast.CallExpr)
		if !ok || len(call.Args) != 2 || call.Ellipsis != token.NoPos {
			return false
		}
		if b, isB := calleeObj(info, call).(*types.Builtin); !isB || b.Name() != "append" {
			return false
		}
		ix2, ok := unparen(call.Args[0]).(*ast.IndexExpr)
		if !ok || !c05isIdentOf(info, ix2.X, acc) {
			return false
		}
		if k, on := c05selOn(info, ix2.Index, entry); !on || k != "ProducerID" {
			return false
		}
		v, on := c05selOn(info, call.Args[1], entry)
		return on && v == "FirstOffset"
	}
	var fillHead *cfg.Block
	for _, rs := range loops {
		cons := f.Key + ": range over AbortedTransactions"
		var entry types.Object
		if id, ok := rs.Value.(*ast.Ident); ok {
			entry = info.Defs[id]
		}
		if entry == nil {
			c.Undecided(rule, cons, rs.Pos(), m, "the loop does not bind the entry to a value variable")
			continue
		}
		var head, body *cfg.Block
		for _, b := range g.C.Blocks {
			if b.Stmt == ast.Stmt(rs) {
				switch b.Kind {
				case cfg.KindRangeLoop:
					head = b
				case cfg.KindRangeBody:
					body = b
				}
			}
		}
		if head == nil || body == nil {
			c.Undecided(rule, cons, rs.Pos(), m, "loop blocks not found in the control-flow graph")
			continue
		}
		nIns := 0
		ast.Inspect(rs.Body, func(x ast.Node) bool {
			if isInsert(x, entry) {
				nIns++
			}
			return true
		})
		// every path through one iteration (to the next one, out of the loop or out
		// of the function) performs the insertion of this entry
		path, found := g.FindPath(Loc{B: int(body.Index), I: -1}, SearchOpts{
			Stop:      func(n ast.Node) bool { return isInsert(n, entry) },
			GoalBlock: func(b *cfg.Block) bool { return b == head || (b.Stmt == ast.Stmt(rs) && b.Kind == cfg.KindRangeDone) },
			GoalExit:  func(k ExitKind, last ast.Node) bool { return true },
		})
		detail := ""
		switch {
		case nIns == 0:
			detail = "the loop over AbortedTransactions has no `a[entry.ProducerID] = append(a[entry.ProducerID], entry.FirstOffset)` insertion"
		case found:
			detail = "an entry of AbortedTransactions can be skipped (" + pathStr(path) + "): a broker lists an aborted transaction in every response that overlaps it, also when it began before the fetch offset; with the entry dropped the rest of that transaction is returned to a read_committed consumer as committed"
		}
		if c.Check(nIns > 0 && !found, rule, cons, rs.Pos(), m, "every entry is inserted under its producer id, unconditionally", detail) {
			fillHead = head
		}
	}
	// nothing removes or replaces entries afterwards: the only writes to the map are the insertion
	nW := 0
	ast.Inspect(f.Decl.Body, func(x ast.Node) bool {
		switch s := x.(type) {
		case *ast.AssignStmt:
			for _, l := range s.Lhs {
				if ix, ok := unparen(l).(*ast.IndexExpr); ok && c05isIdentOf(info, ix.X, acc) {
					nW++
					okIns := false
					for _, rs := range loops {
						if id, ok := rs.Value.(*ast.Ident); ok && isInsert(s, info.Defs[id]) && rs.Body.Pos() <= s.Pos() && s.End() <= rs.Body.End() {
							okIns = true
						}
					}
					c.Check(okIns, rule, f.Key+": write "+nodeStr(s), s.Pos(), m, "the insertion", "the aborter map is written by something other than the per-entry insertion: entries the broker reported are replaced or trimmed")
				}
			}
		case *ast.CallExpr:
			if b, isB := calleeObj(info, s).(*types.Builtin); isB && (b.Name() == "delete" || b.Name() == "clear") && len(s.Args) >= 1 && c05isIdentOf(info, s.Args[0], acc) {
				nW++
				c.Fail(rule, f.Key+": "+exprStr(s), s.Pos(), m, "entries are removed from the aborter while it is built: an aborted transaction the broker reported is forgotten")
			}
		}
		return true
	})
	c.Floor(rule+"/map-writes", nW, 1)
	// the map variable is created once (never swapped for a filtered copy)
	defs := assignsTo(f, acc)
	c.Check(len(defs) == 1, rule, f.Key+"#single-map", f.Pos(), m, "", fmt.Sprintf("the returned aborter has %d definitions (expected the one make): it can be replaced by a filtered copy", len(defs)))
	// every return: the filled map after the loop, or nil for an empty list
	k := 0
	for _, r := range rets {
		l, _ := g.LocOf(r)
		cons := f.Key + ": return#" + ordinal(&k)
		if len(r.Results) == 1 && c05isIdentOf(info, r.Results[0], acc) {
			c.Check(fillHead != nil && g.BlockDominates(int(fillHead.Index), l.B), rule, cons, r.Pos(), m, "after the fill loop", "the aborter is returned on a path that does not run the loop over AbortedTransactions")
			continue
		}
		empty := factMatches(g.FactsAt(l), func(ft Fact) bool {
			be, ok := unparen(ft.Cond).(*ast.BinaryExpr)
			if !ok || be.Op != token.EQL || !ft.Val {
				return false
			}
			lc, ok := unparen(be.X).(*ast.CallExpr)
			if !ok || len(lc.Args) != 1 {
				return false
			}
			if b, isB := calleeObj(info, lc).(*types.Builtin); !isB || b.Name() != "len" {
				return false
			}
			name, on := c05selOn(info, lc.Args[0], rp)
			v, isC := constInt(info, be.Y)
			return on && name == "AbortedTransactions" && isC && v == 0
		})
		c.Check(empty, rule, cons, r.Pos(), m, "nil only for an empty list", "buildAborter returns `"+exprStr(r.Results[0])+"` without the AbortedTransactions list being empty: reported aborted transactions are ignored")
	}
	// the caller: the aborter handed to the batch decoder is exactly what buildAborter returned
	if pf := c.NeedFunc(m, "kgo.ProcessFetchPartition"); pf != nil {
		pinfo := pf.Info()
		for _, call := range callsTo(pf.Decl.Body, pinfo, f.Obj, true) {
			as, _ := enclosingStmt(pf.Decl.Body, call).(*ast.AssignStmt)
			if as == nil || len(as.Lhs) != 1 {
				continue // the existing aborter-built-for-read-committed rule reports this
			}
			id, ok := as.Lhs[0].(*ast.Ident)
			if !ok {
				continue
			}
			obj := pinfo.Uses[id]
			if obj == nil {
				obj = pinfo.Defs[id]
			}
			n := len(assignsTo(pf, obj))
			c.Check(n == 1, rule, pf.Key+": aborter variable", as.Pos(), m, "assigned only from buildAborter", fmt.Sprintf("the aborter variable has %d assignments: the index built from the response can be replaced or dropped before the batches are filtered", n))
			// first argument is the response partition parameter
			okArg := false
			if len(call.Args) >= 1 {
				if aid, ok := unparen(call.Args[0]).(*ast.Ident); ok {
					if v, isV := pinfo.Uses[aid].(*types.Var); isV {
						ps := pf.Obj.Type().(*types.Signature).Params()
						for i := 0; i < ps.Len(); i++ {
							if ps.At(i) == v {
								okArg = true
							}
						}
					}
				}
			}
			c.Check(okArg, rule, pf.Key+": buildAborter argument", call.Pos(), m, "the response partition being processed", "buildAborter is not given the response partition parameter")
		}
	}
}

// c05kfakeOutcome: see the file comment.
func c05kfakeOutcome(c *Ctx) {
	m := c.Load("pkg/kfake")
	if m == nil {
		return
	}
	rule := "kfake-txn-outcome-recorded-at-end"
	fld := m.Field("kfake", "pidinfo", "lastWasCommit")
	endTx := c.NeedFunc(m, "kfake.pidinfo.endTx")
	if fld == nil || endTx == nil {
		c.Undecided("anchor", "kfake.pidinfo.lastWasCommit", 0, m, "field or endTx not found")
		return
	}
	funcs := m.FuncsIn("kfake")
	byObj := map[types.Object]*Func{}
	for _, f := range funcs {
		if f.Obj != nil {
			byObj[f.Obj] = f
		}
	}
	// recorder summary: fn(recv, ..., p, ...) stores recv.lastWasCommit = p on every
	// path to a normal exit (directly or through a method of the same receiver that
	// is itself a recorder of the forwarded parameter), and stores nothing else there.
	chain := map[*Func]bool{}
	var recorder func(fn *Func, pi int, depth int) (bool, string)
	recorder = func(fn *Func, pi int, depth int) (bool, string) {
		if depth > 3 || fn.Decl.Recv == nil || len(fn.Decl.Recv.List) != 1 || len(fn.Decl.Recv.List[0].Names) != 1 {
			return false, fn.Key + ": not a method with a named receiver (or call chain too deep)"
		}
		info := fn.Info()
		recv := info.Defs[fn.Decl.Recv.List[0].Names[0]]
		sig := fn.Obj.Type().(*types.Signature)
		if pi >= sig.Params().Len() {
			return false, fn.Key + ": parameter index out of range"
		}
		param := types.Object(sig.Params().At(pi))
		// the parameter and the receiver are not reassigned
		for _, o := range []types.Object{param, recv} {
			if len(assignsTo(fn, o)) != 0 {
				return false, fn.Key + ": `" + o.Name() + "` is reassigned before the outcome is recorded"
			}
		}
		chain[fn] = true
		g := fn.Graph()
		why := ""
		isRec := func(n ast.Node) bool {
			switch s := n.(type) {
			case *ast.AssignStmt:
				if s.Tok == token.ASSIGN && len(s.Lhs) == len(s.Rhs) {
					for i, l := range s.Lhs {
						if sel, ok := unparen(l).(*ast.SelectorExpr); ok && sameField(fieldOfSel(info, sel), fld) && c05isIdentOf(info, sel.X, recv) && c05isIdentOf(info, s.Rhs[i], param) {
							return true
						}
					}
				}
			case *ast.ExprStmt:
				call, ok := s.X.(*ast.CallExpr)
				if !ok {
					return false
				}
				sel, ok := unparen(call.Fun).(*ast.SelectorExpr)
				if !ok || !c05isIdentOf(info, sel.X, recv) {
					return false
				}
				callee := byObj[calleeObj(info, call)]
				if callee == nil || callee == fn {
					return false
				}
				for i, a := range call.Args {
					if c05isIdentOf(info, a, param) {
						if ok, w := recorder(callee, i, depth+1); ok {
							return true
						} else if why == "" {
							why = w
						}
					}
				}
			}
			return false
		}
		path, found := g.FindPath(Loc{B: -1}, SearchOpts{Stop: isRec, GoalExit: func(k ExitKind, last ast.Node) bool { return k != ExitPanic }})
		if found {
			if why != "" {
				return false, why
			}
			return false, fn.Key + " can return without storing lastWasCommit = " + param.Name() + " (" + pathStr(path) + ")"
		}
		// no other store of the field in this function
		for _, st := range storesTo(fn.Decl.Body, info, fld, true) {
			if as, ok := st.Node.(*ast.AssignStmt); !ok || !isRec(as) {
				return false, fn.Key + ": " + nodeStr(st.Node) + " stores something other than the commit parameter"
			}
		}
		return true, ""
	}
	ok, why := recorder(endTx, 0, 0)
	c.Check(ok, rule, endTx.Key+": records the outcome", endTx.Pos(), m, "lastWasCommit = commit on every path of endTx",
		why+": endTx also runs for the transaction-timeout abort and the InitProducerID fence abort; with a stale lastWasCommit an EndTxn(commit) retried on the old epoch after such an abort is answered with success although the abort marker is already written - the acknowledged transaction is never delivered to a read_committed consumer")
	// every call site of endTx passes a boolean outcome (counted: all callers rely on the summary)
	nCalls := 0
	for _, site := range CallSites(funcs, endTx.Obj) {
		nCalls++
		c.Touch(site.Fn)
	}
	c.Floor(rule+"/endTx-callers", nCalls, 4)
	c.Set("kfake.endTx.callers", nCalls)
	// who may write lastWasCommit
	nW := 0
	for _, st := range StoreSites(funcs, fld) {
		nW++
		cons := st.Fn.Key + ": " + nodeStr(st.Node)
		info := st.Fn.Info()
		switch {
		case chain[st.Fn] && ok:
			c.OK(rule+"/writers", cons, st.Node.Pos(), m, "the recording store of endTx")
		case st.Kind == "addr":
			// address taken: allowed only as the value of a pidLogEntry.Commit key (snapshot for the log)
			kvOK := false
			ast.Inspect(st.Fn.Decl.Body, func(x ast.Node) bool {
				switch s := x.(type) {
				case *ast.AssignStmt:
					for i, r := range s.Rhs {
						if r == st.Node && i < len(s.Lhs) {
							if fv := fieldOfSel(info, s.Lhs[i]); fv != nil && fv.Name() == "Commit" {
								kvOK = true
							}
						}
					}
				case *ast.KeyValueExpr:
					if s.Value == st.Node && exprStr(s.Key) == "Commit" {
						kvOK = true
					}
				}
				return true
			})
			c.Check(kvOK, rule+"/writers", cons, st.Node.Pos(), m, "address stored into a log entry's Commit field (read when persisted)", "the address of lastWasCommit escapes to something other than a log entry: it can be written from anywhere")
		case st.Kind == "assign" && st.RHS != nil:
			// (a) restored from a persisted log entry: *X.Commit
			if star, isStar := unparen(st.RHS).(*ast.StarExpr); isStar {
				if fv := fieldOfSel(info, star.X); fv != nil && fv.Name() == "Commit" && fv.Pkg() != nil && fv.Pkg().Name() == "kfake" {
					c.OK(rule+"/writers", cons, st.Node.Pos(), m, "restored from the persisted log entry")
					continue
				}
			}
			// (a') the EndTxn request's own Commit flag
			if fv := fieldOfSel(info, st.RHS); fv != nil && fv.Name() == "Commit" && fv.Pkg() != nil && strings.HasSuffix(fv.Pkg().Path(), "/kmsg") {
				c.OK(rule+"/writers", cons, st.Node.Pos(), m, "the EndTxn request's own direction")
				continue
			}
			// (b) a constant outcome under the EndTxn request's own direction
			if v, isC := constBool(info, st.RHS); isC {
				g := st.Fn.GraphFor(st.Node)
				l, _ := g.LocOf(st.Node)
				dirOK := factMatches(g.FactsAt(l), func(ft Fact) bool {
					fv := fieldOfSel(info, ft.Cond)
					if fv == nil || fv.Name() != "Commit" || fv.Pkg() == nil || !strings.HasSuffix(fv.Pkg().Path(), "/kmsg") {
						return false
					}
					return ft.Val == v
				})
				c.Check(dirOK, rule+"/writers", cons, st.Node.Pos(), m, "constant outcome equal to the EndTxn request's Commit on this path", fmt.Sprintf("lastWasCommit is set to the constant %v on a path where the request's Commit flag is not known to be %v", v, v))
				continue
			}
			c.Fail(rule+"/writers", cons, st.Node.Pos(), m, "lastWasCommit is written outside endTx (value `"+exprStr(st.RHS)+"`): the outcome is then recorded per caller, and the callers that end a transaction without an EndTxn request (timeout abort, fence abort) leave it stale")
		default:
			c.Fail(rule+"/writers", cons, st.Node.Pos(), m, "unexpected kind of write ("+st.Kind+") to lastWasCommit")
		}
	}
	c.Floor(rule+"/writers", nW, 4)
}
