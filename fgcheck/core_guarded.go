package main

import (
	"go/ast"
	"go/token"
	"go/types"
	"sort"
	"strings"

	"golang.org/x/tools/go/cfg"
)

// lockEnv computes and memoises locksets for every body of a function.
type lockEnv struct {
	f     *Func
	entry LockSet // locks held on entry of the declared function ("must be called locked")
	// recvAcquire: receiving from the named local channel acquires the lock
	// path (documented lock hand-off).
	recvAcquire map[string]string
	memo        map[*ast.BlockStmt]*LockInfo
	parents     map[ast.Node]ast.Node
}

func newLockEnv(f *Func, entry []string, recvAcquire map[string]string) *lockEnv {
	e := &lockEnv{f: f, entry: LockSet{}, recvAcquire: recvAcquire, memo: map[*ast.BlockStmt]*LockInfo{}}
	for _, p := range entry {
		e.entry[p] = true
	}
	return e
}

func (e *lockEnv) parentMap() map[ast.Node]ast.Node {
	if e.parents == nil {
		e.parents = parentMap(e.f.Decl.Body)
	}
	return e.parents
}

// enclosingBody returns the body (function or literal) that directly contains n.
func (e *lockEnv) enclosingBody(n ast.Node) (*ast.BlockStmt, *ast.FuncLit) {
	lit := innermostLit(e.f, n)
	if lit == nil {
		return e.f.Decl.Body, nil
	}
	return lit.Body, lit
}

func (e *lockEnv) graphOf(body *ast.BlockStmt, lit *ast.FuncLit) *Graph {
	if lit == nil {
		return e.f.Graph()
	}
	return e.f.LitGraph(lit)
}

// hooks: receive-acquire on ExprStmt `<-ch` nodes and on select case bodies.
func (e *lockEnv) extra() func(call *ast.CallExpr, st LockSet) { return nil }

func (e *lockEnv) compute(body *ast.BlockStmt, lit *ast.FuncLit) *LockInfo {
	if li, ok := e.memo[body]; ok {
		return li
	}
	e.memo[body] = &LockInfo{f: e.f, g: e.graphOf(body, lit), body: body, in: make([]LockSet, len(e.graphOf(body, lit).C.Blocks))} // recursion guard
	entry := LockSet{}
	if lit == nil {
		entry = e.entry.clone()
	} else {
		entry = e.litEntry(lit)
	}
	g := e.graphOf(body, lit)
	li := computeLocksHook(e.f, body, g, entry, e.recvAcquire)
	e.memo[body] = li
	return li
}

// litEntry determines the lockset at entry of a function literal.
func (e *lockEnv) litEntry(lit *ast.FuncLit) LockSet {
	pm := e.parentMap()
	par := pm[lit]
	// the body in which the literal expression appears
	pbody, plit := e.enclosingBody(litOuterNode(lit))
	pli := e.compute(pbody, plit)
	at := func(n ast.Node) LockSet {
		if l, ok := pli.g.LocOf(n); ok {
			return heldAtHook(pli, l, e.recvAcquire)
		}
		return LockSet{}
	}
	if call, ok := par.(*ast.CallExpr); ok {
		if call.Fun == ast.Expr(lit) {
			switch pm[call].(type) {
			case *ast.GoStmt:
				return LockSet{}
			case *ast.DeferStmt:
				// runs at exit: intersection of locksets at the normal exits
				var res LockSet
				for _, b := range pli.g.C.Blocks {
					if k, ok := pli.g.exitOf(int(b.Index)); ok && k != ExitPanic {
						st := heldAtHook(pli, Loc{int(b.Index), len(b.Nodes)}, e.recvAcquire)
						if res == nil {
							res = st
						} else {
							res = intersect(res, st)
						}
					}
				}
				if res == nil {
					res = LockSet{}
				}
				return res
			}
			return at(call)
		}
		// passed as an argument
		switch pm[call].(type) {
		case *ast.GoStmt:
			return LockSet{}
		case *ast.DeferStmt:
			return LockSet{}
		}
		// known asynchronous registrars
		if fn := calleeName(e.f.Info(), call); strings.HasSuffix(fn, ".AfterFunc") || strings.HasSuffix(fn, ".Do") && strings.Contains(fn, "Once") {
			return LockSet{}
		}
		st := at(call)
		if litArgLocks != nil {
			for _, p := range litArgLocks(e.f, call, lit) {
				st[p] = true
			}
		}
		return st
	}
	// bound to a local variable: intersection over its call sites
	if calls := closureCallSites(e.f, lit); len(calls) > 0 {
		var res LockSet
		for _, call := range calls {
			cb, cl := e.enclosingBody(call)
			cli := e.compute(cb, cl)
			var st LockSet
			if _, isGo := pm[call].(*ast.GoStmt); isGo {
				st = LockSet{}
			} else if l, ok := cli.g.LocOf(call); ok {
				st = heldAtHook(cli, l, e.recvAcquire)
			} else {
				st = LockSet{}
			}
			if res == nil {
				res = st
			} else {
				res = intersect(res, st)
			}
		}
		return res
	}
	return LockSet{}
}

func litOuterNode(lit *ast.FuncLit) ast.Node { return lit }

// litArgLocks, when set by a property for the duration of its run, names extra
// locks held at entry of a function literal that is passed as an argument to
// a higher-order locker (e.g. eachOwnerLocked(func(batch) {...}) runs the
// literal with batch.owner.mu held).  nil for every property but C41.
var litArgLocks func(f *Func, call *ast.CallExpr, lit *ast.FuncLit) []string

// computeLocksHook is ComputeLocks plus receive-acquire hooks.
func computeLocksHook(f *Func, body *ast.BlockStmt, g *Graph, entry LockSet, recvAcquire map[string]string) *LockInfo {
	li := &LockInfo{f: f, g: g, body: body}
	n := len(g.C.Blocks)
	li.in = make([]LockSet, n)
	if n == 0 {
		return li
	}
	li.in[0] = entry.clone()
	changed := true
	for iter := 0; changed && iter < 100; iter++ {
		changed = false
		for _, b := range g.C.Blocks {
			bi := int(b.Index)
			if !g.live[bi] || li.in[bi] == nil {
				continue
			}
			st := li.in[bi].clone()
			blockEntryHook(b, st, recvAcquire)
			for _, nd := range b.Nodes {
				applyNodeHook(f, b, nd, st, recvAcquire)
			}
			for _, s := range g.succs[bi] {
				if li.in[s] == nil {
					li.in[s] = st.clone()
					changed = true
				} else {
					nw := intersect(li.in[s], st)
					if len(nw) != len(li.in[s]) {
						li.in[s] = nw
						changed = true
					}
				}
			}
		}
	}
	return li
}

func blockEntryHook(b *cfg.Block, st LockSet, recvAcquire map[string]string) {
	if len(recvAcquire) == 0 || b.Kind != cfg.KindSelectCaseBody {
		return
	}
	cc, ok := b.Stmt.(*ast.CommClause)
	if !ok || cc.Comm == nil {
		return
	}
	if es, ok := cc.Comm.(*ast.ExprStmt); ok {
		if u, ok := es.X.(*ast.UnaryExpr); ok && u.Op == token.ARROW {
			if p, ok := recvAcquire[exprStr(u.X)]; ok {
				st[p] = true
			}
		}
	}
}

func applyNodeHook(f *Func, b *cfg.Block, nd ast.Node, st LockSet, recvAcquire map[string]string) {
	// plain statement `<-ch` (not a select comm evaluated in the pre-block)
	if es, ok := nd.(*ast.ExprStmt); ok && len(recvAcquire) > 0 {
		if u, ok := es.X.(*ast.UnaryExpr); ok && u.Op == token.ARROW {
			if p, ok := recvAcquire[exprStr(u.X)]; ok && !isSelectComm(f, es) {
				st[p] = true
			}
		}
	}
	applyLockNode(f, nd, st, nil)
}

func isSelectComm(f *Func, es *ast.ExprStmt) bool {
	found := false
	ast.Inspect(f.Decl.Body, func(x ast.Node) bool {
		if cc, ok := x.(*ast.CommClause); ok && cc.Comm == ast.Stmt(es) {
			found = true
		}
		return !found
	})
	return found
}

func heldAtHook(li *LockInfo, l Loc, recvAcquire map[string]string) LockSet {
	if l.B >= len(li.in) || li.in[l.B] == nil {
		return LockSet{}
	}
	st := li.in[l.B].clone()
	blk := li.g.C.Blocks[l.B]
	blockEntryHook(blk, st, recvAcquire)
	for i := 0; i < l.I && i < len(blk.Nodes); i++ {
		applyNodeHook(li.f, blk, blk.Nodes[i], st, recvAcquire)
	}
	return st
}

// HeldAtNode returns the must-lockset at an arbitrary node of the function.
func (e *lockEnv) HeldAtNode(n ast.Node) (LockSet, bool) {
	body, lit := e.enclosingBody(n)
	li := e.compute(body, lit)
	l, ok := li.g.LocOf(n)
	if !ok {
		return nil, false
	}
	return heldAtHook(li, l, e.recvAcquire), true
}

// GuardSpec describes one guarded-by obligation family.
type GuardSpec struct {
	Rule        string
	Type, Field string
	Mutex       string              // sibling field name of the mutex in the same struct
	EntryLocks  map[string][]string // function key -> canonical lock paths held on entry
	RecvAcquire map[string]map[string]string
	Exempt      map[string]string // "fnKey: expr" -> reason
	ReadsToo    bool
	SkipFuncs   map[string]string // function key -> reason (constructors before publication)
}

// guardedByRule checks every access of the field.
func guardedByRule(c *Ctx, m *Module, pkg string, spec GuardSpec) int {
	fv := m.Field(pkg, spec.Type, spec.Field)
	if fv == nil {
		c.Undecided("anchor", pkg+"."+spec.Type+"."+spec.Field, 0, m, "field not found")
		return 0
	}
	n := 0
	used := map[string]bool{}
	funcs := m.FuncsIn(pkg)
	for _, f := range funcs {
		accs := accessesOf(f, fv)
		if len(accs) == 0 {
			continue
		}
		if why, ok := spec.SkipFuncs[f.Key]; ok {
			used["skip:"+f.Key] = true
			c.OK(spec.Rule, f.Key+": "+spec.Type+"."+spec.Field, f.Pos(), m, "exempt function: "+why)
			continue
		}
		c.Touch(f)
		env := newLockEnv(f, spec.EntryLocks[f.Key], spec.RecvAcquire[f.Key])
		seen := map[string]int{}
		for _, a := range accs {
			if !a.Write && !spec.ReadsToo {
				continue
			}
			n++
			want := a.Base + "." + spec.Mutex
			cons := f.Key + ": " + exprStr(a.Node)
			if a.Write {
				cons += " (write)"
			}
			seen[cons]++
			if seen[cons] > 1 {
				cons += "#" + string(rune('0'+seen[cons]))
			}
			held, ok := env.HeldAtNode(a.Node)
			if !ok {
				c.Undecided(spec.Rule, cons, a.Node.Pos(), m, "access not located in a CFG")
				continue
			}
			if held.Holds(want, a.Write) {
				c.OK(spec.Rule, cons, a.Node.Pos(), m, "holds "+want)
				continue
			}
			base := strings.TrimSuffix(strings.TrimSuffix(cons, "#2"), "#3")
			if why, ok := spec.Exempt[base]; ok {
				used[base] = true
				c.OK(spec.Rule, cons, a.Node.Pos(), m, "exempt: "+why)
				continue
			}
			c.Fail(spec.Rule, cons, a.Node.Pos(), m, spec.Type+"."+spec.Field+" is accessed without "+want+" held (must-lockset here: "+held.String()+")")
		}
	}
	var stale []string
	for k := range spec.Exempt {
		if !used[k] {
			stale = append(stale, k)
		}
	}
	sort.Strings(stale)
	for _, k := range stale {
		c.Undecided(spec.Rule, k, 0, m, "exemption matches no unguarded access (stale table entry)")
	}
	_ = types.Typ
	return n
}
