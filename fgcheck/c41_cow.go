package main

import (
	"fmt"
	"go/ast"
	"go/token"
	"go/types"
	"os"
	"strings"
)

// (5b) published copy-on-write maps are never mutated in place.
//
// A map that is published through an atomic.Value (topicsPartitions.v,
// consumer.paused, Client.id2t, amtps.v, groupExternal.tps ...) is read
// lock-free by other goroutines.  Writers must clone, edit the clone and
// store it.  The rule is origin based and type resolved:
//
//   - published origin: a type assertion to a map type of an atomic.Value
//     Load(), or a call of a *loader* (a kgo function one of whose returns may
//     be such a value; computed to a fixpoint);
//   - fresh origin: make, a composite literal, maps.Clone/Collect, or a call of
//     a *fresh function* (every return is a fresh local; fixpoint): clone(),
//     clonePaused(), dupmsi32 ...;
//   - a map mutation (m[k] = v, m[k] op= v, delete, clear, maps.Copy/Insert/
//     DeleteFunc with m as destination, or passing m in a position that a kgo
//     function mutates) must not be reachable, in the CFG, from a definition
//     of m with published origin without passing another assignment of m; nor
//     from a (non-deferred) publish of m;
//   - the "clone lazily" idiom `if !cloned { m = t.clone(); cloned = true }`
//     is accepted when the flag is a local bool that starts false, is only ever
//     set to true next to a fresh assignment of m, no published definition of m
//     is reachable after the flag is set, and the guard dominates the write;
//   - for the named published map types (topicsPartitionsData, pausedTopics)
//     every mutation must be positively justified (fresh local, or the
//     function's own parameter whose call sites are then checked).

type c41cowDef struct {
	node ast.Node // statement (nil = parameter / entry)
	rhs  ast.Expr // nil = unknown
	lit  *ast.FuncLit
	idx  int // result index when rhs is a multi-value call
}

type c41cowA struct {
	c      *Ctx
	m      *Module
	funcs  []*Func
	byObj  map[types.Object]*Func
	loader map[*Func]bool
	fresh  map[*Func]bool
	// mutated parameter positions (-1 = receiver) per function
	mut   map[*Func]map[int]bool
	pub   map[*Func]map[int]bool
	named map[types.Object]bool
	// cbPub[f][j][k]: f calls its function-typed parameter j with the published map in argument k
	cbPub     map[*Func]map[int]map[int]bool
	pubParams map[*types.Var]bool // parameters that receive a published map from such a caller
	defs      map[*types.Var][]c41cowDef
	report    bool
	nSites    int
	seen      map[string]int
}

func c41isMap(t types.Type) bool {
	if t == nil {
		return false
	}
	_, ok := t.Underlying().(*types.Map)
	return ok
}

func c41atomicValueCall(info *types.Info, e ast.Expr, names ...string) (*ast.CallExpr, bool) {
	call, ok := unparen(e).(*ast.CallExpr)
	if !ok {
		return nil, false
	}
	sel, ok := unparen(call.Fun).(*ast.SelectorExpr)
	if !ok {
		return nil, false
	}
	match := false
	for _, n := range names {
		if sel.Sel.Name == n {
			match = true
		}
	}
	if !match {
		return nil, false
	}
	t := info.Types[sel.X].Type
	if t == nil {
		return nil, false
	}
	if p, ok := t.(*types.Pointer); ok {
		t = p.Elem()
	}
	return call, types.Unalias(t).String() == "sync/atomic.Value"
}

func (a *c41cowA) localVar(f *Func, e ast.Expr) *types.Var {
	id, ok := unparen(e).(*ast.Ident)
	if !ok {
		return nil
	}
	v, _ := f.Info().Uses[id].(*types.Var)
	if v == nil {
		v, _ = f.Info().Defs[id].(*types.Var)
	}
	if v == nil || v.IsField() || v.Pkg() == nil || v.Parent() == v.Pkg().Scope() {
		return nil
	}
	return v
}

// collectDefs indexes every definition of every local variable of f.
func (a *c41cowA) collectDefs(f *Func) {
	info := f.Info()
	add := func(id *ast.Ident, d c41cowDef) {
		v, _ := info.Defs[id].(*types.Var)
		if v == nil {
			v, _ = info.Uses[id].(*types.Var)
		}
		if v == nil || v.IsField() {
			return
		}
		d.lit = nil
		if d.node != nil {
			d.lit = innermostLit(f, d.node)
		}
		a.defs[v] = append(a.defs[v], d)
	}
	params := func(ft *ast.FuncType, recv *ast.FieldList, lit *ast.FuncLit) {
		for _, fl := range []*ast.FieldList{recv, ft.Params} {
			if fl == nil {
				continue
			}
			for _, p := range fl.List {
				for _, nm := range p.Names {
					if v, _ := info.Defs[nm].(*types.Var); v != nil {
						a.defs[v] = append(a.defs[v], c41cowDef{lit: lit})
					}
				}
			}
		}
		if ft.Results != nil {
			for _, p := range ft.Results.List {
				for _, nm := range p.Names {
					if v, _ := info.Defs[nm].(*types.Var); v != nil {
						a.defs[v] = append(a.defs[v], c41cowDef{lit: lit, rhs: &ast.Ident{Name: "nil"}})
					}
				}
			}
		}
	}
	params(f.Decl.Type, f.Decl.Recv, nil)
	ast.Inspect(f.Decl.Body, func(x ast.Node) bool {
		switch s := x.(type) {
		case *ast.FuncLit:
			params(s.Type, nil, s)
		case *ast.AssignStmt:
			for i, l := range s.Lhs {
				id, ok := unparen(l).(*ast.Ident)
				if !ok || id.Name == "_" {
					continue
				}
				d := c41cowDef{node: s}
				switch {
				case s.Tok != token.ASSIGN && s.Tok != token.DEFINE:
				case len(s.Rhs) == len(s.Lhs):
					d.rhs = s.Rhs[i]
				case len(s.Rhs) == 1:
					d.rhs, d.idx = s.Rhs[0], i
				}
				add(id, d)
			}
		case *ast.ValueSpec:
			for i, id := range s.Names {
				d := c41cowDef{node: s}
				switch {
				case len(s.Values) == len(s.Names):
					d.rhs = s.Values[i]
				case len(s.Values) == 1:
					d.rhs, d.idx = s.Values[0], i
				case len(s.Values) == 0:
					d.rhs = &ast.Ident{Name: "nil"} // zero value
				}
				add(id, d)
			}
		case *ast.RangeStmt:
			for _, l := range []ast.Expr{s.Key, s.Value} {
				if id, ok := l.(*ast.Ident); ok && id.Name != "_" {
					add(id, c41cowDef{node: s})
				}
			}
		}
		return true
	})
}

const (
	c41oUnknown = iota
	c41oFresh
	c41oPublished
)

// originOf classifies an expression that yields a map.
func (a *c41cowA) originOf(f *Func, e ast.Expr, idx int, depth int) int {
	if e == nil || depth > 6 {
		return c41oUnknown
	}
	info := f.Info()
	switch x := unparen(e).(type) {
	case *ast.CompositeLit:
		return c41oFresh
	case *ast.TypeAssertExpr:
		if x.Type == nil || !c41isMap(info.Types[x.Type].Type) {
			return c41oUnknown
		}
		if _, ok := c41atomicValueCall(info, x.X, "Load", "Swap"); ok {
			return c41oPublished
		}
		if v := a.localVar(f, x.X); v != nil {
			for _, d := range a.defs[v] {
				if _, ok := c41atomicValueCall(info, d.rhs, "Load", "Swap"); ok && d.rhs != nil {
					return c41oPublished
				}
			}
		}
		return c41oUnknown
	case *ast.Ident:
		if x.Name == "nil" && info.Uses[x] == nil || info.Uses[x] == types.Universe.Lookup("nil") {
			return c41oFresh
		}
		v := a.localVar(f, x)
		if v == nil || len(a.defs[v]) == 0 {
			return c41oUnknown
		}
		if a.pubParams[v] {
			return c41oPublished
		}
		res := c41oFresh
		for _, d := range a.defs[v] {
			switch a.originOf(f, d.rhs, d.idx, depth+1) {
			case c41oPublished:
				return c41oPublished
			case c41oUnknown:
				res = c41oUnknown
			}
		}
		return res
	case *ast.CallExpr:
		if id, ok := unparen(x.Fun).(*ast.Ident); ok {
			if _, isB := info.Uses[id].(*types.Builtin); isB && id.Name == "make" {
				return c41oFresh
			}
		}
		// conversion T(x)
		if tv, ok := info.Types[x.Fun]; ok && tv.IsType() && len(x.Args) == 1 {
			return a.originOf(f, x.Args[0], 0, depth+1)
		}
		o := calleeObj(info, x)
		if o == nil {
			return c41oUnknown
		}
		if o.Pkg() != nil && o.Pkg().Path() == "maps" && (o.Name() == "Clone" || o.Name() == "Collect") {
			return c41oFresh
		}
		if cf := a.byObj[origin(o)]; cf != nil {
			if a.loader[cf] {
				return c41oPublished
			}
			if a.fresh[cf] {
				return c41oFresh
			}
		}
	}
	return c41oUnknown
}

// summaries: loader / fresh functions to a fixpoint
func (a *c41cowA) summaries() {
	type ret struct {
		f   *Func
		res [][]ast.Expr // per return statement: map-typed result expressions
	}
	var rets []ret
	for _, f := range a.funcs {
		sig := f.Obj.Type().(*types.Signature)
		var idxs []int
		for i := 0; i < sig.Results().Len(); i++ {
			if c41isMap(sig.Results().At(i).Type()) {
				idxs = append(idxs, i)
			}
		}
		if len(idxs) == 0 {
			continue
		}
		r := ret{f: f}
		ast.Inspect(f.Decl.Body, func(x ast.Node) bool {
			if _, ok := x.(*ast.FuncLit); ok {
				return false
			}
			rs, ok := x.(*ast.ReturnStmt)
			if !ok {
				return true
			}
			var es []ast.Expr
			for _, i := range idxs {
				switch {
				case len(rs.Results) == sig.Results().Len():
					es = append(es, rs.Results[i])
				case len(rs.Results) == 0 && f.Decl.Type.Results != nil:
					// named results
					k := 0
					for _, fl := range f.Decl.Type.Results.List {
						for _, nm := range fl.Names {
							if k == i {
								es = append(es, nm)
							}
							k++
						}
					}
				default:
					es = append(es, nil)
				}
			}
			r.res = append(r.res, es)
			return true
		})
		rets = append(rets, r)
	}
	for changed := true; changed; {
		changed = false
		for _, r := range rets {
			isLoader, allFresh := false, len(r.res) > 0
			for _, es := range r.res {
				for _, e := range es {
					switch a.originOf(r.f, e, 0, 0) {
					case c41oPublished:
						isLoader = true
						allFresh = false
					case c41oUnknown:
						allFresh = false
					}
				}
			}
			if isLoader && !a.loader[r.f] {
				a.loader[r.f] = true
				a.fresh[r.f] = false
				changed = true
			}
			if allFresh && !a.fresh[r.f] && !a.loader[r.f] {
				a.fresh[r.f] = true
				changed = true
			}
			if !allFresh && a.fresh[r.f] {
				a.fresh[r.f] = false
				changed = true
			}
		}
	}
}

type c41cowSite struct {
	node ast.Node
	x    ast.Expr
	what string
	weak bool // callee unknown (function value): only a reaching published origin is reported
}

func (a *c41cowA) paramIndex(f *Func, lit *ast.FuncLit, v *types.Var) (int, bool) {
	if lit != nil {
		return 0, false
	}
	info := f.Info()
	if f.Decl.Recv != nil {
		for _, p := range f.Decl.Recv.List {
			for _, nm := range p.Names {
				if info.Defs[nm] == types.Object(v) {
					return -1, true
				}
			}
		}
	}
	i := 0
	for _, p := range f.Decl.Type.Params.List {
		if len(p.Names) == 0 {
			i++
		}
		for _, nm := range p.Names {
			if info.Defs[nm] == types.Object(v) {
				return i, true
			}
			i++
		}
	}
	return 0, false
}

// argAt returns the expression passed in position i (-1 = receiver).
func c41argAt(info *types.Info, call *ast.CallExpr, i int) ast.Expr {
	if i == -1 {
		sel, ok := unparen(call.Fun).(*ast.SelectorExpr)
		if !ok {
			return nil
		}
		if tv, ok := info.Types[sel.X]; ok && tv.IsType() {
			if len(call.Args) > 0 {
				return call.Args[0]
			}
			return nil
		}
		return sel.X
	}
	if i < len(call.Args) {
		return call.Args[i]
	}
	if len(call.Args) > 0 && call.Ellipsis.IsValid() {
		return nil
	}
	return nil
}

func (a *c41cowA) sites(f *Func) []c41cowSite {
	info := f.Info()
	var out []c41cowSite
	idxBase := func(e ast.Expr) ast.Expr {
		if ix, ok := unparen(e).(*ast.IndexExpr); ok && c41isMap(info.Types[ix.X].Type) {
			return ix.X
		}
		return nil
	}
	ast.Inspect(f.Decl.Body, func(x ast.Node) bool {
		switch s := x.(type) {
		case *ast.AssignStmt:
			for _, l := range s.Lhs {
				if b := idxBase(l); b != nil {
					out = append(out, c41cowSite{s, b, "element store", false})
				}
			}
		case *ast.IncDecStmt:
			if b := idxBase(s.X); b != nil {
				out = append(out, c41cowSite{s, b, "element update", false})
			}
		case *ast.CallExpr:
			if id, ok := unparen(s.Fun).(*ast.Ident); ok {
				if _, isB := info.Uses[id].(*types.Builtin); isB {
					if (id.Name == "delete" || id.Name == "clear") && len(s.Args) > 0 && c41isMap(info.Types[s.Args[0]].Type) {
						out = append(out, c41cowSite{s, s.Args[0], id.Name, false})
					}
					return true
				}
			}
			o := calleeObj(info, s)
			if _, isVar := o.(*types.Var); isVar || o == nil {
				// call through a function value: the callee may mutate its map argument
				if tv, ok := info.Types[s.Fun]; ok && !tv.IsType() {
					if _, isSig := tv.Type.Underlying().(*types.Signature); isSig {
						// a local closure with a single literal definition: look into it
						if fv := a.localVar(f, s.Fun); fv != nil && len(a.defs[fv]) == 1 {
							if lit, ok := unparen(a.defs[fv][0].rhs).(*ast.FuncLit); ok && a.defs[fv][0].rhs != nil {
								for i, arg := range s.Args {
									if c41isMap(info.Types[arg].Type) && a.litMutatesParam(f, lit, i) {
										out = append(out, c41cowSite{s, arg, "passed to the closure " + exprStr(s.Fun) + ", which mutates it", false})
									}
								}
								return true
							}
						}
						for _, arg := range s.Args {
							if c41isMap(info.Types[arg].Type) && a.localVar(f, arg) != nil {
								out = append(out, c41cowSite{s, arg, "hand-off to the function value " + exprStr(s.Fun), true})
							}
						}
					}
				}
				return true
			}
			if o.Pkg() != nil && o.Pkg().Path() == "maps" && (o.Name() == "Copy" || o.Name() == "Insert" || o.Name() == "DeleteFunc") && len(s.Args) > 0 {
				out = append(out, c41cowSite{s, s.Args[0], "maps." + o.Name() + " destination", false})
				return true
			}
			if cf := a.byObj[origin(o)]; cf != nil {
				for i := range a.mut[cf] {
					if arg := c41argAt(info, s, i); arg != nil && c41isMap(info.Types[arg].Type) {
						out = append(out, c41cowSite{s, arg, "passed to " + cf.Key + ", which mutates it", false})
					}
				}
			}
		}
		return true
	})
	return out
}

// litMutatesParam: the literal's body contains a direct map mutation of its i-th parameter.
func (a *c41cowA) litMutatesParam(f *Func, lit *ast.FuncLit, i int) bool {
	info := f.Info()
	var pv types.Object
	k := 0
	for _, p := range lit.Type.Params.List {
		if len(p.Names) == 0 {
			k++
		}
		for _, nm := range p.Names {
			if k == i {
				pv = info.Defs[nm]
			}
			k++
		}
	}
	if pv == nil {
		return true // unnamed / variadic: unknown
	}
	isP := func(e ast.Expr) bool {
		id, ok := unparen(e).(*ast.Ident)
		return ok && info.Uses[id] == pv
	}
	mut := false
	ast.Inspect(lit.Body, func(x ast.Node) bool {
		switch s := x.(type) {
		case *ast.AssignStmt:
			for _, l := range s.Lhs {
				if ix, ok := unparen(l).(*ast.IndexExpr); ok && isP(ix.X) {
					mut = true
				}
				if isP(l) {
					return true
				}
			}
		case *ast.IncDecStmt:
			if ix, ok := unparen(s.X).(*ast.IndexExpr); ok && isP(ix.X) {
				mut = true
			}
		case *ast.CallExpr:
			// any call that receives the parameter (delete, clear, maps.Copy, another function) may mutate it,
			// except len and calls of kgo functions known not to mutate that position
			for j, arg := range s.Args {
				if !isP(arg) {
					continue
				}
				if id, ok := unparen(s.Fun).(*ast.Ident); ok {
					if _, isB := info.Uses[id].(*types.Builtin); isB {
						if id.Name != "len" {
							mut = true
						}
						continue
					}
				}
				if cf := a.byObj[origin(calleeObj(info, s))]; cf != nil {
					if a.mut[cf][j] {
						mut = true
					}
					continue
				}
				mut = true
			}
			if sel, ok := unparen(s.Fun).(*ast.SelectorExpr); ok && isP(sel.X) {
				if cf := a.byObj[origin(calleeObj(info, s))]; cf == nil || a.mut[cf][-1] {
					mut = true
				}
			}
		}
		return true
	})
	return mut
}

func (a *c41cowA) assignsVar(f *Func, n ast.Node, v *types.Var) bool {
	found := false
	ast.Inspect(n, func(x ast.Node) bool {
		if found {
			return false
		}
		switch s := x.(type) {
		case *ast.FuncLit:
			return false
		case *ast.AssignStmt:
			for _, l := range s.Lhs {
				if a.localVar(f, l) == v {
					found = true
				}
			}
		}
		return true
	})
	return found
}

// reaches: some CFG path from the definition (nil node = entry) to the write
// without another assignment of v.
func (a *c41cowA) reaches(f *Func, g *Graph, from ast.Node, w ast.Node, v *types.Var) bool {
	wl, ok := g.LocOf(w)
	if !ok {
		return true
	}
	start := Loc{-1, 0}
	if from != nil {
		l, ok := g.LocOf(from)
		if !ok {
			return true
		}
		start = l
		if l == wl {
			return false
		}
	}
	_, found := g.FindPath(start, SearchOpts{
		Stop: func(n ast.Node) bool {
			if l, ok := g.LocOf(n); ok && l == wl {
				return false
			}
			return a.assignsVar(f, n, v)
		},
		GoalNode: func(n ast.Node) bool { l, ok := g.LocOf(n); return ok && l == wl },
	})
	return found
}

// lazyCloneGuard: the write is dominated by `if !F { v = <fresh>; F = true }`.
func (a *c41cowA) lazyCloneGuard(f *Func, g *Graph, w ast.Node, v *types.Var, body ast.Node) bool {
	info := f.Info()
	wl, ok := g.LocOf(w)
	if !ok {
		return false
	}
	ok = false
	ast.Inspect(body, func(x ast.Node) bool {
		ifs, isIf := x.(*ast.IfStmt)
		if !isIf || ifs.Else != nil || ifs.Init != nil {
			return true
		}
		u, isNot := unparen(ifs.Cond).(*ast.UnaryExpr)
		if !isNot || u.Op != token.NOT {
			return true
		}
		flag := a.localVar(f, u.X)
		if flag == nil || types.Unalias(flag.Type()).String() != "bool" {
			return true
		}
		// the flag: starts false, only ever set to true, always next to a fresh assignment of v
		for _, d := range a.defs[flag] {
			if d.node == nil {
				return true
			}
			if _, isSpec := d.node.(*ast.ValueSpec); isSpec {
				if id, isId := d.rhs.(*ast.Ident); !isId || id.Name != "nil" {
					if b, isB := constBool(info, d.rhs); !isB || b {
						return true
					}
				}
				continue
			}
			if b, isB := constBool(info, d.rhs); !isB || !b {
				if as, isAs := d.node.(*ast.AssignStmt); isAs && as.Tok == token.DEFINE {
					if b2, isB2 := constBool(info, d.rhs); isB2 && !b2 {
						continue
					}
				}
				return true
			}
			// `F = true` must sit in a block that also freshly assigns v
			blk := c41enclosingBlock(body, d.node)
			freshHere := false
			if blk != nil {
				for _, st := range blk.List {
					if as, isAs := st.(*ast.AssignStmt); isAs && len(as.Lhs) == 1 && len(as.Rhs) == 1 && a.localVar(f, as.Lhs[0]) == v &&
						a.originOf(f, as.Rhs[0], 0, 0) == c41oFresh {
						freshHere = true
					}
				}
			}
			if !freshHere {
				return true
			}
			// once the flag is set no published definition of v is reachable
			for _, vd := range a.defs[v] {
				if vd.node == nil || a.originOf(f, vd.rhs, vd.idx, 0) == c41oFresh {
					continue
				}
				fl, ok1 := g.LocOf(d.node)
				tl, ok2 := g.LocOf(vd.node)
				if !ok1 || !ok2 {
					return true
				}
				if _, found := g.FindPath(fl, SearchOpts{GoalNode: func(n ast.Node) bool { l, ok := g.LocOf(n); return ok && l == tl }}); found {
					return true
				}
			}
		}
		// the guard body itself freshly assigns v and sets the flag
		setsFlag, freshV := false, false
		for _, st := range ifs.Body.List {
			if as, isAs := st.(*ast.AssignStmt); isAs && len(as.Lhs) == 1 && len(as.Rhs) == 1 {
				if a.localVar(f, as.Lhs[0]) == v && a.originOf(f, as.Rhs[0], 0, 0) == c41oFresh {
					freshV = true
				}
				if a.localVar(f, as.Lhs[0]) == flag {
					if b, isB := constBool(info, as.Rhs[0]); isB && b {
						setsFlag = true
					}
				}
			}
		}
		if !setsFlag || !freshV {
			return true
		}
		cl, okc := g.LocOf(ifs.Cond)
		if okc && g.Dominates(cl, wl) && cl != wl {
			// no assignment of v between the guard and the write other than the guard's own
			ok = true
		}
		return true
	})
	return ok
}

func c41enclosingBlock(root ast.Node, n ast.Node) *ast.BlockStmt {
	var best *ast.BlockStmt
	ast.Inspect(root, func(x ast.Node) bool {
		if x == nil || x.Pos() > n.Pos() || x.End() < n.End() {
			return false
		}
		if b, ok := x.(*ast.BlockStmt); ok {
			best = b
		}
		return true
	})
	return best
}

func (a *c41cowA) cons(f *Func, s c41cowSite) string {
	k := f.Key + ": " + s.what + " on " + exprStr(s.x)
	if strings.HasPrefix(s.what, "passed to ") {
		k = f.Key + ": " + exprStr(s.x) + " " + s.what
	}
	a.seen[k]++
	if a.seen[k] > 1 {
		k += "#" + string(rune('0'+a.seen[k]%40))
	}
	return k
}

// publishes: non-deferred statements that publish v (atomic Store or a kgo publisher).
func (a *c41cowA) publishNodes(f *Func, body ast.Node, v *types.Var) []ast.Node {
	info := f.Info()
	var out []ast.Node
	pm := parentMap(body)
	ast.Inspect(body, func(x ast.Node) bool {
		if _, ok := x.(*ast.FuncLit); ok && x != body {
			return false
		}
		call, ok := x.(*ast.CallExpr)
		if !ok {
			return true
		}
		switch pm[call].(type) {
		case *ast.DeferStmt, *ast.GoStmt:
			return true
		}
		if _, isStore := c41atomicValueCall(info, call, "Store", "Swap", "CompareAndSwap"); isStore {
			for _, arg := range call.Args {
				if a.localVar(f, arg) == v {
					out = append(out, call)
				}
			}
			return true
		}
		if o := calleeObj(info, call); o != nil {
			if cf := a.byObj[origin(o)]; cf != nil {
				for i := range a.pub[cf] {
					if arg := c41argAt(info, call, i); arg != nil && a.localVar(f, arg) == v {
						out = append(out, call)
					}
				}
			}
		}
		return true
	})
	return out
}

func (a *c41cowA) checkSite(f *Func, s c41cowSite) {
	rule := "cow-published-map-write"
	c, m := a.c, a.m
	info := f.Info()
	t := info.Types[s.x].Type
	named := false
	if nt, ok := types.Unalias(t).(*types.Named); ok && a.named[nt.Obj()] {
		named = true
	}
	fail := func(why string, pos token.Pos) {
		if a.report {
			c.Fail(rule, a.cons(f, s), s.node.Pos(), m, why+": the map is read lock-free by other goroutines through the atomic value (Produce/Poll/metadata paths), so an in-place "+s.what+" is a data race (concurrent map read and map write); clone, edit the clone, store it")
		}
		_ = pos
	}
	x := unparen(s.x)
	v := a.localVar(f, x)
	if v == nil {
		if s.weak {
			return
		}
		switch a.originOf(f, x, 0, 0) {
		case c41oPublished:
			a.nSites++
			fail("the mutated map "+exprStr(x)+" is the published map itself", s.node.Pos())
		case c41oFresh:
		default:
			if named && a.report {
				a.nSites++
				c.Undecided(rule, a.cons(f, s), s.node.Pos(), m, "a value of the published map type "+t.String()+" is mutated through "+exprStr(x)+", whose origin (fresh clone or published snapshot) is not a local definition")
			}
		}
		return
	}
	lit := innermostLit(f, s.node)
	var body ast.Node = f.Decl.Body
	if lit != nil {
		body = lit.Body
	}
	g := f.GraphFor(s.node)
	inScope := named
	var bad []string
	unknownReach := false
	for _, d := range a.defs[v] {
		o := c41oUnknown
		if d.node != nil || d.rhs != nil {
			o = a.originOf(f, d.rhs, d.idx, 0)
		} else if a.pubParams[v] {
			o = c41oPublished
		}
		if o == c41oFresh {
			if d.rhs != nil {
				if call, ok := unparen(d.rhs).(*ast.CallExpr); ok {
					if cf := a.byObj[origin(calleeObj(info, call))]; cf != nil && a.fresh[cf] {
						inScope = true
					}
				}
			}
			continue
		}
		if o == c41oPublished {
			inScope = true
		}
		// definition in another body (captured variable): no flow information
		reach := true
		if d.lit == lit {
			reach = a.reaches(f, g, d.node, s.node, v)
		}
		if !reach {
			continue
		}
		if o == c41oPublished {
			if d.lit == lit && a.lazyCloneGuard(f, g, s.node, v, body) {
				continue
			}
			if d.node == nil {
				bad = append(bad, "the parameter "+v.Name()+" receives the published map from a caller that runs the callback over the loaded snapshot")
			} else {
				bad = append(bad, exprStr(v0(d.rhs))+" at "+m.Position(d.node.Pos()))
			}
			continue
		}
		// unknown origin
		if s.weak {
			continue
		}
		if d.node == nil {
			if i, ok := a.paramIndex(f, d.lit, v); ok && d.lit == nil && lit == nil {
				if a.mut[f] == nil {
					a.mut[f] = map[int]bool{}
				}
				a.mut[f][i] = true
				continue
			}
		}
		unknownReach = true
	}
	for _, p := range a.publishNodes(f, body, v) {
		if a.reaches(f, g, p, s.node, v) {
			inScope = true
			bad = append(bad, "it was already published by "+exprStr(p)+" at "+m.Position(p.Pos()))
		}
	}
	if !inScope || s.weak && len(bad) == 0 {
		return
	}
	if s.weak && lit == nil {
		// the callee is a function-typed parameter of f: callers' callbacks are analysed with a published parameter
		if call, ok := s.node.(*ast.CallExpr); ok {
			if fv := a.localVar(f, call.Fun); fv != nil {
				if j, ok := a.paramIndex(f, nil, fv); ok {
					for k, arg := range call.Args {
						if arg == s.x {
							if a.cbPub[f] == nil {
								a.cbPub[f] = map[int]map[int]bool{}
							}
							if a.cbPub[f][j] == nil {
								a.cbPub[f][j] = map[int]bool{}
							}
							a.cbPub[f][j][k] = true
						}
					}
					a.nSites++
					if a.report {
						c.OK(rule, a.cons(f, s), s.node.Pos(), m, "the published map is handed to the callback parameter "+fv.Name()+": every callback passed by a caller is analysed with a published parameter")
					}
					return
				}
			}
		}
	}
	a.nSites++
	if !a.report {
		return
	}
	switch {
	case len(bad) > 0:
		fail("the mutated map "+v.Name()+" is (on some path) the published snapshot: "+strings.Join(bad, "; "), s.node.Pos())
	case unknownReach && named:
		c.Undecided(rule, a.cons(f, s), s.node.Pos(), m, "a value of the published map type "+t.String()+" is mutated but a definition of "+v.Name()+" with unknown origin reaches the write")
	default:
		c.OK(rule, a.cons(f, s), s.node.Pos(), m, "every definition of "+v.Name()+" that reaches the write is a fresh map (clone/make/literal) or the function's own parameter (call sites checked)")
	}
}

func v0(e ast.Expr) ast.Node {
	if e == nil {
		return &ast.Ident{Name: "?"}
	}
	return e
}

// markPubParams: callbacks handed to a function that runs them over the published map.
func (a *c41cowA) markPubParams() {
	if len(a.cbPub) == 0 {
		return
	}
	for _, f := range a.funcs {
		info := f.Info()
		ast.Inspect(f.Decl.Body, func(x ast.Node) bool {
			call, ok := x.(*ast.CallExpr)
			if !ok {
				return true
			}
			cf := a.byObj[origin(calleeObj(info, call))]
			if cf == nil || a.cbPub[cf] == nil {
				return true
			}
			for j, ks := range a.cbPub[cf] {
				arg := c41argAt(info, call, j)
				if arg == nil {
					continue
				}
				var ft *ast.FuncType
				var defsOf func(*ast.Ident) types.Object
				switch e := unparen(arg).(type) {
				case *ast.FuncLit:
					ft, defsOf = e.Type, func(id *ast.Ident) types.Object { return info.Defs[id] }
				default:
					if g := a.byObj[origin(c41funcObjOf(info, e))]; g != nil {
						ft, defsOf = g.Decl.Type, func(id *ast.Ident) types.Object { return g.Info().Defs[id] }
					}
				}
				if ft == nil {
					continue
				}
				k := 0
				for _, p := range ft.Params.List {
					if len(p.Names) == 0 {
						k++
					}
					for _, nm := range p.Names {
						if ks[k] {
							if v, _ := defsOf(nm).(*types.Var); v != nil {
								a.pubParams[v] = true
							}
						}
						k++
					}
				}
			}
			return true
		})
	}
}

// c41funcObjOf: the function object an expression names (identifier or method value).
func c41funcObjOf(info *types.Info, e ast.Expr) types.Object {
	switch x := unparen(e).(type) {
	case *ast.Ident:
		if fn, ok := info.Uses[x].(*types.Func); ok {
			return fn
		}
	case *ast.SelectorExpr:
		if fn, ok := info.Uses[x.Sel].(*types.Func); ok {
			return fn
		}
	}
	return nil
}

func c41cowPublished(c *Ctx, m *Module) {
	rule := "cow-published-map-write"
	a := &c41cowA{c: c, m: m, funcs: m.FuncsIn("kgo"), byObj: map[types.Object]*Func{}, loader: map[*Func]bool{}, fresh: map[*Func]bool{},
		mut: map[*Func]map[int]bool{}, pub: map[*Func]map[int]bool{}, named: map[types.Object]bool{}, cbPub: map[*Func]map[int]map[int]bool{}, pubParams: map[*types.Var]bool{}, defs: map[*types.Var][]c41cowDef{}, seen: map[string]int{}}
	for _, f := range a.funcs {
		a.byObj[origin(f.Obj)] = f
		a.collectDefs(f)
	}
	// named published map types and publisher functions
	nLoads := 0
	for _, f := range a.funcs {
		info := f.Info()
		ast.Inspect(f.Decl.Body, func(x ast.Node) bool {
			switch e := x.(type) {
			case *ast.TypeAssertExpr:
				if e.Type == nil {
					return true
				}
				t := info.Types[e.Type].Type
				if !c41isMap(t) || a.originOf(f, e, 0, 0) != c41oPublished {
					return true
				}
				nLoads++
				if nt, ok := types.Unalias(t).(*types.Named); ok && nt.Obj().Pkg() != nil && nt.Obj().Pkg().Name() == "kgo" {
					a.named[nt.Obj()] = true
				}
			case *ast.CallExpr:
				if _, ok := c41atomicValueCall(info, e, "Store", "Swap", "CompareAndSwap"); ok {
					for _, arg := range e.Args {
						if v := a.localVar(f, arg); v != nil && c41isMap(v.Type()) {
							if i, ok := a.paramIndex(f, innermostLit(f, e), v); ok {
								if a.pub[f] == nil {
									a.pub[f] = map[int]bool{}
								}
								a.pub[f][i] = true
							}
						}
					}
				}
			}
			return true
		})
	}
	a.summaries()
	// mutator fixpoint (no reporting), then the reporting pass
	size := func() int {
		n := len(a.pubParams)
		for _, mm := range a.mut {
			n += len(mm)
		}
		for _, x := range a.cbPub {
			for _, y := range x {
				n += len(y)
			}
		}
		return n
	}
	for iter := 0; iter < 8; iter++ {
		before := size()
		a.markPubParams()
		a.nSites = 0
		for _, f := range a.funcs {
			for _, s := range a.sites(f) {
				a.checkSite(f, s)
			}
		}
		if size() == before {
			break
		}
	}
	a.report, a.nSites, a.seen = true, 0, map[string]int{}
	for _, f := range a.funcs {
		ss := a.sites(f)
		if len(ss) > 0 {
			for _, s := range ss {
				a.checkSite(f, s)
			}
		}
	}
	var ls, fs, ns []string
	for f, ok := range a.loader {
		if ok {
			ls = append(ls, f.Key)
		}
	}
	for f, ok := range a.fresh {
		if ok {
			fs = append(fs, f.Key)
		}
	}
	for o := range a.named {
		ns = append(ns, o.Name())
	}
	sortStrings(ls)
	sortStrings(fs)
	sortStrings(ns)
	c.Set("cow_loaders", ls)
	c.Set("cow_fresh_functions", fs)
	c.Set("cow_named_published_types", ns)
	// anchors confirmed on the pinned tree
	for _, k := range []string{"kgo.topicsPartitions.load", "kgo.consumer.loadPaused", "kgo.Client.id2tMap", "kgo.amtps.read"} {
		if f := c.NeedFunc(m, k); f != nil {
			c.Check(a.loader[f], rule, k+" is a loader", f.Pos(), m, "returns the atomically published map", "the function no longer returns the published map directly: re-confirm the copy-on-write origins")
		}
	}
	for _, k := range []string{"kgo.topicsPartitions.clone", "kgo.pausedTopics.clone", "kgo.consumer.clonePaused", "kgo.amtps.clone"} {
		if f := c.NeedFunc(m, k); f != nil {
			c.Check(a.fresh[f], rule, k+" returns a fresh map", f.Pos(), m, "every return is a freshly made map",
				k+" can return a map that is not freshly made in the function (e.g. the loaded snapshot itself): every writer that clones, edits and stores then edits the published map in place")
		}
	}
	if os.Getenv("FGCHECK_C41_STATS") != "" {
		for _, o := range c.Obs {
			if o.Rule == rule {
				fmt.Fprintln(os.Stderr, "COW", o.Verdict, o.Construct, o.Pos)
			}
		}
	}
	c.Floor(rule+"/atomic-map-loads", nLoads, 6)
	c.Floor(rule, a.nSites, c41floorCowWrites)
}

func sortStrings(s []string) {
	for i := 1; i < len(s); i++ {
		for j := i; j > 0 && s[j] < s[j-1]; j-- {
			s[j], s[j-1] = s[j-1], s[j]
		}
	}
}
