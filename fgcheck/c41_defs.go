package main

// Tables of C41.  Every entry was confirmed by reading the pinned tree.

// c41G is one guarded-by obligation family: Type.Field is accessed only with
// the sibling mutex Type.Mutex held.
type c41G struct {
	Type, Field, Mutex string
	Up                 int  // nested table only: the mutex lives Up levels above the struct (c.d.using <- c.mu)
	WritesOnly         bool // reads are deliberately lock-free (Why says why)
	Why                string
	Exempt             map[string]string // "fnKey: expr[ (write)]" -> reason
	Skip               map[string]string // function key -> reason (constructor before publication ...)
}

// c41E is one "entered with the lock held" assumption; every call site is
// checked by the locked-entry rule.
type c41E struct {
	Path         string            // canonical lock path inside the callee: $r = receiver, $pN = N-th parameter (resolved to the declared names at run time, so renames do not matter)
	Mutex        string            // "Type.field" of the mutex (lock-order naming)
	Read         bool              // a read lock at the call site is enough
	Trust        string            // non-empty: not call-site checked, with the reason
	CallerExempt map[string]string // caller key -> reason the lock is not needed there
	Values       map[string]string // function using it as a function value -> reason
}

func c41e(path, mutex string) []c41E { return []c41E{{Path: path, Mutex: mutex}} }

var c41entry = map[string][]c41E{
	"kgo.Client.addUnknownTopicRecord":           c41e("$r.producer.unknownTopicsMu", "producer.unknownTopicsMu"),
	"kgo.Client.finishBatch":                     c41e("$p0.owner.mu", "recBuf.mu"),
	"kgo.Client.reinitAnyBrokerOrd":              c41e("$r.brokersMu", "Client.brokersMu"),
	"kgo.GroupTransactSession.failed":            c41e("$r.failMu", "GroupTransactSession.failMu"),
	"kgo.groupConsumer.commit":                   c41e("$r.mu", "groupConsumer.mu"),
	"kgo.groupConsumer.commitTxn":                c41e("$r.mu", "groupConsumer.mu"),
	"kgo.groupConsumer.getUncommittedLocked":     c41e("$r.mu", "groupConsumer.mu"),
	"kgo.groupConsumer.signalSubscriptionChange": c41e("$r.mu", "groupConsumer.mu"),
	"kgo.produceRequest.tryAddBatch":             c41e("$p1.mu", "recBuf.mu"),
	"kgo.recBatch.isOwnersFirstBatch":            c41e("$r.owner.mu", "recBuf.mu"),
	"kgo.recBatch.decInflight":                   c41e("$r.owner.mu", "recBuf.mu"),
	"kgo.recBatch.removeFromTxn":                 c41e("$r.owner.mu", "recBuf.mu"),
	"kgo.source.takeBufferedFn":                  c41e("$r.cl.consumer.sourcesReadyMu", "consumer.sourcesReadyMu"),
	"kgo.source.discardBuffered":                 c41e("$r.cl.consumer.sourcesReadyMu", "consumer.sourcesReadyMu"),
	"kgo.source.takeBuffered":                    c41e("$r.cl.consumer.sourcesReadyMu", "consumer.sourcesReadyMu"),
	"kgo.source.takeNBuffered":                   c41e("$r.cl.consumer.sourcesReadyMu", "consumer.sourcesReadyMu"),
	"kgo.sourceShare.takeBuffered":               c41e("$r.s.cl.consumer.sourcesReadyMu", "consumer.sourcesReadyMu"),
	"kgo.sourceShare.takeNBuffered":              c41e("$r.s.cl.consumer.sourcesReadyMu", "consumer.sourcesReadyMu"),
	"kgo.recBuf.checkIfShouldDrainOrStartLinger": c41e("$r.mu", "recBuf.mu"),
	"kgo.recBuf.checkUnknownFailLimit":           c41e("$r.mu", "recBuf.mu"),
	"kgo.recBuf.failAllRecords":                  c41e("$r.mu", "recBuf.mu"),
	"kgo.recBuf.lockedMaybeLinger":               c41e("$r.mu", "recBuf.mu"),
	"kgo.recBuf.lockedStopLinger":                c41e("$r.mu", "recBuf.mu"),
	"kgo.recBuf.maybeTriggerDrain":               c41e("$r.mu", "recBuf.mu"),
	"kgo.recBuf.resetBatchDrainIdx":              c41e("$r.mu", "recBuf.mu"),
	"kgo.ring.resize":                            c41e("$r.mu", "ring.mu"),
	"kgo.seqRecBatch.appendTo":                   c41e("$r.mu", "recBatch.mu"),
	"kgo.seqRecBatch.appendToAsMessageSet":       c41e("$r.mu", "recBatch.mu"),
	"kgo.directConsumer.findNewAssignments":      c41e("$r.^.mu", "consumer.mu"),
	"kgo.shareConsumer.finalizePreviousPoll":     c41e("$r.c.mu", "consumer.mu"),
	"kgo.shareConsumer.trackLastPolled":          c41e("$r.c.mu", "consumer.mu"),
	"kgo.source.drainAllShareAcks":               c41e("$r.share.mu", "sourceShare.mu"),
	"kgo.source.hookDeferUnbuffered":             c41e("$r.cl.consumer.sourcesReadyMu", "consumer.sourcesReadyMu"),
}

// c41singletons: mutexes of structs that exist exactly once per Client (the
// consumer and producer are embedded by value in Client), so any access path
// names the same lock.
var c41singletons = map[string]bool{
	"consumer.sourcesReadyMu": true, "consumer.mu": true, "consumer.pollWaitMu": true, "consumer.sessionChangeMu": true, "consumer.pausedMu": true,
	"producer.mu": true, "producer.unknownTopicsMu": true, "producer.topicsMu": true, "producer.txnMu": true, "producer.idMu": true,
	"Client.brokersMu": true, "Client.sinksAndSourcesMu": true, "Client.coordinatorsMu": true, "Client.controllerIDMu": true, "Client.fetchingBrokersMu": true,
}

// c41hoLockers: higher-order lockers.  The function literal (or method
// expression) passed as the argument runs with the named lock held, where $1
// is the literal's first parameter.  The ho-locker rule checks that the
// locker really calls its argument with that lock held.
var c41hoLockers = map[string]string{
	"kgo.seqRecBatches.eachOwnerLocked": "$1.owner.mu",
	"kgo.recBatches.eachOwnerLocked":    "$1.owner.mu",
}

// documented lock hand-off: the blocked-produce waiter goroutine returns
// holding producer.mu and the producer continues after <-wait (checked by C03).
var c41recv = map[string]map[string]string{"kgo.Client.produce": {"wait": "cl.producer.mu"}}

var c41orderExempt = map[string]string{}

var c41skipInitDirect = map[string]string{"kgo.consumer.initDirect": "constructor: runs in NewClient before the client is returned"}

// c41nested: fields of anonymous struct fields (Module.Field cannot name them).
var c41nested = []c41G{
	{Type: "Client.metaCache", Field: "topics", Mutex: "mu"},
	{Type: "Client.metaCache", Field: "byID", Mutex: "mu"},
	{Type: "Client.metaCache", Field: "allAt", Mutex: "mu"},
	// the direct consumer's assignment state is guarded by the owning consumer's mu
	{Type: "directConsumer", Field: "using", Mutex: "mu", Up: 1},
	{Type: "directConsumer", Field: "m", Mutex: "mu", Up: 1, Skip: c41skipInitDirect},
	{Type: "directConsumer", Field: "ps", Mutex: "mu", Up: 1, Skip: c41skipInitDirect},
	{Type: "directConsumer", Field: "reSeen", Mutex: "mu", Up: 1},
	// "Access serialized via sc.c.mu" (documented on the field)
	{Type: "shareConsumer", Field: "lastPolled", Mutex: "c.mu"},
}

// c41docOther: fields documented as guarded that are not in the guarded-by
// table, with the reason.
var c41docOther = map[string]string{
	"recBuf.recBufsIdx <- mu":       "it is the index into the owning sink's recBufs and is read and written only under that sink's recBufsMu (addRecBuf/removeRecBuf); a cross-struct guard the table cannot express",
	"shareConsumer.left <- mu":      "created at init and closed exactly once by the leave goroutine; waiters synchronise on the channel itself",
	"shareConsumer.leaveErr <- mu":  "written only before close(left) and read only after <-left: ordered by the channel close",
	"groupConsumer.left <- mu":      "created at init and closed exactly once by the leave goroutine; waiters synchronise on the channel itself",
	"groupConsumer.leaveErr <- mu":  "written only before close(left) and read only after <-left: ordered by the channel close",
	"groupConsumer.memberGen <- mu": "wrapper around an atomic.Value (load/store are atomic; documented on the field)",
}

const (
	// confirmed on the pinned tree: 630 / 66 / 46 / 79 / 84 / 250
	c41floorCowWrites = 14 // 17 on the pinned tree
	c41floorNested    = 55
	c41floorDoc       = 40
	c41floorGuarded   = 560
	c41floorEntry     = 70
	c41floorOrder     = 70
	c41floorAcq       = 220
)

func c41f(t, mu string, fields ...string) []c41G {
	var out []c41G
	for _, f := range fields {
		out = append(out, c41G{Type: t, Field: f, Mutex: mu})
	}
	return out
}

var c41table = c41concat(
	c41f("producer", "mu", "bufferedRecords", "bufferedBytes", "blockedBytes"),
	c41f("producer", "unknownTopicsMu", "unknownTopics"),
	c41f("producer", "txnMu", "inTxn", "endUnconfirmed"),
	c41f("ring", "mu", "elems", "head", "l", "dead"),
	c41f("sink", "backoffMu", "needBackoff", "backoffSeq"),
	c41f("sink", "recBufsMu", "recBufs", "recBufsStart"),
	c41f("source", "cursorsMu", "cursors", "cursorsStart"),
	c41f("consumer", "pollWaitMu", "pollWaitState"),
	c41f("consumer", "sourcesReadyMu", "sourcesReadyForDraining", "fakeReadyForDraining", "deferredFetchHooks"),
	c41f("groupConsumer", "mu", "uncommitted", "blockAuto", "commitDone", "using", "dying", "managing", "is848", "g848"),
	c41f("brokerCxn", "parkMu", "parked", "parkFailed"),
	c41f("consumerSession", "workersMu", "workers"),
	c41f("consumerSession", "listOrEpochMu", "listOrEpochLoadsWaiting", "listOrEpochLoadsLoading", "listOrEpochMetaCh"),
	c41f("shareCursor", "ackMu", "pendingAcks", "pendingGaps", "closed"),
	c41f("shareConsumer", "mu", "dying", "workers"),
	c41f("sourceShare", "mu", "cursors", "cursorsStart", "sessionEpoch", "sessionParts"),
	c41f("topicPartitions", "partsMu", "lb", "partitioner"),
	c41f("Client", "brokersMu", "brokers", "anyBrokerOrd", "anySeedIdx", "stopBrokers"),
	c41f("Client", "controllerIDMu", "controllerID", "clusterID"),
	c41f("Client", "coordinatorsMu", "coordinators"),
	c41f("Client", "fetchingBrokersMu", "fetchingBrokers"),
	c41f("Client", "sinksAndSourcesMu", "sinksAndSources"),
	c41f("GroupTransactSession", "failMu", "revoked", "lost", "revokedCh", "lostCh"),
	c41f("broker", "reapMu", "cxnNormal", "cxnProduce", "cxnFetch", "cxnGroup", "cxnSlow"),
	c41f("connTimeouter", "joinMu", "lastRebalanceTimeout"),
	c41f("metawait", "mu", "lastUpdate"),
	c41f("recBatch", "mu", "records", "isFailingFromLoadErr", "canFailFromLoadErrs"),
	c41f("recBuf", "mu", "sink", "inflightOnSink", "okOnSink", "inflight", "lastAckedOffset", "topicPartitionData", "seq", "batch0Seq", "needSeqReset", "batches", "batchDrainIdx", "unknownFailures", "lingering", "lingerFn", "isLingering", "failing", "purged"),
)

func c41concat(xs ...[]c41G) []c41G {
	var out []c41G
	for _, x := range xs {
		out = append(out, x...)
	}
	for i := range out {
		k := out[i].Type + "." + out[i].Field
		out[i].Exempt = c41exempt[k]
		out[i].Skip = c41skip[k]
		if why, ok := c41writesOnly[k]; ok {
			out[i].WritesOnly, out[i].Why = true, why
		}
	}
	return out
}

const (
	c41whyRecBufMu   = "runs under the owning recBuf.mu: every writer of recBatch.records (appendRecord, failAllRecords) holds recBuf.mu, and batch.mu only orders failAllRecords against the request writer (documented on recBatch.mu / appendRecord)"
	c41whyMetaSink   = "metadata-update goroutine: only metadata updates change recBuf.sink, so they read it without the mutex (documented on the field)"
	c41whyAddrOnly   = "only the address is taken; the store through the pointer is checked by rule cxn-store-under-reapMu and reads on this path are on the single handleReqs goroutine that is the only writer"
	c41whyDeadSess   = "the session is dead here: stopSession has waited for workers == 0, no list/epoch goroutine is left to touch the loads"
	c41whyTxnSingle  = "only End itself (deferred reset, under failMu) replaces the channel variables and End is not concurrent with itself; the group callbacks only close the channels"
	c41whyDrainOwner = "backoffSeq is written only by clearBackoff on the drain goroutine, which is also this reader (documented at the site)"
)

// c41exempt: unguarded accesses confirmed not to be races, per field.
var c41exempt = map[string]map[string]string{
	"producer.unknownTopics": {
		"kgo.producer.init: p.unknownTopics (write)": "constructor: runs in NewClient before the client is returned",
	},
	"Client.sinksAndSources": {
		"kgo.Client.close: cl.sinksAndSources": "the metadata loop has exited (<-cl.metadone) so no sink or source is added any more (documented at the site)",
	},
	"recBatch.records": {
		"kgo.Client.finishBatch: batch.records":          c41whyRecBufMu,
		"kgo.recBatch.appendRecord: b.records":           c41whyRecBufMu,
		"kgo.recBatch.appendRecord: b.records (write)":   c41whyRecBufMu,
		"kgo.recBatch.calculateRecordNumbers: b.records": c41whyRecBufMu,
		"kgo.recBatch.isTimedOut: b.records":             c41whyRecBufMu,
		"kgo.recBatch.maybeFailErr: b.records":           c41whyRecBufMu,
		"kgo.recBuf.bufferRecord: newBatch.records":      c41whyRecBufMu,
		"kgo.sink.createReq: batch.records":              c41whyRecBufMu,
		"kgo.sink.handleReqRespBatch: batch.records":     c41whyRecBufMu,
		"kgo.sink.handleReqRespNoack: batch.records":     c41whyRecBufMu,
	},
	"recBatch.canFailFromLoadErrs": {
		"kgo.produceRequest.tryAddBatch: batch.canFailFromLoadErrs":      "under recBuf.mu while the batch is being staged: it is not in a request being written, the only writer without recBuf.mu",
		"kgo.sink.handleReqRespBatch: batch.canFailFromLoadErrs (write)": "under recBuf.mu after the response: a batch is in one inflight request at a time, so AppendTo is not running (documented at the site)",
	},
	"recBuf.sink": {
		"kgo.Client.mergeTopicPartitions: newTP.records.sink":      c41whyMetaSink,
		"kgo.producer.purgeTopics: r.sink":                         "blocking metadata fn, the sink cannot change; locking r.mu here would invert r.mu => sink.recBufsMu (documented at the site)",
		"kgo.topicPartition.migrateProductionTo: old.records.sink": c41whyMetaSink,
		"kgo.topicPartition.migrateProductionTo: new.records.sink": c41whyMetaSink,
	},
	"GroupTransactSession.lostCh":             {"kgo.GroupTransactSession.End: s.lostCh": c41whyTxnSingle},
	"GroupTransactSession.revokedCh":          {"kgo.GroupTransactSession.End: s.revokedCh": c41whyTxnSingle},
	"broker.cxnNormal":                        {"kgo.broker.loadConnection: b.cxnNormal (write)": c41whyAddrOnly},
	"broker.cxnProduce":                       {"kgo.broker.loadConnection: b.cxnProduce (write)": c41whyAddrOnly},
	"broker.cxnFetch":                         {"kgo.broker.loadConnection: b.cxnFetch (write)": c41whyAddrOnly},
	"broker.cxnGroup":                         {"kgo.broker.loadConnection: b.cxnGroup (write)": c41whyAddrOnly},
	"broker.cxnSlow":                          {"kgo.broker.loadConnection: b.cxnSlow (write)": c41whyAddrOnly},
	"consumerSession.listOrEpochLoadsLoading": {"kgo.consumer.stopSession: session.listOrEpochLoadsLoading": c41whyDeadSess},
	"consumerSession.listOrEpochLoadsWaiting": {"kgo.consumer.stopSession: session.listOrEpochLoadsWaiting": c41whyDeadSess},
	"consumerSession.listOrEpochMetaCh": {
		"kgo.consumerSession.listOrEpoch: s.listOrEpochMetaCh": "between the locked store above and the locked reset below only this goroutine writes the field: a concurrent listOrEpoch sees non-empty waiting loads, merges and returns",
	},
	"groupConsumer.using": {
		"kgo.groupConsumer.findNewAssignments: g.using": "runs under consumer.mu (doOnMetadataUpdate); every writer of using holds consumer.mu as well as g.mu (purgeTopics, and this function below under g.mu)",
	},
	"sink.backoffSeq": {"kgo.sink.produce: s.backoffSeq": c41whyDrainOwner},
}

// c41skip: functions that run before the object is published.
var c41skip = map[string]map[string]string{
	"recBuf.lingerFn":          {"kgo.metadataPartition.newPartition": "constructor: the recBuf is not yet published (stored once, documented on the field)"},
	"sourceShare.sessionParts": {"kgo.Client.newSource": "constructor: the source is not yet reachable by another goroutine"},
}

// c41writesOnly: fields whose reads are deliberately lock-free.
var c41writesOnly = map[string]string{}
