package main

import (
	"fmt"
	"go/ast"
	"go/token"
	"go/types"
)

// ---- attrs-reset: the reported codec equals the codec used ----
//
// recBatch.attrs outlives one serialisation (the batch can be written again
// after a retry, possibly at another produce version and so with another
// codec).  Every read-modify-write store to it (|=, &=, ...) must therefore be
// dominated, within the same call, by a plain store that does not read the
// field (attrs = 0): otherwise codec bits of an earlier serialisation are ORed
// with the new codec and Decompress is driven by a codec that was not used.
func (e *c19env) ruleAttrsReset() {
	c, m := e.c, e.m
	rule := "attrs-reset"
	fld := m.Field("kgo", "recBatch", "attrs")
	if fld == nil {
		c.Undecided(rule, "kgo.recBatch.attrs", token.NoPos, m, "field not found")
		return
	}
	n := 0
	perFn := map[*Func][]StoreSite{}
	var order []*Func
	for _, s := range StoreSites(e.funcs, fld) {
		if _, ok := perFn[s.Fn]; !ok {
			order = append(order, s.Fn)
		}
		perFn[s.Fn] = append(perFn[s.Fn], s)
	}
	for _, f := range order {
		info := f.Info()
		k := 0
		for _, s := range perFn[f] {
			rmw := s.Kind != "assign" && s.Kind != "complit"
			if s.Kind == "assign" && s.RHS != nil && mentionsField(s.RHS, info, fld, true) {
				rmw = true // attrs = attrs | x
			}
			if !rmw {
				continue
			}
			k++
			n++
			c.Touch(f)
			cons := fmt.Sprintf("%s: attrs rmw #%d", f.Key, k)
			if s.Kind == "addr" || s.LHS == nil {
				c.Undecided(rule, cons, s.Node.Pos(), m, "the attributes field escapes by address")
				continue
			}
			g := f.GraphFor(s.Node)
			sl, ok := g.LocOf(s.Node)
			if !ok {
				c.Undecided(rule, cons, s.Node.Pos(), m, "store not located")
				continue
			}
			base := exprStr(s.LHS)
			reset := false
			for _, r := range perFn[f] {
				if r.Kind != "assign" || r.LHS == nil || r.RHS == nil || exprStr(r.LHS) != base || mentionsField(r.RHS, info, fld, true) {
					continue
				}
				if f.GraphFor(r.Node) != g {
					continue
				}
				rl, ok := g.LocOf(r.Node)
				if ok && g.Dominates(rl, sl) {
					reset = true
				}
			}
			c.Check(reset, rule, cons, s.Node.Pos(), m, "dominated by a plain reset of the field in the same call",
				"`"+nodeStr(s.Node)+"` modifies "+base+" in place but no plain store `"+base+" = ...` dominates it in this call: the field lives in the shared *recBatch, so when the batch is serialised again (retry at another produce version, another codec) the codec bits of the previous serialisation are ORed with the new codec (e.g. gzip|lz4 = 3, snappy|zstd = 6) and the batch is decompressed with a codec that was not used")
		}
	}
	c.Floor(rule, n, 4)
}

// ---- compress-dst-fresh: the dst buffer handed to Compressor.Compress is empty ----
//
// gzip and lz4 append to dst and return dst.Bytes(); a buffer that still holds
// earlier output yields old||new.  At every call site of Compressor.Compress
// the dst argument is a fresh buffer expression, or a variable whose last
// event on every path is a fresh construction or Reset()/Truncate(0) with no
// other use (write, earlier Compress, pool Get) in between.
func (e *c19env) ruleCompressDst() {
	c, m := e.c, e.m
	rule := "compress-dst-fresh"
	cm := m.Method("kgo", "Compressor", "Compress")
	if cm == nil {
		c.Undecided(rule, "kgo.Compressor.Compress", token.NoPos, m, "interface method not found")
		return
	}
	cnt := map[string]int{}
	n := 0
	for _, s := range CallSites(e.funcs, cm) {
		f := s.Fn
		info := f.Info()
		call := s.Node.(*ast.CallExpr)
		cnt[f.Key]++
		n++
		c.Touch(f)
		cons := fmt.Sprintf("%s: Compress dst #%d", f.Key, cnt[f.Key])
		if len(call.Args) < 1 {
			c.Undecided(rule, cons, call.Pos(), m, "no dst argument")
			continue
		}
		if c19freshBuf(info, call.Args[0]) {
			c.OK(rule, cons, call.Pos(), m, "fresh buffer expression")
			continue
		}
		obj := c19objOf(info, call.Args[0])
		v, isVar := obj.(*types.Var)
		if !isVar || v.IsField() || v.Parent() == nil || v.Pkg() == nil || v.Parent() == v.Pkg().Scope() {
			c.Undecided(rule, cons, call.Pos(), m, "dst `"+exprStr(call.Args[0])+"` is not a fresh expression or a local variable: its content cannot be followed")
			continue
		}
		isParam := false
		for _, fl := range f.Decl.Type.Params.List {
			for _, id := range fl.Names {
				if info.Defs[id] == obj {
					isParam = true
				}
			}
		}
		if isParam {
			c.Undecided(rule, cons, call.Pos(), m, "dst is a parameter of the enclosing function: the caller's discipline is not followed")
			continue
		}
		g := f.GraphFor(call)
		isClean := func(nd ast.Node) bool {
			switch st := nd.(type) {
			case *ast.AssignStmt:
				for i, l := range st.Lhs {
					if c19objOf(info, l) == obj && len(st.Rhs) == len(st.Lhs) && c19freshBuf(info, st.Rhs[i]) {
						return true
					}
				}
			case *ast.ExprStmt:
				if rc, ok := st.X.(*ast.CallExpr); ok {
					if sel, ok := unparen(rc.Fun).(*ast.SelectorExpr); ok && c19objOf(info, sel.X) == obj {
						if sel.Sel.Name == "Reset" && len(rc.Args) == 0 {
							return true
						}
						if sel.Sel.Name == "Truncate" && len(rc.Args) == 1 {
							if z, okc := constInt(info, rc.Args[0]); okc && z == 0 {
								return true
							}
						}
					}
				}
			}
			return false
		}
		hasCall := func(nd ast.Node) bool {
			return containsNode(nd, false, func(y ast.Node) bool { return y == ast.Node(call) })
		}
		isNeutral := func(nd ast.Node) bool { // var w *bytes.Buffer (nil) ; w != nil tests
			if ds, ok := nd.(*ast.DeclStmt); ok {
				if gd, ok := ds.Decl.(*ast.GenDecl); ok {
					for _, sp := range gd.Specs {
						if vs, ok := sp.(*ast.ValueSpec); ok && len(vs.Values) == 0 {
							return true
						}
					}
				}
			}
			if be, ok := nd.(*ast.BinaryExpr); ok && (be.Op == token.EQL || be.Op == token.NEQ) && (c19isNil(info, be.X) || c19isNil(info, be.Y)) {
				return true
			}
			return false
		}
		var bad string
		sawClean := false
		for _, blk := range g.C.Blocks {
			for i, nd := range blk.Nodes {
				if isClean(nd) {
					sawClean = true
					continue
				}
				if isNeutral(nd) || !mentionsObj(nd, info, obj, false) {
					continue
				}
				if _, isDefer := nd.(*ast.DeferStmt); isDefer {
					continue // runs at function exit
				}
				// nd uses (dirties) the buffer: no path from here to the call without a clean event
				if _, reach := g.FindPath(Loc{int(blk.Index), i}, SearchOpts{Stop: isClean, GoalNode: hasCall}); reach {
					bad = fmt.Sprintf("`%s` at %s reaches this call without an intervening Reset()/Truncate(0) or fresh buffer", nodeStr(nd), m.Position(nd.Pos()))
					if hasCall(nd) {
						bad = "the call can be reached again from itself (loop) with the same buffer and no Reset in between"
					}
				}
			}
		}
		if bad == "" && !sawClean {
			bad = "no fresh construction or Reset of `" + obj.Name() + "` found in the function"
		}
		c.Check(bad == "", rule, cons, call.Pos(), m, "buffer is fresh or Reset since its last use on every path",
			bad+": gzip and lz4 append to dst and return all of dst.Bytes(), so stale bytes or the previous payload precede this one (gzip(A)||gzip(B)) and the receiver cannot decompress it to the original")
	}
	c.Floor(rule, n, 4)
}

// c19freshBuf: new(bytes.Buffer), &bytes.Buffer{}, bytes.NewBuffer(nil)
func c19freshBuf(info *types.Info, x ast.Expr) bool {
	x = unparen(x)
	isBuf := func(t types.Type) bool { return t != nil && t.String() == "bytes.Buffer" }
	switch v := x.(type) {
	case *ast.CallExpr:
		if id, ok := unparen(v.Fun).(*ast.Ident); ok && id.Name == "new" && len(v.Args) == 1 {
			if _, isB := info.Uses[id].(*types.Builtin); isB {
				return isBuf(info.TypeOf(v.Args[0]))
			}
		}
		if fn, _ := calleeObj(info, v).(*types.Func); fn != nil && keyOfObj(fn) == "bytes.NewBuffer" && len(v.Args) == 1 {
			return c19isNil(info, v.Args[0])
		}
	case *ast.UnaryExpr:
		if cl, ok := unparen(v.X).(*ast.CompositeLit); ok && v.Op == token.AND && len(cl.Elts) == 0 {
			return isBuf(info.TypeOf(cl))
		}
	}
	return false
}
