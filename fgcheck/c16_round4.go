package main

import (
	"go/ast"
	"go/token"
	"go/types"
	"path/filepath"
	"strconv"

	"golang.org/x/tools/go/cfg"
)

// Round-4 rule of C16.
//
// c16zeroLocalDeref ("zero-declared-local-assigned-before-deref"): the legacy
// message-set / record-batch decoders of pkg/kgo/source.go pick the concrete
// message type in a switch on an input byte and then decode through an
// interface-typed local (`var msg readerFrom`).  A local that is declared
// without an initialiser (so it starts as the nil interface / nil pointer /
// nil func) must be assigned on EVERY control-flow path from its declaration
// to each use that dereferences it (method call or method value through an
// interface, field access or `*p` through a pointer, call of a func value).
// A path that reaches the use without passing an assignment is a nil
// dereference panic for the input that drives that path (e.g. a `break`
// inside a switch arm that only leaves the switch and falls through to the
// decode call).
//
// Decided on the CFG (must-pass-through search from the declaration).  An
// assignment is `x = e` / `x, y = ...` with e not the nil literal, a range
// clause assigning x, or `&x` handed away (the callee may store through it).
// Branch edges that cannot be taken while x is still nil (`x != nil` true edge,
// `x == nil` false edge) are not followed, so lazily initialised locals
// (`if x == nil { x = ... }; x.f`) and nil-guarded uses are accepted.  A use
// inside a function literal is first decided inside the literal; when it is
// exposed at the literal's entry it is checked at the calls of the literal
// (literal bound to an only-called local) or where the literal is created.
//
// Scope: every function of package kgo declared in source.go (the fetch
// decoding file), and the hand-written decoders of pkg/kmsg (api.go,
// record.go).

type c16zvar struct {
	obj  types.Object
	spec *ast.ValueSpec
	kind string // "interface", "pointer", "func"
}

func c16nilableKind(t types.Type) string {
	switch t.Underlying().(type) {
	case *types.Interface:
		if _, isTP := t.(*types.TypeParam); isTP {
			return ""
		}
		return "interface"
	case *types.Pointer:
		return "pointer"
	case *types.Signature:
		return "func"
	}
	return ""
}

func c16identObj(info *types.Info, e ast.Expr) types.Object {
	id, ok := unparen(e).(*ast.Ident)
	if !ok {
		return nil
	}
	if o := info.Uses[id]; o != nil {
		return o
	}
	return info.Defs[id]
}

// c16boundClosure: the function literal is the single definition of a local
// that is only ever called (never passed on, stored, deferred or started as a
// goroutine) from the body that declares it; returns those calls.
func c16boundClosure(f *Func, pm map[ast.Node]ast.Node, lit *ast.FuncLit, home *ast.FuncLit) ([]*ast.CallExpr, bool) {
	info := f.Info()
	var obj types.Object
	switch p := pm[lit].(type) {
	case *ast.AssignStmt:
		if p.Tok == token.DEFINE && len(p.Lhs) == len(p.Rhs) {
			for i, r := range p.Rhs {
				if r == lit {
					obj = c16identObj(info, p.Lhs[i])
				}
			}
		}
	case *ast.ValueSpec:
		for i, r := range p.Values {
			if r == lit && i < len(p.Names) {
				obj = info.Defs[p.Names[i]]
			}
		}
	}
	if obj == nil || singleDef(f, obj) != ast.Expr(lit) {
		return nil, false
	}
	var calls []*ast.CallExpr
	ok := true
	ast.Inspect(f.Decl.Body, func(x ast.Node) bool {
		id, isID := x.(*ast.Ident)
		if !isID || info.Uses[id] != obj {
			return true
		}
		call, isCall := pm[id].(*ast.CallExpr)
		if !isCall || call.Fun != ast.Expr(id) || innermostLit(f, id) != home {
			ok = false
			return true
		}
		switch pm[call].(type) {
		case *ast.DeferStmt, *ast.GoStmt:
			ok = false
		}
		calls = append(calls, call)
		return true
	})
	return calls, ok
}

// c16nilEdges returns an edge filter that removes the branch edges that cannot
// be taken while obj still holds nil (`obj != nil` true edge, `obj == nil`
// false edge, through !, && and ||).
func c16nilEdges(g *Graph, info *types.Info, obj types.Object) func(from *cfg.Block, k int, to *cfg.Block) bool {
	var eval func(e ast.Expr) tri
	eval = func(e ast.Expr) tri {
		switch x := unparen(e).(type) {
		case *ast.UnaryExpr:
			if x.Op == token.NOT {
				return eval(x.X).not()
			}
		case *ast.BinaryExpr:
			switch x.Op {
			case token.LAND:
				return triAnd(eval(x.X), eval(x.Y))
			case token.LOR:
				return triOr(eval(x.X), eval(x.Y))
			case token.EQL, token.NEQ:
				var other ast.Expr
				if c16identObj(info, x.X) == obj {
					other = x.Y
				} else if c16identObj(info, x.Y) == obj {
					other = x.X
				} else {
					return triU
				}
				if tv, ok := info.Types[other]; !ok || !tv.IsNil() {
					return triU
				}
				if x.Op == token.EQL {
					return triT
				}
				return triF
			}
		}
		return triU
	}
	return func(from *cfg.Block, k int, to *cfg.Block) bool {
		if len(from.Succs) != 2 || len(from.Nodes) == 0 {
			return true
		}
		last, ok := from.Nodes[len(from.Nodes)-1].(ast.Expr)
		if !ok {
			return true
		}
		if tv, ok := info.Types[last]; !ok || tv.Type == nil {
			return true
		} else if b, isB := tv.Type.Underlying().(*types.Basic); !isB || b.Info()&types.IsBoolean == 0 {
			return true
		}
		if from.Succs[0].Kind == cfg.KindSwitchCaseBody {
			if _, tag, ok := g.condOf(from); !ok || tag != nil {
				return true
			}
		}
		switch eval(last) {
		case triT:
			return k == 0
		case triF:
			return k == 1
		}
		return true
	}
}

// c16zeroLocalDeref checks every zero-declared nil-able local of f (including
// those of nested function literals).  It returns the number of dereferencing
// uses it decided.
func c16zeroLocalDeref(c *Ctx, m *Module, f *Func) int {
	rule := "zero-declared-local-assigned-before-deref"
	info := f.Info()
	var vars []c16zvar
	ast.Inspect(f.Decl.Body, func(x ast.Node) bool {
		ds, ok := x.(*ast.DeclStmt)
		if !ok {
			return true
		}
		gd, ok := ds.Decl.(*ast.GenDecl)
		if !ok || gd.Tok != token.VAR {
			return true
		}
		for _, sp := range gd.Specs {
			vs := sp.(*ast.ValueSpec)
			if len(vs.Values) != 0 {
				continue
			}
			for _, id := range vs.Names {
				o := info.Defs[id]
				if o == nil || id.Name == "_" {
					continue
				}
				if k := c16nilableKind(o.Type()); k != "" {
					vars = append(vars, c16zvar{o, vs, k})
				}
			}
		}
		return true
	})
	if len(vars) == 0 {
		return 0
	}
	pm := parentMap(f.Decl.Body)
	decided := 0
	for _, v := range vars {
		g := f.GraphFor(v.spec)
		home := innermostLit(f, v.spec)
		// the literal directly inside the home body that contains n (nil: n is in the home body itself)
		topLit := func(n ast.Node) *ast.FuncLit {
			lit := innermostLit(f, n)
			if lit == home {
				return nil
			}
			for lit != nil && innermostLit(f, lit) != home {
				lit = innermostLit(f, lit)
			}
			return lit
		}
		defs := map[*ast.Ident]bool{} // every assigning mention (any nesting)
		type deref struct {
			n   ast.Node
			lit *ast.FuncLit // top-level literal containing it, nil = home body
		}
		var derefs []deref
		assignsIn := map[*ast.FuncLit]bool{}
		var root ast.Node = f.Decl.Body
		if home != nil {
			root = home.Body
		}
		ast.Inspect(root, func(x ast.Node) bool {
			id, ok := x.(*ast.Ident)
			if !ok || info.Uses[id] != v.obj {
				return true
			}
			tl := topLit(id)
			var cur ast.Node = id
			par := pm[cur]
			for {
				if p, ok := par.(*ast.ParenExpr); ok {
					cur, par = p, pm[p]
					continue
				}
				break
			}
			markDef := func() {
				defs[id] = true
				if tl != nil {
					assignsIn[tl] = true
				}
			}
			switch p := par.(type) {
			case *ast.AssignStmt:
				for i, l := range p.Lhs {
					if l == cur {
						isNil := false
						if len(p.Rhs) == len(p.Lhs) {
							if tv, ok := info.Types[p.Rhs[i]]; ok && tv.IsNil() {
								isNil = true
							}
						}
						if !isNil {
							markDef()
						}
						return true
					}
				}
			case *ast.RangeStmt:
				if p.Key == cur || p.Value == cur {
					markDef()
					return true
				}
			case *ast.UnaryExpr:
				if p.Op == token.AND {
					markDef()
					return true
				}
			case *ast.StarExpr:
				if v.kind == "pointer" && p.X == cur {
					derefs = append(derefs, deref{p, tl})
				}
			case *ast.SelectorExpr:
				if p.X != cur {
					break
				}
				sel := info.Selections[p]
				if sel == nil {
					break
				}
				switch v.kind {
				case "interface": // method call or method value through a nil interface panics
					derefs = append(derefs, deref{p, tl})
				case "pointer":
					if sel.Kind() == types.FieldVal {
						derefs = append(derefs, deref{p, tl})
					}
				}
			case *ast.CallExpr:
				if v.kind == "func" && p.Fun == cur {
					derefs = append(derefs, deref{p, tl})
				}
			}
			return true
		})
		name := f.Key + ": " + v.kind + " local " + v.obj.Name()
		if len(derefs) == 0 {
			continue
		}
		from, ok := g.LocOf(v.spec)
		if !ok || !g.Reachable(from) {
			c.Undecided(rule, name+"#declaration", v.spec.Pos(), m, "the declaration has no location in the control-flow graph")
			continue
		}
		// where a literal's body "happens" in the home body: at its calls when it is
		// bound to an only-called local, otherwise already where it is created
		happens := map[*ast.FuncLit][]ast.Node{}
		at := func(lit *ast.FuncLit) []ast.Node {
			if r, ok := happens[lit]; ok {
				return r
			}
			var r []ast.Node
			if calls, ok := c16boundClosure(f, pm, lit, home); ok {
				for _, call := range calls {
					r = append(r, call)
				}
			} else {
				r = []ast.Node{lit}
			}
			happens[lit] = r
			return r
		}
		defNodes := map[ast.Node]bool{}
		for lit := range assignsIn {
			for _, n := range at(lit) {
				defNodes[n] = true
			}
		}
		hasDef := func(n ast.Node) bool {
			return containsNode(n, false, func(x ast.Node) bool {
				if defNodes[x] {
					return true
				}
				id, ok := x.(*ast.Ident)
				return ok && defs[id]
			})
		}
		type use struct {
			at   ast.Node // node searched for in the home CFG
			what ast.Node
		}
		var uses []use
		seen := map[string]int{}
		mkKey := func(d ast.Node) string {
			key := name + ": use `" + exprStr(d) + "`"
			seen[key]++
			if seen[key] > 1 {
				key += "#" + strconv.Itoa(seen[key])
			}
			return key
		}
		keys := map[ast.Node]string{}
		for _, d := range derefs {
			keys[d.n] = mkKey(d.n)
			if d.lit == nil {
				uses = append(uses, use{d.n, d.n})
				continue
			}
			// inside a literal: first decide within the literal (entry -> use)
			if innermostLit(f, d.n) == d.lit {
				lg := f.LitGraph(d.lit)
				target := d.n
				_, exposed := lg.FindPath(Loc{B: -1}, SearchOpts{
					Stop: func(n ast.Node) bool {
						if containsNode(n, false, func(x ast.Node) bool { return x == target }) {
							return false
						}
						return hasDef(n)
					},
					GoalNode: func(n ast.Node) bool {
						return containsNode(n, false, func(x ast.Node) bool { return x == target })
					},
					EdgeOK: c16nilEdges(lg, info, v.obj),
				})
				if !exposed {
					decided++
					c.OK(rule, keys[d.n], d.n.Pos(), m, "inside the function literal every path to the use passes an assignment or a non-nil test")
					continue
				}
			}
			for _, n := range at(d.lit) {
				uses = append(uses, use{n, d.n})
			}
		}
		reported := map[ast.Node]bool{}
		okd := map[ast.Node]bool{}
		for _, u := range uses {
			if reported[u.what] {
				continue
			}
			key := keys[u.what]
			ul, ok := g.LocOf(u.at)
			if !ok {
				reported[u.what] = true
				decided++
				c.Undecided(rule, key, u.what.Pos(), m, "the use has no location in the control-flow graph")
				continue
			}
			if !g.Reachable(ul) {
				continue
			}
			target := u.at
			path, found := g.FindPath(from, SearchOpts{
				Stop: func(n ast.Node) bool {
					if containsNode(n, false, func(x ast.Node) bool { return x == target }) {
						return false // operands are evaluated before the store of the same statement
					}
					return hasDef(n)
				},
				GoalNode: func(n ast.Node) bool {
					return containsNode(n, false, func(x ast.Node) bool { return x == target })
				},
				EdgeOK: c16nilEdges(g, info, v.obj),
			})
			if !found {
				continue
			}
			via := ""
			for i := len(path) - 2; i >= 0 && i >= len(path)-4; i-- {
				via = m.Position(path[i].Pos()) + " `" + c16short(nodeStr(path[i])) + "` -> " + via
			}
			where := "this use"
			if u.at != u.what {
				where = "the call at " + m.Position(u.at.Pos()) + " of the function literal holding this use"
			}
			reported[u.what] = true
			decided++
			c.Fail(rule, key, u.what.Pos(), m,
				"`"+v.obj.Name()+"` is declared without a value (nil "+v.kind+") and there is a control-flow path from the declaration to "+where+" that passes no assignment and no non-nil test ("+via+"use): "+
					"the input that drives this path makes the decoder panic with a nil dereference instead of returning an error (a bare `break` inside a switch arm only leaves the switch, not the loop)")
		}
		for _, u := range uses {
			if !reported[u.what] && !okd[u.what] {
				okd[u.what] = true
				decided++
				c.OK(rule, keys[u.what], u.what.Pos(), m, "every path from the declaration passes an assignment or a non-nil test")
			}
		}
	}
	return decided
}

func c16short(s string) string {
	if len(s) > 60 {
		return s[:60] + "..."
	}
	return s
}

func c16round4(c *Ctx, kmsg, root *Module) {
	rule := "zero-declared-local-assigned-before-deref"
	n, nf := 0, 0
	if root != nil {
		for _, f := range root.FuncsIn("kgo") {
			if f.Decl.Body == nil || filepath.Base(root.Fset.Position(f.Decl.Pos()).Filename) != "source.go" {
				continue
			}
			nf++
			if k := c16zeroLocalDeref(c, root, f); k > 0 {
				c.Touch(f)
				n += k
			}
		}
	}
	if kmsg != nil {
		for _, f := range kmsg.FuncsIn("kmsg") {
			if f.Decl.Body == nil {
				continue
			}
			file := filepath.Base(kmsg.Fset.Position(f.Decl.Pos()).Filename)
			if file != "api.go" && file != "record.go" {
				continue
			}
			nf++
			n += c16zeroLocalDeref(c, kmsg, f)
		}
	}
	c.Set("zero-local-functions-scanned", nf)
	c.Floor(rule+"/functions-scanned", nf, 60)
	c.Floor(rule+"/dereferencing-uses", n, 18)
	// the anchor the rule was written for must still be covered
	if root != nil {
		if f := c.NeedFunc(root, "kgo.ProcessFetchPartitionOpts.processV1OuterMessage"); f != nil {
			k := 0
			for _, o := range c.Obs {
				if o.Rule == rule && len(o.Construct) > len(f.Key) && o.Construct[:len(f.Key)] == f.Key {
					k++
				}
			}
			c.Floor(rule+"/processV1OuterMessage-uses", k, 3)
		}
	}
}
