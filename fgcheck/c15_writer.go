package main

// C15, part 2: symbolic extraction of the wire schema written by a generated
// AppendTo at one concrete version. The function body is interpreted
// statement by statement: version guards are evaluated, the `v := v.Field`
// shadowing idiom is followed through type-resolved objects to recover field
// paths, calls into the kbin package are resolved by callee object, and every
// statement that is not one of the known encode idioms aborts the extraction
// (the obligation is then undecided).

import (
	"fmt"
	"go/ast"
	"go/constant"
	"go/token"
	"go/types"
	"strconv"
	"strings"
)

type c15Abort struct {
	pos  token.Pos
	msg  string
	viol bool // a definite defect of the code, not merely an unrecognised shape
}

// c15X is the state shared by the writer and reader extractors.
type c15X struct {
	m      *Module
	info   *types.Info
	fn     *Func
	consts map[types.Object]constant.Value
	recv   types.Object
	ver    int
}

func (x *c15X) fail(n ast.Node, f string, a ...any) {
	p := token.NoPos
	if n != nil {
		p = n.Pos()
	}
	panic(&c15Abort{pos: p, msg: fmt.Sprintf(f, a...)})
}

// violate aborts with a definite defect.
func (x *c15X) violate(n ast.Node, f string, a ...any) {
	p := token.NoPos
	if n != nil {
		p = n.Pos()
	}
	panic(&c15Abort{pos: p, msg: fmt.Sprintf(f, a...), viol: true})
}

func (x *c15X) src(n ast.Node) string { return x.m.Position(n.Pos()) }

func (x *c15X) obj(id *ast.Ident) types.Object {
	if o := x.info.Defs[id]; o != nil {
		return o
	}
	return x.info.Uses[id]
}

func c15IsKbin(o types.Object) bool {
	return o != nil && o.Pkg() != nil && strings.HasSuffix(o.Pkg().Path(), "/pkg/kmsg/internal/kbin")
}

// stripConv removes parentheses and conversions to basic types.
func (x *c15X) stripConv(e ast.Expr) ast.Expr {
	for {
		e = unparen(e)
		c, ok := e.(*ast.CallExpr)
		if !ok || len(c.Args) != 1 {
			return e
		}
		tv, ok := x.info.Types[c.Fun]
		if !ok || !tv.IsType() {
			return e
		}
		if _, basic := tv.Type.Underlying().(*types.Basic); !basic {
			return e
		}
		e = c.Args[0]
	}
}

// eval evaluates a guard over the known constants (3-valued).
func (x *c15X) eval(e ast.Expr) (constant.Value, bool) {
	e = unparen(e)
	if tv, ok := x.info.Types[e]; ok && tv.Value != nil {
		return tv.Value, true
	}
	switch e := e.(type) {
	case *ast.Ident:
		if v, ok := x.consts[x.obj(e)]; ok {
			return v, true
		}
	case *ast.UnaryExpr:
		if e.Op == token.NOT {
			if v, ok := x.eval(e.X); ok && v.Kind() == constant.Bool {
				return constant.MakeBool(!constant.BoolVal(v)), true
			}
		}
	case *ast.BinaryExpr:
		l, lok := x.eval(e.X)
		r, rok := x.eval(e.Y)
		switch e.Op {
		case token.LAND, token.LOR:
			isT := func(v constant.Value, ok bool, want bool) bool {
				return ok && v.Kind() == constant.Bool && constant.BoolVal(v) == want
			}
			short := e.Op == token.LOR
			if isT(l, lok, short) || isT(r, rok, short) {
				return constant.MakeBool(short), true
			}
			if isT(l, lok, !short) && isT(r, rok, !short) {
				return constant.MakeBool(!short), true
			}
		case token.EQL, token.NEQ, token.LSS, token.LEQ, token.GTR, token.GEQ:
			if lok && rok && l.Kind() != constant.Bool && r.Kind() != constant.Bool {
				return constant.MakeBool(constant.Compare(l, e.Op, r)), true
			}
			if lok && rok && l.Kind() == constant.Bool && r.Kind() == constant.Bool && (e.Op == token.EQL || e.Op == token.NEQ) {
				return constant.MakeBool((constant.BoolVal(l) == constant.BoolVal(r)) == (e.Op == token.EQL)), true
			}
		}
	}
	return nil, false
}

// residual simplifies a boolean expression over the known constants and
// returns either a constant or the sub-expression that remains.
func (x *c15X) residual(e ast.Expr) (ast.Expr, *bool) {
	e = unparen(e)
	if v, ok := x.eval(e); ok && v.Kind() == constant.Bool {
		b := constant.BoolVal(v)
		return nil, &b
	}
	if be, ok := e.(*ast.BinaryExpr); ok && (be.Op == token.LAND || be.Op == token.LOR) {
		le, lc := x.residual(be.X)
		re, rc := x.residual(be.Y)
		neutral := be.Op == token.LAND // true is neutral for &&, false for ||
		switch {
		case lc != nil && *lc == neutral:
			return re, rc
		case rc != nil && *rc == neutral:
			return le, lc
		case lc != nil:
			return nil, lc
		case rc != nil && le != nil:
			// left side has effects only in theory (pure guards here)
			return nil, rc
		}
	}
	return e, nil
}

func c15ConstStr(v constant.Value) string {
	switch v.Kind() {
	case constant.Bool:
		return strconv.FormatBool(constant.BoolVal(v))
	case constant.Int:
		return v.ExactString()
	case constant.Float:
		if i := constant.ToInt(v); i.Kind() == constant.Int {
			return i.ExactString()
		}
		f, _ := constant.Float64Val(v)
		return strconv.FormatFloat(f, 'g', -1, 64)
	}
	return v.ExactString()
}

// bindVersionOrConst handles `version := v.Version` and `isFlexible := version >= N`.
func (x *c15X) bindVersionOrConst(as *ast.AssignStmt, isRoot func(e ast.Expr) bool) bool {
	if as.Tok != token.DEFINE || len(as.Lhs) != 1 || len(as.Rhs) != 1 {
		return false
	}
	id, ok := as.Lhs[0].(*ast.Ident)
	if !ok {
		return false
	}
	if sel, ok := unparen(as.Rhs[0]).(*ast.SelectorExpr); ok && sel.Sel.Name == "Version" && isRoot(sel.X) && fieldOfSel(x.info, sel) != nil {
		if b, ok := x.info.TypeOf(sel).Underlying().(*types.Basic); ok && b.Kind() == types.Int16 {
			x.consts[x.obj(id)] = constant.MakeInt64(int64(x.ver))
			return true
		}
	}
	if v, ok := x.eval(as.Rhs[0]); ok {
		if _, isBasic := x.info.TypeOf(id).Underlying().(*types.Basic); isBasic {
			x.consts[x.obj(id)] = v
			return true
		}
	}
	return false
}

// ---------------------------------------------------------------------------

type c15wval struct {
	kind string // path | zero | derefz | conv | idx
	path string
	enum string
}

type c15tagctx struct {
	obj   types.Object // toEncode
	conds []string
	paths []string
	op    *c15Op
	pos   ast.Node
}

type c15W struct {
	c15X
	env    map[types.Object]*c15wval
	dst    types.Object
	tag    *c15tagctx
	arrays map[*c15Op]bool // Array ops whose element loop was seen
}

var c15PrimKinds = map[string]bool{
	"Bool": true, "Int8": true, "Int16": true, "Uint16": true, "Int32": true, "Int64": true, "Float64": true, "Uint32": true,
	"Varint": true, "Varlong": true, "Uuid": true,
	"String": true, "CompactString": true, "NullableString": true, "CompactNullableString": true,
	"Bytes": true, "CompactBytes": true, "NullableBytes": true, "CompactNullableBytes": true,
	"VarintString": true, "VarintBytes": true,
}

// c15ExtractWriter returns the schema written by fn (an AppendTo) at version ver.
func c15ExtractWriter(m *Module, fn *Func, ver int) (ops []*c15Op, err *c15Abort) {
	x := &c15W{c15X: c15X{m: m, info: fn.Info(), fn: fn, consts: map[types.Object]constant.Value{}, ver: ver},
		env: map[types.Object]*c15wval{}, arrays: map[*c15Op]bool{}}
	defer func() {
		if r := recover(); r != nil {
			if a, ok := r.(*c15Abort); ok {
				ops, err = nil, a
				return
			}
			panic(r)
		}
	}()
	d := fn.Decl
	if d.Recv == nil || len(d.Recv.List) != 1 || len(d.Recv.List[0].Names) != 1 {
		x.fail(d, "AppendTo without a named receiver")
	}
	x.recv = x.info.Defs[d.Recv.List[0].Names[0]]
	x.env[x.recv] = &c15wval{kind: "path"}
	if d.Type.Params == nil || len(d.Type.Params.List) != 1 || len(d.Type.Params.List[0].Names) != 1 {
		x.fail(d, "AppendTo does not take exactly (dst []byte)")
	}
	x.dst = x.info.Defs[d.Type.Params.List[0].Names[0]]
	body := d.Body.List
	if len(body) == 0 {
		x.fail(d, "empty body")
	}
	ret, ok := body[len(body)-1].(*ast.ReturnStmt)
	if !ok || len(ret.Results) != 1 || !x.isDst(ret.Results[0]) {
		x.fail(body[len(body)-1], "AppendTo does not end in `return dst`")
	}
	x.stmts(body[:len(body)-1], &ops)
	if x.tag != nil {
		x.violate(x.tag.pos, "tag section is not closed by UnknownTags.AppendEach")
	}
	x.checkComplete(ops)
	return ops, nil
}

func (x *c15W) checkComplete(ops []*c15Op) {
	for _, o := range ops {
		switch o.K {
		case "Array":
			if !x.arrays[o] {
				panic(&c15Abort{viol: true, msg: "array length of " + c15p(o.Path) + " (" + o.Src + ") is written but its elements are not"})
			}
		case "Tags":
			if o.Unknown == "" {
				panic(&c15Abort{viol: true, msg: "tag section of " + c15p(o.Path) + " (" + o.Src + ") never appends the unknown tags"})
			}
			for _, t := range o.Tags {
				if t.Size == "" {
					panic(&c15Abort{viol: true, msg: fmt.Sprintf("tag %d of %s (%s) is counted but has no case writing it", t.N, c15p(o.Path), o.Src)})
				}
				x.checkComplete(t.Body)
			}
		}
		x.checkComplete(o.Body)
	}
}

func (x *c15W) isDst(e ast.Expr) bool {
	id, ok := unparen(e).(*ast.Ident)
	return ok && x.obj(id) == x.dst
}

// val evaluates an expression to a symbolic value.
func (x *c15W) val(e ast.Expr) *c15wval {
	e = unparen(e)
	switch e := e.(type) {
	case *ast.Ident:
		if v := x.env[x.obj(e)]; v != nil {
			return v
		}
		x.fail(e, "identifier %s has no known value", e.Name)
	case *ast.SelectorExpr:
		if fieldOfSel(x.info, e) == nil {
			x.fail(e, "selector %s is not a field", exprStr(e))
		}
		b := x.val(e.X)
		if b.kind != "path" {
			x.fail(e, "field of a non-field value %s", exprStr(e))
		}
		return &c15wval{kind: "path", path: c15join(b.path, e.Sel.Name)}
	case *ast.UnaryExpr:
		if e.Op == token.AND {
			b := x.val(e.X)
			if b.kind == "path" {
				return b
			}
		}
	case *ast.IndexExpr:
		b := x.val(e.X)
		id, ok := unparen(e.Index).(*ast.Ident)
		if ok && b.kind == "path" {
			if iv := x.env[x.obj(id)]; iv != nil && iv.kind == "idx" && iv.path == b.path {
				return &c15wval{kind: "path", path: b.path + "[]"}
			}
		}
		x.fail(e, "index expression %s is not element i of the ranged array", exprStr(e))
	case *ast.CallExpr:
		// conversion of an enum typed field to its backing primitive
		if tv, ok := x.info.Types[e.Fun]; ok && tv.IsType() && len(e.Args) == 1 {
			if _, basic := tv.Type.(*types.Basic); basic {
				b := x.val(e.Args[0])
				if n, ok := x.info.TypeOf(e.Args[0]).(*types.Named); ok && b.kind == "path" {
					if nb, ok := n.Underlying().(*types.Basic); ok && nb.Kind() == tv.Type.(*types.Basic).Kind() {
						return &c15wval{kind: "conv", path: b.path, enum: n.Obj().Name()}
					}
				}
			}
		}
	}
	x.fail(e, "expression %s is not understood", exprStr(e))
	return nil
}

func (x *c15W) pathOf(e ast.Expr) string {
	v := x.val(e)
	if v.kind != "path" {
		x.fail(e, "%s is not a field of the message", exprStr(e))
	}
	return v.path
}

func (x *c15W) stmts(list []ast.Stmt, out *[]*c15Op) {
	for _, s := range list {
		x.stmt(s, out)
	}
}

func (x *c15W) stmt(s ast.Stmt, out *[]*c15Op) {
	switch s := s.(type) {
	case *ast.BlockStmt:
		x.stmts(s.List, out)
	case *ast.EmptyStmt:
	case *ast.DeclStmt:
		gd, ok := s.Decl.(*ast.GenDecl)
		if !ok || gd.Tok != token.VAR || len(gd.Specs) != 1 {
			x.fail(s, "declaration not understood")
		}
		vs := gd.Specs[0].(*ast.ValueSpec)
		if len(vs.Names) != 1 || len(vs.Values) != 0 {
			x.fail(s, "declaration not understood")
		}
		o := x.info.Defs[vs.Names[0]]
		if sl, ok := o.Type().Underlying().(*types.Slice); ok {
			if b, ok := sl.Elem().(*types.Basic); ok && b.Kind() == types.Uint32 {
				if x.tag != nil {
					x.fail(s, "nested tag section")
				}
				x.tag = &c15tagctx{obj: o, pos: s}
				return
			}
		}
		x.env[o] = &c15wval{kind: "zero"}
	case *ast.AssignStmt:
		x.assign(s, out)
	case *ast.IfStmt:
		x.ifStmt(s, out)
	case *ast.RangeStmt:
		x.rangeStmt(s, out)
	default:
		x.fail(s, "statement %s is not one of the encode idioms", nodeStr(s))
	}
}

func (x *c15W) assign(s *ast.AssignStmt, out *[]*c15Op) {
	if len(s.Lhs) != 1 || len(s.Rhs) != 1 {
		x.fail(s, "multi-assignment")
	}
	lid, _ := s.Lhs[0].(*ast.Ident)
	if lid == nil {
		x.fail(s, "assignment to %s is not one of the encode idioms", exprStr(s.Lhs[0]))
	}
	if lid.Name == "_" && s.Tok == token.ASSIGN {
		return
	}
	if s.Tok == token.DEFINE {
		if x.bindVersionOrConst(s, func(e ast.Expr) bool {
			id, ok := unparen(e).(*ast.Ident)
			return ok && x.obj(id) == x.recv
		}) {
			// `v := v.Version` of a struct with a version field is also a value to write
			if _, isSel := unparen(s.Rhs[0]).(*ast.SelectorExpr); isSel {
				x.env[x.info.Defs[lid]] = x.val(s.Rhs[0])
			}
			return
		}
		x.env[x.info.Defs[lid]] = x.val(s.Rhs[0])
		return
	}
	if s.Tok != token.ASSIGN {
		x.fail(s, "operator assignment")
	}
	lo := x.obj(lid)
	call, _ := unparen(s.Rhs[0]).(*ast.CallExpr)
	if x.tag != nil && lo == x.tag.obj {
		x.tagCond(s, nil, s)
		return
	}
	if lo != x.dst || call == nil {
		x.fail(s, "assignment %s is not one of the encode idioms", nodeStr(s))
	}
	callee := calleeObj(x.info, call)
	switch {
	case c15IsKbin(callee) && strings.HasPrefix(callee.Name(), "Append"):
		if len(call.Args) < 2 || !x.isDst(call.Args[0]) {
			x.fail(s, "kbin.%s is not appending to dst", callee.Name())
		}
		x.emit(s, callee.Name()[len("Append"):], call.Args[1:], out)
	case callee != nil && callee.Name() == "append" && callee.Pkg() == nil:
		if len(call.Args) == 2 && call.Ellipsis.IsValid() && x.isDst(call.Args[0]) {
			*out = append(*out, &c15Op{K: "Raw", Path: x.pathOf(call.Args[1]), Src: x.src(s), Pos: s.Pos()})
			return
		}
		x.fail(s, "raw append %s outside the nullable-struct idiom", nodeStr(s))
	case callee != nil && callee.Name() == "AppendEach":
		// dst = v.UnknownTags.AppendEach(dst)
		sel := unparen(call.Fun).(*ast.SelectorExpr)
		p := x.pathOf(sel.X)
		if len(call.Args) != 1 || !x.isDst(call.Args[0]) || !strings.HasSuffix(p, "UnknownTags") {
			x.fail(s, "AppendEach not on UnknownTags with dst")
		}
		if len(*out) == 0 || (*out)[len(*out)-1].K != "Tags" || (*out)[len(*out)-1].Unknown != "" {
			x.fail(s, "unknown tags are appended without a preceding tag count")
		}
		t := (*out)[len(*out)-1]
		if p != c15join(t.Path, "UnknownTags") {
			x.violate(s, "tag count is of %s but the unknown tags appended are %s", c15p(t.Path), p)
		}
		t.Unknown = p
		x.tag = nil
	default:
		x.fail(s, "call %s is not one of the encode idioms", exprStr(call.Fun))
	}
}

// emit handles dst = kbin.Append<name>(dst, args...).
func (x *c15W) emit(s ast.Stmt, name string, args []ast.Expr, out *[]*c15Op) {
	lenOf := func(e ast.Expr) (string, bool) {
		c, ok := x.stripConv(e).(*ast.CallExpr)
		if !ok || len(c.Args) != 1 {
			return "", false
		}
		if b, ok := calleeObj(x.info, c).(*types.Builtin); !ok || b.Name() != "len" {
			return "", false
		}
		return x.pathOf(c.Args[0]), true
	}
	isNilOf := func(e ast.Expr, p string) bool {
		be, ok := unparen(e).(*ast.BinaryExpr)
		if !ok || be.Op != token.EQL {
			return false
		}
		id, ok := unparen(be.Y).(*ast.Ident)
		return ok && id.Name == "nil" && x.info.Uses[id] == types.Universe.Lookup("nil") && x.pathOf(be.X) == p
	}
	switch name {
	case "ArrayLen", "CompactArrayLen", "NullableArrayLen", "CompactNullableArrayLen":
		p, ok := lenOf(args[0])
		if !ok {
			x.fail(s, "array length argument %s is not len(field)", exprStr(args[0]))
		}
		nullable := strings.Contains(name, "Nullable")
		if nullable {
			if len(args) != 2 || !isNilOf(args[1], p) {
				x.violate(s, "nullable array length of %s: the null flag is not `%s == nil`", p, p)
			}
		} else if len(args) != 1 {
			x.fail(s, "unexpected arguments")
		}
		ln := "Int32"
		if strings.HasPrefix(name, "Compact") {
			ln = "Compact"
		}
		*out = append(*out, &c15Op{K: "Array", Path: p, Aux: fmt.Sprintf("len=%s,nullable=%v", ln, nullable), Src: x.src(s), Pos: s.Pos()})
		return
	case "Uvarint":
		x.tagCount(s, args, out)
		return
	}
	if !c15PrimKinds[name] || len(args) != 1 {
		x.fail(s, "kbin.Append%s is not a known wire primitive", name)
	}
	if name == "Varint" {
		if p, ok := lenOf(args[0]); ok {
			*out = append(*out, &c15Op{K: "Array", Path: p, Aux: "len=Varint,nullable=false", Src: x.src(s), Pos: s.Pos()})
			return
		}
	}
	v := x.val(args[0])
	op := &c15Op{K: name, Path: v.path, Src: x.src(s), Pos: s.Pos()}
	switch v.kind {
	case "path":
	case "conv":
		op.Aux = "enum=" + v.enum
	case "derefz":
		if name != "String" && name != "CompactString" {
			x.fail(s, "pointer-or-empty value written with %s", name)
		}
		op.Aux = "ptr"
	default:
		x.fail(s, "value %s written is not a field", exprStr(args[0]))
	}
	*out = append(*out, op)
}

func (x *c15W) ifStmt(s *ast.IfStmt, out *[]*c15Op) {
	if s.Init != nil {
		x.fail(s, "if with init statement")
	}
	if v, ok := x.eval(s.Cond); ok && v.Kind() == constant.Bool {
		if constant.BoolVal(v) {
			x.stmts(s.Body.List, out)
		} else if s.Else != nil {
			x.stmt(s.Else, out)
		}
		return
	}
	// tag presence condition
	if x.tag != nil && x.tag.op == nil && len(s.Body.List) == 1 && s.Else == nil {
		if as, ok := s.Body.List[0].(*ast.AssignStmt); ok && len(as.Lhs) == 1 {
			if id, ok := as.Lhs[0].(*ast.Ident); ok && x.obj(id) == x.tag.obj {
				x.tagCond(as, s.Cond, s)
				return
			}
		}
	}
	be, _ := unparen(s.Cond).(*ast.BinaryExpr)
	isNil := func(e ast.Expr) bool {
		id, ok := unparen(e).(*ast.Ident)
		return ok && x.info.Uses[id] == types.Universe.Lookup("nil")
	}
	if be != nil && isNil(be.Y) {
		// if v != nil { vv = *v }
		if be.Op == token.NEQ && s.Else == nil && len(s.Body.List) == 1 {
			if as, ok := s.Body.List[0].(*ast.AssignStmt); ok && as.Tok == token.ASSIGN && len(as.Lhs) == 1 {
				lid, _ := as.Lhs[0].(*ast.Ident)
				st, _ := unparen(as.Rhs[0]).(*ast.StarExpr)
				if lid != nil && st != nil {
					tgt := x.env[x.obj(lid)]
					src := x.val(st.X)
					cp := x.val(be.X)
					if tgt != nil && tgt.kind == "zero" && src.kind == "path" && cp.kind == "path" && cp.path == src.path {
						x.env[x.obj(lid)] = &c15wval{kind: "derefz", path: src.path}
						return
					}
				}
			}
		}
		// if v == nil { dst = append(dst, 255) } else { dst = append(dst, 1); ... }
		if be.Op == token.EQL && len(s.Body.List) == 1 {
			if eb, ok := s.Else.(*ast.BlockStmt); ok && len(eb.List) >= 1 {
				m1, ok1 := x.rawByte(s.Body.List[0])
				m2, ok2 := x.rawByte(eb.List[0])
				if ok1 && ok2 && m1 == 255 && m2 == 1 {
					op := &c15Op{K: "NullableStruct", Path: x.pathOf(be.X), Aux: "marker=int8", Src: x.src(s), Pos: s.Pos()}
					x.stmts(eb.List[1:], &op.Body)
					*out = append(*out, op)
					return
				}
				if ok1 && ok2 {
					x.violate(s, "nullable struct markers are %d (null) and %d (present), want 255 (-1) and 1", m1, m2)
				}
			}
		}
	}
	x.fail(s, "condition %s is neither a version guard nor a known idiom", exprStr(s.Cond))
}

// rawByte matches dst = append(dst, K).
func (x *c15W) rawByte(s ast.Stmt) (int64, bool) {
	as, ok := s.(*ast.AssignStmt)
	if !ok || as.Tok != token.ASSIGN || len(as.Lhs) != 1 || !x.isDst(as.Lhs[0]) {
		return 0, false
	}
	call, ok := unparen(as.Rhs[0]).(*ast.CallExpr)
	if !ok || len(call.Args) != 2 || call.Ellipsis.IsValid() || !x.isDst(call.Args[0]) {
		return 0, false
	}
	if b, ok := calleeObj(x.info, call).(*types.Builtin); !ok || b.Name() != "append" {
		return 0, false
	}
	return constInt(x.info, call.Args[1])
}

func (x *c15W) rangeStmt(s *ast.RangeStmt, out *[]*c15Op) {
	if s.Tok != token.DEFINE {
		x.fail(s, "range without :=")
	}
	if xid, ok := unparen(s.X).(*ast.Ident); ok && x.tag != nil && x.obj(xid) == x.tag.obj {
		x.tagLoop(s)
		return
	}
	kid, _ := s.Key.(*ast.Ident)
	if kid == nil || s.Value != nil {
		x.fail(s, "range loop is not `for i := range field`")
	}
	p := x.pathOf(s.X)
	if len(*out) == 0 {
		x.violate(s, "elements of %s are written without a length", p)
	}
	op := (*out)[len(*out)-1]
	if op.K != "Array" || op.Path != p || x.arrays[op] {
		x.violate(s, "elements of %s are written but the preceding step is %s %s", p, op.K, c15p(op.Path))
	}
	x.arrays[op] = true
	x.env[x.info.Defs[kid]] = &c15wval{kind: "idx", path: p}
	x.stmts(s.Body.List, &op.Body)
}

// ---- tag sections ----

// tagCond records `[if cond] { toEncode = append(toEncode, k) }`.
func (x *c15W) tagCond(as *ast.AssignStmt, cond ast.Expr, at ast.Node) {
	t := x.tag
	if t.op != nil {
		x.fail(at, "tag selected after the tag count was written")
	}
	call, ok := unparen(as.Rhs[0]).(*ast.CallExpr)
	if !ok || as.Tok != token.ASSIGN || len(call.Args) != 2 || call.Ellipsis.IsValid() {
		x.fail(at, "tag selection is not toEncode = append(toEncode, k)")
	}
	if b, ok := calleeObj(x.info, call).(*types.Builtin); !ok || b.Name() != "append" {
		x.fail(at, "tag selection is not an append")
	}
	if id, ok := unparen(call.Args[0]).(*ast.Ident); !ok || x.obj(id) != t.obj {
		x.fail(at, "tag selection appends to something else")
	}
	k, ok := constInt(x.info, call.Args[1])
	if !ok || int(k) != len(t.conds) {
		x.fail(at, "tags are not selected in order 0..n-1 (got %s, want %d)", exprStr(call.Args[1]), len(t.conds))
	}
	c, p := "always", ""
	if cond != nil {
		c, p = x.canonCond(cond)
	}
	t.conds = append(t.conds, c)
	t.paths = append(t.paths, p)
}

func (x *c15W) canonCond(cond ast.Expr) (string, string) {
	e, c := x.residual(cond)
	if c != nil {
		if *c {
			return "always", ""
		}
		return "never", ""
	}
	e = unparen(e)
	isNil := func(e ast.Expr) bool {
		id, ok := unparen(e).(*ast.Ident)
		return ok && x.info.Uses[id] == types.Universe.Lookup("nil")
	}
	switch e := e.(type) {
	case *ast.BinaryExpr:
		if e.Op == token.NEQ {
			if isNil(e.Y) {
				return "!=nil", x.pathOf(e.X)
			}
			if tv, ok := x.info.Types[e.Y]; ok && tv.Value != nil {
				return "!=" + c15ConstStr(tv.Value), x.pathOf(e.X)
			}
			if cl, ok := unparen(e.Y).(*ast.CompositeLit); ok && len(cl.Elts) == 0 {
				if at, ok := x.info.TypeOf(cl).Underlying().(*types.Array); ok && at.Len() == 16 {
					return "!=zero-uuid", x.pathOf(e.X)
				}
			}
		}
		if e.Op == token.GTR {
			if n, ok := constInt(x.info, e.Y); ok && n == 0 {
				if c, ok := unparen(e.X).(*ast.CallExpr); ok && len(c.Args) == 1 {
					if b, ok := calleeObj(x.info, c).(*types.Builtin); ok && b.Name() == "len" {
						return "len>0", x.pathOf(c.Args[0])
					}
				}
			}
		}
	case *ast.UnaryExpr:
		// !reflect.DeepEqual(v.F, (func() T { var v T; v.Default(); return v })())
		if e.Op == token.NOT {
			if c, ok := unparen(e.X).(*ast.CallExpr); ok && len(c.Args) == 2 {
				if f, ok := calleeObj(x.info, c).(*types.Func); ok && f.FullName() == "reflect.DeepEqual" {
					if x.isFreshDefault(c.Args[1], x.info.TypeOf(c.Args[0])) {
						return "!=struct-default", x.pathOf(c.Args[0])
					}
					if isNil(c.Args[1]) {
						return "!=untyped-nil(always true for a typed pointer)", x.pathOf(c.Args[0])
					}
				}
			}
		}
	}
	x.fail(cond, "tag presence condition %s is not understood", exprStr(cond))
	return "", ""
}

// isFreshDefault matches (func() T { var v T; v.Default(); return v })().
func (x *c15W) isFreshDefault(e ast.Expr, want types.Type) bool {
	c, ok := unparen(e).(*ast.CallExpr)
	if !ok || len(c.Args) != 0 {
		return false
	}
	fl, ok := unparen(c.Fun).(*ast.FuncLit)
	if !ok || len(fl.Body.List) != 3 {
		return false
	}
	ds, ok := fl.Body.List[0].(*ast.DeclStmt)
	if !ok {
		return false
	}
	gd, ok := ds.Decl.(*ast.GenDecl)
	if !ok || len(gd.Specs) != 1 {
		return false
	}
	vs, ok := gd.Specs[0].(*ast.ValueSpec)
	if !ok || len(vs.Names) != 1 || len(vs.Values) != 0 {
		return false
	}
	vo := x.info.Defs[vs.Names[0]]
	if vo == nil || !types.Identical(vo.Type(), want) {
		return false
	}
	es, ok := fl.Body.List[1].(*ast.ExprStmt)
	if !ok {
		return false
	}
	dc, ok := es.X.(*ast.CallExpr)
	if !ok || len(dc.Args) != 0 {
		return false
	}
	sel, ok := dc.Fun.(*ast.SelectorExpr)
	if !ok || sel.Sel.Name != "Default" {
		return false
	}
	if id, ok := sel.X.(*ast.Ident); !ok || x.obj(id) != vo {
		return false
	}
	rs, ok := fl.Body.List[2].(*ast.ReturnStmt)
	if !ok || len(rs.Results) != 1 {
		return false
	}
	id, ok := rs.Results[0].(*ast.Ident)
	return ok && x.obj(id) == vo
}

// tagCount handles dst = kbin.AppendUvarint(dst, <number of tags>).
func (x *c15W) tagCount(s ast.Stmt, args []ast.Expr, out *[]*c15Op) {
	if len(args) != 1 {
		x.fail(s, "AppendUvarint arguments")
	}
	var terms []ast.Expr
	var split func(e ast.Expr)
	split = func(e ast.Expr) {
		e = x.stripConv(e)
		if be, ok := e.(*ast.BinaryExpr); ok && be.Op == token.ADD {
			split(be.X)
			split(be.Y)
			return
		}
		terms = append(terms, e)
	}
	split(args[0])
	hasLen, unk := false, ""
	for _, t := range terms {
		if n, ok := constInt(x.info, t); ok {
			if n != 0 {
				x.violate(s, "tag count adds the constant %d", n)
			}
			continue
		}
		c, ok := t.(*ast.CallExpr)
		if !ok {
			x.fail(s, "tag count term %s is not understood", exprStr(t))
		}
		if b, ok := calleeObj(x.info, c).(*types.Builtin); ok && b.Name() == "len" && len(c.Args) == 1 {
			id, ok := unparen(c.Args[0]).(*ast.Ident)
			if !ok || x.tag == nil || x.obj(id) != x.tag.obj || hasLen {
				x.fail(s, "tag count term %s is not len(toEncode)", exprStr(t))
			}
			hasLen = true
			continue
		}
		sel, ok := unparen(c.Fun).(*ast.SelectorExpr)
		if !ok || sel.Sel.Name != "Len" || len(c.Args) != 0 || unk != "" {
			x.fail(s, "tag count term %s is not understood", exprStr(t))
		}
		unk = x.pathOf(sel.X)
	}
	if unk == "" || !strings.HasSuffix(unk, "UnknownTags") {
		x.violate(s, "the tag count %s does not include UnknownTags.Len(): unknown tags would be written uncounted", exprStr(args[0]))
	}
	base := strings.TrimSuffix(strings.TrimSuffix(unk, "UnknownTags"), ".")
	op := &c15Op{K: "Tags", Path: base, Src: x.src(s), Pos: s.Pos()}
	if x.tag != nil {
		if x.tag.op != nil {
			x.fail(s, "second tag count in one tag section")
		}
		if !hasLen {
			x.violate(s, "the tag count %s does not include len(toEncode): known tags would be written uncounted", exprStr(args[0]))
		}
		for k, c := range x.tag.conds {
			op.Tags = append(op.Tags, &c15Tag{N: k, Cond: c})
		}
		x.tag.op = op
	} else {
		// no known tags: a tag context only to require the closing AppendEach
		x.tag = &c15tagctx{op: op, pos: s}
	}
	*out = append(*out, op)
}

// tagLoop handles for _, tag := range toEncode { switch tag { case k: ... } }.
func (x *c15W) tagLoop(s *ast.RangeStmt) {
	t := x.tag
	if t.op == nil {
		x.fail(s, "tags are written before their count")
	}
	vid, _ := s.Value.(*ast.Ident)
	if kid, ok := s.Key.(*ast.Ident); !ok || kid.Name != "_" || vid == nil || len(s.Body.List) != 1 {
		x.fail(s, "tag loop is not `for _, tag := range toEncode { switch tag {...} }`")
	}
	sw, ok := s.Body.List[0].(*ast.SwitchStmt)
	if !ok || sw.Init != nil {
		x.fail(s, "tag loop body is not a switch")
	}
	if id, ok := unparen(sw.Tag).(*ast.Ident); !ok || x.obj(id) != x.info.Defs[vid] {
		x.fail(sw, "tag switch is not on the loop variable")
	}
	for _, cl := range sw.Body.List {
		cc := cl.(*ast.CaseClause)
		if len(cc.List) != 1 {
			x.fail(cc, "tag switch has a default arm or a multi-value case")
		}
		k, ok := constInt(x.info, cc.List[0])
		if !ok || k < 0 || int(k) >= len(t.op.Tags) {
			x.fail(cc, "case %s is not one of the %d selected tags", exprStr(cc.List[0]), len(t.op.Tags))
		}
		tg := t.op.Tags[k]
		if tg.Size != "" {
			x.fail(cc, "tag %d has two cases", k)
		}
		tg.Src, tg.Pos = x.src(cc), cc.Pos()
		x.tagCase(cc, int(k), tg, t.paths[k])
	}
}

func (x *c15W) tagCase(cc *ast.CaseClause, k int, tg *c15Tag, condPath string) {
	list := cc.Body
	if len(list) == 1 {
		if b, ok := list[0].(*ast.BlockStmt); ok {
			list = b.List
		}
	}
	if len(list) < 4 {
		x.fail(cc, "tag %d: case body too short", k)
	}
	// v := v.Field
	def, ok := list[0].(*ast.AssignStmt)
	if !ok || def.Tok != token.DEFINE || len(def.Lhs) != 1 {
		x.fail(list[0], "tag %d: case does not start with v := v.Field", k)
	}
	x.stmt(def, nil)
	fv := x.env[x.info.Defs[def.Lhs[0].(*ast.Ident)]]
	if fv == nil || fv.kind != "path" {
		x.fail(def, "tag %d: case does not start with v := v.Field", k)
	}
	if condPath != "" && condPath != fv.path {
		x.violate(def, "tag %d is selected by a condition on %s but writes %s", k, condPath, fv.path)
	}
	uv := func(s ast.Stmt) *ast.CallExpr {
		as, ok := s.(*ast.AssignStmt)
		if !ok || as.Tok != token.ASSIGN || len(as.Lhs) != 1 || !x.isDst(as.Lhs[0]) {
			return nil
		}
		c, ok := unparen(as.Rhs[0]).(*ast.CallExpr)
		if !ok || len(c.Args) != 2 {
			return nil
		}
		if o := calleeObj(x.info, c); !c15IsKbin(o) || o.Name() != "AppendUvarint" {
			return nil
		}
		return c
	}
	// tag number
	c := uv(list[1])
	if c == nil || !x.isDst(c.Args[0]) {
		x.fail(list[1], "tag %d: the tag number is not written first", k)
	}
	if n, ok := constInt(x.info, c.Args[1]); !ok || int(n) != k {
		x.violate(list[1], "case %d writes tag number %s", k, exprStr(c.Args[1]))
	}
	// size
	if c := uv(list[2]); c != nil && x.isDst(c.Args[0]) {
		if n, ok := constInt(x.info, c.Args[1]); ok {
			tg.Size = fmt.Sprintf("fixed:%d", n)
		} else if lc, ok := x.stripConv(c.Args[1]).(*ast.CallExpr); ok && len(lc.Args) == 1 {
			o := calleeObj(x.info, lc)
			if !c15IsKbin(o) || (o.Name() != "VarintLen" && o.Name() != "VarlongLen") || x.pathOf(lc.Args[0]) != fv.path {
				x.fail(list[2], "tag %d: size %s is not understood", k, exprStr(c.Args[1]))
			}
			tg.Size = o.Name()
		} else {
			x.fail(list[2], "tag %d: size %s is not understood", k, exprStr(c.Args[1]))
		}
		saved := x.tag
		x.tag = nil
		x.stmts(list[3:], &tg.Body)
		if x.tag != nil {
			x.fail(cc, "tag %d: nested tag section is not closed", k)
		}
		x.tag = saved
		x.checkTagBody(cc, k, tg, fv.path)
		return
	}
	// sized := false; lenAt := len(dst); L: body...; if !sized { dst = kbin.AppendUvarint(dst[:lenAt], uint32(len(dst[lenAt:]))); sized = true; goto L }
	if len(list) < 6 {
		x.fail(list[2], "tag %d: neither a constant size nor the back-patch idiom", k)
	}
	sized, ok1 := x.defConst(list[2], false)
	lenAt, ok2 := x.defLenDst(list[3])
	lab, ok3 := list[4].(*ast.LabeledStmt)
	fin, ok4 := list[len(list)-1].(*ast.IfStmt)
	if !ok1 || !ok2 || !ok3 || !ok4 {
		x.fail(list[2], "tag %d: neither a constant size nor the back-patch idiom", k)
	}
	bad := func(why string) { x.fail(fin, "tag %d: back-patch idiom: %s", k, why) }
	if fin.Init != nil || fin.Else != nil || len(fin.Body.List) != 3 {
		bad("final if has the wrong shape")
	}
	if ne, ok := unparen(fin.Cond).(*ast.UnaryExpr); !ok || ne.Op != token.NOT {
		bad("condition is not !sized")
	} else if id, ok := unparen(ne.X).(*ast.Ident); !ok || x.obj(id) != sized {
		bad("condition is not !sized")
	}
	c = uv(fin.Body.List[0])
	if c == nil {
		bad("size is not written with AppendUvarint")
	}
	if se, ok := unparen(c.Args[0]).(*ast.SliceExpr); !ok || !x.isDst(se.X) || se.Low != nil || se.High == nil || !x.isObj(se.High, lenAt) {
		bad("size is not written at dst[:lenAt]")
	}
	if lc, ok := x.stripConv(c.Args[1]).(*ast.CallExpr); !ok || len(lc.Args) != 1 {
		bad("size is not len(dst[lenAt:])")
	} else if se, ok := unparen(lc.Args[0]).(*ast.SliceExpr); !ok || !x.isDst(se.X) || se.High != nil || se.Low == nil || !x.isObj(se.Low, lenAt) {
		bad("size is not len(dst[lenAt:])")
	} else if b, ok := calleeObj(x.info, lc).(*types.Builtin); !ok || b.Name() != "len" {
		bad("size is not len(dst[lenAt:])")
	}
	if as, ok := fin.Body.List[1].(*ast.AssignStmt); !ok || as.Tok != token.ASSIGN || len(as.Lhs) != 1 || !x.isObj(as.Lhs[0], sized) {
		bad("sized is not set")
	} else if b, ok := constBool(x.info, as.Rhs[0]); !ok || !b {
		bad("sized is not set to true")
	}
	if br, ok := fin.Body.List[2].(*ast.BranchStmt); !ok || br.Tok != token.GOTO || br.Label == nil || x.info.Uses[br.Label] != x.info.Defs[lab.Label] {
		bad("does not jump back to the label")
	}
	body := append([]ast.Stmt{lab.Stmt}, list[5:len(list)-1]...)
	tg.Size = "backpatched"
	saved := x.tag
	x.tag = nil
	x.stmts(body, &tg.Body)
	if x.tag != nil {
		x.fail(cc, "tag %d: nested tag section is not closed", k)
	}
	x.tag = saved
	x.checkTagBody(cc, k, tg, fv.path)
}

func (x *c15W) checkTagBody(cc ast.Node, k int, tg *c15Tag, path string) {
	if len(tg.Body) == 0 {
		x.fail(cc, "tag %d writes no value", k)
	}
	for _, o := range tg.Body {
		if o.Path != path && !strings.HasPrefix(o.Path, path+".") && !strings.HasPrefix(o.Path, path+"[") {
			x.fail(cc, "tag %d (%s) writes %s", k, path, c15p(o.Path))
		}
	}
}

func (x *c15W) isObj(e ast.Expr, o types.Object) bool {
	id, ok := unparen(e).(*ast.Ident)
	return ok && o != nil && x.obj(id) == o
}

func (x *c15W) defConst(s ast.Stmt, want bool) (types.Object, bool) {
	as, ok := s.(*ast.AssignStmt)
	if !ok || as.Tok != token.DEFINE || len(as.Lhs) != 1 {
		return nil, false
	}
	b, ok := constBool(x.info, as.Rhs[0])
	if !ok || b != want {
		return nil, false
	}
	return x.info.Defs[as.Lhs[0].(*ast.Ident)], true
}

func (x *c15W) defLenDst(s ast.Stmt) (types.Object, bool) {
	as, ok := s.(*ast.AssignStmt)
	if !ok || as.Tok != token.DEFINE || len(as.Lhs) != 1 {
		return nil, false
	}
	c, ok := unparen(as.Rhs[0]).(*ast.CallExpr)
	if !ok || len(c.Args) != 1 || !x.isDst(c.Args[0]) {
		return nil, false
	}
	if b, ok := calleeObj(x.info, c).(*types.Builtin); !ok || b.Name() != "len" {
		return nil, false
	}
	return x.info.Defs[as.Lhs[0].(*ast.Ident)], true
}
