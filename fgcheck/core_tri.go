package main

import (
	"go/ast"
	"go/token"
	"go/types"
)

// Three-valued evaluation of boolean guard expressions under an assignment
// of named atoms.  Local single-assignment boolean variables are replaced by
// their defining expression; everything not recognised is Unknown.

type tri int

const (
	triU tri = iota
	triT
	triF
)

func (t tri) not() tri {
	switch t {
	case triT:
		return triF
	case triF:
		return triT
	}
	return triU
}

func triAnd(a, b tri) tri {
	if a == triF || b == triF {
		return triF
	}
	if a == triT && b == triT {
		return triT
	}
	return triU
}

func triOr(a, b tri) tri {
	if a == triT || b == triT {
		return triT
	}
	if a == triF && b == triF {
		return triF
	}
	return triU
}

type triEnv struct {
	f     *Func
	atom  func(e ast.Expr) (tri, bool) // classify an atomic expression
	depth int
}

// singleDef returns the unique defining expression of a local variable
// (x := e or var x = e, never reassigned), or nil.
func singleDef(f *Func, obj types.Object) ast.Expr {
	var def ast.Expr
	n := 0
	ast.Inspect(f.Decl.Body, func(x ast.Node) bool {
		switch s := x.(type) {
		case *ast.AssignStmt:
			for i, l := range s.Lhs {
				id, ok := l.(*ast.Ident)
				if !ok {
					continue
				}
				if f.Info().Defs[id] == obj || f.Info().Uses[id] == obj {
					n++
					if len(s.Rhs) == len(s.Lhs) && (s.Tok == token.DEFINE || s.Tok == token.ASSIGN) {
						def = s.Rhs[i]
					} else {
						def = nil
						n += 10
					}
				}
			}
		case *ast.ValueSpec:
			for i, id := range s.Names {
				if f.Info().Defs[id] == obj {
					n++
					if i < len(s.Values) {
						def = s.Values[i]
					} else {
						def = nil
						n += 10
					}
				}
			}
		case *ast.IncDecStmt:
			if id, ok := s.X.(*ast.Ident); ok && f.Info().Uses[id] == obj {
				n += 10
			}
		case *ast.UnaryExpr:
			if s.Op == token.AND {
				if id, ok := s.X.(*ast.Ident); ok && f.Info().Uses[id] == obj {
					n += 10
				}
			}
		}
		return true
	})
	if n == 1 {
		return def
	}
	return nil
}

func (env *triEnv) eval(e ast.Expr) tri {
	e = unparen(e)
	if v, ok := constBool(env.f.Info(), e); ok {
		if v {
			return triT
		}
		return triF
	}
	if t, ok := env.atom(e); ok {
		return t
	}
	switch x := e.(type) {
	case *ast.UnaryExpr:
		if x.Op == token.NOT {
			return env.eval(x.X).not()
		}
	case *ast.BinaryExpr:
		switch x.Op {
		case token.LAND:
			return triAnd(env.eval(x.X), env.eval(x.Y))
		case token.LOR:
			return triOr(env.eval(x.X), env.eval(x.Y))
		}
	case *ast.Ident:
		obj := env.f.Info().Uses[x]
		if v, ok := obj.(*types.Var); ok && !v.IsField() && env.depth < 6 {
			if def := singleDef(env.f, obj); def != nil {
				env.depth++
				r := env.eval(def)
				env.depth--
				return r
			}
		}
	}
	return triU
}

// evalFacts evaluates the conjunction of facts.
func (env *triEnv) evalFacts(facts []Fact) tri {
	r := triT
	for _, ft := range facts {
		if ft.Tag != nil {
			r = triAnd(r, triU)
			continue
		}
		v := env.eval(ft.Cond)
		if !ft.Val {
			v = v.not()
		}
		r = triAnd(r, v)
	}
	return r
}
