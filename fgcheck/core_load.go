package main

import (
	"fmt"
	"go/ast"
	"go/token"
	"go/types"
	"os"
	"path/filepath"
	"sort"
	"strings"

	"golang.org/x/tools/go/packages"
)

// A Module is one Go module of the repository, loaded from the working tree
// with full syntax and type information for its own packages (dependencies
// come from export data).
type Module struct {
	Dir   string
	Fset  *token.FileSet
	Pkgs  []*packages.Package
	byPkg map[string]*packages.Package // by package name and by import path
	funcs map[string]*Func             // by key
	// all function-like bodies, including methods
	Tags   string
	GOARCH string
}

// Func is a declared function or method with a body in an analysed package.
type Func struct {
	Key  string // pkgname.Recv.Name or pkgname.Name
	Pkg  *packages.Package
	Decl *ast.FuncDecl
	Obj  *types.Func
	mod  *Module
	g    *Graph
}

func (f *Func) Info() *types.Info { return f.Pkg.TypesInfo }

func (f *Func) Pos() token.Pos { return f.Decl.Pos() }

type loadKey struct{ dir, tags, goarch string }

var moduleCache = map[loadKey]*Module{}

var repoRoot = "/repo"

func goEnv(goarch string) []string {
	env := []string{}
	for _, e := range os.Environ() {
		if strings.HasPrefix(e, "GOWORK=") || strings.HasPrefix(e, "GOFLAGS=") || strings.HasPrefix(e, "GOTOOLCHAIN=") ||
			strings.HasPrefix(e, "GOPROXY=") || strings.HasPrefix(e, "GOSUMDB=") || strings.HasPrefix(e, "GOARCH=") || strings.HasPrefix(e, "PATH=") {
			continue
		}
		env = append(env, e)
	}
	env = append(env,
		"PATH=/opt/veriftools/go1.26.8/bin:"+os.Getenv("PATH"),
		"GOWORK=off", "GOFLAGS=-mod=mod", "GOTOOLCHAIN=local", "GOPROXY=off", "GOSUMDB=off", "CGO_ENABLED=0")
	if goarch != "" {
		env = append(env, "GOARCH="+goarch)
	}
	return env
}

// LoadModule loads all non-test packages of the module rooted at
// repoRoot/rel (rel "" is the root module, restricted to ./pkg/...).
func LoadModule(rel, tags, goarch string) (*Module, error) {
	k := loadKey{rel, tags, goarch}
	if m, ok := moduleCache[k]; ok {
		return m, nil
	}
	dir := filepath.Join(repoRoot, rel)
	patterns := []string{"./..."}
	if rel == "" || rel == "." {
		patterns = []string{"./pkg/..."}
	}
	fset := token.NewFileSet()
	cfg := &packages.Config{
		Mode: packages.NeedName | packages.NeedFiles | packages.NeedCompiledGoFiles | packages.NeedImports |
			packages.NeedTypes | packages.NeedSyntax | packages.NeedTypesInfo | packages.NeedTypesSizes | packages.NeedModule,
		Dir:  dir,
		Fset: fset,
		Env:  goEnv(goarch),
	}
	if tags != "" {
		cfg.BuildFlags = []string{"-tags=" + tags}
	}
	pkgs, err := packages.Load(cfg, patterns...)
	if err != nil {
		return nil, fmt.Errorf("load %s: %v", dir, err)
	}
	if len(pkgs) == 0 {
		return nil, fmt.Errorf("load %s: no packages", dir)
	}
	// alpha-normalisation of renamed locals (core_alpha.go): reload with an
	// overlay in which they carry the recorded names again; fall back to the
	// tree as written if anything about the reload is off
	{
		edits := map[string][]alphaEdit{}
		clean := true
		for _, p := range pkgs {
			if len(p.Errors) > 0 || p.TypesInfo == nil {
				clean = false
			}
		}
		if clean {
			for _, p := range pkgs {
				alphaCollect(rel, p, edits)
			}
		}
		if len(edits) > 0 {
			if ov := alphaOverlay(edits); ov != nil {
				fset2 := token.NewFileSet()
				cfg2 := *cfg
				cfg2.Fset = fset2
				cfg2.Overlay = ov
				pkgs2, err2 := packages.Load(&cfg2, patterns...)
				ok2 := err2 == nil && len(pkgs2) == len(pkgs)
				if ok2 {
					for _, p := range pkgs2 {
						if len(p.Errors) > 0 || p.TypesInfo == nil {
							ok2 = false
						}
					}
				}
				if ok2 {
					pkgs, fset = pkgs2, fset2
				}
			}
		}
	}
	m := &Module{Dir: dir, Fset: fset, byPkg: map[string]*packages.Package{}, funcs: map[string]*Func{}, Tags: tags, GOARCH: goarch}
	var errs []string
	for _, p := range pkgs {
		for _, e := range p.Errors {
			errs = append(errs, e.Error())
		}
		if p.Types == nil || p.TypesInfo == nil {
			errs = append(errs, p.PkgPath+": no type information")
			continue
		}
		// only packages whose files live in this module directory
		m.Pkgs = append(m.Pkgs, p)
		m.byPkg[p.PkgPath] = p
		if _, dup := m.byPkg[p.Name]; !dup {
			m.byPkg[p.Name] = p
		}
	}
	if len(errs) > 0 {
		if len(errs) > 8 {
			errs = errs[:8]
		}
		return nil, fmt.Errorf("load %s: type/parse errors: %s", dir, strings.Join(errs, "; "))
	}
	sort.Slice(m.Pkgs, func(i, j int) bool { return m.Pkgs[i].PkgPath < m.Pkgs[j].PkgPath })
	for _, p := range m.Pkgs {
		for _, f := range p.Syntax {
			pruneNoEffect(f, p.TypesInfo)
		}
	}
	for _, p := range m.Pkgs {
		for _, f := range p.Syntax {
			for _, d := range f.Decls {
				fd, ok := d.(*ast.FuncDecl)
				if !ok || fd.Body == nil {
					continue
				}
				obj, _ := p.TypesInfo.Defs[fd.Name].(*types.Func)
				if obj == nil {
					continue
				}
				key := funcKey(p.Name, fd)
				if (fd.Name.Name == "init" && fd.Recv == nil) || fd.Name.Name == "_" {
					continue // package initialisers (several per package, not callable); methods named init are ordinary functions
				}
				if _, dup := m.funcs[key]; dup {
					// same key in two packages with the same name (kbin copies): qualify by path
					key = p.PkgPath + ":" + key
				}
				m.funcs[key] = &Func{Key: key, Pkg: p, Decl: fd, Obj: obj, mod: m}
			}
		}
	}
	moduleCache[k] = m
	return m, nil
}

func recvTypeName(e ast.Expr) string {
	for {
		switch t := e.(type) {
		case *ast.StarExpr:
			e = t.X
		case *ast.ParenExpr:
			e = t.X
		case *ast.IndexExpr:
			e = t.X
		case *ast.IndexListExpr:
			e = t.X
		case *ast.Ident:
			return t.Name
		default:
			return "?"
		}
	}
}

func funcKey(pkgName string, fd *ast.FuncDecl) string {
	if fd.Recv != nil && len(fd.Recv.List) > 0 {
		return pkgName + "." + recvTypeName(fd.Recv.List[0].Type) + "." + fd.Name.Name
	}
	return pkgName + "." + fd.Name.Name
}

// keyOfObj returns the key for a *types.Func (declared anywhere).
func keyOfObj(fn *types.Func) string {
	if fn == nil {
		return ""
	}
	pkg := ""
	if fn.Pkg() != nil {
		pkg = fn.Pkg().Name()
	}
	sig, _ := fn.Type().(*types.Signature)
	if sig != nil && sig.Recv() != nil {
		t := sig.Recv().Type()
		if p, ok := t.(*types.Pointer); ok {
			t = p.Elem()
		}
		switch n := t.(type) {
		case *types.Named:
			return pkg + "." + n.Obj().Name() + "." + fn.Name()
		case *types.Alias:
			return pkg + "." + n.Obj().Name() + "." + fn.Name()
		}
		return pkg + ".?." + fn.Name()
	}
	return pkg + "." + fn.Name()
}

// Func returns the function with the given key or nil.
func (m *Module) Func(key string) *Func { return m.funcs[key] }

// Pkg returns the package with the given name or path.
func (m *Module) Pkg(name string) *packages.Package { return m.byPkg[name] }

// FuncsIn returns all functions of the named package sorted by key.
func (m *Module) FuncsIn(pkgName string) []*Func {
	var out []*Func
	for _, f := range m.funcs {
		if f.Pkg.Name == pkgName || f.Pkg.PkgPath == pkgName {
			out = append(out, f)
		}
	}
	sort.Slice(out, func(i, j int) bool { return out[i].Key < out[j].Key })
	return out
}

// Field resolves pkg.Type.field to its *types.Var.
func (m *Module) Field(pkgName, typeName, field string) *types.Var {
	p := m.byPkg[pkgName]
	if p == nil {
		return nil
	}
	obj := p.Types.Scope().Lookup(typeName)
	if obj == nil {
		return nil
	}
	st, ok := obj.Type().Underlying().(*types.Struct)
	if !ok {
		return nil
	}
	for i := 0; i < st.NumFields(); i++ {
		if st.Field(i).Name() == field {
			return st.Field(i)
		}
	}
	return nil
}

// Method resolves pkg.Type.method (declared on T or *T) to its *types.Func.
func (m *Module) Method(pkgName, typeName, method string) *types.Func {
	p := m.byPkg[pkgName]
	if p == nil {
		return nil
	}
	obj := p.Types.Scope().Lookup(typeName)
	if obj == nil {
		return nil
	}
	named, ok := obj.Type().(*types.Named)
	if !ok {
		return nil
	}
	for i := 0; i < named.NumMethods(); i++ {
		if named.Method(i).Name() == method {
			return named.Method(i)
		}
	}
	if it, ok := named.Underlying().(*types.Interface); ok {
		for i := 0; i < it.NumMethods(); i++ {
			if it.Method(i).Name() == method {
				return it.Method(i)
			}
		}
	}
	return nil
}

// Object resolves a package-level object.
func (m *Module) Object(pkgName, name string) types.Object {
	p := m.byPkg[pkgName]
	if p == nil {
		return nil
	}
	return p.Types.Scope().Lookup(name)
}

func (m *Module) Position(p token.Pos) string {
	if !p.IsValid() {
		return "-"
	}
	pos := m.Fset.Position(p)
	rel, err := filepath.Rel(repoRoot, pos.Filename)
	if err != nil {
		rel = pos.Filename
	}
	return fmt.Sprintf("%s:%d", rel, pos.Line)
}

// pruneNoEffect removes, from the in-memory syntax trees only, statements that
// cannot affect any property: blank assignments of side-effect-free
// expressions (`_ = x`), empty statements, and calls to a logger's Log/Logf
// method whose arguments contain no channel receive and no function literal.
// Every rule therefore sees the same function whether or not a debug line was
// added; positions of the remaining nodes are unchanged.
func pruneNoEffect(f *ast.File, info *types.Info) {
	pure := func(e ast.Expr) bool {
		ok := true
		ast.Inspect(e, func(x ast.Node) bool {
			switch n := x.(type) {
			case *ast.FuncLit:
				ok = false
			case *ast.UnaryExpr:
				if n.Op == token.ARROW {
					ok = false
				}
			}
			return ok
		})
		return ok
	}
	noEffect := func(st ast.Stmt) bool {
		switch s := st.(type) {
		case *ast.EmptyStmt:
			return !s.Implicit
		case *ast.AssignStmt:
			if s.Tok != token.ASSIGN || len(s.Lhs) != len(s.Rhs) {
				return false
			}
			for i, l := range s.Lhs {
				id, ok := l.(*ast.Ident)
				if !ok || id.Name != "_" {
					return false
				}
				// only plain values: a call could have effects
				switch unparen(s.Rhs[i]).(type) {
				case *ast.Ident, *ast.BasicLit, *ast.SelectorExpr:
				default:
					return false
				}
			}
			return true
		case *ast.ExprStmt:
			call, ok := s.X.(*ast.CallExpr)
			if !ok {
				return false
			}
			sel, ok := call.Fun.(*ast.SelectorExpr)
			if !ok || (sel.Sel.Name != "Log" && sel.Sel.Name != "Logf") {
				return false
			}
			fn, ok := info.Uses[sel.Sel].(*types.Func)
			if !ok {
				return false
			}
			sig, ok := fn.Type().(*types.Signature)
			if !ok || sig.Recv() == nil || sig.Results().Len() != 0 {
				return false
			}
			if !strings.Contains(strings.ToLower(sig.Recv().Type().String()), "logger") {
				return false
			}
			for _, a := range call.Args {
				if !pure(a) {
					return false
				}
			}
			return pure(sel.X)
		}
		return false
	}
	// canonical statement forms: `x += 1` / `x -= 1` are analysed as `x++` / `x--`
	canon := func(st ast.Stmt) ast.Stmt {
		as, ok := st.(*ast.AssignStmt)
		if !ok || len(as.Lhs) != 1 || len(as.Rhs) != 1 || (as.Tok != token.ADD_ASSIGN && as.Tok != token.SUB_ASSIGN) {
			return st
		}
		lit, ok := unparen(as.Rhs[0]).(*ast.BasicLit)
		if !ok || lit.Kind != token.INT || lit.Value != "1" {
			return st
		}
		if tv, ok := info.Types[as.Lhs[0]]; ok {
			if b, isB := tv.Type.Underlying().(*types.Basic); !isB || b.Info()&types.IsInteger == 0 {
				return st
			}
		}
		tok := token.INC
		if as.Tok == token.SUB_ASSIGN {
			tok = token.DEC
		}
		return &ast.IncDecStmt{X: as.Lhs[0], TokPos: as.TokPos, Tok: tok}
	}
	filter := func(list []ast.Stmt) []ast.Stmt {
		out := list[:0:0]
		for _, st := range list {
			if !noEffect(st) {
				out = append(out, canon(st))
			}
		}
		return out
	}
	ast.Inspect(f, func(x ast.Node) bool {
		switch n := x.(type) {
		case *ast.BlockStmt:
			n.List = filter(n.List)
		case *ast.CaseClause:
			n.Body = filter(n.Body)
		case *ast.CommClause:
			n.Body = filter(n.Body)
		case *ast.ForStmt:
			if n.Post != nil {
				n.Post = canon(n.Post)
			}
		}
		return true
	})
}
