package main

import (
	"fmt"
	"go/ast"
	"go/types"
)

// A classic group's leader is the only member that may trigger a rebalance
// when partitions are added to a topic only other members consume. It can do
// so only if the map handed to initExternal (which stores a COPY) already
// holds every group topic's partition count: no write to the map may follow
// the call, and the call must lie on every path from the metadata round trip
// to the balance.

func (x *c07x) external() {
	c, m := x.c, x.m
	rule := "leader-watches-group-topics"
	f := x.fn("kgo.groupConsumer.balanceGroup")
	if f == nil {
		return
	}
	info := f.Info()
	g := f.Graph()
	calls := c04calls(f.Decl.Body, info, "kgo.groupConsumer.initExternal")
	if len(calls) == 0 {
		c.Fail(rule, f.Key+"#initExternal", f.Pos(), m, "the leader never records the group's topics (no initExternal call): partition growth on topics only other members consume never triggers a rebalance and the new partitions stay unowned")
		return
	}
	// the balanced map
	var balMap types.Object
	var balNodes []ast.Node
	ast.Inspect(f.Decl.Body, func(y ast.Node) bool {
		call, ok := y.(*ast.CallExpr)
		if !ok || len(call.Args) != 1 {
			return true
		}
		sel, ok := unparen(call.Fun).(*ast.SelectorExpr)
		if !ok || (sel.Sel.Name != "Balance" && sel.Sel.Name != "BalanceOrError") {
			return true
		}
		if o := c04obj(info, call.Args[0]); o != nil {
			balMap = o
			balNodes = append(balNodes, call)
		}
		return true
	})
	if balMap == nil {
		c.Undecided(rule, f.Key+"#balance", f.Pos(), m, "Balance / BalanceOrError(<map>) not found")
		return
	}
	isStore := func(n ast.Node) bool {
		return containsNode(n, true, func(y ast.Node) bool {
			as, ok := y.(*ast.AssignStmt)
			if !ok {
				return false
			}
			for _, l := range as.Lhs {
				if ix, ok := l.(*ast.IndexExpr); ok && c04obj(info, ix.X) == balMap {
					return true
				}
			}
			return false
		})
	}
	nStores := 0
	ast.Inspect(f.Decl.Body, func(y ast.Node) bool {
		if as, ok := y.(*ast.AssignStmt); ok && isStore(as) {
			nStores++
		}
		return true
	})
	for i, call := range calls {
		cons := fmt.Sprintf("%s: initExternal #%d", f.Key, i+1)
		l, ok := g.LocOf(call)
		if !ok {
			c.Undecided(rule, cons, call.Pos(), m, "call not located")
			continue
		}
		same := len(call.Args) == 1 && c04obj(info, call.Args[0]) == balMap
		p, late := g.FindPath(l, SearchOpts{GoalNode: isStore})
		c.Check(same && !late, rule, cons+"#map-complete", call.Pos(), m, "given the balanced map, and no partition count is written to it after the call",
			map[bool]string{true: "after initExternal (which stores a copy of its argument) the partition-count map is still being filled (" + pathStr(p) + "): the stored copy lacks the topics the leader does not consume itself, so they are never added to the leader's metadata requests, their partition growth is never noticed, nobody rejoins, and the new partitions stay assigned to no member", false: "initExternal is not given the map that is balanced"}[same])
	}
	c.Floor(rule+"#map-stores", nStores, 3)
	// on every path from the metadata round trip to the balance
	n := 0
	for _, b := range g.C.Blocks {
		for i, nd := range b.Nodes {
			if !c07now(info, nd, "kgo.Client.fetchMetadataByName", nil) {
				continue
			}
			n++
			p, found := g.FindPath(Loc{int(b.Index), i}, SearchOpts{
				Stop: func(y ast.Node) bool { return c07now(info, y, "kgo.groupConsumer.initExternal", nil) },
				GoalNode: func(y ast.Node) bool {
					for _, bn := range balNodes {
						if c07containsNode(y, bn) {
							return true
						}
					}
					return false
				},
			})
			c.Check(!found, rule, f.Key+"#recorded-before-balance", nd.Pos(), m, "after fetching the group's topics the leader records them before balancing", "the balance is reachable from the metadata round trip without initExternal ("+pathStr(p)+"): the leader does not watch the topics it just learned about")
		}
	}
	c.Floor(rule+"#metadata-fetch", n, 1)
	// initExternal publishes (a copy of) its argument
	if ie := x.fn("kgo.groupConsumer.initExternal"); ie != nil {
		p := ""
		if len(ie.Decl.Type.Params.List) == 1 && len(ie.Decl.Type.Params.List[0].Names) == 1 {
			p = ie.Decl.Type.Params.List[0].Names[0].Name
		}
		okStore := false
		var ev types.Object
		ast.Inspect(ie.Decl.Body, func(y ast.Node) bool {
			call, ok := y.(*ast.CallExpr)
			if !ok || len(call.Args) != 1 {
				return true
			}
			sel, ok := unparen(call.Fun).(*ast.SelectorExpr)
			if !ok || sel.Sel.Name != "Store" {
				return true
			}
			if fv := fieldOfSel(ie.Info(), sel.X); fv != nil && fv.Name() == "tps" {
				a := nosp(exprStr(call.Args[0]))
				if a == "dupmsi32("+p+")" || a == p {
					if inner, ok := unparen(sel.X).(*ast.SelectorExpr); ok {
						ev = c04obj(ie.Info(), inner.X)
					}
				}
			}
			if fv := fieldOfSel(ie.Info(), sel.X); fv != nil && fv.Name() == "external" && ev != nil {
				if u, ok := unparen(call.Args[0]).(*ast.UnaryExpr); ok && c04obj(ie.Info(), u.X) == ev {
					okStore = true
				}
			}
			return true
		})
		c.Check(okStore, rule, ie.Key, ie.Pos(), m, "stores its argument's counts and publishes them as g.external", "initExternal does not publish its argument as the leader's external topic set")
	}
}
