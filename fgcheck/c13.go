package main

import (
	"fmt"
	"go/ast"
	"go/token"
	"go/types"
	"os"
	"strings"
)

func init() {
	register(&Prop{
		ID:        "C13",
		Level:     "other",
		Technique: "dominance/sequence rules on the CFG of Client.close and of the connection teardown functions; exhaustive enumeration of every loop that can run or park forever (condition-less `for`, condition-only `for`, loops containing a channel/cond/sleep operation, backward-goto loops) and of every `go` statement of package kgo, each classified by its shutdown exit (lexical guard analysis with type-resolved context.Context detection) against a confirmed table with witness guards; release rule for cond-variable waiter goroutines; poll and produce-sweep shape rules",
		Explanation: "(1) close-order: in Client.close the events kill.Store(true) -> group/share leave (LeaveGroupContext and <-left) or direct assignPartitions(nil, assignInvalidateAll) -> metrics.quit -> cl.ctxCancel() -> stopBrokers=true under brokersMu -> stopForever on every broker and on every seed -> <-cl.metadone -> maybeDrain/maybeConsume on every sink/source -> failBufferedRecords(ErrClientClosed) -> PollFetches(nil) form a dominance chain that dominates every return; OnClientClosed is deferred; startNewSession drops the assignment when kill is set; every newBroker outside seed construction is under `!cl.stopBrokers`; " +
			"(2) teardown: brokerCxn.die is idempotent through dead.Swap(true) (the only writer of dead) and every non-early exit has passed conn.Close, close(deadCh), resps.die() and failParked(); failParked sets parkFailed under parkMu and fails every parked request, park refuses when parkFailed; broker.stopForever swaps dead before reqs.die() and dies every *brokerCxn field of broker; loadConnection stores a new connection only under `!b.dead.Load()`; " +
			"(3) loop-exit: every in-scope loop (see technique) of kgo is in the confirmed table and still has the recorded shutdown exit: a return/break guarded by a receive from ctx.Done() or a ctx.Err() test (type-resolved), or the recorded witness guards (dead/quit/more flags, bounded retry counters, CAS success); loops whose every exit must carry a guard (manageFetchConcurrency: wantQuit && activeFetches == 0 && len(wantFetch) == 0, because blocked senders on cancelFetchCh depend on it) are checked on all exits; parking operations inside such loops without a ctx arm or default must be in the loop's allow-list; loops not in the table must have a context exit, else they are reported; counter-wait loops (session.workers, shareConsumer.workers) need the cancel before the wait and a Broadcast at every decrement; " +
			"(3b) loop-lock-balance: every Lock()/RLock() taken inside the body of such a loop (or inside a backward-goto region) is released on every path to the loop's back edge and to every exit of the function, either directly (Unlock/RUnlock of the same lock path, found with a must-pass path search on the CFG) or by handing the release to a callback literal that releases on all of its paths and is passed to a callee known to run it exactly once (groupConsumer.commit, C09); " +
			"(4) go-table: every `go` statement of kgo is in the confirmed table with its class (long-lived loop, latch/ring worker, waiter, bounded, request, user callback); the body's parking operations without a ctx arm must be in the entry's allow-list; new `go` statements are undecided; " +
			"(5) waiter-release: every goroutine that waits on a sync.Cond in `for !quit && ... { Wait() }` is released on every arm of the spawner's select: the arm either receives the goroutine's done channel or sets quit under the lock and Broadcasts; " +
			"(6) polls-closed: PollRecords and shareConsumer.poll select on the client-lifetime context and return NewErrFetch(ErrClientClosed) there; PollFetches delegates to PollRecords; " +
			"(7) close-sweep: failBufferedRecords sweeps every topic's full `partitions` list (not writablePartitions) under recBuf.mu with the caller's error and fails all unknown-topic records; writablePartitions is read only by the partition picker and the metadata merge. " +
			"no iteration of the topic loop or of the partition loop of failBufferedRecords can skip the sweep (must-pass search from the loop body to the loop head: a `continue` or a guard around failAllRecords is reported); the client-closed check that pairs with the sweep (non-blocking select on cl.ctx.Done() -> promiseRecord(pr, ErrClientClosed); return true) is inside recBuf.bufferRecord with recBuf.mu held and dominates every tryBuffer call and every store to recBuf.batches (own type-resolved restatement of C01's close-sweep `bufferRecord#closed-check-before-append`: a check-then-act guard elsewhere lets a record be appended after the sweep); " +
			"(8) result-channel-once: every function started by consumerSession.listOrEpoch with `go f(..., results)` is counted by an `issued++` directly before the go statement, uses its results parameter only as the target of sends in its own body, sends on every path to a return and never twice on one path; the worker receives in `for received != issued { <-results; received++ }` (one receive per issued goroutine, no context arm). " +
			"workLoop/ring engines themselves are covered by C30 and only referenced here.",
		NotDecided: "bounded wall-clock time of Close, termination of callees that are not loops of kgo (net.Conn I/O, user callbacks and hooks, request round trips once the context is cancelled), CloseAllowingRebalance vs. a user who never allows rebalances, and absence of leaked goroutines under all interleavings (liveness/schedule properties); parking operations are enumerated only in the body of each go target and in-scope loop, not in their callees.",
		Run:        runC13,
	})
}

func runC13(c *Ctx) {
	m := c.Load("")
	if m == nil {
		return
	}
	if os.Getenv("FGCHECK_C13_DUMP") != "" {
		c13dump(m)
	}
	c13closeOrder(c, m)
	c13closeFlags(c, m)
	c13die(c, m)
	c13loops(c, m)
	c13loopLocks(c, m)
	if os.Getenv("FGCHECK_C13_DUMP") != "" {
		for _, o := range c.Obs {
			if o.Rule == "loop-lock-balance" {
				fmt.Println("LOCK", o.Construct, o.Pos, o.Verdict)
			}
		}
	}
	c13waiters(c, m)
	c13gos(c, m)
	c13polls(c, m)
	c13sweep(c, m)
	c13sweepEveryIteration(c, m, "close-sweep", "records buffered in the skipped topic/partition are never failed at Close: their promises never fire and Flush/ProduceSync hang")
	c13closedCheckInBufferRecord(c, m)
	c13resultChannels(c, m)
}

// ---------------------------------------------------------------------------
// helpers
// ---------------------------------------------------------------------------

// c13first finds the first CFG node (in block order) that contains a node
// satisfying pred and returns its location.
func c13first(g *Graph, pred func(n ast.Node) bool) (Loc, ast.Node, bool) {
	for _, b := range g.C.Blocks {
		if !g.live[b.Index] {
			continue
		}
		for i, n := range b.Nodes {
			var hit ast.Node
			ast.Inspect(n, func(x ast.Node) bool {
				if x == nil || hit != nil {
					return false
				}
				if _, ok := x.(*ast.FuncLit); ok {
					return false
				}
				if pred(x) {
					hit = x
					return false
				}
				return true
			})
			if hit != nil {
				return Loc{int(b.Index), i}, hit, true
			}
		}
	}
	return Loc{}, nil, false
}

func c13isNil(e ast.Expr) bool {
	id, ok := unparen(e).(*ast.Ident)
	return ok && id.Name == "nil"
}

// c13callKey returns the key of the called kgo function/method ("" otherwise).
func c13callKey(info *types.Info, call *ast.CallExpr) string {
	if fo, ok := calleeObj(info, call).(*types.Func); ok {
		return keyOfObj(fo)
	}
	return ""
}

// c13recvField reports whether n is `<-X.f` with f the given field.
func c13recvField(info *types.Info, n ast.Node, fld *types.Var) bool {
	u, ok := n.(*ast.UnaryExpr)
	return ok && u.Op == token.ARROW && sameField(fieldOfSel(info, u.X), fld)
}

func c13usesObj(info *types.Info, e ast.Expr, obj types.Object) bool {
	if obj == nil {
		return false
	}
	switch x := unparen(e).(type) {
	case *ast.Ident:
		return info.Uses[x] == obj
	case *ast.SelectorExpr:
		return info.Uses[x.Sel] == obj
	}
	return false
}

// ---------------------------------------------------------------------------
// (1) close order
// ---------------------------------------------------------------------------

func c13closeOrder(c *Ctx, m *Module) {
	rule := "close-order"
	f := c.NeedFunc(m, "kgo.Client.close")
	if f == nil {
		return
	}
	info := f.Info()
	g := f.Graph()
	kill := fieldMust(c, m, "consumer", "kill")
	gLeft := fieldMust(c, m, "groupConsumer", "left")
	sLeft := fieldMust(c, m, "shareConsumer", "left")
	ctxCancel := fieldMust(c, m, "Client", "ctxCancel")
	stopB := fieldMust(c, m, "Client", "stopBrokers")
	brokersF := fieldMust(c, m, "Client", "brokers")
	metadone := fieldMust(c, m, "Client", "metadone")
	sns := fieldMust(c, m, "Client", "sinksAndSources")
	errClosed := m.Object("kgo", "ErrClientClosed")
	invAll := m.Object("kgo", "assignInvalidateAll")
	if kill == nil || gLeft == nil || sLeft == nil || ctxCancel == nil || stopB == nil || brokersF == nil || metadone == nil || sns == nil || errClosed == nil || invAll == nil {
		c.Undecided("anchor", "kgo.Client.close#objects", f.Pos(), m, "a field/object the close sequence is stated over disappeared")
		return
	}

	type ev struct {
		name string
		why  string
		pred func(n ast.Node) bool
	}
	rangeCalling := func(n ast.Node, calleeKeys []string, over func(x ast.Expr) bool) bool {
		rs, ok := n.(*ast.RangeStmt)
		if !ok || !over(rs.X) {
			return false
		}
		for _, k := range calleeKeys {
			found := containsNode(rs.Body, false, func(y ast.Node) bool {
				call, ok := y.(*ast.CallExpr)
				return ok && c13callKey(info, call) == k
			})
			if !found {
				return false
			}
		}
		return true
	}
	// the local that holds the snapshot of cl.brokers
	isBrokerSnapshot := func(x ast.Expr) bool {
		if sameField(fieldOfSel(info, x), brokersF) {
			return true
		}
		id, ok := unparen(x).(*ast.Ident)
		if !ok {
			return false
		}
		obj := info.Uses[id]
		if obj == nil {
			return false
		}
		def := singleDef(f, obj)
		if def == nil {
			return false
		}
		call, ok := unparen(def).(*ast.CallExpr)
		if !ok || len(call.Args) != 1 {
			return false
		}
		if fo, ok := calleeObj(info, call).(*types.Func); !ok || fo.Pkg() == nil || fo.Pkg().Path() != "slices" || fo.Name() != "Clone" {
			return false
		}
		return sameField(fieldOfSel(info, call.Args[0]), brokersF)
	}
	events := []ev{
		{"kill.Store(true)", "sessions started after this point consume nothing (startNewSession checks kill)", func(n ast.Node) bool {
			call, ok := n.(*ast.CallExpr)
			if !ok {
				return false
			}
			sel, ok := unparen(call.Fun).(*ast.SelectorExpr)
			if !ok || sel.Sel.Name != "Store" || !sameField(fieldOfSel(info, sel.X), kill) || len(call.Args) != 1 {
				return false
			}
			v, isC := constBool(info, call.Args[0])
			return isC && v
		}},
		{"consumer stop (leave group / invalidate direct assignment)", "consumers must stop fetching before the client context dies, otherwise the leave requests cannot be sent and fetch loops race the teardown", func(n ast.Node) bool {
			ifs, ok := n.(*ast.IfStmt)
			if !ok {
				return false
			}
			return containsNode(ifs.Body, false, func(y ast.Node) bool {
				call, ok := y.(*ast.CallExpr)
				return ok && c13callKey(info, call) == "kgo.Client.LeaveGroupContext"
			})
		}},
		{"metrics.quit()", "the terminating metrics push needs a live client context", func(n ast.Node) bool {
			call, ok := n.(*ast.CallExpr)
			return ok && c13callKey(info, call) == "kgo.metrics.quit"
		}},
		{"cl.ctxCancel()", "every request path, the metadata loop and the sink/source back-offs abort on the client context", func(n ast.Node) bool {
			call, ok := n.(*ast.CallExpr)
			return ok && sameField(fieldOfSel(info, call.Fun), ctxCancel)
		}},
		{"stopBrokers = true", "updateBrokers must not create brokers after the stop sweep", func(n ast.Node) bool {
			as, ok := n.(*ast.AssignStmt)
			if !ok || len(as.Lhs) != 1 || len(as.Rhs) != 1 || !sameField(fieldOfSel(info, as.Lhs[0]), stopB) {
				return false
			}
			v, isC := constBool(info, as.Rhs[0])
			return isC && v
		}},
		{"stopForever on every broker", "connections are closed and queued requests fail with errChosenBrokerDead", func(n ast.Node) bool {
			return rangeCalling(n, []string{"kgo.broker.stopForever"}, isBrokerSnapshot)
		}},
		{"stopForever on every seed", "seed brokers hold connections too", func(n ast.Node) bool {
			return rangeCalling(n, []string{"kgo.broker.stopForever"}, func(x ast.Expr) bool {
				call, ok := unparen(x).(*ast.CallExpr)
				return ok && c13callKey(info, call) == "kgo.Client.loadSeeds"
			})
		}},
		{"<-cl.metadone", "after the metadata loop quit no new sinks/sources or erroring partitions are created", func(n ast.Node) bool {
			return c13recvField(info, n, metadone)
		}},
		{"maybeDrain/maybeConsume on every sink and source", "loops sleeping in a back-off are woken so that they observe the dead context", func(n ast.Node) bool {
			return rangeCalling(n, []string{"kgo.sink.maybeDrain", "kgo.source.maybeConsume"}, func(x ast.Expr) bool { return sameField(fieldOfSel(info, x), sns) })
		}},
		{"failBufferedRecords(ErrClientClosed)", "every still-buffered record's promise is called", func(n ast.Node) bool {
			call, ok := n.(*ast.CallExpr)
			return ok && c13callKey(info, call) == "kgo.Client.failBufferedRecords" && len(call.Args) == 1 && c13usesObj(info, call.Args[0], errClosed)
		}},
		{"PollFetches(nil)", "draining buffered fetches lets manageFetchConcurrency see activeFetches == 0 and quit", func(n ast.Node) bool {
			call, ok := n.(*ast.CallExpr)
			return ok && c13callKey(info, call) == "kgo.Client.PollFetches" && len(call.Args) == 1 && c13isNil(call.Args[0])
		}},
	}
	locs := make([]Loc, len(events))
	have := make([]bool, len(events))
	nodes := make([]ast.Node, len(events))
	for i, e := range events {
		var hit ast.Node
		ast.Inspect(f.Decl.Body, func(x ast.Node) bool {
			if x == nil || hit != nil {
				return false
			}
			if _, isLit := x.(*ast.FuncLit); isLit {
				return false
			}
			if e.pred(x) {
				hit = x
				return false
			}
			return true
		})
		ok := hit != nil
		var l Loc
		if ok {
			switch s := hit.(type) {
			case *ast.IfStmt:
				l, ok = c13condLoc(g, s.Cond)
			case *ast.RangeStmt:
				l, ok = g.LocOf(s.X)
			default:
				l, ok = g.LocOf(hit)
			}
		}
		locs[i], have[i], nodes[i] = l, ok, hit
		if !ok {
			c.Fail(rule, f.Key+"#"+e.name, f.Pos(), m, "close no longer performs `"+e.name+"`: "+e.why)
		}
	}
	for i := 0; i+1 < len(events); i++ {
		if !have[i] || !have[i+1] {
			continue
		}
		c.Check(g.Dominates(locs[i], locs[i+1]), rule, f.Key+"#"+events[i].name+" before "+events[i+1].name, f.Pos(), m,
			"", "`"+events[i].name+"` does not precede `"+events[i+1].name+"` on every path: "+events[i].why)
	}
	// every step dominates every normal return
	nRet := 0
	for _, rn := range findNodes(f.Decl.Body, false, func(x ast.Node) bool { _, ok := x.(*ast.ReturnStmt); return ok }) {
		rl, ok := g.LocOf(rn)
		if !ok {
			continue
		}
		nRet++
		var missing []string
		for i, e := range events {
			if have[i] && !g.Dominates(locs[i], rl) {
				missing = append(missing, e.name)
			}
		}
		c.Check(len(missing) == 0, rule, fmt.Sprintf("%s#return%d passes every step", f.Key, nRet), rn.Pos(), m, "", "close can return without: "+strings.Join(missing, "; "))
	}
	c.Floor(rule+"#returns", nRet, 1)

	// details of the consumer-stop step
	if ifs, ok := nodes[1].(*ast.IfStmt); ok {
		okG := containsNode(ifs.Body, false, func(y ast.Node) bool { return c13recvField(info, y, gLeft) })
		okS := containsNode(ifs.Body, false, func(y ast.Node) bool { return c13recvField(info, y, sLeft) })
		c.Check(okG && okS, rule, f.Key+"#waits for the leave goroutine", ifs.Pos(), m, "<-c.g.left / <-c.s.left after LeaveGroupContext",
			"close does not wait for g.left / s.left after LeaveGroupContext: with an already cancelled user context the leave goroutine is still revoking while brokers are stopped")
		okD := false
		if els, ok := ifs.Else.(*ast.IfStmt); ok {
			okD = containsNode(els.Body, false, func(y ast.Node) bool {
				call, ok := y.(*ast.CallExpr)
				return ok && c13callKey(info, call) == "kgo.consumer.assignPartitions" && len(call.Args) >= 2 && c13isNil(call.Args[0]) && c13usesObj(info, call.Args[1], invAll)
			})
		}
		c.Check(okD, rule, f.Key+"#direct consumer invalidated", ifs.Pos(), m, "assignPartitions(nil, assignInvalidateAll)", "a direct consumer is not invalidated with assignPartitions(nil, assignInvalidateAll): its session and fetch loops keep running after Close")
	}
	// OnClientClosed hook is deferred
	okHook := false
	for _, st := range f.Decl.Body.List {
		if ds, ok := st.(*ast.DeferStmt); ok && containsNode(ds.Call, true, func(y ast.Node) bool {
			call, ok := y.(*ast.CallExpr)
			if !ok {
				return false
			}
			o := calleeObj(info, call)
			return o != nil && o.Name() == "OnClientClosed"
		}) {
			okHook = true
		}
	}
	c.Check(okHook, rule, f.Key+"#OnClientClosed deferred", f.Pos(), m, "", "the OnClientClosed hook is not deferred at the top of close")

	// Close / CloseAllowingRebalance
	if cf := c.NeedFunc(m, "kgo.Client.Close"); cf != nil {
		ok := len(callsTo(cf.Decl.Body, cf.Info(), f.Obj, false)) == 1
		c.Check(ok, rule, cf.Key+"#delegates", cf.Pos(), m, "", "Close does not call close")
	}
	if cf := c.NeedFunc(m, "kgo.Client.CloseAllowingRebalance"); cf != nil {
		cg := cf.Graph()
		la, _, ok1 := c13first(cg, func(n ast.Node) bool {
			call, ok := n.(*ast.CallExpr)
			return ok && c13callKey(cf.Info(), call) == "kgo.Client.AllowRebalance"
		})
		lc, _, ok2 := c13first(cg, func(n ast.Node) bool {
			call, ok := n.(*ast.CallExpr)
			return ok && c13callKey(cf.Info(), call) == "kgo.Client.Close"
		})
		c.Check(ok1 && ok2 && cg.Dominates(la, lc), rule, cf.Key+"#allow then close", cf.Pos(), m, "", "CloseAllowingRebalance does not AllowRebalance before Close: with BlockRebalanceOnPoll the final revoke blocks forever")
	}
}

// c13condLoc returns the location of the first evaluated operand of a condition.
func c13condLoc(g *Graph, e ast.Expr) (Loc, bool) {
	for {
		e = unparen(e)
		if l, ok := g.LocOf(e); ok {
			return l, true
		}
		b, ok := e.(*ast.BinaryExpr)
		if !ok {
			return Loc{}, false
		}
		e = b.X
	}
}

func c13closeFlags(c *Ctx, m *Module) {
	rule := "close-flags"
	// kill: startNewSession drops the assignment
	if f := c.NeedFunc(m, "kgo.consumer.startNewSession"); f != nil {
		info := f.Info()
		g := f.Graph()
		kill := m.Field("kgo", "consumer", "kill")
		ok := false
		var at token.Pos = f.Pos()
		for _, call := range findNodes(f.Decl.Body, false, func(x ast.Node) bool {
			call, ok := x.(*ast.CallExpr)
			return ok && c13callKey(info, call) == "kgo.consumer.newConsumerSession"
		}) {
			at = call.Pos()
			cl, _ := g.LocOf(call)
			arg, _ := unparen(call.(*ast.CallExpr).Args[0]).(*ast.Ident)
			// an `if c.kill.Load() { tps = nil }` dominating the call
			ast.Inspect(f.Decl.Body, func(x ast.Node) bool {
				ifs, isIf := x.(*ast.IfStmt)
				if !isIf || ifs.Else != nil {
					return true
				}
				cc, isCall := unparen(ifs.Cond).(*ast.CallExpr)
				if !isCall {
					return true
				}
				sel, isSel := unparen(cc.Fun).(*ast.SelectorExpr)
				if !isSel || sel.Sel.Name != "Load" || !sameField(fieldOfSel(info, sel.X), kill) {
					return true
				}
				setsNil := false
				for _, st := range ifs.Body.List {
					if as, isAs := st.(*ast.AssignStmt); isAs && len(as.Lhs) == 1 && len(as.Rhs) == 1 && c13isNil(as.Rhs[0]) {
						if id, isId := as.Lhs[0].(*ast.Ident); isId && arg != nil && info.Uses[id] == info.Uses[arg] {
							setsNil = true
						}
					}
				}
				if il, okL := g.LocOf(ifs.Cond); okL && setsNil && g.Dominates(il, cl) {
					ok = true
				}
				return true
			})
		}
		c.Check(ok, rule, f.Key+"#kill drops the assignment", at, m, "if c.kill.Load() { tps = nil } before newConsumerSession", "startNewSession no longer drops the assignment when consumer.kill is set: a metadata update or rebalance racing Close starts fetch loops that nothing stops")
	}
	// stopBrokers: every newBroker outside seed construction is under !cl.stopBrokers
	nb := m.Func("kgo.Client.newBroker")
	stopB := m.Field("kgo", "Client", "stopBrokers")
	if nb == nil || stopB == nil {
		c.Undecided("anchor", "kgo.Client.newBroker", 0, m, "newBroker / stopBrokers not found")
		return
	}
	seedCtors := map[string]bool{"kgo.NewClient": true, "kgo.Client.UpdateSeedBrokers": true}
	n := 0
	for _, site := range CallSites(m.FuncsIn("kgo"), nb.Obj) {
		if seedCtors[site.Fn.Key] {
			continue
		}
		n++
		c.Touch(site.Fn)
		g := site.Fn.GraphFor(site.Node)
		l, _ := g.LocOf(site.Node)
		info := site.Fn.Info()
		ok := factMatches(g.FactsAt(l), func(ft Fact) bool { return !ft.Val && sameField(fieldOfSel(info, ft.Cond), stopB) })
		c.Check(ok, rule, fmt.Sprintf("%s: newBroker#%d under !stopBrokers", site.Fn.Key, n), site.Node.Pos(), m, "", "a broker is created without checking cl.stopBrokers: a metadata response racing Close adds a broker that is never stopped (its connections and request goroutines survive Close)")
	}
	c.Floor(rule+"#newBroker", n, 5)
}

// ---------------------------------------------------------------------------
// (2) teardown
// ---------------------------------------------------------------------------

// c13swapGuard finds `if ... X.dead.Swap(true) { return }` and returns the if.
func c13swapGuard(f *Func, dead *types.Var) (*ast.IfStmt, *ast.CallExpr) {
	info := f.Info()
	var outIf *ast.IfStmt
	var outCall *ast.CallExpr
	for _, st := range f.Decl.Body.List {
		ifs, ok := st.(*ast.IfStmt)
		if !ok || ifs.Else != nil || len(ifs.Body.List) != 1 {
			continue
		}
		if _, isRet := ifs.Body.List[0].(*ast.ReturnStmt); !isRet {
			continue
		}
		// the swap must be a disjunct of the condition (cond true => return)
		for _, ft := range decompose(ifs.Cond, false, nil) {
			call, ok := unparen(ft.Cond).(*ast.CallExpr)
			if !ok || ft.Val {
				continue
			}
			sel, ok := unparen(call.Fun).(*ast.SelectorExpr)
			if !ok || sel.Sel.Name != "Swap" || !sameField(fieldOfSel(info, sel.X), dead) || len(call.Args) != 1 {
				continue
			}
			if v, isC := constBool(info, call.Args[0]); isC && v {
				outIf, outCall = ifs, call
			}
		}
		if outIf != nil {
			break
		}
	}
	return outIf, outCall
}

func c13die(c *Ctx, m *Module) {
	rule := "teardown"
	funcs := m.FuncsIn("kgo")
	// --- brokerCxn.die
	if f := c.NeedFunc(m, "kgo.brokerCxn.die"); f != nil {
		info := f.Info()
		g := f.Graph()
		dead := fieldMust(c, m, "brokerCxn", "dead")
		deadCh := fieldMust(c, m, "brokerCxn", "deadCh")
		conn := fieldMust(c, m, "brokerCxn", "conn")
		if dead != nil && deadCh != nil && conn != nil {
			guard, _ := c13swapGuard(f, dead)
			c.Check(guard != nil, rule, f.Key+"#idempotent", f.Pos(), m, "if ... cxn.dead.Swap(true) { return }", "die is not guarded by dead.Swap(true): a second die (discard goroutine, reaper, stopForever, loadConnection race) closes deadCh twice and panics, or fails parked requests twice")
			// only writer of dead
			for _, st := range StoreSites(funcs, dead) {
				v, isC := constBool(st.Fn.Info(), st.RHS)
				c.Check(st.Fn.Key == f.Key && st.Kind == "atomic:Swap" && isC && v, rule, st.Fn.Key+": writes brokerCxn.dead", st.Node.Pos(), m, "", "brokerCxn.dead is written outside die's Swap(true): a connection marked dead without the teardown keeps its response goroutine and parked requests")
			}
			steps := []struct {
				name string
				why  string
				pred func(n ast.Node) bool
			}{
				{"conn.Close()", "the read/write goroutines blocked on the socket never return", func(n ast.Node) bool {
					call, ok := n.(*ast.CallExpr)
					if !ok {
						return false
					}
					sel, ok := unparen(call.Fun).(*ast.SelectorExpr)
					return ok && sel.Sel.Name == "Close" && sameField(fieldOfSel(info, sel.X), conn)
				}},
				{"close(deadCh)", "waiters selecting on deadCh (writeConn/readConn watchdogs) are never released", func(n ast.Node) bool {
					call, ok := n.(*ast.CallExpr)
					if !ok || len(call.Args) != 1 {
						return false
					}
					if b, ok := calleeObj(info, call).(*types.Builtin); !ok || b.Name() != "close" {
						return false
					}
					return sameField(fieldOfSel(info, call.Args[0]), deadCh)
				}},
				{"resps.die()", "responses pushed afterwards wait forever instead of failing with errChosenBrokerDead", func(n ast.Node) bool {
					call, ok := n.(*ast.CallExpr)
					if !ok || c13callKey(info, call) != "kgo.ring.die" {
						return false
					}
					sel, ok := unparen(call.Fun).(*ast.SelectorExpr)
					return ok && nosp(exprStr(sel.X)) == "cxn.resps"
				}},
				{"failParked()", "requests parked for a reauthentication are stranded: their promises are never called", func(n ast.Node) bool {
					call, ok := n.(*ast.CallExpr)
					return ok && c13callKey(info, call) == "kgo.brokerCxn.failParked"
				}},
			}
			for _, s := range steps {
				_, skip := g.FindPath(Loc{-1, 0}, SearchOpts{
					Stop: func(n ast.Node) bool { return containsNode(n, false, s.pred) },
					GoalExit: func(k ExitKind, last ast.Node) bool {
						if k == ExitPanic {
							return false
						}
						if guard != nil && last != nil && last.Pos() >= guard.Body.Pos() && last.End() <= guard.Body.End() {
							return false // the idempotence early return
						}
						return true
					},
				})
				c.Check(!skip, rule, f.Key+"#reaches "+s.name, f.Pos(), m, "", "die can finish without "+s.name+": "+s.why)
			}
		}
	}
	// --- failParked / park
	if f := c.NeedFunc(m, "kgo.brokerCxn.failParked"); f != nil {
		info := f.Info()
		pf := fieldMust(c, m, "brokerCxn", "parkFailed")
		parked := fieldMust(c, m, "brokerCxn", "parked")
		dead := m.Object("kgo", "errChosenBrokerDead")
		if pf != nil && parked != nil {
			env := newLockEnv(f, nil, nil)
			okSet := false
			for _, st := range storesTo(f.Decl.Body, info, pf, false) {
				v, isC := constBool(info, st.RHS)
				held, ok := env.HeldAtNode(st.Node)
				if isC && v && ok && held.Holds("cxn.parkMu", true) {
					okSet = true
				}
			}
			c.Check(okSet, rule, f.Key+"#parkFailed set under parkMu", f.Pos(), m, "", "failParked does not set parkFailed = true under parkMu: a request parked after the connection died is never failed")
			// every element of the taken list is promised with errChosenBrokerDead
			okFail := false
			ast.Inspect(f.Decl.Body, func(x ast.Node) bool {
				rs, ok := x.(*ast.RangeStmt)
				if !ok {
					return true
				}
				id, ok := unparen(rs.X).(*ast.Ident)
				if !ok {
					return true
				}
				def := singleDef(f, info.Uses[id])
				if def == nil || !sameField(fieldOfSel(info, def), parked) {
					return true
				}
				if containsNode(rs.Body, false, func(y ast.Node) bool {
					call, ok := y.(*ast.CallExpr)
					if !ok || len(call.Args) != 2 {
						return false
					}
					o := calleeObj(info, call)
					return o != nil && o.Name() == "promise" && c13isNil(call.Args[0]) && c13usesObj(info, call.Args[1], dead)
				}) {
					okFail = true
				}
				return true
			})
			c.Check(okFail, rule, f.Key+"#fails every parked request", f.Pos(), m, "", "failParked does not call promise(nil, errChosenBrokerDead) for every parked request")
			if pk := c.NeedFunc(m, "kgo.brokerCxn.park"); pk != nil {
				pinfo := pk.Info()
				pg := pk.Graph()
				penv := newLockEnv(pk, nil, nil)
				n := 0
				for _, st := range storesTo(pk.Decl.Body, pinfo, parked, false) {
					n++
					l, _ := pg.LocOf(st.Node)
					guarded := factMatches(pg.FactsAt(l), func(ft Fact) bool { return !ft.Val && sameField(fieldOfSel(pinfo, ft.Cond), pf) })
					held, ok := penv.HeldAtNode(st.Node)
					c.Check(guarded && ok && held.Holds("cxn.parkMu", true), rule, pk.Key+"#parks only while !parkFailed", st.Node.Pos(), m, "", "park appends to cxn.parked without checking parkFailed under parkMu: a request parked after die() is never failed")
				}
				c.Floor(rule+"#park-stores", n, 1)
			}
		}
	}
	// --- broker.stopForever
	if f := c.NeedFunc(m, "kgo.broker.stopForever"); f != nil {
		info := f.Info()
		g := f.Graph()
		dead := fieldMust(c, m, "broker", "dead")
		if dead != nil {
			guard, swap := c13swapGuard(f, dead)
			c.Check(guard != nil, rule, f.Key+"#idempotent", f.Pos(), m, "", "stopForever is not guarded by b.dead.Swap(true)")
			lr, _, okR := c13first(g, func(n ast.Node) bool {
				call, ok := n.(*ast.CallExpr)
				if !ok || c13callKey(info, call) != "kgo.ring.die" {
					return false
				}
				sel, ok := unparen(call.Fun).(*ast.SelectorExpr)
				return ok && nosp(exprStr(sel.X)) == "b.reqs"
			})
			okOrder := false
			if swap != nil && okR {
				if ls, ok := g.LocOf(swap); ok {
					okOrder = g.Dominates(ls, lr) || ls.B != lr.B
					okOrder = okOrder && (g.Dominates(ls, lr))
				}
			}
			c.Check(okR && okOrder, rule, f.Key+"#dead before reqs.die()", f.Pos(), m, "", "stopForever does not set dead and then reqs.die(): loadConnection's dead re-check and the request ring's rejection are what keep new requests/connections from escaping the stop")
			// every *brokerCxn field of broker dies
			bt := m.Object("kgo", "broker")
			var cxnFields []string
			if bt != nil {
				if st, ok := bt.Type().Underlying().(*types.Struct); ok {
					for i := 0; i < st.NumFields(); i++ {
						if p, ok := st.Field(i).Type().(*types.Pointer); ok {
							if nmd, ok := p.Elem().(*types.Named); ok && nmd.Obj().Name() == "brokerCxn" {
								cxnFields = append(cxnFields, st.Field(i).Name())
							}
						}
					}
				}
			}
			c.Floor(rule+"#broker-cxn-fields", len(cxnFields), 5)
			// the ranged slice
			var ranged *ast.CompositeLit
			okDie := false
			ast.Inspect(f.Decl.Body, func(x ast.Node) bool {
				rs, ok := x.(*ast.RangeStmt)
				if !ok || rs.Value == nil {
					return true
				}
				vid, _ := rs.Value.(*ast.Ident)
				dies := vid != nil && containsNode(rs.Body, false, func(y ast.Node) bool {
					call, ok := y.(*ast.CallExpr)
					if !ok || c13callKey(info, call) != "kgo.brokerCxn.die" {
						return false
					}
					sel, ok := unparen(call.Fun).(*ast.SelectorExpr)
					if !ok {
						return false
					}
					id, ok := unparen(sel.X).(*ast.Ident)
					return ok && info.Uses[id] == info.Defs[vid]
				})
				if !dies {
					return true
				}
				if id, ok := unparen(rs.X).(*ast.Ident); ok {
					if def := singleDef(f, info.Uses[id]); def != nil {
						if cl, ok := unparen(def).(*ast.CompositeLit); ok {
							ranged = cl
							okDie = true
						}
					}
				}
				return true
			})
			c.Check(okDie, rule, f.Key+"#dies the snapshot", f.Pos(), m, "", "stopForever does not range a snapshot of the connections calling die()")
			if ranged != nil {
				env := newLockEnv(f, nil, nil)
				for _, fld := range cxnFields {
					fv := m.Field("kgo", "broker", fld)
					in := containsNode(ranged, false, func(y ast.Node) bool {
						e, ok := y.(ast.Expr)
						return ok && sameField(fieldOfSel(info, e), fv)
					})
					c.Check(in, rule, f.Key+"#dies "+fld, ranged.Pos(), m, "", "connection field broker."+fld+" is not in stopForever's snapshot: that connection (and its response goroutine / discard goroutine) survives Close")
				}
				held, ok := env.HeldAtNode(ranged)
				c.Check(ok && held.Holds("b.reapMu", true), rule, f.Key+"#snapshot under reapMu", ranged.Pos(), m, "", "the connection snapshot is not taken under reapMu: a connection stored concurrently by loadConnection escapes the stop")
			}
		}
	}
	// --- loadConnection stores only under !b.dead.Load()
	if f := c.NeedFunc(m, "kgo.broker.loadConnection"); f != nil {
		info := f.Info()
		g := f.Graph()
		dead := m.Field("kgo", "broker", "dead")
		n := 0
		env := newLockEnv(f, nil, nil)
		ast.Inspect(f.Decl.Body, func(x ast.Node) bool {
			as, ok := x.(*ast.AssignStmt)
			if !ok || len(as.Lhs) != 1 {
				return true
			}
			st, ok := unparen(as.Lhs[0]).(*ast.StarExpr)
			if !ok {
				return true
			}
			if tv, ok := info.Types[st.X]; !ok || !strings.HasSuffix(tv.Type.String(), "brokerCxn") {
				return true
			}
			n++
			l, _ := g.LocOf(as)
			guarded := factMatches(g.FactsAt(l), func(ft Fact) bool {
				call, ok := unparen(ft.Cond).(*ast.CallExpr)
				if !ok || ft.Val {
					return false
				}
				sel, ok := unparen(call.Fun).(*ast.SelectorExpr)
				return ok && sel.Sel.Name == "Load" && sameField(fieldOfSel(info, sel.X), dead)
			})
			held, okH := env.HeldAtNode(as)
			c.Check(guarded && okH && held.Holds("b.reapMu", true), rule, f.Key+"#stores connection only while alive", as.Pos(), m, "", "loadConnection stores a new connection without re-checking b.dead under reapMu: a connection finished after stopForever's snapshot is never closed")
			return true
		})
		c.Floor(rule+"#loadConnection-store", n, 1)
	}
}

// ---------------------------------------------------------------------------
// (5) waiter release
// ---------------------------------------------------------------------------

// c13waiters: goroutines of the form
//
//	go func() { lock; defer close(done); for !quit && cond { C.Wait() } }()
//
// must be released by every arm of the spawner's select.
func c13waiters(c *Ctx, m *Module) {
	rule := "waiter-release"
	n := 0
	for _, fn := range m.FuncsIn("kgo") {
		for _, lp := range c13loopsOf(fn) {
			if len(lp.Parks) != 1 || !strings.HasPrefix(lp.Parks[0].Desc, "wait:") || lp.For.Cond == nil {
				continue
			}
			lit := innermostLit(fn, lp.For)
			if lit == nil {
				continue
			}
			info := fn.Info()
			// the quit flag: a conjunct `!q` with q a bool variable declared outside the literal
			var quit types.Object
			for _, ft := range decompose(lp.For.Cond, true, nil) {
				id, ok := unparen(ft.Cond).(*ast.Ident)
				if !ok || ft.Val {
					continue
				}
				o := info.Uses[id]
				if o != nil && !(o.Pos() >= lit.Pos() && o.Pos() <= lit.End()) {
					quit = o
				}
			}
			if quit == nil {
				continue // not a quit-flag waiter (classified by the loop table)
			}
			n++
			c.Touch(fn)
			cons := lp.Key
			condX := strings.TrimPrefix(lp.Parks[0].Desc, "wait:")
			// the goroutine is started with go and closes a done channel
			var goStmt *ast.GoStmt
			ast.Inspect(fn.Decl.Body, func(x ast.Node) bool {
				if gs, ok := x.(*ast.GoStmt); ok && unparen(gs.Call.Fun) == ast.Expr(lit) {
					goStmt = gs
				}
				return true
			})
			if goStmt == nil {
				c.Undecided(rule, cons, lp.For.Pos(), m, "quit-flag waiter loop is not the body of a `go func(){...}()` statement")
				continue
			}
			var done types.Object
			ast.Inspect(lit.Body, func(x ast.Node) bool {
				ds, ok := x.(*ast.DeferStmt)
				if !ok || len(ds.Call.Args) != 1 {
					return true
				}
				if b, ok := calleeObj(info, ds.Call).(*types.Builtin); ok && b.Name() == "close" {
					if id, ok := unparen(ds.Call.Args[0]).(*ast.Ident); ok {
						done = info.Uses[id]
					}
				}
				return true
			})
			if done == nil {
				c.Fail(rule, cons+"#done", lit.Pos(), m, "the waiter goroutine does not `defer close(done)`: its spawner cannot learn that it finished")
				continue
			}
			// setsQuit(node): node contains `quit = true` and a following X.Broadcast(); local
			// closures called from the node are followed.
			var setsQuit func(root ast.Node, depth int) bool
			setsQuit = func(root ast.Node, depth int) bool {
				var asg, bc token.Pos
				ast.Inspect(root, func(x ast.Node) bool {
					switch s := x.(type) {
					case *ast.AssignStmt:
						if len(s.Lhs) == 1 && len(s.Rhs) == 1 {
							if id, ok := s.Lhs[0].(*ast.Ident); ok && info.Uses[id] == quit {
								if v, isC := constBool(info, s.Rhs[0]); isC && v && asg == 0 {
									asg = s.Pos()
								}
							}
						}
					case *ast.CallExpr:
						if sel, ok := unparen(s.Fun).(*ast.SelectorExpr); ok && sel.Sel.Name == "Broadcast" && nosp(exprStr(sel.X)) == condX {
							if asg != 0 && s.Pos() > asg {
								bc = s.Pos()
							}
						}
					}
					return true
				})
				if asg != 0 && bc != 0 {
					return true
				}
				if depth > 2 {
					return false
				}
				// calls of local closures
				found := false
				ast.Inspect(root, func(x ast.Node) bool {
					call, ok := x.(*ast.CallExpr)
					if !ok || found {
						return !found
					}
					id, ok := unparen(call.Fun).(*ast.Ident)
					if !ok {
						return true
					}
					v, ok := info.Uses[id].(*types.Var)
					if !ok {
						return true
					}
					if def := singleDef(fn, v); def != nil {
						if fl, ok := unparen(def).(*ast.FuncLit); ok && setsQuit(fl.Body, depth+1) {
							found = true
						}
					}
					return true
				})
				return found
			}
			// the spawner's select after the go statement, in the same body
			var body ast.Node = fn.Decl.Body
			if outer := innermostLit(fn, goStmt); outer != nil {
				body = outer.Body
			}
			var sel *ast.SelectStmt
			ast.Inspect(body, func(x ast.Node) bool {
				if x == nil {
					return false
				}
				if fl, ok := x.(*ast.FuncLit); ok && fl.Body != body {
					return false
				}
				if s, ok := x.(*ast.SelectStmt); ok && s.Pos() > goStmt.End() && sel == nil {
					for _, cl := range s.Body.List {
						if r := c13commRecv(cl.(*ast.CommClause)); r != nil {
							if id, ok := unparen(r).(*ast.Ident); ok && info.Uses[id] == done {
								sel = s
							}
						}
					}
				}
				return true
			})
			if sel == nil {
				c.Fail(rule, cons+"#select", goStmt.Pos(), m, "the spawner of the waiter goroutine does not select on its done channel")
				continue
			}
			nCtx := 0
			for _, cl := range sel.Body.List {
				cc := cl.(*ast.CommClause)
				arm := c13commStr(cc)
				if r := c13commRecv(cc); r != nil {
					if id, ok := unparen(r).(*ast.Ident); ok && info.Uses[id] == done {
						continue
					}
				}
				if cc.Comm == nil {
					c.Fail(rule, cons+"#arm default", cc.Pos(), m, "the spawner's select has a default arm: it abandons the waiter goroutine")
					continue
				}
				if c13armIsCtx(fn, cc) {
					nCtx++
				}
				blk := &ast.BlockStmt{List: cc.Body}
				released := setsQuit(blk, 0)
				if !released && !containsNode(blk, false, func(y ast.Node) bool { _, isRet := y.(*ast.ReturnStmt); return isRet }) {
					// the arm falls out of the select: the statements after the select release the waiter
					released = setsQuit(&ast.BlockStmt{List: c13stmtsAfter(body, sel)}, 0)
				}
				c.Check(released, rule, cons+"#arm "+arm, cc.Pos(), m, "sets quit and broadcasts "+condX,
					"select arm `"+arm+"` leaves without setting quit = true and "+condX+".Broadcast(): the waiter goroutine stays parked in Wait() forever (goroutine leak after Close / context cancel), holding its slot in any counters it maintains")
			}
			c.Check(nCtx >= 1, rule, cons+"#has context arm", sel.Pos(), m, "", "the spawner's select has no context arm: the wait cannot be interrupted")
		}
	}
	c.Floor(rule, n, 6)
}

// c13stmtsAfter returns the statements that follow stmt in its enclosing block.
func c13stmtsAfter(body ast.Node, stmt ast.Stmt) []ast.Stmt {
	var out []ast.Stmt
	ast.Inspect(body, func(x ast.Node) bool {
		blk, ok := x.(*ast.BlockStmt)
		if !ok {
			return true
		}
		for i, st := range blk.List {
			if st == stmt {
				out = blk.List[i+1:]
			}
		}
		return true
	})
	return out
}

// ---------------------------------------------------------------------------
// (6) polls
// ---------------------------------------------------------------------------

func c13polls(c *Ctx, m *Module) {
	rule := "polls-closed"
	errClosed := m.Object("kgo", "ErrClientClosed")
	check := func(key, ctxExpr string) {
		f := c.NeedFunc(m, key)
		if f == nil {
			return
		}
		info := f.Info()
		ok := false
		var at token.Pos = f.Pos()
		ast.Inspect(f.Decl.Body, func(x ast.Node) bool {
			if _, isLit := x.(*ast.FuncLit); isLit {
				return false
			}
			s, isSel := x.(*ast.SelectStmt)
			if !isSel {
				return true
			}
			for _, cl := range s.Body.List {
				cc := cl.(*ast.CommClause)
				r := c13commRecv(cc)
				if r == nil {
					continue
				}
				cx, isCtx := c13ctxCall(info, r, "Done")
				if !isCtx || cx != ctxExpr {
					continue
				}
				// the arm returns NewErrFetch(ErrClientClosed)
				for _, st := range cc.Body {
					rs, isRet := st.(*ast.ReturnStmt)
					if !isRet || len(rs.Results) != 1 {
						continue
					}
					call, isCall := unparen(rs.Results[0]).(*ast.CallExpr)
					if isCall && c13callKey(info, call) == "kgo.NewErrFetch" && len(call.Args) == 1 && c13usesObj(info, call.Args[0], errClosed) {
						ok = true
						at = rs.Pos()
					}
				}
			}
			return true
		})
		c.Check(ok, rule, key+"#returns ErrClientClosed on "+ctxExpr, at, m, "", "the blocking poll has no `case <-"+ctxExpr+".Done(): ... return NewErrFetch(ErrClientClosed)` arm: a poll parked when the client closes never returns, and poll loops cannot observe the close")
	}
	check("kgo.Client.PollRecords", "cl.ctx")
	check("kgo.shareConsumer.poll", "sc.fm.ctx")
	if f := c.NeedFunc(m, "kgo.Client.PollFetches"); f != nil {
		pr := m.Func("kgo.Client.PollRecords")
		ok := pr != nil && len(callsTo(f.Decl.Body, f.Info(), pr.Obj, false)) == 1
		c.Check(ok, rule, f.Key+"#delegates to PollRecords", f.Pos(), m, "", "PollFetches does not delegate to PollRecords")
	}
	if f := c.NeedFunc(m, "kgo.Client.PollRecords"); f != nil {
		// the share branch delegates to shareConsumer.poll
		ok := containsNode(f.Decl.Body, false, func(x ast.Node) bool {
			call, isCall := x.(*ast.CallExpr)
			return isCall && c13callKey(f.Info(), call) == "kgo.shareConsumer.poll"
		})
		c.Check(ok, rule, f.Key+"#share consumer delegates to poll", f.Pos(), m, "", "PollRecords does not call shareConsumer.poll for share consumers")
	}
	// the share fetch-manager context is derived from the client context
	if f := c.NeedFunc(m, "kgo.consumer.initShare"); f != nil {
		c13ctxDerived(c, m, f, rule)
	}
}

// c13ctxDerived: the ctx passed to newFetchManager is context.WithCancel(cl.ctx).
func c13ctxDerived(c *Ctx, m *Module, f *Func, rule string) {
	info := f.Info()
	ok := false
	ast.Inspect(f.Decl.Body, func(x ast.Node) bool {
		call, isCall := x.(*ast.CallExpr)
		if !isCall || c13callKey(info, call) != "kgo.newFetchManager" || len(call.Args) < 1 {
			return true
		}
		id, isId := unparen(call.Args[0]).(*ast.Ident)
		if !isId {
			return true
		}
		obj := info.Uses[id]
		// ctx, cancel := context.WithCancel(X.cl.ctx)
		ast.Inspect(f.Decl.Body, func(y ast.Node) bool {
			as, isAs := y.(*ast.AssignStmt)
			if !isAs || len(as.Rhs) != 1 || len(as.Lhs) != 2 {
				return true
			}
			lid, isId := as.Lhs[0].(*ast.Ident)
			if !isId || (info.Defs[lid] != obj && info.Uses[lid] != obj) {
				return true
			}
			wc, isCall := unparen(as.Rhs[0]).(*ast.CallExpr)
			if !isCall || len(wc.Args) != 1 {
				return true
			}
			if fo, isF := calleeObj(info, wc).(*types.Func); isF && fo.Pkg() != nil && fo.Pkg().Path() == "context" && fo.Name() == "WithCancel" {
				if fv := fieldOfSel(info, wc.Args[0]); fv != nil && sameField(fv, m.Field("kgo", "Client", "ctx")) {
					ok = true
				}
			}
			return true
		})
		return true
	})
	c.Check(ok, rule, f.Key+"#context derives from the client context", f.Pos(), m, "", "the fetch-manager / session context created here is not context.WithCancel(cl.ctx): fetch loops, list/epoch loads and polls of this consumer do not end when the client closes")
}

// ---------------------------------------------------------------------------
// (7) produce sweep
// ---------------------------------------------------------------------------

func c13sweep(c *Ctx, m *Module) {
	rule := "close-sweep"
	f := c.NeedFunc(m, "kgo.Client.failBufferedRecords")
	if f == nil {
		return
	}
	info := f.Info()
	partsF := fieldMust(c, m, "topicPartitionsData", "partitions")
	writable := fieldMust(c, m, "topicPartitionsData", "writablePartitions")
	unknownF := fieldMust(c, m, "producer", "unknownTopics")
	if partsF == nil || writable == nil || unknownF == nil || f.Decl.Type.Params == nil || len(f.Decl.Type.Params.List) != 1 {
		return
	}
	errParam := info.Defs[f.Decl.Type.Params.List[0].Names[0]]
	far := m.Method("kgo", "recBuf", "failAllRecords")
	// the innermost range statement containing failAllRecords
	nSweep := 0
	ast.Inspect(f.Decl.Body, func(x ast.Node) bool {
		rs, ok := x.(*ast.RangeStmt)
		if !ok {
			return true
		}
		calls := callsTo(rs.Body, info, far, false)
		if len(calls) == 0 {
			return true
		}
		inner := !containsNode(rs.Body, false, func(y ast.Node) bool {
			r2, ok := y.(*ast.RangeStmt)
			return ok && len(callsTo(r2.Body, info, far, false)) > 0
		})
		if !inner {
			// the outer loop must range over all producer topics
			c.Check(nosp(exprStr(rs.X)) == "p.topics.load()", rule, f.Key+"#sweeps every topic", rs.Pos(), m, "", "the sweep does not range p.topics.load()")
			return true
		}
		nSweep++
		fv := fieldOfSel(info, rs.X)
		c.Check(sameField(fv, partsF), rule, f.Key+"#sweeps the full partition list", rs.Pos(), m, "ranges topicPartitionsData.partitions",
			"the close sweep ranges `"+exprStr(rs.X)+"` instead of the full `partitions` list: records buffered on a partition that is currently leaderless / has a load error (consistent partitioners, leader loss after buffering) are never failed, so after Close their promises are never called and Flush/ProduceSync hang")
		for _, call := range calls {
			okErr := len(call.Args) == 1 && c13usesObj(info, call.Args[0], errParam)
			env := newLockEnv(f, nil, nil)
			held, okH := env.HeldAtNode(call)
			muPath := ""
			if sel, isSel := unparen(call.Fun).(*ast.SelectorExpr); isSel {
				muPath = canonPath(f, sel.X) + ".mu"
			}
			c.Check(okErr && okH && held.Holds(muPath, true), rule, f.Key+"#failAllRecords(err) under recBuf.mu", call.Pos(), m, "", "failAllRecords is not called with the sweep's error under recBuf.mu")
		}
		return true
	})
	c.Check(nSweep == 1, rule, f.Key+"#has partition sweep", f.Pos(), m, "", "failBufferedRecords has no (single) partition sweep calling failAllRecords")
	// unknown topics
	okUnknown := false
	ast.Inspect(f.Decl.Body, func(x ast.Node) bool {
		rs, ok := x.(*ast.RangeStmt)
		if ok && sameField(fieldOfSel(info, rs.X), unknownF) {
			okUnknown = true
		}
		return true
	})
	pb := m.Method("kgo", "producer", "promiseBatch")
	okPromise := false
	for _, call := range callsTo(f.Decl.Body, info, pb, false) {
		if containsNode(call, false, func(y ast.Node) bool {
			kv, ok := y.(*ast.KeyValueExpr)
			return ok && exprStr(kv.Key) == "err" && c13usesObj(info, kv.Value, errParam)
		}) {
			okPromise = true
		}
	}
	c.Check(okUnknown && okPromise, rule, f.Key+"#fails unknown-topic records", f.Pos(), m, "", "failBufferedRecords does not fail the records buffered for unknown topics with the sweep's error")

	// who may read writablePartitions
	allowed := map[string]string{
		"kgo.Client.doPartition":          "picks the partition for one record (falls back to the full list)",
		"kgo.metadataTopic.newPartitions": "builds the list from the metadata response",
		"kgo.Client.mergeTopicPartitions": "metadata merge",
		"kgo.kip951move.doMove":           "kip951 leader move keeps the two lists consistent",
	}
	seen := 0
	for _, fn := range m.FuncsIn("kgo") {
		reads := readsOf(fn.Decl.Body, fn.Info(), writable, true)
		if len(reads) == 0 {
			continue
		}
		seen++
		_, ok := allowed[fn.Key]
		if !ok {
			// accept by structural role: functions that also touch `.partitions` of the same value in the same statement list are merges; everything else is reported
			c.Fail(rule, fn.Key+": reads writablePartitions", reads[0].Pos(), m, "writablePartitions (the subset without load errors) is read by a function outside the confirmed table {doPartition, metadata merge}: sweeps over buffered records must use the full `partitions` list")
			continue
		}
		c.OK(rule, fn.Key+": reads writablePartitions", reads[0].Pos(), m, "")
	}
	c.Floor(rule+"#writablePartitions-readers", seen, 3)
}
