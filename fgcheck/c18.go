package main

import (
	"fmt"
	"go/ast"
	"go/token"
	"go/types"
	"sort"
	"strings"
)

func init() {
	register(&Prop{
		ID:        "C18",
		Level:     "other",
		Technique: "byte-count algebra: the produce request writer (produceRequest.AppendTo, seqRecBatch.appendTo, promisedRec.appendTo) and the size estimators (baseProduceRequestLength, tryAddBatch, wireLengthForProduceVersion, newRecordBatch, calculateRecordNumbers) are each reduced, by partial evaluation of their version guards per produce-version class, to linear forms over {constant bytes, uvarint-prefix terms, topic/id/txn-id lengths, batch lengths} and compared level by level; dominance and who-may-call rules for the batch-size guard; shape rules for the compression re-patching and CRC in appendTo; assumption-pruned CFG reachability (three-valued guard evaluation) for the zstd-below-v7 refusal in mkCompressFlags and compressor.Compress",
		Explanation: "(1) for every (version the sink believes, version the request is written at) pair that can occur - equal versions; believed v13 but written v11/v12 because produceMax is lowered; believed unknown (-1) and written at any version - the estimate is at least the written bytes at the request level (baseProduceRequestLength vs request header + fixed request fields + tag sections), per new topic and per added partition, decided at minimal uvarint widths and for the coefficient of every length symbol; tryAddBatch refuses when wireLength+estimate exceeds wireLengthLimit before adding, and createReq starts from baseProduceRequestLength with limit cfg.maxBrokerWriteBytes; " +
			"(2) the per-record estimate (calculateRecordNumbers) has exactly the terms promisedRec.appendTo writes, and the fixed batch overhead constant equals the fixed fields seqRecBatch.appendTo writes; " +
			"(3) appendRecord is called only from tryBuffer, after the `frozen || newBatchLength > maxBatchBytes` refusal; tryAddBatch freezes a batch before adding it to a request; recBuf.maxRecordBatchBytes comes from maxRecordBatchBytesForTopic, which is the minimum of the configured batch limit and the write limit minus the single-partition overhead; " +
			"(5) header consistency: maxTimestampDelta is a running maximum and firstTimestamp comes from the first record only (appendRecord is their only writer), the first record's delta is 0, appendTo writes lastOffsetDelta = len(records)-1, firstTimestamp, firstTimestamp+maxTimestampDelta, the producer id/epoch/sequence it was given (sequence 0 only without idempotence), the record count, and each record with its index as offset delta and its stored length/timestamp delta; " +
			"(4) in appendTo the CRC is the last write into the batch, the length/attribute fields are re-patched only inside the `compressed is shorter` arm (each by the savings), and the flexible defer rebuilds dst as new-prefix + batch; " +
			"(6) zstd (attribute codec 4) is only written from produce v7: mkCompressFlags returns CompressDisableZstd on every path with version < 7; seqRecBatch.appendTo / appendToAsMessageSet call Compress with mkCompressFlags(<their unmodified version parameter>)... and produceRequest.AppendTo hands them produceRequest.version; in (*compressor).Compress every iteration of the flag loop whose element is CompressDisableZstd sets the disable variable (never reset, loop never left early), the codec the compression switch dispatches on is the codec returned, and no store of a preference into that variable is reachable while `preference == CodecZstd` and the disable variable is set (three-valued pruning of branch edges, tag-switch arms included), so a disabled zstd falls through to the next preference or to no compression.",
		NotDecided:  "byte-exact decodability of the written request; that appendTo writes exactly wireLength bytes for the record section beyond the term-parity of clause 2; uvarint prefixes wider than one byte (e.g. the 2 MiB batch edge when the version is unknown); for clause 6: user-supplied Compressor implementations (only the built-in compressor is analysed), the client-telemetry use of Compress (metrics_714.go, not a produce request), and that the produce version a request is written at equals produceRequest.version beyond the argument check (C18 clause 1 / C15).",
		Assumptions: []string{"the kmsg request header is 4+2+2+4 bytes, a non-compact nullable client id and, for flexible requests, one tag byte (cross-checked against pkg/kmsg RequestFormatter.AppendRequest in this tree)"},
		Run:         runC18,
	})
}

// ---- linear forms ---------------------------------------------------------

type c18form struct {
	c   int
	u   int // number of uvarint-length terms (each >= 1 byte)
	sym map[string]int
}

type c18cost []c18form // alternatives: the value is the maximum over them

func c18const(n int) c18cost { return c18cost{{c: n}} }
func c18u() c18cost          { return c18cost{{u: 1}} }
func c18sym(s string) c18cost {
	return c18cost{{sym: map[string]int{s: 1}}}
}

func (a c18form) add(b c18form, sign int) c18form {
	r := c18form{c: a.c + sign*b.c, u: a.u + sign*b.u, sym: map[string]int{}}
	for k, v := range a.sym {
		r.sym[k] += v
	}
	for k, v := range b.sym {
		r.sym[k] += sign * v
	}
	for k, v := range r.sym {
		if v == 0 {
			delete(r.sym, k)
		}
	}
	return r
}

func (a c18cost) plus(b c18cost, sign int) c18cost {
	var out c18cost
	for _, x := range a {
		for _, y := range b {
			out = append(out, x.add(y, sign))
		}
	}
	return out
}

func (a c18form) String() string {
	var parts []string
	if a.c != 0 || (a.u == 0 && len(a.sym) == 0) {
		parts = append(parts, fmt.Sprint(a.c))
	}
	if a.u != 0 {
		parts = append(parts, fmt.Sprintf("%d*uvarint", a.u))
	}
	for _, k := range sortedKeys(a.sym) {
		if a.sym[k] == 1 {
			parts = append(parts, k)
		} else {
			parts = append(parts, fmt.Sprintf("%d*%s", a.sym[k], k))
		}
	}
	return strings.Join(parts, " + ")
}

func (a c18cost) String() string {
	if len(a) == 1 {
		return a[0].String()
	}
	var parts []string
	for _, x := range a {
		parts = append(parts, x.String())
	}
	return "max(" + strings.Join(parts, " , ") + ")"
}

// dominates: a >= b with every uvarint term one byte wide and coefficient-wise on symbols.
func (a c18form) dominates(b c18form) bool {
	slack := a.c + a.u - b.c - b.u
	for k, v := range b.sym {
		if a.sym[k] < v {
			return false
		}
	}
	for k, v := range a.sym {
		if v < b.sym[k] {
			return false
		}
		// a surplus of a symbol counts with the symbol's minimum value
		slack += (v - b.sym[k]) * c18symMin[k]
	}
	return slack >= 0
}

// c18symMin holds lower bounds of the length symbols, filled from the source
// constants by c18mins (a batch in a request has at least one record).
var c18symMin = map[string]int{}

// value at a witness point (uvarint terms = 1 byte).
func (a c18form) at(pt map[string]int) int {
	v := a.c + a.u
	for k, n := range a.sym {
		v += n * pt[k]
	}
	return v
}

// c18covers: est (max of alternatives) >= written (single form). Returns
// (decided, holds, witness).
func c18covers(est c18cost, written c18form) (bool, bool, string) {
	for _, e := range est {
		if e.dominates(written) {
			return true, true, ""
		}
	}
	// look for a concrete witness
	pts := []map[string]int{}
	for _, t := range []int{1, 12, 17, 249} {
		for _, w := range []int{70, 100000} {
			for _, m := range []int{40, 100050} {
				for _, cid := range []int{3, 200} {
					for _, txn := range []int{5, 200} {
						pts = append(pts, map[string]int{"topic": t, "clientID": cid, "txnID": txn, "wireLength": w, "v1wireLength": m})
					}
				}
			}
		}
	}
	for _, pt := range pts {
		best := -1 << 30
		for _, e := range est {
			if v := e.at(pt); v > best {
				best = v
			}
		}
		if w := written.at(pt); best < w {
			return true, false, fmt.Sprintf("with len(topic)=%d, wireLength=%d, v1wireLength=%d: estimated %d bytes, written %d", pt["topic"], pt["wireLength"], pt["v1wireLength"], best, w)
		}
	}
	return false, false, ""
}

// ---- evaluator --------------------------------------------------------------

type c18env struct {
	f       *Func
	m       *Module
	version int // concrete value bound to the version parameter / p.version
	verObj  types.Object
	verSel  string // selector text that denotes the version ("p.version")
	costs   map[types.Object]c18cost
	bools   map[types.Object]tri
	atoms   map[string]tri // extra atoms by expression text (nosp)
	problem string
	depth   int
}

func (e *c18env) fail(format string, a ...any) {
	if e.problem == "" {
		e.problem = fmt.Sprintf(format, a...)
	}
}

func (e *c18env) obj(id *ast.Ident) types.Object {
	if o := e.f.Info().Uses[id]; o != nil {
		return o
	}
	return e.f.Info().Defs[id]
}

func (e *c18env) intOf(x ast.Expr) (int, bool) {
	x = unparen(x)
	if v, ok := constInt(e.f.Info(), x); ok {
		return int(v), true
	}
	if id, ok := x.(*ast.Ident); ok && e.verObj != nil && e.obj(id) == e.verObj {
		return e.version, true
	}
	if e.verSel != "" && nosp(exprStr(x)) == e.verSel {
		return e.version, true
	}
	return 0, false
}

func (e *c18env) evalBool(x ast.Expr) tri {
	x = unparen(x)
	if v, ok := constBool(e.f.Info(), x); ok {
		return b2tri(v)
	}
	if t, ok := e.atoms[nosp(exprStr(x))]; ok {
		return t
	}
	switch n := x.(type) {
	case *ast.Ident:
		if t, ok := e.bools[e.obj(n)]; ok {
			return t
		}
	case *ast.UnaryExpr:
		if n.Op == token.NOT {
			return e.evalBool(n.X).not()
		}
	case *ast.BinaryExpr:
		switch n.Op {
		case token.LAND:
			return triAnd(e.evalBool(n.X), e.evalBool(n.Y))
		case token.LOR:
			return triOr(e.evalBool(n.X), e.evalBool(n.Y))
		case token.LSS, token.LEQ, token.GTR, token.GEQ, token.EQL, token.NEQ:
			a, ok1 := e.intOf(n.X)
			b, ok2 := e.intOf(n.Y)
			if ok1 && ok2 {
				var r bool
				switch n.Op {
				case token.LSS:
					r = a < b
				case token.LEQ:
					r = a <= b
				case token.GTR:
					r = a > b
				case token.GEQ:
					r = a >= b
				case token.EQL:
					r = a == b
				case token.NEQ:
					r = a != b
				}
				return b2tri(r)
			}
		}
	case *ast.CallExpr:
		// a method whose body is a single `return <bool expr>` over the same receiver name
		if fn, ok := calleeObj(e.f.Info(), n).(*types.Func); ok {
			if cf := e.m.Func(keyOfObj(fn)); cf != nil && len(cf.Decl.Body.List) == 1 {
				if r, ok := cf.Decl.Body.List[0].(*ast.ReturnStmt); ok && len(r.Results) == 1 {
					sub := &c18env{f: cf, m: e.m, version: e.version, verSel: e.verSel, atoms: e.atoms}
					return sub.evalBool(r.Results[0])
				}
			}
		}
	}
	return triU
}

// symbol for a string/bytes-typed expression
func c18symOf(x ast.Expr) (string, bool) {
	s := strings.ToLower(nosp(exprStr(x)))
	switch {
	case strings.Contains(s, "topic"):
		return "topic", true
	case strings.Contains(s, "txnid"):
		return "txnID", true
	case strings.Contains(s, "clientid") || strings.HasSuffix(s, "cfg.id"):
		return "clientID", true
	case strings.HasSuffix(s, ".key"):
		return "key", true
	case strings.HasSuffix(s, ".value"):
		return "value", true
	}
	return "", false
}

func (e *c18env) evalCost(x ast.Expr) (c18cost, bool) {
	x = unparen(x)
	if v, ok := constInt(e.f.Info(), x); ok {
		return c18const(int(v)), true
	}
	switch n := x.(type) {
	case *ast.Ident:
		if c, ok := e.costs[e.obj(n)]; ok {
			return c, true
		}
	case *ast.SelectorExpr:
		switch n.Sel.Name {
		case "wireLength", "v1wireLength":
			if v := fieldOfSel(e.f.Info(), n); v != nil && v.IsField() {
				return c18sym(n.Sel.Name), true
			}
		}
	case *ast.BinaryExpr:
		a, ok1 := e.evalCost(n.X)
		b, ok2 := e.evalCost(n.Y)
		if ok1 && ok2 {
			switch n.Op {
			case token.ADD:
				return a.plus(b, 1), true
			case token.SUB:
				return a.plus(b, -1), true
			}
		}
	case *ast.StarExpr:
		return e.evalCost(n.X)
	case *ast.CallExpr:
		// conversions
		if tv, ok := e.f.Info().Types[n.Fun]; ok && tv.IsType() && len(n.Args) == 1 {
			return e.evalCost(n.Args[0])
		}
		if id, ok := n.Fun.(*ast.Ident); ok && id.Name == "len" && len(n.Args) == 1 {
			if _, isB := e.f.Info().Uses[id].(*types.Builtin); isB {
				a := unparen(n.Args[0])
				if st, ok := a.(*ast.StarExpr); ok {
					a = st.X
				}
				if s, ok := c18symOf(a); ok {
					return c18sym(s), true
				}
			}
		}
		if fn, ok := calleeObj(e.f.Info(), n).(*types.Func); ok {
			switch keyOfObj(fn) {
			case "kgo.uvarlen":
				return c18u(), true
			case "kbin.UvarintLen":
				return c18u(), true
			}
			// single-return helper over the same receiver: inline
			if cf := e.m.Func(keyOfObj(fn)); cf != nil && fn.Pkg() != nil && fn.Pkg().Name() == "kgo" {
				sub := &c18env{f: cf, m: e.m, version: e.version, verSel: e.verSel, atoms: e.atoms, costs: map[types.Object]c18cost{}, bools: map[types.Object]tri{}, depth: e.depth + 1}
				if e.depth < 4 {
					if c, ok := sub.runFuncCost(); ok {
						return c, true
					}
				}
			}
		}
	}
	return nil, false
}

// runFuncCost evaluates a helper with a single result: its body is executed
// symbolically and the final return expression evaluated.
func (e *c18env) runFuncCost() (c18cost, bool) {
	list := e.f.Decl.Body.List
	if len(list) == 0 {
		return nil, false
	}
	rs, ok := list[len(list)-1].(*ast.ReturnStmt)
	if !ok || len(rs.Results) != 1 {
		return nil, false
	}
	e.exec(list[:len(list)-1], nil)
	if e.problem != "" {
		return nil, false
	}
	return e.evalCost(rs.Results[0])
}

// exec runs estimator statements, updating e.costs / e.bools. stop(st) ends the run.
// Returns false when execution ended (return / stop).
func (e *c18env) exec(stmts []ast.Stmt, stop func(ast.Stmt) bool) bool {
	for _, st := range stmts {
		if e.problem != "" {
			return false
		}
		if stop != nil && stop(st) {
			return false
		}
		switch s := st.(type) {
		case *ast.DeclStmt:
			gd := s.Decl.(*ast.GenDecl)
			for _, sp := range gd.Specs {
				vs, ok := sp.(*ast.ValueSpec)
				if !ok {
					continue
				}
				for i, id := range vs.Names {
					o := e.f.Info().Defs[id]
					if i < len(vs.Values) {
						e.assign(o, vs.Values[i])
					} else if b, ok := o.Type().Underlying().(*types.Basic); ok {
						if b.Info()&types.IsBoolean != 0 {
							e.bools[o] = triF
						} else if b.Info()&types.IsInteger != 0 {
							e.costs[o] = c18const(0)
						}
					}
				}
			}
		case *ast.AssignStmt:
			e.execAssign(s)
		case *ast.IncDecStmt:
			if id, ok := s.X.(*ast.Ident); ok {
				if c, ok := e.costs[e.obj(id)]; ok {
					d := 1
					if s.Tok == token.DEC {
						d = -1
					}
					e.costs[e.obj(id)] = c.plus(c18const(d), 1)
					continue
				}
			}
			e.fail("unclassified statement %s", nodeStr(s))
		case *ast.IfStmt:
			if s.Init != nil {
				if !e.exec([]ast.Stmt{s.Init}, nil) && e.problem != "" {
					return false
				}
			}
			switch e.evalBool(s.Cond) {
			case triT:
				if !e.exec(s.Body.List, stop) {
					return false
				}
			case triF:
				if s.Else != nil {
					var list []ast.Stmt
					if b, ok := s.Else.(*ast.BlockStmt); ok {
						list = b.List
					} else {
						list = []ast.Stmt{s.Else}
					}
					if !e.exec(list, stop) {
						return false
					}
				}
			default:
				if !e.maxPattern(s) {
					e.fail("condition %s cannot be decided for produce version %d", exprStr(s.Cond), e.version)
					return false
				}
			}
		case *ast.SwitchStmt:
			if !e.execSwitch(s, stop) {
				return false
			}
		case *ast.ReturnStmt:
			return false
		case *ast.BlockStmt:
			if !e.exec(s.List, stop) {
				return false
			}
		case *ast.ExprStmt:
			// calls without effect on the tracked values
		default:
			e.fail("unclassified statement %s", nodeStr(st))
			return false
		}
	}
	return true
}

func (e *c18env) assign(o types.Object, rhs ast.Expr) {
	if o == nil {
		return
	}
	if b, ok := o.Type().Underlying().(*types.Basic); ok && b.Info()&types.IsBoolean != 0 {
		e.bools[o] = e.evalBool(rhs)
		return
	}
	if c, ok := e.evalCost(rhs); ok {
		e.costs[o] = c
		return
	}
	delete(e.costs, o)
}

func (e *c18env) execAssign(s *ast.AssignStmt) {
	// multi-value call: the version-class helper
	if len(s.Rhs) == 1 && len(s.Lhs) > 1 {
		if call, ok := s.Rhs[0].(*ast.CallExpr); ok {
			if fn, ok := calleeObj(e.f.Info(), call).(*types.Func); ok {
				if cf := e.m.Func(keyOfObj(fn)); cf != nil && cf.Decl.Type.Results != nil {
					sub := &c18env{f: cf, m: e.m, version: e.version, atoms: e.atoms, costs: map[types.Object]c18cost{}, bools: map[types.Object]tri{}}
					// bind the version parameter: the argument that evaluates to our version
					k := 0
					for _, fl := range cf.Decl.Type.Params.List {
						for _, nm := range fl.Names {
							if k < len(call.Args) {
								if _, isVer := e.intOf(call.Args[k]); isVer {
									sub.verObj = cf.Info().Defs[nm]
								}
							}
							k++
						}
					}
					var results []types.Object
					for _, fl := range cf.Decl.Type.Results.List {
						for _, nm := range fl.Names {
							o := cf.Info().Defs[nm]
							results = append(results, o)
							if b, ok := o.Type().Underlying().(*types.Basic); ok && b.Info()&types.IsBoolean != 0 {
								sub.bools[o] = triF
							} else {
								sub.costs[o] = c18const(0)
							}
						}
					}
					sub.exec(cf.Decl.Body.List, nil)
					if sub.problem != "" {
						e.fail("%s: %s", cf.Key, sub.problem)
						return
					}
					if len(results) == len(s.Lhs) {
						for i, l := range s.Lhs {
							id, ok := l.(*ast.Ident)
							if !ok || id.Name == "_" {
								continue
							}
							o := e.obj(id)
							if t, ok := sub.bools[results[i]]; ok {
								e.bools[o] = t
							} else if c, ok := sub.costs[results[i]]; ok {
								e.costs[o] = c
							}
						}
						return
					}
				}
			}
		}
		// e.g. `partitions, exists := m[k]`: values come from the scenario atoms
		for _, l := range s.Lhs {
			if id, ok := l.(*ast.Ident); ok && id.Name != "_" {
				if t, ok := e.atoms[id.Name]; ok {
					e.bools[e.obj(id)] = t
				}
			}
		}
		return
	}
	if len(s.Lhs) != len(s.Rhs) {
		e.fail("unclassified assignment %s", nodeStr(s))
		return
	}
	for i, l := range s.Lhs {
		id, ok := l.(*ast.Ident)
		if !ok {
			continue // stores to fields are not tracked here
		}
		o := e.obj(id)
		switch s.Tok {
		case token.ASSIGN, token.DEFINE:
			e.assign(o, s.Rhs[i])
		case token.ADD_ASSIGN, token.SUB_ASSIGN:
			cur, ok1 := e.costs[o]
			d, ok2 := e.evalCost(s.Rhs[i])
			if !ok1 || !ok2 {
				if ok1 {
					e.fail("term %s of %s cannot be classified", exprStr(s.Rhs[i]), nodeStr(s))
				}
				continue
			}
			sign := 1
			if s.Tok == token.SUB_ASSIGN {
				sign = -1
			}
			e.costs[o] = cur.plus(d, sign)
		default:
			if _, tracked := e.costs[o]; tracked {
				e.fail("unclassified assignment %s", nodeStr(s))
			}
		}
	}
}

// maxPattern recognises `if [guard &&] X < C { X = C }` (X = max(X, C)) and
// `if [guard &&] C > X ...`; guards must evaluate to true/false.
func (e *c18env) maxPattern(s *ast.IfStmt) bool {
	if s.Else != nil || len(s.Body.List) != 1 {
		return false
	}
	as, ok := s.Body.List[0].(*ast.AssignStmt)
	if !ok || as.Tok != token.ASSIGN || len(as.Lhs) != 1 {
		return false
	}
	id, ok := as.Lhs[0].(*ast.Ident)
	if !ok {
		return false
	}
	o := e.obj(id)
	cur, ok := e.costs[o]
	if !ok {
		return false
	}
	var cmp *ast.BinaryExpr
	for _, ft := range decompose(s.Cond, true, nil) {
		if !ft.Val {
			if e.evalBool(ft.Cond) != triF {
				return false
			}
			continue
		}
		switch e.evalBool(ft.Cond) {
		case triT:
			continue
		case triF:
			return true // the whole guard is false: nothing happens
		}
		be, ok := unparen(ft.Cond).(*ast.BinaryExpr)
		if !ok || cmp != nil {
			return false
		}
		cmp = be
	}
	if cmp == nil {
		return false
	}
	var bound ast.Expr
	switch {
	case (cmp.Op == token.LSS || cmp.Op == token.LEQ) && exprStr(cmp.X) == id.Name:
		bound = cmp.Y
	case (cmp.Op == token.GTR || cmp.Op == token.GEQ) && exprStr(cmp.Y) == id.Name:
		bound = cmp.X
	default:
		return false
	}
	b, ok1 := e.evalCost(bound)
	v, ok2 := e.evalCost(as.Rhs[0])
	if !ok1 || !ok2 || b.String() != v.String() {
		return false
	}
	e.costs[o] = append(append(c18cost{}, cur...), v...)
	return true
}

func (e *c18env) execSwitch(s *ast.SwitchStmt, stop func(ast.Stmt) bool) bool {
	var def *ast.CaseClause
	for _, cs := range s.Body.List {
		cc := cs.(*ast.CaseClause)
		if cc.List == nil {
			def = cc
			continue
		}
		match := triF
		for _, x := range cc.List {
			var t tri
			if s.Tag != nil {
				a, ok1 := e.intOf(s.Tag)
				b, ok2 := e.intOf(x)
				if !ok1 || !ok2 {
					t = triU
				} else {
					t = b2tri(a == b)
				}
			} else {
				t = e.evalBool(x)
			}
			match = triOr(match, t)
		}
		switch match {
		case triT:
			return e.exec(cc.Body, stop)
		case triU:
			e.fail("switch case %s cannot be decided for produce version %d", nodeStr(cc), e.version)
			return false
		}
	}
	if def != nil {
		return e.exec(def.Body, stop)
	}
	return true
}

// ---- writer walk -------------------------------------------------------------

type c18writer struct {
	env    *c18env
	levels map[int]c18cost // loop depth -> bytes appended to dst per iteration of that depth
	skip   map[int]c18cost // alternative per-iteration bytes of an early `continue` arm
	sub    string          // symbol used for nested encoders
}

func (w *c18writer) add(depth int, c c18cost) {
	if cur, ok := w.levels[depth]; ok {
		w.levels[depth] = cur.plus(c, 1)
	} else {
		w.levels[depth] = c
	}
}

func (w *c18writer) callCost(call *ast.CallExpr) (c18cost, bool) {
	e := w.env
	info := e.f.Info()
	if id, ok := call.Fun.(*ast.Ident); ok && id.Name == "append" {
		if _, isB := info.Uses[id].(*types.Builtin); isB && len(call.Args) >= 1 {
			if call.Ellipsis == token.NoPos {
				return c18const(len(call.Args) - 1), true
			}
			if len(call.Args) == 2 {
				a := unparen(call.Args[1])
				if sl, ok := a.(*ast.SliceExpr); ok && sl.Low == nil && sl.High == nil {
					if arr, ok := info.Types[sl.X].Type.Underlying().(*types.Array); ok {
						return c18const(int(arr.Len())), true
					}
				}
			}
			return nil, false
		}
	}
	fn, ok := calleeObj(info, call).(*types.Func)
	if !ok {
		return nil, false
	}
	symArg := func(i int) (c18cost, bool) {
		if i >= len(call.Args) {
			return nil, false
		}
		if exprStr(call.Args[i]) == "nil" {
			return c18const(0), true
		}
		if s, ok := c18symOf(call.Args[i]); ok {
			return c18sym(s), true
		}
		return nil, false
	}
	key := keyOfObj(fn)
	switch key {
	case "kbin.AppendInt8", "kbin.AppendBool", "kbin.AppendUint8":
		return c18const(1), true
	case "kbin.AppendInt16", "kbin.AppendUint16":
		return c18const(2), true
	case "kbin.AppendInt32", "kbin.AppendUint32", "kbin.AppendArrayLen", "kbin.AppendNullableArrayLen":
		return c18const(4), true
	case "kbin.AppendInt64", "kbin.AppendFloat64":
		return c18const(8), true
	case "kbin.AppendCompactArrayLen", "kbin.AppendCompactNullableArrayLen", "kbin.AppendUvarint":
		return c18u(), true
	case "kbin.AppendString", "kbin.AppendNullableString":
		if s, ok := symArg(1); ok {
			return c18const(2).plus(s, 1), true
		}
	case "kbin.AppendCompactString", "kbin.AppendCompactNullableString":
		if s, ok := symArg(1); ok {
			return c18u().plus(s, 1), true
		}
	case "kbin.AppendNullableBytes", "kbin.AppendBytes":
		if s, ok := symArg(1); ok {
			return c18const(4).plus(s, 1), true
		}
	case "kbin.AppendCompactNullableBytes", "kbin.AppendCompactBytes":
		if s, ok := symArg(1); ok {
			return c18u().plus(s, 1), true
		}
	case "kgo.seqRecBatch.appendTo", "kgo.seqRecBatch.appendToAsMessageSet":
		return c18sym("BATCH:" + fn.Name()), true
	}
	if fn.Name() == "AppendTo" && w.sub != "" {
		return c18sym(w.sub), true
	}
	return nil, false
}

func (w *c18writer) walk(stmts []ast.Stmt, depth int) bool {
	e := w.env
	for _, st := range stmts {
		if e.problem != "" {
			return false
		}
		switch s := st.(type) {
		case *ast.AssignStmt:
			isDst := false
			for _, l := range s.Lhs {
				if id, ok := l.(*ast.Ident); ok && id.Name == "dst" {
					isDst = true
				}
			}
			if !isDst {
				// local definitions the guards may use
				if len(s.Lhs) == 1 && len(s.Rhs) == 1 {
					if id, ok := s.Lhs[0].(*ast.Ident); ok {
						if b, ok := e.obj(id).Type().Underlying().(*types.Basic); ok && b.Info()&types.IsBoolean != 0 {
							e.bools[e.obj(id)] = e.evalBool(s.Rhs[0])
						} else if v, ok := e.intOf(s.Rhs[0]); ok {
							_ = v
							e.atoms[id.Name+"==version"] = triT
							if e.verObj == nil && (nosp(exprStr(s.Rhs[0])) == e.verSel || strings.HasSuffix(nosp(exprStr(s.Rhs[0])), ".GetVersion()")) {
								e.verObj = e.obj(id)
							}
						}
					}
				}
				continue
			}
			if len(s.Rhs) != 1 {
				e.fail("unclassified write %s", nodeStr(s))
				return false
			}
			call, ok := unparen(s.Rhs[0]).(*ast.CallExpr)
			if !ok {
				e.fail("unclassified write %s", nodeStr(s))
				return false
			}
			c, ok := w.callCost(call)
			if !ok {
				e.fail("unclassified write %s", nodeStr(s))
				return false
			}
			w.add(depth, c)
		case *ast.IfStmt:
			switch e.evalBool(s.Cond) {
			case triT:
				if !w.walk(s.Body.List, depth) {
					return false
				}
			case triF:
				if s.Else != nil {
					var list []ast.Stmt
					if b, ok := s.Else.(*ast.BlockStmt); ok {
						list = b.List
					} else {
						list = []ast.Stmt{s.Else}
					}
					if !w.walk(list, depth) {
						return false
					}
				}
			default:
				// an arm that ends the iteration early (`continue`): alternative encoding of one element
				n := len(s.Body.List)
				if n > 0 && s.Else == nil {
					if br, ok := s.Body.List[n-1].(*ast.BranchStmt); ok && br.Tok == token.CONTINUE {
						alt := &c18writer{env: e, levels: map[int]c18cost{}, skip: map[int]c18cost{}, sub: w.sub}
						if !alt.walk(s.Body.List[:n-1], depth) {
							return false
						}
						pre := c18const(0)
						if cur, ok := w.levels[depth]; ok {
							pre = cur
						}
						if a, ok := alt.levels[depth]; ok {
							w.skip[depth] = pre.plus(a, 1)
						} else {
							w.skip[depth] = pre
						}
						continue
					}
				}
				// an arm that writes nothing and does not return is irrelevant
				if !containsNode(s, false, func(y ast.Node) bool {
					id, ok := y.(*ast.Ident)
					return ok && id.Name == "dst"
				}) {
					continue
				}
				e.fail("condition %s cannot be decided for produce version %d", exprStr(s.Cond), e.version)
				return false
			}
		case *ast.RangeStmt:
			if !w.walk(s.Body.List, depth+1) {
				return false
			}
		case *ast.ForStmt:
			if !w.walk(s.Body.List, depth+1) {
				return false
			}
		case *ast.BlockStmt:
			if !w.walk(s.List, depth) {
				return false
			}
		case *ast.ReturnStmt:
			return false
		case *ast.BranchStmt:
			return false
		default:
			// statements that do not assign dst are irrelevant to the byte count
			bad := false
			ast.Inspect(st, func(y ast.Node) bool {
				if as, ok := y.(*ast.AssignStmt); ok {
					for _, l := range as.Lhs {
						if id, ok := l.(*ast.Ident); ok && id.Name == "dst" {
							bad = true
						}
					}
				}
				return true
			})
			if bad {
				e.fail("unclassified statement writing dst: %s", nodeStr(st))
				return false
			}
		}
	}
	return true
}

// ---- the property ------------------------------------------------------------

func runC18(c *Ctx) {
	m := c.Load("")
	if m == nil {
		return
	}
	c18sizes(c, m)
	c18records(c, m)
	c18batchLimit(c, m)
	c18appendTo(c, m)
	c18header(c, m)
	c18messageSetWrap(c, m)
	c18round4(c, m)
}

// c18messageSetWrap: for message sets (produce v0-v2) a compressed batch is a
// wrapper message around the compressed bytes; it replaces the plain messages
// only when the WRAPPED size (wrapper overhead included) is smaller, otherwise
// the written batch exceeds the size the batch was admitted with.
func c18messageSetWrap(c *Ctx, m *Module) {
	rule := "message-set-wrapper-counted"
	f := c.NeedFunc(m, "kgo.seqRecBatch.appendToAsMessageSet")
	if f == nil {
		return
	}
	info := f.Info()
	n := 0
	ast.Inspect(f.Decl.Body, func(x ast.Node) bool {
		be, ok := x.(*ast.BinaryExpr)
		if !ok || be.Op != token.LSS || nosp(exprStr(be.Y)) != "len(toCompress)" {
			return true
		}
		n++
		good := false
		if id, ok := unparenConv(info, be.X).(*ast.Ident); ok {
			obj := info.Uses[id]
			fromWrap, plus8 := false, false
			for _, rhs := range assignsTo(f, obj) {
				if call, ok := rhs.(*ast.CallExpr); ok && calleeName(info, call) == "kgo.messageSet0Length" {
					fromWrap = true
				}
			}
			ast.Inspect(f.Decl.Body, func(y ast.Node) bool {
				if as, ok := y.(*ast.AssignStmt); ok && as.Tok == token.ADD_ASSIGN && len(as.Lhs) == 1 {
					if lid, ok := as.Lhs[0].(*ast.Ident); ok && info.Uses[lid] == obj {
						if v, isC := constInt(info, as.Rhs[0]); isC && v == 8 {
							plus8 = true
						}
					}
				}
				return true
			})
			good = fromWrap && plus8
		}
		c.Check(good, rule, f.Key+": compressed form used only if the wrapped message is smaller", be.Pos(), m, "messageSet0Length(wrapper) [+8 for the timestamp] < len(toCompress)", "the decision to use the compressed form compares `"+exprStr(be.X)+"` with the uncompressed size instead of the wrapped message length: when compression saves fewer bytes than the wrapper adds (26/34), the written batch is larger than the size it was admitted with and can exceed the batch and request limits")
		return true
	})
	c.Check(n == 1, rule, f.Key+"#comparison", f.Pos(), m, "", "comparison against len(toCompress) not found")
}

// c18header: the batch header fields are consistent with the records.
func c18header(c *Ctx, m *Module) {
	rule := "batch-header-consistent"
	if f := c.NeedFunc(m, "kgo.recBatch.appendRecord"); f != nil {
		g := f.Graph()
		info := f.Info()
		maxTs := m.Field("kgo", "recBatch", "maxTimestampDelta")
		firstTs := m.Field("kgo", "recBatch", "firstTimestamp")
		nMax, nFirst := 0, 0
		for _, st := range storesTo(f.Decl.Body, info, maxTs, false) {
			nMax++
			l, _ := g.LocOf(st.Node)
			facts := g.FactsAt(l)
			// monotone maximum: stored value v only under v > current
			rhs := nosp(exprStr(st.RHS))
			mono := factMatches(facts, func(ft Fact) bool {
				be, ok := unparen(ft.Cond).(*ast.BinaryExpr)
				if !ok || !ft.Val {
					return false
				}
				x, y := nosp(exprStr(be.X)), nosp(exprStr(be.Y))
				return be.Op == token.GTR && x == rhs && sameField(fieldOfSel(info, be.Y), maxTs) ||
					be.Op == token.LSS && y == rhs && sameField(fieldOfSel(info, be.X), maxTs)
			})
			c.Check(mono && rhs == "nums.tsDelta", rule, f.Key+": maxTimestampDelta is a running maximum", st.Node.Pos(), m, "", "maxTimestampDelta is overwritten without the `delta > max` test: with user timestamps that are not non-decreasing the header's MaxTimestamp is not the largest record timestamp")
		}
		for _, st := range storesTo(f.Decl.Body, info, firstTs, false) {
			nFirst++
			l, _ := g.LocOf(st.Node)
			first := factMatches(g.FactsAt(l), func(ft Fact) bool { return ft.Val && nosp(exprStr(ft.Cond)) == "len(b.records)==0" })
			c.Check(first, rule, f.Key+": firstTimestamp only from the first record", st.Node.Pos(), m, "", "firstTimestamp is re-assigned for later records: the timestamp deltas already computed no longer match")
		}
		c.Check(nMax == 1 && nFirst == 1, rule, f.Key+"#stores", f.Pos(), m, "", "expected one store each of firstTimestamp and maxTimestampDelta in appendRecord")
		// no other writers
		for _, fv := range []*types.Var{maxTs, firstTs} {
			for _, s := range StoreSites(m.FuncsIn("kgo"), fv) {
				if s.Kind == "complit" {
					continue
				}
				c.Check(s.Fn.Key == f.Key, rule, s.Fn.Key+": writes recBatch."+fv.Name(), s.Node.Pos(), m, "", "unexpected writer of recBatch."+fv.Name())
			}
		}
	}
	if f := c.NeedFunc(m, "kgo.recBatch.calculateRecordNumbers"); f != nil {
		set := c18stmtSet(f.Decl.Body)
		for _, frag := range []string{"tsDelta:=tsMillis-b.firstTimestamp", "offsetDelta:=int32(len(b.records))"} {
			c.Check(set[frag], rule, f.Key+": "+frag, f.Pos(), m, "", "record numbers: `"+frag+"` missing or changed")
		}
		g := f.Graph()
		okZero := false
		ast.Inspect(f.Decl.Body, func(x ast.Node) bool {
			if as, ok := x.(*ast.AssignStmt); ok && nosp(nodeStr(as)) == "tsDelta=0" {
				l, _ := g.LocOf(as)
				okZero = factMatches(g.FactsAt(l), func(ft Fact) bool { return ft.Val && nosp(exprStr(ft.Cond)) == "len(b.records)==0" })
			}
			return true
		})
		c.Check(okZero, rule, f.Key+": first record has delta 0", f.Pos(), m, "", "the first record's timestamp delta is not forced to 0")
	}
	if f := c.NeedFunc(m, "kgo.seqRecBatch.appendTo"); f != nil {
		set := c18stmtSet(f.Decl.Body)
		for _, frag := range []string{
			"dst=kbin.AppendInt32(dst,int32(len(b.records)-1))",
			"dst=kbin.AppendInt64(dst,b.firstTimestamp)",
			"dst=kbin.AppendInt64(dst,b.firstTimestamp+b.maxTimestampDelta)",
			"dst=kbin.AppendInt64(dst,producerID)",
			"dst=kbin.AppendInt16(dst,producerEpoch)",
			"dst=kbin.AppendInt32(dst,seq)",
			"dst=kbin.AppendArrayLen(dst,len(b.records))",
			"dst=pr.appendTo(dst,int32(i))",
			"seq:=b.seq",
		} {
			c.Check(set[frag], rule, f.Key+": "+frag, f.Pos(), m, "", "batch header/records: `"+frag+"` missing or changed")
		}
		// seq is zeroed only for non-idempotent producers
		g := f.Graph()
		ast.Inspect(f.Decl.Body, func(x ast.Node) bool {
			if as, ok := x.(*ast.AssignStmt); ok && nosp(nodeStr(as)) == "seq=0" {
				l, _ := g.LocOf(as)
				ok := factMatches(g.FactsAt(l), func(ft Fact) bool { return ft.Val && nosp(exprStr(ft.Cond)) == "producerID<0" })
				c.Check(ok, rule, f.Key+": seq = 0 only without idempotence", as.Pos(), m, "", "the batch sequence is zeroed for an idempotent producer")
			}
			return true
		})
	}
	if f := c.NeedFunc(m, "kgo.promisedRec.appendTo"); f != nil {
		set := c18stmtSet(f.Decl.Body)
		for _, frag := range []string{"length,tsDelta:=pr.lengthAndTimestampDelta()", "dst=kbin.AppendVarint(dst,length)", "dst=kbin.AppendVarlong(dst,tsDelta)", "dst=kbin.AppendVarint(dst,offsetDelta)"} {
			c.Check(set[frag], rule, f.Key+": "+frag, f.Pos(), m, "", "record encoding: `"+frag+"` missing or changed")
		}
	}
	// the numbers computed at buffering time are the ones stored on the record
	if f := c.NeedFunc(m, "kgo.recBatch.tryBuffer"); f != nil {
		set := c18stmtSet(f.Decl.Body)
		c.Check(set["pr.setLengthAndTimestampDelta(nums.lengthField,nums.tsDelta,)"] || set["pr.setLengthAndTimestampDelta(nums.lengthField,nums.tsDelta)"], rule, f.Key+": stores the computed length and delta", f.Pos(), m, "", "the record's stored length/timestamp delta are not the computed ones")
	}
}

func c18stmtSet(body *ast.BlockStmt) map[string]bool {
	set := map[string]bool{}
	ast.Inspect(body, func(x ast.Node) bool {
		if st, ok := x.(ast.Stmt); ok {
			switch st.(type) {
			case *ast.AssignStmt, *ast.ExprStmt:
				set[nows(nodeStr(st))] = true
			}
		}
		return true
	})
	return set
}

var c18versions = []int{0, 1, 2, 3, 8, 9, 12, 13}

func c18sizes(c *Ctx, m *Module) {
	rule := "estimate-covers-encoding"
	wf := c.NeedFunc(m, "kgo.produceRequest.AppendTo")
	ef := c.NeedFunc(m, "kgo.produceRequest.tryAddBatch")
	bf := c.NeedFunc(m, "kgo.Client.baseProduceRequestLength")
	if wf == nil || ef == nil || bf == nil {
		return
	}
	c18mins(c, m)
	// writer per version
	type wres struct{ req, topic, part, partSkip c18cost }
	writer := map[int]wres{}
	for _, v := range c18versions {
		env := &c18env{f: wf, m: m, version: v, verSel: "p.version", costs: map[types.Object]c18cost{}, bools: map[types.Object]tri{}, atoms: map[string]tri{}}
		w := &c18writer{env: env, levels: map[int]c18cost{}, skip: map[int]c18cost{}}
		w.walk(wf.Decl.Body.List, 0)
		if env.problem != "" {
			c.Undecided(rule, fmt.Sprintf("%s@v%d", wf.Key, v), wf.Pos(), m, env.problem)
			return
		}
		r := wres{req: w.levels[0], topic: w.levels[1], part: w.levels[2], partSkip: w.skip[2]}
		if r.req == nil || r.topic == nil || r.part == nil {
			c.Undecided(rule, fmt.Sprintf("%s@v%d", wf.Key, v), wf.Pos(), m, "request/topic/partition levels not recognised in the writer")
			return
		}
		writer[v] = r
	}
	// estimator per believed version and scenario
	type eres struct{ exist, newTopic, batch c18cost }
	est := map[int]eres{}
	guardSeen := false
	for _, v := range append([]int{-1}, c18versions...) {
		var r eres
		for _, exists := range []bool{true, false} {
			env := &c18env{f: ef, m: m, version: v, costs: map[types.Object]c18cost{}, bools: map[types.Object]tri{}, atoms: map[string]tri{"exists": b2tri(exists)}}
			// the version parameter
			for _, fl := range ef.Decl.Type.Params.List {
				for _, nm := range fl.Names {
					if nm.Name == "produceVersion" {
						env.verObj = ef.Info().Defs[nm]
					}
				}
			}
			var tracked types.Object
			stop := func(st ast.Stmt) bool {
				ifs, ok := st.(*ast.IfStmt)
				if !ok {
					return false
				}
				be, ok := unparen(ifs.Cond).(*ast.BinaryExpr)
				if ok && be.Op == token.GTR && nosp(exprStr(be.Y)) == "p.wireLengthLimit" {
					guardSeen = true
					return true
				}
				return false
			}
			// the batch term is kept as one symbol here (its value per version is
			// evaluated separately below): the levels are compared overhead by overhead
			tracked = localObj(ef, "batchWireLength")
			env.exec(ef.Decl.Body.List[:1], nil)
			if _, ok := env.costs[tracked]; ok {
				env.costs[tracked] = c18sym("B")
			}
			env.exec(ef.Decl.Body.List[1:], stop)
			if env.problem != "" {
				c.Undecided(rule, fmt.Sprintf("%s@v%d", ef.Key, v), ef.Pos(), m, env.problem)
				return
			}
			cost, ok := env.costs[tracked]
			if !ok {
				c.Undecided(rule, fmt.Sprintf("%s@v%d", ef.Key, v), ef.Pos(), m, "batchWireLength not tracked")
				return
			}
			if exists {
				r.exist = cost
			} else {
				r.newTopic = cost
			}
		}
		// the batch term alone: what wireLengthForProduceVersion yields
		env := &c18env{f: ef, m: m, version: v, costs: map[types.Object]c18cost{}, bools: map[types.Object]tri{}, atoms: map[string]tri{"exists": triT}}
		for _, fl := range ef.Decl.Type.Params.List {
			for _, nm := range fl.Names {
				if nm.Name == "produceVersion" {
					env.verObj = ef.Info().Defs[nm]
				}
			}
		}
		env.exec(ef.Decl.Body.List[:1], nil)
		r.batch = env.costs[localObj(ef, "batchWireLength")]
		if r.batch == nil {
			c.Undecided(rule, fmt.Sprintf("%s@v%d#batch", ef.Key, v), ef.Pos(), m, "first statement of tryAddBatch is not the wireLengthForProduceVersion call")
			return
		}
		est[v] = r
	}
	c.Check(guardSeen, rule, ef.Key+": refuses above wireLengthLimit", ef.Pos(), m, "", "tryAddBatch no longer compares wireLength+batchWireLength with wireLengthLimit")
	// the guard returns false and dominates the add
	g := ef.Graph()
	var guard *ast.IfStmt
	for _, st := range ef.Decl.Body.List {
		if ifs, ok := st.(*ast.IfStmt); ok {
			if be, ok := unparen(ifs.Cond).(*ast.BinaryExpr); ok && be.Op == token.GTR && nosp(exprStr(be.Y)) == "p.wireLengthLimit" {
				guard = ifs
			}
		}
	}
	if guard != nil {
		okRet := len(guard.Body.List) == 1
		if okRet {
			r, isR := guard.Body.List[0].(*ast.ReturnStmt)
			okRet = isR && len(r.Results) == 1 && exprStr(r.Results[0]) == "false"
		}
		c.Check(okRet && nosp(exprStr(guard.Cond)) == "p.wireLength+batchWireLength>p.wireLengthLimit", rule, ef.Key+": guard shape", guard.Pos(), m, "", "the size guard does not refuse (return false) when p.wireLength+batchWireLength > p.wireLengthLimit")
		gl, _ := g.LocOf(guard.Cond)
		for _, call := range callsNamed(ef.Decl.Body, ef.Info(), "addBatch", false) {
			l, _ := g.LocOf(call)
			c.Check(g.Dominates(gl, l), rule, ef.Key+": size guard before addBatch", call.Pos(), m, "", "a batch is added to the request without passing the size guard")
		}
		nAcc := 0
		for _, as := range findNodes(ef.Decl.Body, false, func(x ast.Node) bool {
			a, ok := x.(*ast.AssignStmt)
			return ok && len(a.Lhs) == 1 && nosp(exprStr(a.Lhs[0])) == "p.wireLength"
		}) {
			a := as.(*ast.AssignStmt)
			nAcc++
			c.Check(a.Tok == token.ADD_ASSIGN && exprStr(a.Rhs[0]) == "batchWireLength", rule, ef.Key+": p.wireLength += batchWireLength", a.Pos(), m, "", "the request length is not advanced by the estimate that was checked")
		}
		c.Check(nAcc == 1, rule, ef.Key+"#accumulates", ef.Pos(), m, "", "p.wireLength is not accumulated exactly once")
	}
	// the bytes the writer emits for one batch, per written version, independent
	// of wireLengthForProduceVersion: record batches (v3+) are wireLength bytes
	// with a 4-byte prefix (clause 2 ties wireLength to appendTo) and the prefix
	// becomes a uvarint when flexible; message sets (v0-v2) are derived from
	// appendMessageTo for a one-record batch, relative to v1wireLength.
	wbatch := map[int]c18cost{}
	{
		amf := c.NeedFunc(m, "kgo.appendMessageTo")
		m1f := c.NeedFunc(m, "kgo.messageSet1Length")
		if amf == nil || m1f == nil {
			return
		}
		e1 := &c18env{f: m1f, m: m, costs: map[types.Object]c18cost{}, bools: map[types.Object]tri{}, atoms: map[string]tri{}}
		f1, ok := e1.runFuncCost()
		if !ok || len(f1) != 1 {
			c.Undecided(rule, m1f.Key, m1f.Pos(), m, "per-record message set length not evaluated: "+e1.problem)
			return
		}
		for _, v := range c18versions {
			switch {
			case v >= 9:
				wbatch[v] = c18u().plus(c18sym("wireLength"), 1).plus(c18const(-4), 1)
			case v >= 3:
				wbatch[v] = c18sym("wireLength")
			default:
				env := &c18env{f: amf, m: m, version: v, costs: map[types.Object]c18cost{}, bools: map[types.Object]tri{}, atoms: map[string]tri{"magic==1": b2tri(v>>1 == 1)}}
				w := &c18writer{env: env, levels: map[int]c18cost{}, skip: map[int]c18cost{}}
				w.walk(amf.Decl.Body.List, 0)
				rec := w.levels[0]
				if env.problem != "" || len(rec) != 1 {
					c.Undecided(rule, fmt.Sprintf("%s@v%d", amf.Key, v), amf.Pos(), m, "message writer not evaluated: "+env.problem)
					return
				}
				// one-record batch: 4 (bytes length) + record; in terms of v1wireLength (= f1 for one record)
				d := c18const(4).plus(rec, 1).plus(f1, -1)
				if len(d[0].sym) != 0 || d[0].u != 0 {
					c.Fail(rule, fmt.Sprintf("%s@v%d vs %s", amf.Key, v, m1f.Key), amf.Pos(), m, fmt.Sprintf("the written message %s and the estimate %s differ in more than a constant", rec, f1))
					return
				}
				wbatch[v] = c18sym("v1wireLength").plus(c18const(d[0].c), 1)
			}
		}
	}
	subst := func(w c18cost, v int) c18cost {
		var out c18cost
		for _, f := range w {
			base := c18form{c: f.c, u: f.u, sym: map[string]int{}}
			nb := 0
			for k, n := range f.sym {
				if strings.HasPrefix(k, "BATCH:") {
					nb += n
				} else {
					base.sym[k] = n
				}
			}
			alts := c18cost{base}
			for i := 0; i < nb; i++ {
				alts = alts.plus(wbatch[v], 1)
			}
			out = append(out, alts...)
		}
		return out
	}
	// which written versions can follow a believed version
	written := func(believed int) []int {
		switch {
		case believed < 0:
			return c18versions
		case believed >= 13:
			return []int{12, 13} // produceMax may be lowered after sizing (v11 is in the same class as v12)
		}
		return []int{believed}
	}
	n := 0
	for _, bv := range append([]int{-1}, c18versions...) {
		for _, wv := range written(bv) {
			e, w := est[bv], writer[wv]
			cmp := func(level string, estimate c18cost, wr c18cost) {
				n++
				cons := fmt.Sprintf("believed v%d, written v%d: %s", bv, wv, level)
				for _, wform := range wr {
					dec, holds, wit := c18covers(estimate, wform)
					switch {
					case !dec:
						c.Undecided(rule, cons, ef.Pos(), m, fmt.Sprintf("cannot compare estimate %s with written %s", estimate, wform))
						return
					case !holds:
						c.Fail(rule, cons, ef.Pos(), m, fmt.Sprintf("the size estimate %s is smaller than the bytes written %s (%s): a filled produce request exceeds BrokerMaxWriteBytes", estimate, wform, wit))
						return
					}
				}
				c.OK(rule, cons, ef.Pos(), m, fmt.Sprintf("estimate %s >= written %s", estimate, wr))
			}
			cmp("partition", substB(e.exist, e.batch), subst(w.part, wv))
			if w.partSkip != nil {
				cmp("partition (failed batch arm)", substB(e.exist, e.batch), subst(w.partSkip, wv))
			}
			cmp("new topic", e.newTopic.plus(e.exist, -1), w.topic)
		}
	}
	c.Floor(rule+"/level-comparisons", n, 40)
	// request level
	benv := &c18env{f: bf, m: m, version: 0, costs: map[types.Object]c18cost{}, bools: map[types.Object]tri{}, atoms: map[string]tri{"cl.cfg.id!=nil": triT, "cl.cfg.txnID!=nil": triT}}
	benv.exec(bf.Decl.Body.List, nil)
	var base c18cost
	if rs, ok := bf.Decl.Body.List[len(bf.Decl.Body.List)-1].(*ast.ReturnStmt); ok && len(rs.Results) == 1 {
		base, _ = benv.evalCost(rs.Results[0])
	}
	if benv.problem != "" || base == nil {
		c.Undecided(rule, bf.Key, bf.Pos(), m, "base request length not evaluated: "+benv.problem)
		return
	}
	header := func(v int) c18cost {
		h := c18const(4+2+2+4+2).plus(c18sym("clientID"), 1)
		if v >= 9 {
			h = h.plus(c18const(1), 1)
		}
		return h
	}
	for _, v := range c18versions {
		w := header(v).plus(writer[v].req, 1)
		cons := fmt.Sprintf("written v%d: request header and fixed fields", v)
		dec, holds, wit := c18covers(base, w[0])
		switch {
		case !dec:
			c.Undecided(rule, cons, bf.Pos(), m, fmt.Sprintf("cannot compare %s with %s", base, w))
		case !holds:
			c.Fail(rule, cons, bf.Pos(), m, fmt.Sprintf("baseProduceRequestLength %s is smaller than the written header and request fields %s (%s)", base, w, wit))
		default:
			c.OK(rule, cons, bf.Pos(), m, fmt.Sprintf("%s >= %s", base, w))
		}
	}
	// createReq wiring
	if cf := c.NeedFunc(m, "kgo.sink.createReq"); cf != nil {
		wl := m.Field("kgo", "produceRequest", "wireLength")
		wll := m.Field("kgo", "produceRequest", "wireLengthLimit")
		ok1, ok2 := false, false
		for _, st := range storesTo(cf.Decl.Body, cf.Info(), wl, false) {
			if st.Kind == "complit" && nosp(exprStr(st.RHS)) == "s.cl.baseProduceRequestLength()" {
				ok1 = true
			}
		}
		for _, st := range storesTo(cf.Decl.Body, cf.Info(), wll, false) {
			if st.Kind == "complit" && nosp(exprStr(st.RHS)) == "s.cl.cfg.maxBrokerWriteBytes" {
				ok2 = true
			}
		}
		c.Check(ok1 && ok2, rule, cf.Key+": wireLength/wireLengthLimit", cf.Pos(), m, "", "createReq does not start from baseProduceRequestLength() with the limit cfg.maxBrokerWriteBytes")
		// no other writers of the limit
		for _, s := range StoreSites(m.FuncsIn("kgo"), wll) {
			c.Check(s.Fn.Key == "kgo.sink.createReq", rule, s.Fn.Key+": writes wireLengthLimit", s.Node.Pos(), m, "", "unexpected writer of produceRequest.wireLengthLimit")
		}
		for _, s := range StoreSites(m.FuncsIn("kgo"), wl) {
			c.Check(s.Fn.Key == "kgo.sink.createReq" || s.Fn.Key == "kgo.produceRequest.tryAddBatch", rule, s.Fn.Key+": writes wireLength", s.Node.Pos(), m, "", "unexpected writer of produceRequest.wireLength")
		}
	}
	// header cross-check against this tree's kmsg
	if km := c.Load("pkg/kmsg"); km != nil {
		if hf := c.NeedFunc(km, "kmsg.RequestFormatter.AppendRequest"); hf != nil {
			for _, v := range []int{3, 9} {
				env := &c18env{f: hf, m: km, version: v, costs: map[types.Object]c18cost{}, bools: map[types.Object]tri{}, atoms: map[string]tri{"k==7": triF, "r.IsFlexible()": b2tri(v >= 9)}}
				w := &c18writer{env: env, levels: map[int]c18cost{}, skip: map[int]c18cost{}, sub: "BODY"}
				w.walk(hf.Decl.Body.List, 0)
				want := header(v).plus(c18sym("BODY"), 1)
				got := w.levels[0]
				c.Check(env.problem == "" && got != nil && got.String() == want.String(), "request-header", fmt.Sprintf("%s@v%d", hf.Key, v), hf.Pos(), km, "header bytes as assumed", fmt.Sprintf("kmsg request header writes %v (%s), the size rules assume %s", got, env.problem, want))
			}
		}
	}
}

func c18records(c *Ctx, m *Module) {
	rule := "record-terms-parity"
	wf := c.NeedFunc(m, "kgo.promisedRec.appendTo")
	ef := c.NeedFunc(m, "kgo.recBatch.calculateRecordNumbers")
	if wf == nil || ef == nil {
		return
	}
	strip := func(s string) string {
		s = nosp(s)
		for _, p := range []string{"pr.", "r.", "h."} {
			s = strings.ReplaceAll(s, "("+p, "(")
			s = strings.ReplaceAll(s, "(int32(len("+p, "(int32(len(")
			if strings.HasPrefix(s, p) {
				s = s[len(p):]
			}
		}
		return s
	}
	// writer terms (outside / inside the header loop)
	wTerms := map[bool][]string{}
	var walkW func(stmts []ast.Stmt, inLoop bool)
	bad := ""
	walkW = func(stmts []ast.Stmt, inLoop bool) {
		for _, st := range stmts {
			switch s := st.(type) {
			case *ast.AssignStmt:
				if len(s.Lhs) == 1 && exprStr(s.Lhs[0]) == "dst" {
					call, ok := s.Rhs[0].(*ast.CallExpr)
					if !ok {
						bad = nodeStr(s)
						continue
					}
					fn, _ := calleeObj(wf.Info(), call).(*types.Func)
					if fn == nil || len(call.Args) < 2 {
						bad = nodeStr(s)
						continue
					}
					a := strip(exprStr(call.Args[1]))
					switch keyOfObj(fn) {
					case "kbin.AppendInt8":
						wTerms[inLoop] = append(wTerms[inLoop], "1")
					case "kbin.AppendVarint":
						if a == "length" {
							continue // the length prefix itself: recordNumbers.wireLength adds VarintLen(lengthField)
						}
						if strings.HasPrefix(a, "int32(len(") {
							wTerms[inLoop] = append(wTerms[inLoop], "VarintLen("+a+")")
						} else {
							wTerms[inLoop] = append(wTerms[inLoop], "VarintLen("+a+")")
						}
					case "kbin.AppendVarlong":
						wTerms[inLoop] = append(wTerms[inLoop], "VarlongLen("+a+")")
					case "kbin.AppendVarintBytes", "kbin.AppendVarintString":
						wTerms[inLoop] = append(wTerms[inLoop], "VarintLen(int32(len("+a+")))", "len("+a+")")
					default:
						bad = nodeStr(s)
					}
				}
			case *ast.RangeStmt:
				walkW(s.Body.List, true)
			case *ast.ReturnStmt:
			default:
				if containsNode(st, false, func(y ast.Node) bool { id, ok := y.(*ast.Ident); return ok && id.Name == "dst" }) {
					bad = nodeStr(st)
				}
			}
		}
	}
	walkW(wf.Decl.Body.List, false)
	if bad != "" {
		c.Undecided(rule, wf.Key, wf.Pos(), m, "unclassified write "+bad)
		return
	}
	// estimator terms
	eTerms := map[bool][]string{}
	var flat func(x ast.Expr, inLoop bool)
	flat = func(x ast.Expr, inLoop bool) {
		x = unparen(x)
		if be, ok := x.(*ast.BinaryExpr); ok && be.Op == token.ADD {
			flat(be.X, inLoop)
			flat(be.Y, inLoop)
			return
		}
		s := strip(exprStr(x))
		s = strings.TrimPrefix(s, "kbin.")
		eTerms[inLoop] = append(eTerms[inLoop], s)
	}
	lobj := localObj(ef, "l")
	ast.Inspect(ef.Decl.Body, func(x ast.Node) bool {
		as, ok := x.(*ast.AssignStmt)
		if !ok || len(as.Lhs) != 1 {
			return true
		}
		id, ok := as.Lhs[0].(*ast.Ident)
		if !ok || (ef.Info().Defs[id] != lobj && ef.Info().Uses[id] != lobj) {
			return true
		}
		inLoop := false
		pm := parentMap(ef.Decl.Body)
		for p := pm[as]; p != nil; p = pm[p] {
			if _, ok := p.(*ast.RangeStmt); ok {
				inLoop = true
			}
		}
		flat(as.Rhs[0], inLoop)
		return true
	})
	// offsetDelta / tsDelta locals are the same names on both sides; the writer's offsetDelta is a parameter
	for _, inLoop := range []bool{false, true} {
		w, e := append([]string{}, wTerms[inLoop]...), append([]string{}, eTerms[inLoop]...)
		sort.Strings(w)
		sort.Strings(e)
		where := "record"
		if inLoop {
			where = "per header"
		}
		c.Check(strings.Join(w, " + ") == strings.Join(e, " + ") && len(w) > 0, rule, ef.Key+" vs "+wf.Key+": "+where, ef.Pos(), m, fmt.Sprintf("%d terms agree", len(w)), "the record length estimate ("+strings.Join(e, " + ")+") differs from the bytes written ("+strings.Join(w, " + ")+"): batches would be sized wrongly against the batch and request limits")
	}
	// recordNumbers.wireLength = VarintLen(lengthField) + lengthField
	if nf := c.NeedFunc(m, "kgo.recordNumbers.wireLength"); nf != nil {
		ok := false
		if len(nf.Decl.Body.List) == 1 {
			if r, isR := nf.Decl.Body.List[0].(*ast.ReturnStmt); isR && len(r.Results) == 1 {
				ok = nosp(exprStr(r.Results[0])) == "int32(kbin.VarintLen(n.lengthField))+n.lengthField"
			}
		}
		c.Check(ok, rule, nf.Key, nf.Pos(), m, "", "recordNumbers.wireLength is not the varint prefix plus the length")
	}
	// the estimate is stored as lengthField and written as the record's length
	body := nows(printNode(m.Fset, ef.Decl.Body))
	c.Check(strings.Contains(body, "lengthField:int32(l)"), rule, ef.Key+": lengthField", ef.Pos(), m, "", "calculateRecordNumbers does not return l as lengthField")
	// fixed batch overhead
	if bf := c.NeedFunc(m, "kgo.recBuf.newRecordBatch"); bf != nil {
		af := c.NeedFunc(m, "kgo.seqRecBatch.appendTo")
		if af == nil {
			return
		}
		var overhead int64 = -1
		wl := m.Field("kgo", "recBatch", "wireLength")
		for _, st := range storesTo(bf.Decl.Body, bf.Info(), wl, false) {
			if v, ok := constInt(bf.Info(), st.RHS); ok {
				overhead = v
			}
		}
		env := &c18env{f: af, m: m, version: 3, costs: map[types.Object]c18cost{}, bools: map[types.Object]tri{}, atoms: map[string]tri{"flexible": triF, "compressor!=nil": triF, "transactional": triF, "producerID<0": triF}}
		for _, fl := range af.Decl.Type.Params.List {
			for _, nm := range fl.Names {
				if nm.Name == "version" {
					env.verObj = af.Info().Defs[nm]
				}
			}
		}
		w := &c18writer{env: env, levels: map[int]c18cost{}, skip: map[int]c18cost{}}
		// `dst = in` is not a write
		var stmts []ast.Stmt
		for _, st := range af.Decl.Body.List {
			if as, ok := st.(*ast.AssignStmt); ok && len(as.Lhs) == 1 && exprStr(as.Lhs[0]) == "dst" && exprStr(as.Rhs[0]) == "in" {
				continue
			}
			stmts = append(stmts, st)
		}
		w.sub = ""
		// records are written by pr.appendTo inside the loop (depth 1): classify as symbol
		walkOK := func() bool {
			for _, st := range stmts {
				if rs, ok := st.(*ast.RangeStmt); ok {
					_ = rs
					continue
				}
				if !w.walk([]ast.Stmt{st}, 0) && env.problem != "" {
					return false
				}
			}
			return true
		}()
		got := w.levels[0]
		c.Check(walkOK && env.problem == "" && overhead > 0 && got != nil && len(got) == 1 && got[0].u == 0 && len(got[0].sym) == 0 && int64(got[0].c) == overhead,
			rule, bf.Key+": recordBatchOverhead vs "+af.Key, bf.Pos(), m, fmt.Sprintf("%d fixed bytes", overhead),
			fmt.Sprintf("a new batch starts at wireLength %d but appendTo writes %v fixed bytes (%s)", overhead, got, env.problem))
		// appendRecord accumulates the estimate
		if rf := c.NeedFunc(m, "kgo.recBatch.appendRecord"); rf != nil {
			b := nows(printNode(m.Fset, rf.Decl.Body))
			c.Check(strings.Contains(b, "b.wireLength+=nums.wireLength()"), rule, rf.Key+": wireLength += nums.wireLength()", rf.Pos(), m, "", "appendRecord does not advance wireLength by the record's estimate")
		}
	}
}

func c18batchLimit(c *Ctx, m *Module) {
	rule := "batch-size-guard"
	ar := m.Method("kgo", "recBatch", "appendRecord")
	tb := c.NeedFunc(m, "kgo.recBatch.tryBuffer")
	if ar == nil || tb == nil {
		c.Undecided("anchor", "kgo.recBatch.appendRecord", 0, m, "not found")
		return
	}
	n := 0
	for _, s := range CallSites(m.FuncsIn("kgo"), ar) {
		n++
		if s.Fn.Key != "kgo.recBatch.tryBuffer" {
			c.Fail(rule, s.Fn.Key+": appendRecord", s.Node.Pos(), m, "a record is appended to a batch outside tryBuffer (no size check)")
			continue
		}
		g := tb.Graph()
		l, _ := g.LocOf(s.Node)
		facts := g.FactsAt(l)
		notFrozen := factMatches(facts, func(ft Fact) bool { return !ft.Val && nosp(exprStr(ft.Cond)) == "b.frozen" })
		fits := factMatches(facts, func(ft Fact) bool { return !ft.Val && nosp(exprStr(ft.Cond)) == "newBatchLength>maxBatchBytes" })
		c.Check(notFrozen && fits, rule, s.Fn.Key+": appendRecord after the size/frozen refusal", s.Node.Pos(), m, "", "appendRecord is reachable for a frozen batch or one that would exceed maxBatchBytes")
	}
	c.Floor(rule+"/appendRecord-callers", n, 1)
	if o := localObj(tb, "newBatchLength"); o != nil {
		d := singleDef(tb, o)
		c.Check(d != nil && nosp(exprStr(d)) == "batchWireLength+nums.wireLength()", rule, tb.Key+": newBatchLength", tb.Pos(), m, "", "newBatchLength is not the current batch length plus the record's length")
	}
	// the nums appended are the nums checked
	for _, call := range callsTo(tb.Decl.Body, tb.Info(), ar, false) {
		c.Check(len(call.Args) == 2 && exprStr(call.Args[1]) == "nums", rule, tb.Key+": appends the checked numbers", call.Pos(), m, "", "appendRecord is given other numbers than the ones checked")
	}
	// callers pass recBuf.maxRecordBatchBytes
	tbo := tb.Obj
	k := 0
	for _, s := range CallSites(m.FuncsIn("kgo"), tbo) {
		k++
		call := s.Node.(*ast.CallExpr)
		c.Check(len(call.Args) == 4 && nosp(exprStr(call.Args[2])) == "recBuf.maxRecordBatchBytes", rule, s.Fn.Key+": tryBuffer(..., recBuf.maxRecordBatchBytes, ...)#"+ordinal(&k), call.Pos(), m, "", "tryBuffer is not given the partition's batch limit")
	}
	mb := m.Field("kgo", "recBuf", "maxRecordBatchBytes")
	if mb != nil {
		for _, s := range StoreSites(m.FuncsIn("kgo"), mb) {
			c.Check(strings.HasSuffix(nosp(exprStr(s.RHS)), ".maxRecordBatchBytesForTopic(mp.topic)") || strings.Contains(nosp(exprStr(s.RHS)), "maxRecordBatchBytesForTopic("), rule, s.Fn.Key+": recBuf.maxRecordBatchBytes", s.Node.Pos(), m, "", "recBuf.maxRecordBatchBytes is not set from maxRecordBatchBytesForTopic")
		}
	}
	// frozen before added
	if ef := c.NeedFunc(m, "kgo.produceRequest.tryAddBatch"); ef != nil {
		g := ef.Graph()
		fr := m.Field("kgo", "recBatch", "frozen")
		var fl Loc
		have := false
		for _, st := range storesTo(ef.Decl.Body, ef.Info(), fr, false) {
			if isTrueIn(ef, st.RHS) {
				fl, have = g.LocOf(st.Node)
			}
		}
		for _, call := range callsNamed(ef.Decl.Body, ef.Info(), "addBatch", false) {
			l, _ := g.LocOf(call)
			c.Check(have && g.Dominates(fl, l), rule, ef.Key+": frozen before addBatch", call.Pos(), m, "", "a batch is added to a request without being frozen: records appended later are not in the size estimate")
		}
		for _, s := range StoreSites(m.FuncsIn("kgo"), fr) {
			c.Check(isTrueIn(s.Fn, s.RHS) || s.Kind == "complit", rule, s.Fn.Key+": frozen only set", s.Node.Pos(), m, "", "a batch is unfrozen")
		}
	}
	// maxRecordBatchBytesForTopic = min(cfg limit, write limit - single-partition overhead)
	if mf := c.NeedFunc(m, "kgo.Client.maxRecordBatchBytesForTopic"); mf != nil {
		env := &c18env{f: mf, m: m, costs: map[types.Object]c18cost{}, bools: map[types.Object]tri{}, atoms: map[string]tri{"len(topic)>topicLen": triT, "cl.cfg.id!=nil": triT, "cl.cfg.txnID!=nil": triT}}
		var overhead c18cost
		if o := localObj(mf, "minOnePartitionBatchLength"); o != nil {
			if d := singleDef(mf, o); d != nil {
				// topicLen: max(16, len(topic)) -> evaluate with the long-name scenario and as the constant
				tl := localObj(mf, "topicLen")
				env.costs[tl] = c18cost{{c: 16}, {sym: map[string]int{"topic": 1}}}
				overhead, _ = env.evalCost(d)
			}
		}
		// needs >= base + worst single-partition framing: non-flexible 2+T+4+4+4 and flexible-with-ids 16+1+1+4+1+uvarint
		base := c18const(26).plus(c18sym("clientID"), 1).plus(c18sym("txnID"), 1)
		needs := []c18form{
			base.plus(c18const(2+4+4+4), 1).plus(c18sym("topic"), 1)[0],
			base.plus(c18const(16+1+1+4+1), 1).plus(c18u(), 1)[0],
		}
		okAll := overhead != nil
		detail := ""
		for _, nf := range needs {
			if overhead == nil {
				break
			}
			dec, holds, wit := c18covers(overhead, nf)
			if !dec || !holds {
				okAll = false
				detail = fmt.Sprintf("single-partition overhead %s is smaller than %s (%s)", overhead, nf, wit)
			}
		}
		c.Check(okAll, rule, mf.Key+": single-partition overhead", mf.Pos(), m, fmt.Sprint(overhead), "maxRecordBatchBytesForTopic: "+detail+": one full batch alone could exceed BrokerMaxWriteBytes")
		body := nows(stripComments(printNode(m.Fset, mf.Decl.Body)))
		c.Check(strings.Contains(body, "recordBatchLimit:=wireLengthLimit-minOnePartitionBatchLength") && strings.Contains(body, "wireLengthLimit:=cl.cfg.maxBrokerWriteBytes"), rule, mf.Key+": write limit minus overhead", mf.Pos(), m, "", "the batch limit is not derived from cfg.maxBrokerWriteBytes minus the single-partition overhead")
		// min with the configured limit
		okMin := false
		ast.Inspect(mf.Decl.Body, func(x ast.Node) bool {
			ifs, ok := x.(*ast.IfStmt)
			if !ok || ifs.Init == nil {
				return true
			}
			if nosp(exprStr(ifs.Cond)) == "cfgLimit<recordBatchLimit" && len(ifs.Body.List) == 1 && nosp(nodeStr(ifs.Body.List[0])) == "recordBatchLimit=cfgLimit" && strings.Contains(nosp(nodeStr(ifs.Init)), "cl.cfg.maxRecordBatchBytes(topic)") {
				okMin = true
			}
			return true
		})
		last, _ := mf.Decl.Body.List[len(mf.Decl.Body.List)-1].(*ast.ReturnStmt)
		c.Check(okMin && last != nil && exprStr(last.Results[0]) == "recordBatchLimit", rule, mf.Key+": min with the configured batch limit", mf.Pos(), m, "", "maxRecordBatchBytesForTopic does not return the smaller of the configured limit and the write-derived limit")
	}
}

func c18appendTo(c *Ctx, m *Module) {
	rule := "batch-encoding-shape"
	f := c.NeedFunc(m, "kgo.seqRecBatch.appendTo")
	if f == nil {
		return
	}
	g := f.Graph()
	info := f.Info()
	// CRC: the last write into dst before return
	var crcCall *ast.CallExpr
	for _, call := range callsNamed(f.Decl.Body, info, "AppendInt32", false) {
		if len(call.Args) == 2 && strings.Contains(nosp(exprStr(call.Args[1])), "crc32.Checksum(dst[crcStart+4:]") && nosp(exprStr(call.Args[0])) == "dst[:crcStart]" {
			crcCall = call
		}
	}
	if crcCall == nil {
		c.Fail(rule, f.Key+": crc", f.Pos(), m, "the CRC over dst[crcStart+4:] written at dst[:crcStart] was not found")
	} else {
		cl, _ := g.LocOf(crcCall)
		// no write to dst's contents after the CRC (other than the return) in the main body
		later := false
		ast.Inspect(f.Decl.Body, func(x ast.Node) bool {
			if _, isLit := x.(*ast.FuncLit); isLit {
				return false
			}
			var pos ast.Node
			switch s := x.(type) {
			case *ast.AssignStmt:
				for _, l := range s.Lhs {
					if exprStr(l) == "dst" {
						pos = s
					}
				}
			case *ast.CallExpr:
				if id, ok := s.Fun.(*ast.Ident); ok && id.Name == "copy" && len(s.Args) > 0 && strings.HasPrefix(exprStr(s.Args[0]), "dst") {
					pos = s
				}
				if sel, ok := s.Fun.(*ast.SelectorExpr); ok && strings.HasPrefix(sel.Sel.Name, "Append") && len(s.Args) > 0 && strings.HasPrefix(exprStr(s.Args[0]), "dst[") && s != crcCall {
					pos = s
				}
			}
			if pos != nil {
				if l, ok := g.LocOf(pos); ok && g.reachFwd(cl, l) && l != cl {
					later = true
				}
			}
			return true
		})
		c.Check(!later, rule, f.Key+": crc is the last write", crcCall.Pos(), m, "", "the batch is modified after the CRC was computed")
		// crcStart is taken right before the reserved crc field and attributes follow
		c.Check(localObj(f, "crcStart") != nil, rule, f.Key+": crcStart", f.Pos(), m, "", "crcStart not found")
	}
	// re-patching only inside the `len(compressed) < len(toCompress)` arm
	nPatch := 0
	ast.Inspect(f.Decl.Body, func(x ast.Node) bool {
		if _, isLit := x.(*ast.FuncLit); isLit {
			return false
		}
		call, ok := x.(*ast.CallExpr)
		if !ok || len(call.Args) != 2 || call == crcCall {
			return true
		}
		a0 := nosp(exprStr(call.Args[0]))
		if !strings.HasPrefix(a0, "dst[:") {
			return true
		}
		nPatch++
		l, _ := g.LocOf(call)
		facts := g.FactsAt(l)
		shorter := factMatches(facts, func(ft Fact) bool { return ft.Val && nosp(exprStr(ft.Cond)) == "len(compressed)<len(toCompress)" })
		nonNil := factMatches(facts, func(ft Fact) bool { return ft.Val && nosp(exprStr(ft.Cond)) == "compressed!=nil" })
		want := map[string]string{"dst[:nullableBytesLenAt]": "nullableBytesLen", "dst[:batchLenAt]": "batchLen", "dst[:attrsAt]": "b.attrs"}
		c.Check(shorter && nonNil && want[a0] == nosp(exprStr(call.Args[1])), rule, f.Key+": re-patch "+a0, call.Pos(), m, "only when the compressed form is used", "a length/attribute field is re-patched outside the `compressed is shorter` arm or with the wrong value")
		if a0 == "dst[:nullableBytesLenAt]" {
			nf := factMatches(facts, func(ft Fact) bool { return !ft.Val && exprStr(ft.Cond) == "flexible" })
			c.Check(nf, rule, f.Key+": int32 length prefix only when not flexible", call.Pos(), m, "", "the 4-byte length prefix is re-patched for a flexible request (it is a uvarint there)")
		}
		return true
	})
	c.Floor(rule+"/re-patches", nPatch, 3)
	stmtSet := map[string]bool{}
	ast.Inspect(f.Decl.Body, func(x ast.Node) bool {
		if st, ok := x.(ast.Stmt); ok {
			switch st.(type) {
			case *ast.AssignStmt, *ast.ExprStmt:
				stmtSet[nosp(nodeStr(st))] = true
			}
		}
		return true
	})
	for _, frag := range []string{"savings:=int32(len(toCompress)-len(compressed))", "nullableBytesLen-=savings", "batchLen-=savings", "b.attrs|=int16(codec)", "copy(dst[recordsAt:],compressed)", "dst=dst[:recordsAt+len(compressed)]"} {
		c.Check(stmtSet[frag], rule, f.Key+": "+frag, f.Pos(), m, "", "compression adjustment `"+frag+"` missing or changed")
	}
	// flexible defer: every assignment to dst has length len(newDst)+len(batch)
	var def *ast.FuncLit
	ast.Inspect(f.Decl.Body, func(x ast.Node) bool {
		if d, ok := x.(*ast.DeferStmt); ok {
			if lit, ok := d.Call.Fun.(*ast.FuncLit); ok && containsNode(lit.Body, false, func(y ast.Node) bool {
				id, ok := y.(*ast.Ident)
				return ok && id.Name == "batchAt"
			}) {
				def = lit
			}
		}
		return true
	})
	if def == nil {
		c.Fail(rule, f.Key+": flexible prefix defer", f.Pos(), m, "the deferred uvarint-prefix adjustment for flexible versions was not found")
		return
	}
	dl, _ := g.LocOf(enclosingStmt(f.Decl.Body, def))
	c.Check(factMatches(g.FactsAt(dl), func(ft Fact) bool { return ft.Val && exprStr(ft.Cond) == "flexible" }), rule, f.Key+": defer only when flexible", def.Pos(), m, "", "the prefix adjustment is not restricted to flexible versions")
	dbody := nows(stripComments(printNode(m.Fset, def.Body)))
	c.Check(strings.Contains(dbody, "batch:=dst[batchAt:]") && strings.Contains(dbody, "newDst:=kbin.AppendUvarint(dst[:nullableBytesLenAt],uvar32(int32(len(batch))))"), rule, f.Key+": defer recomputes the prefix from the final batch", def.Pos(), m, "", "the defer does not recompute the uvarint prefix from the final batch bytes")
	nAssign := 0
	ast.Inspect(def.Body, func(x ast.Node) bool {
		as, ok := x.(*ast.AssignStmt)
		if !ok || len(as.Lhs) != 1 || exprStr(as.Lhs[0]) != "dst" {
			return true
		}
		nAssign++
		rhs := nosp(exprStr(as.Rhs[0]))
		ok2 := rhs == "append(newDst,batch...)" || rhs == "dst[:len(newDst)+len(batch)]"
		if ok2 && rhs != "append(newDst,batch...)" {
			// the slice form needs the batch copied first
			ok2 = strings.Contains(dbody, "copy(dst[len(newDst):],batch)")
		}
		c.Check(ok2, rule, f.Key+": defer result is new prefix + batch#"+ordinal(&nAssign), as.Pos(), m, "", "the flexible defer sets dst to `"+exprStr(as.Rhs[0])+"`, whose length is not len(new prefix)+len(batch): a prefix that shrinks by more than one byte leaves garbage / truncates the batch")
		return true
	})
	c.Floor(rule+"/defer-assignments", nAssign, 1)
	// the early return when nothing was compressed compares against the original batch length
	c.Check(strings.Contains(dbody, "ifint32(len(batch))==batchLength{return}"), rule, f.Key+": defer early return", def.Pos(), m, "", "the defer's `not compressed` early return changed")
}

// c18mins derives the minimum batch lengths from the overhead constants: a
// batch that is part of a request holds at least one record.
func c18mins(c *Ctx, m *Module) {
	c18symMin = map[string]int{}
	if bf := m.Func("kgo.recBuf.newRecordBatch"); bf != nil {
		if wl := m.Field("kgo", "recBatch", "wireLength"); wl != nil {
			for _, st := range storesTo(bf.Decl.Body, bf.Info(), wl, false) {
				if v, ok := constInt(bf.Info(), st.RHS); ok && v > 0 {
					c18symMin["wireLength"] = int(v)
				}
			}
		}
	}
	if mf := m.Func("kgo.messageSet0Length"); mf != nil {
		ast.Inspect(mf.Decl.Body, func(x ast.Node) bool {
			if vs, ok := x.(*ast.ValueSpec); ok && len(vs.Values) == 1 {
				if v, ok := constInt(mf.Info(), vs.Values[0]); ok && v > 0 {
					c18symMin["v1wireLength"] = int(v) // v0 length of one empty record; v1 adds 8
				}
			}
			return true
		})
	}
	c.Check(c18symMin["wireLength"] >= 61 && c18symMin["v1wireLength"] >= 26, "estimate-covers-encoding", "minimum batch lengths", 0, m, fmt.Sprintf("wireLength >= %d, v1wireLength >= %d", c18symMin["wireLength"], c18symMin["v1wireLength"]), "the fixed batch overhead constants were not found")
}

// substB replaces the symbol B (coefficient 1) by the alternatives of batch.
func substB(c c18cost, batch c18cost) c18cost {
	var out c18cost
	for _, f := range c {
		if f.sym["B"] != 1 {
			out = append(out, f)
			continue
		}
		base := c18form{c: f.c, u: f.u, sym: map[string]int{}}
		for k, n := range f.sym {
			if k != "B" {
				base.sym[k] = n
			}
		}
		out = append(out, c18cost{base}.plus(batch, 1)...)
	}
	return out
}
