package main

import (
	"fmt"
	"go/ast"
	"go/token"
	"go/types"
	"strings"
)

// Round-3 rules of C35.
//
//  accessor-ok-is-type-only: the As*/Raw accessors of kadm's `struct{ i any }`
//  wrappers (GroupMemberAssignment, GroupMemberMetadata) answer ok exactly when
//  the wrapped value has the asked-for dynamic type.  The lag calculation skips
//  a member whose AsConsumer says !ok, so an accessor that also looks at a field
//  of the decoded value (e.g. its Version) silently drops that member's
//  partitions from the report.
//
//  every-consumer-member-contributes: in CalculateGroupLagWithStartOffsets the
//  result store of the assigned computation is reached for every member whose
//  assignment is a consumer assignment, every topic of the assignment and every
//  partition of the topic: no other guard, no early loop exit, no sub-slicing of
//  the ranges, and the result names the member, topic and partition iterated.

func c35isWrapper(t types.Type) (*types.Var, bool) {
	if p, ok := t.(*types.Pointer); ok {
		t = p.Elem()
	}
	st, ok := t.Underlying().(*types.Struct)
	if !ok || st.NumFields() != 1 || !types.IsInterface(st.Field(0).Type()) {
		return nil, false
	}
	return st.Field(0), true
}

func c35identObj(info *types.Info, e ast.Expr) types.Object {
	id, ok := unparen(e).(*ast.Ident)
	if !ok {
		return nil
	}
	if o := info.Uses[id]; o != nil {
		return o
	}
	return info.Defs[id]
}

// c35boolFact: a fact about a bool variable (`v`, `v == true`, `v != false`, ...): the variable and its value.
func c35boolFact(info *types.Info, ft Fact) (types.Object, bool) {
	if ft.Tag != nil {
		return nil, false
	}
	if o := c35identObj(info, ft.Cond); o != nil {
		return o, ft.Val
	}
	if b, ok := unparen(ft.Cond).(*ast.BinaryExpr); ok && (b.Op == token.EQL || b.Op == token.NEQ) {
		for _, pr := range [][2]ast.Expr{{b.X, b.Y}, {b.Y, b.X}} {
			o := c35identObj(info, pr[0])
			k, isC := constBool(info, pr[1])
			if _, selfConst := constBool(info, pr[0]); o != nil && isC && !selfConst {
				return o, (k == (b.Op == token.EQL)) == ft.Val
			}
		}
	}
	return nil, false
}

// c35factOn: the location has the atomic fact `obj == val` (obj a bool variable).
func c35factOn(info *types.Info, facts []Fact, obj types.Object, val bool) bool {
	return factMatches(facts, func(ft Fact) bool {
		o, v := c35boolFact(info, ft)
		return obj != nil && o == obj && v == val
	})
}

func c35factStrs(facts []Fact) string {
	var out []string
	for _, ft := range facts {
		s := exprStr(ft.Cond)
		if b, ok := unparen(ft.Cond).(*ast.BinaryExpr); ok && (b.Op == token.LOR || b.Op == token.LAND) {
			s = "(" + s + ")"
		}
		if ft.Tag != nil {
			s = exprStr(ft.Tag) + " == " + s
		}
		if !ft.Val {
			s = "!(" + s + ")"
		}
		out = append(out, s)
	}
	if len(out) == 0 {
		return "no condition"
	}
	return strings.Join(out, " && ")
}

func c35accessors(c *Ctx, m *Module) {
	rule := "accessor-ok-is-type-only"
	n := 0
	sawAssignedAsConsumer := false
	for _, f := range m.FuncsIn("kadm") {
		sig := f.Obj.Type().(*types.Signature)
		if sig.Recv() == nil || f.Decl.Body == nil {
			continue
		}
		wrapped, ok := c35isWrapper(sig.Recv().Type())
		if !ok {
			continue
		}
		if sig.Results().Len() != 2 || !types.Identical(sig.Results().At(1).Type(), types.Typ[types.Bool]) {
			continue
		}
		n++
		c.Touch(f)
		if f.Key == "kadm.GroupMemberAssignment.AsConsumer" {
			sawAssignedAsConsumer = true
		}
		info := f.Info()
		g := f.Graph()
		want := sig.Results().At(0).Type()
		// the single comma-ok type assertion on the wrapped value
		var vObj, okObj types.Object
		nAssert := 0
		bad := ""
		ast.Inspect(f.Decl.Body, func(x ast.Node) bool {
			switch s := x.(type) {
			case *ast.TypeSwitchStmt:
				bad = "type switch"
			case *ast.TypeAssertExpr:
				if s.Type == nil {
					return true
				}
				nAssert++
				if !sameField(fieldOfSel(info, s.X), wrapped) {
					bad = "type assertion on `" + exprStr(s.X) + "`, not on the wrapped value"
				} else if tv, ok := info.Types[s.Type]; !ok || !types.Identical(tv.Type, want) {
					bad = "asserts type " + exprStr(s.Type) + ", the accessor returns " + want.String()
				}
			case *ast.AssignStmt:
				if len(s.Rhs) == 1 && len(s.Lhs) == 2 {
					if _, isTA := unparen(s.Rhs[0]).(*ast.TypeAssertExpr); isTA && s.Tok == token.DEFINE {
						vObj, okObj = c35identObj(info, s.Lhs[0]), c35identObj(info, s.Lhs[1])
					}
				}
			}
			return true
		})
		if bad != "" || nAssert != 1 || vObj == nil || okObj == nil {
			if bad == "" {
				bad = fmt.Sprintf("%d type assertions, no `v, ok := m.i.(T)`", nAssert)
			}
			c.Undecided(rule, f.Key, f.Pos(), m, "accessor shape not recognised: "+bad)
			continue
		}
		// neither result variable nor the wrapped value is written again
		rewritten := ""
		ast.Inspect(f.Decl.Body, func(x ast.Node) bool {
			switch s := x.(type) {
			case *ast.AssignStmt:
				for _, l := range s.Lhs {
					if id, ok := l.(*ast.Ident); ok && info.Uses[id] != nil && (info.Uses[id] == okObj || info.Uses[id] == vObj) {
						rewritten = nodeStr(s)
					}
					if sameField(fieldOfSel(info, l), wrapped) {
						rewritten = nodeStr(s)
					}
				}
			case *ast.IncDecStmt:
				if o := c35identObj(info, s.X); o != nil && (o == okObj || o == vObj) {
					rewritten = nodeStr(s)
				}
			case *ast.UnaryExpr:
				if o := c35identObj(info, s.X); s.Op == token.AND && o != nil && (o == okObj || o == vObj) {
					rewritten = nodeStr(s)
				}
			}
			return true
		})
		if rewritten != "" {
			c.Fail(rule, f.Key+"#rewritten", f.Pos(), m, "the result of the type assertion is overwritten (`"+rewritten+"`): ok no longer reflects only the dynamic type, so e.g. a consumer member can be reported as not-a-consumer and its partitions are dropped from the lag")
			continue
		}
		nRet := 0
		for _, rn := range findNodes(f.Decl.Body, false, func(x ast.Node) bool { _, ok := x.(*ast.ReturnStmt); return ok }) {
			r := rn.(*ast.ReturnStmt)
			nRet++
			cons := fmt.Sprintf("%s#return%d", f.Key, nRet)
			if len(r.Results) != 2 {
				c.Undecided(rule, cons, r.Pos(), m, "return without two explicit results")
				continue
			}
			l, _ := g.LocOf(r)
			facts := g.FactsAt(l)
			r0IsV := c35identObj(info, r.Results[0]) == vObj
			why := ": a member whose decoded assignment/metadata has the right type is still reported as !ok, so CalculateGroupLagWithStartOffsets skips it and its assigned partitions are missing or lose their member"
			if c35identObj(info, r.Results[1]) == okObj {
				c.Check(r0IsV, rule, cons, r.Pos(), m, "returns the asserted value and its ok", "returns `"+exprStr(r.Results[0])+"` with the assertion's ok, not the asserted value")
				continue
			}
			v, isConst := constBool(info, r.Results[1])
			switch {
			case !isConst:
				c.Fail(rule, cons, r.Pos(), m, "ok result is `"+exprStr(r.Results[1])+"`, not the result of the type assertion"+why)
			case v:
				c.Check(c35factOn(info, facts, okObj, true) && r0IsV, rule, cons, r.Pos(), m, "true only when the assertion succeeded", "returns true under "+c35factStrs(facts)+" without the type assertion having succeeded for the returned value")
			default:
				c.Check(c35factOn(info, facts, okObj, false), rule, cons, r.Pos(), m, "false only when the assertion failed",
					"returns false under `"+c35factStrs(facts)+"`, i.e. not only when the dynamic type differs"+why)
			}
		}
		c.Check(nRet > 0, rule, f.Key+"#returns", f.Pos(), m, "", "no return statement found")
	}
	c.Floor(rule, n, 6)
	c.Check(sawAssignedAsConsumer, rule, "kadm.GroupMemberAssignment.AsConsumer#present", token.NoPos, m, "", "GroupMemberAssignment.AsConsumer not found among the wrapper accessors")
}

// c35guardChain: syntactic guards (enclosing if conditions, with polarity)
// between node n and the statement `stop`, plus the innermost enclosing loop.
func c35guardChain(pm map[ast.Node]ast.Node, n ast.Node, stop ast.Node) (facts []Fact, loop ast.Node, switched bool) {
	child := n
	for p := pm[n]; p != nil; child, p = p, pm[p] {
		switch s := p.(type) {
		case *ast.IfStmt:
			if child == s.Body {
				facts = decompose(s.Cond, true, facts)
			} else if child == s.Else {
				facts = decompose(s.Cond, false, facts)
			}
		case *ast.ForStmt, *ast.RangeStmt:
			if loop == nil {
				loop = p
			}
		case *ast.SwitchStmt, *ast.TypeSwitchStmt, *ast.SelectStmt:
			switched = true
		}
		if p == stop {
			break
		}
	}
	return
}

func c35members(c *Ctx, m *Module, f *Func, store *ast.AssignStmt) {
	rule := "every-consumer-member-contributes"
	info := f.Info()
	g := f.Graph()
	membersFld := m.Field("kadm", "DescribedGroup", "Members")
	assignedFld := m.Field("kadm", "DescribedGroupMember", "Assigned")
	joinFld := m.Field("kadm", "DescribedGroupMember", "Join")
	asCons := m.Method("kadm", "GroupMemberAssignment", "AsConsumer")
	if membersFld == nil || assignedFld == nil || joinFld == nil || asCons == nil {
		c.Undecided(rule, f.Key+"#anchors", f.Pos(), m, "DescribedGroup.Members / DescribedGroupMember.Assigned / GroupMemberAssignment.AsConsumer not found")
		return
	}
	var groupParam types.Object
	if ps := f.Obj.Type().(*types.Signature).Params(); ps.Len() > 0 {
		groupParam = ps.At(0)
	}
	// the loop over the group's members that contains the assigned store
	var loop *ast.RangeStmt
	ast.Inspect(f.Decl.Body, func(x ast.Node) bool {
		rs, ok := x.(*ast.RangeStmt)
		if ok && rs.Pos() <= store.Pos() && store.End() <= rs.End() && loop == nil {
			if sel, isSel := unparen(rs.X).(*ast.SelectorExpr); isSel && sameField(fieldOfSel(info, rs.X), membersFld) && c35identObj(info, sel.X) == groupParam {
				loop = rs
			}
		}
		return true
	})
	if loop == nil {
		// is it a range over something derived from group.Members?
		c.Fail(rule, f.Key+"#members-loop", store.Pos(), m, "the assigned-partition lag computation is not inside a `range group.Members` over the whole member list: some members' partitions are not reported")
		return
	}
	mObj := c35identObj(info, loop.Value)
	miObj := c35identObj(info, loop.Key)
	if loop.Value == nil || mObj == nil {
		c.Undecided(rule, f.Key+"#members-loop", loop.Pos(), m, "members loop has no value variable")
		return
	}
	// c, ok := m.Assigned.AsConsumer()
	var cObj, okObj types.Object
	var asStmt *ast.AssignStmt
	nAs := 0
	ast.Inspect(loop.Body, func(x ast.Node) bool {
		as, ok := x.(*ast.AssignStmt)
		if !ok || len(as.Rhs) != 1 || len(as.Lhs) != 2 {
			return true
		}
		call, ok := unparen(as.Rhs[0]).(*ast.CallExpr)
		if !ok {
			return true
		}
		sel, ok := unparen(call.Fun).(*ast.SelectorExpr)
		if !ok {
			return true
		}
		inner, ok := unparen(sel.X).(*ast.SelectorExpr)
		if !ok || c35identObj(info, inner.X) != mObj {
			return true
		}
		if sameObj(calleeObj(info, call), asCons) && sameField(fieldOfSel(info, sel.X), assignedFld) {
			nAs++
			asStmt = as
			cObj, okObj = c35identObj(info, as.Lhs[0]), c35identObj(info, as.Lhs[1])
		}
		return true
	})
	if nAs != 1 || cObj == nil || okObj == nil {
		c.Undecided(rule, f.Key+"#as-consumer", loop.Pos(), m, fmt.Sprintf("expected one `c, ok := m.Assigned.AsConsumer()` on the loop's member, found %d", nAs))
		return
	}
	// (a) guard facts at the store: only `ok`
	l, _ := g.LocOf(store)
	var extra []string
	for _, ft := range g.FactsAt(l) {
		if o, v := c35boolFact(info, ft); o == okObj && v {
			continue
		}
		extra = append(extra, c35factStrs([]Fact{ft}))
	}
	c.Check(len(extra) == 0, rule, f.Key+"#assigned-store-guards", store.Pos(), m, "the assigned result is stored for every member with a consumer assignment",
		"the lag of an assigned partition is only stored when "+strings.Join(extra, " && ")+": members/topics/partitions failing that condition are assigned but not reported (or reported without their member by the committed-only pass)")
	// (b) range chain members -> c.Topics -> t.Partitions, unsliced
	pm := parentMap(loop)
	var chain []*ast.RangeStmt
	otherLoop := false
	for p := pm[ast.Node(store)]; p != nil && p != ast.Node(loop); p = pm[p] {
		switch s := p.(type) {
		case *ast.RangeStmt:
			chain = append(chain, s)
		case *ast.ForStmt:
			otherLoop = true
		}
	}
	doneAt := store.End() // end of the per-member topics loop: later statements cannot affect this member's partitions
	if len(chain) > 0 {
		doneAt = chain[len(chain)-1].End()
	}
	// ok / c are not rewritten
	for _, o := range []types.Object{cObj, okObj} {
		cnt := 0
		ast.Inspect(loop.Body, func(x ast.Node) bool {
			if as, ok := x.(*ast.AssignStmt); ok && as != asStmt && as.Pos() < doneAt {
				for _, l := range as.Lhs {
					if id, ok := l.(*ast.Ident); ok && info.Uses[id] == o {
						cnt++
					}
				}
			}
			return true
		})
		c.Check(cnt == 0, rule, f.Key+"#"+o.Name()+"-single-assignment", asStmt.Pos(), m, "", "`"+o.Name()+"` (result of m.Assigned.AsConsumer()) is overwritten before the member's partitions are stored: the member filter no longer depends only on the assignment's type")
	}
	okChain := !otherLoop && len(chain) == 2
	var tObj, pObj types.Object
	detail := ""
	if okChain {
		inner, outer := chain[0], chain[1]
		osel, ok1 := unparen(outer.X).(*ast.SelectorExpr)
		isel, ok2 := unparen(inner.X).(*ast.SelectorExpr)
		if !ok1 || !ok2 {
			okChain = false
			detail = "ranges over `" + exprStr(outer.X) + "` / `" + exprStr(inner.X) + "`"
		} else {
			tObj, pObj = c35identObj(info, outer.Value), c35identObj(info, inner.Value)
			of, inf := fieldOfSel(info, outer.X), fieldOfSel(info, inner.X)
			okChain = c35identObj(info, osel.X) == cObj && of != nil && of.Name() == "Topics" &&
				outer.Value != nil && tObj != nil && c35identObj(info, isel.X) == tObj && inf != nil && inf.Name() == "Partitions" && inner.Value != nil && pObj != nil
			if !okChain {
				detail = "ranges over `" + exprStr(outer.X) + "` / `" + exprStr(inner.X) + "`"
			}
		}
	} else {
		detail = fmt.Sprintf("%d nested range loops (other loop kinds: %v)", len(chain), otherLoop)
	}
	c.Check(okChain, rule, f.Key+"#topics-partitions-ranges", store.Pos(), m, "range c.Topics { range t.Partitions { ... } } over the whole lists",
		"the assigned computation does not iterate every topic of the member's assignment and every partition of the topic ("+detail+")")
	// (c) no early exit of the member / topic / partition loops
	nBranch := 0
	ast.Inspect(loop.Body, func(x ast.Node) bool {
		switch x.(type) {
		case *ast.FuncLit:
			return false
		case *ast.BranchStmt, *ast.ReturnStmt:
		default:
			return true
		}
		nBranch++
		facts, inLoop, switched := c35guardChain(pm, x, loop)
		what := nodeStr(x)
		cons := fmt.Sprintf("%s#branch%d: %s", f.Key, nBranch, what)
		br, isBr := x.(*ast.BranchStmt)
		why := ": the remaining members/topics/partitions are assigned but never reported"
		switch {
		case !isBr:
			c.Fail(rule, cons, x.Pos(), m, "return inside the members loop"+why)
		case br.Label != nil || br.Tok != token.CONTINUE || switched:
			c.Fail(rule, cons, x.Pos(), m, "`"+what+"` leaves a loop of the assigned computation early"+why)
		case inLoop != ast.Node(loop):
			c.Fail(rule, cons, x.Pos(), m, "`continue` inside the topics/partitions loops skips an assigned partition"+why)
		case x.Pos() > doneAt:
			// after this member's partitions were stored: skipping the rest of the body is harmless
			c.OK(rule, cons, x.Pos(), m, "after the member's partitions were stored")
		default:
			okc := c35factOn(info, facts, okObj, false)
			c.Check(okc && len(facts) == 1, rule, cons, x.Pos(), m, "skipped only when the assignment is not a consumer assignment",
				"member skipped under `"+c35factStrs(facts)+"`: only `!ok` from m.Assigned.AsConsumer() may skip a member"+why)
		}
		return true
	})
	c.Floor(rule+"#skip", nBranch, 1)
	// (d) the result names the iterated member/topic/partition and lands in l[t.Topic]
	lit, _ := store.Rhs[0].(*ast.CompositeLit)
	if lit != nil && okChain {
		got := map[string]ast.Expr{}
		for _, e := range lit.Elts {
			if kv, ok := e.(*ast.KeyValueExpr); ok {
				got[exprStr(kv.Key)] = kv.Value
			}
		}
		okMember := false
		if u, ok := unparen(got["Member"]).(*ast.UnaryExpr); ok && u.Op == token.AND {
			if ix, ok := unparen(u.X).(*ast.IndexExpr); ok {
				sel, isSel := unparen(ix.X).(*ast.SelectorExpr)
				okMember = isSel && sameField(fieldOfSel(info, ix.X), membersFld) && c35identObj(info, sel.X) == groupParam && miObj != nil && c35identObj(info, ix.Index) == miObj
			} else if o := c35identObj(info, u.X); o != nil && o == mObj {
				okMember = false // address of the loop copy: points at a per-iteration copy, not group.Members
			}
		}
		okTopic := false
		if sel, ok := unparen(got["Topic"]).(*ast.SelectorExpr); ok {
			okTopic = c35identObj(info, sel.X) == tObj && sel.Sel.Name == "Topic"
		}
		okPart := got["Partition"] != nil && c35identObj(info, got["Partition"]) == pObj
		c.Check(okMember && okTopic && okPart, rule, f.Key+"#assigned-result-identity", lit.Pos(), m, "Member: &group.Members[mi], Topic: t.Topic, Partition: p",
			fmt.Sprintf("the assigned result does not name the iterated member/topic/partition (Member: %s, Topic: %s, Partition: %s)", exprStr(got["Member"]), exprStr(got["Topic"]), exprStr(got["Partition"])))
		// lt[p] with lt == l[t.Topic]
		okKey := false
		if ix, ok := store.Lhs[0].(*ast.IndexExpr); ok && c35identObj(info, ix.Index) == pObj {
			if ltObj := c35identObj(info, ix.X); ltObj != nil {
				okKey = true
				nDef := 0
				ast.Inspect(loop.Body, func(x ast.Node) bool {
					as, ok := x.(*ast.AssignStmt)
					if !ok || len(as.Lhs) != 1 || len(as.Rhs) != 1 || c35identObj(info, as.Lhs[0]) != ltObj {
						return true
					}
					nDef++
					isTopicIdx := func(e ast.Expr) bool {
						jx, ok := unparen(e).(*ast.IndexExpr)
						if !ok {
							return false
						}
						sel, ok := unparen(jx.Index).(*ast.SelectorExpr)
						return ok && c35identObj(info, sel.X) == tObj && sel.Sel.Name == "Topic"
					}
					if isTopicIdx(as.Rhs[0]) {
						return true
					}
					// a fresh map: must be published under l[t.Topic] in the same block
					published := false
					if blk, ok := pm[as].(*ast.BlockStmt); ok {
						for _, st := range blk.List {
							if as2, ok := st.(*ast.AssignStmt); ok && len(as2.Lhs) == 1 && len(as2.Rhs) == 1 && isTopicIdx(as2.Lhs[0]) && c35identObj(info, as2.Rhs[0]) == ltObj {
								published = true
							}
						}
					}
					if !published {
						okKey = false
					}
					return true
				})
				if nDef == 0 {
					okKey = false
				}
			}
		}
		c.Check(okKey, rule, f.Key+"#assigned-result-key", store.Pos(), m, "stored at l[t.Topic][p]", "the assigned result is not stored at l[t.Topic][p] (a freshly made per-topic map must be published in l)")
	}
}
