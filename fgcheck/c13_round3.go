package main

import (
	"fmt"
	"go/ast"
	"go/token"
	"go/types"

	"golang.org/x/tools/go/cfg"
)

// ---------------------------------------------------------------------------
// C13 rule result-channel-once: a session worker (consumerSession.listOrEpoch)
// issues sub-requests with `go f(..., results)`, counts one expected receive
// per issued goroutine and then receives exactly that many values from
// `results` WITHOUT a context arm.  Every such goroutine therefore has to send
// on its results parameter exactly once on every path: a return without a send
// parks the worker forever (stopSession waits on workers > 0, Close hangs); a
// second send is never received (or blocks the sender).
// ---------------------------------------------------------------------------

func c13resultChannels(c *Ctx, m *Module) {
	rule := "result-channel-once"
	f := c.NeedFunc(m, "kgo.consumerSession.listOrEpoch")
	if f == nil {
		return
	}
	info := f.Info()
	// channels made locally
	type chanInfo struct {
		obj     types.Object
		goStmts []*ast.GoStmt
	}
	chans := map[types.Object]*chanInfo{}
	ast.Inspect(f.Decl.Body, func(x ast.Node) bool {
		as, ok := x.(*ast.AssignStmt)
		if !ok || as.Tok != token.DEFINE || len(as.Lhs) != 1 || len(as.Rhs) != 1 {
			return true
		}
		call, ok := unparen(as.Rhs[0]).(*ast.CallExpr)
		if !ok {
			return true
		}
		if b, ok := calleeObj(info, call).(*types.Builtin); !ok || b.Name() != "make" {
			return true
		}
		id, ok := as.Lhs[0].(*ast.Ident)
		if !ok {
			return true
		}
		if _, isChan := info.Defs[id].Type().Underlying().(*types.Chan); isChan {
			chans[info.Defs[id]] = &chanInfo{obj: info.Defs[id]}
		}
		return true
	})
	nGo := 0
	checked := map[string]bool{}
	ast.Inspect(f.Decl.Body, func(x ast.Node) bool {
		gs, ok := x.(*ast.GoStmt)
		if !ok {
			return true
		}
		for ai, a := range gs.Call.Args {
			id, ok := unparen(a).(*ast.Ident)
			if !ok {
				continue
			}
			ci := chans[info.Uses[id]]
			if ci == nil {
				continue
			}
			nGo++
			ci.goStmts = append(ci.goStmts, gs)
			key := c13callKey(info, gs.Call)
			cons := fmt.Sprintf("%s: go %s(..., %s)", f.Key, key, id.Name)
			// issued++ right before the go statement
			okCount := false
			if blk := innerBlock(f.Decl.Body, gs); blk != nil {
				for i, st := range blk.List {
					if st == ast.Stmt(gs) && i > 0 {
						if inc, ok := blk.List[i-1].(*ast.IncDecStmt); ok && inc.Tok == token.INC {
							if cid, ok := inc.X.(*ast.Ident); ok && cid.Name == "issued" {
								okCount = true
							}
						}
					}
				}
			}
			c.Check(okCount, rule, cons+"#counted", gs.Pos(), m, "issued++ directly before the go statement", "a sub-request goroutine that reports on "+id.Name+" is started without `issued++` right before it: the worker receives fewer results than are sent (a sender blocks or its result is dropped) or waits for a result nobody sends")
			tf := m.Func(key)
			if tf == nil {
				c.Undecided(rule, cons+"#callee", gs.Pos(), m, "the goroutine handed the results channel is not a kgo function with a body")
				continue
			}
			if checked[key] {
				continue
			}
			checked[key] = true
			c13sendsOnce(c, m, rule, tf, ai)
		}
		return true
	})
	c.Floor(rule+"#issuers", nGo, 2)
	// the receiver: for received != issued { <-results; received++ }
	for _, ci := range chans {
		if len(ci.goStmts) == 0 {
			continue
		}
		okLoop := false
		ast.Inspect(f.Decl.Body, func(x ast.Node) bool {
			fs, ok := x.(*ast.ForStmt)
			if !ok || fs.Cond == nil || nosp(exprStr(fs.Cond)) != "received!=issued" {
				return true
			}
			nRecv, nInc := 0, 0
			ast.Inspect(fs.Body, func(y ast.Node) bool {
				switch s := y.(type) {
				case *ast.FuncLit, *ast.ForStmt, *ast.RangeStmt:
					return false
				case *ast.UnaryExpr:
					if s.Op == token.ARROW && c14isIdentOf(info, s.X, ci.obj) {
						nRecv++
					}
				case *ast.IncDecStmt:
					if id, ok := s.X.(*ast.Ident); ok && id.Name == "received" && s.Tok == token.INC {
						nInc++
					}
				}
				return true
			})
			// both at the top level of the body (every iteration)
			top := 0
			for _, st := range fs.Body.List {
				if containsNode(st, false, func(y ast.Node) bool {
					u, ok := y.(*ast.UnaryExpr)
					return ok && u.Op == token.ARROW && c14isIdentOf(info, u.X, ci.obj)
				}) {
					top++
				}
				if inc, ok := st.(*ast.IncDecStmt); ok && nosp(nodeStr(inc)) == "received++" {
					top++
				}
			}
			if nRecv == 1 && nInc == 1 && top == 2 {
				okLoop = true
			}
			return true
		})
		c.Check(okLoop, rule, f.Key+"#receives one result per issued goroutine", f.Pos(), m, "for received != issued { <-results; received++ }", "the worker does not receive exactly one result per issued sub-request")
		// issued is only changed by the counted increments
		nIncIssued := 0
		ast.Inspect(f.Decl.Body, func(x ast.Node) bool {
			switch s := x.(type) {
			case *ast.IncDecStmt:
				if id, ok := s.X.(*ast.Ident); ok && id.Name == "issued" {
					nIncIssued++
				}
			case *ast.AssignStmt:
				for _, l := range s.Lhs {
					if id, ok := l.(*ast.Ident); ok && id.Name == "issued" && s.Tok != token.DEFINE {
						nIncIssued += 100
					}
				}
			}
			return true
		})
		c.Check(nIncIssued == len(ci.goStmts), rule, f.Key+"#issued counts the goroutines", f.Pos(), m, "", fmt.Sprintf("issued is changed %d times for %d issued goroutines", nIncIssued, len(ci.goStmts)))
	}
}

// c13sendsOnce: function tf sends on its parameter #idx exactly once on every path.
func c13sendsOnce(c *Ctx, m *Module, rule string, tf *Func, idx int) {
	c.Touch(tf)
	info := tf.Info()
	g := tf.Graph()
	param := c14paramObj(tf, idx)
	if param == nil {
		c.Undecided(rule, tf.Key+"#param", tf.Pos(), m, "cannot resolve the results parameter")
		return
	}
	isSend := func(n ast.Node) bool {
		s, ok := n.(*ast.SendStmt)
		return ok && c14isIdentOf(info, s.Chan, param)
	}
	// all uses of the parameter are sends in the function's own body
	var sends []*ast.SendStmt
	okUses := true
	ast.Inspect(tf.Decl.Body, func(x ast.Node) bool {
		if s, ok := x.(*ast.SendStmt); ok && isSend(s) {
			if innermostLit(tf, s) != nil {
				okUses = false
			}
			sends = append(sends, s)
			// do not count the channel identifier of the send as another use
			ast.Inspect(s.Value, func(y ast.Node) bool {
				if id, ok := y.(*ast.Ident); ok && info.Uses[id] == param {
					okUses = false
				}
				return true
			})
			return false
		}
		if id, ok := x.(*ast.Ident); ok && info.Uses[id] == param {
			okUses = false
		}
		return true
	})
	c.Check(okUses, rule, tf.Key+"#results only sent on", tf.Pos(), m, "", "the results channel is passed on, captured by a closure or used other than as the target of a send in the function body: sends cannot be counted")
	_, lost := g.FindPath(Loc{-1, 0}, SearchOpts{
		Stop:     func(n ast.Node) bool { return containsNode(n, false, isSend) },
		GoalExit: func(k ExitKind, last ast.Node) bool { return k != ExitPanic },
	})
	c.Check(!lost, rule, tf.Key+"#sends on every path", tf.Pos(), m, "every return has sent one result",
		tf.Key+" can return without sending on its results channel: its caller (a consumer-session worker) receives one value per issued goroutine with no context arm, so it blocks forever, the session's worker count never reaches zero, stopSession never returns and Close / LeaveGroup / every rebalance hangs")
	for i, s := range sends {
		l, ok := g.LocOf(s)
		if !ok {
			continue
		}
		_, twice := g.FindPath(l, SearchOpts{GoalNode: func(n ast.Node) bool { return containsNode(n, false, isSend) }})
		c.Check(!twice, rule, fmt.Sprintf("%s#send %d is the only one on its path", tf.Key, i), s.Pos(), m, "", "a second send on the results channel is reachable after this one: the extra result is never received")
	}
	c.Check(len(sends) >= 1, rule, tf.Key+"#has a send", tf.Pos(), m, "", "no send on the results channel")
}

// ---------------------------------------------------------------------------
// close-sweep additions
// ---------------------------------------------------------------------------

// c13sweepEveryIteration: in failBufferedRecords every iteration of the topic
// loop reaches the partition loop and every iteration of the partition loop
// reaches failAllRecords: no `continue`, guard or early exit skips a topic or
// a partition.
func c13sweepEveryIteration(c *Ctx, m *Module, rule string, why string) {
	f := c.NeedFunc(m, "kgo.Client.failBufferedRecords")
	if f == nil {
		return
	}
	info := f.Info()
	g := f.Graph()
	far := m.Method("kgo", "recBuf", "failAllRecords")
	var inner, outer *ast.RangeStmt
	ast.Inspect(f.Decl.Body, func(x ast.Node) bool {
		rs, ok := x.(*ast.RangeStmt)
		if !ok || len(callsTo(rs.Body, info, far, false)) == 0 {
			return true
		}
		if outer == nil {
			outer = rs
		}
		inner = rs
		return true
	})
	if inner == nil || outer == nil || inner == outer {
		c.Fail(rule, f.Key+"#topic and partition loops", f.Pos(), m, "failBufferedRecords has no topic loop containing a partition loop that calls failAllRecords")
		return
	}
	bodyStart := func(rs *ast.RangeStmt) (Loc, bool) {
		for _, b := range g.C.Blocks {
			if b.Kind == cfg.KindRangeBody && b.Stmt == ast.Stmt(rs) {
				return Loc{int(b.Index), -1}, true
			}
		}
		return Loc{}, false
	}
	isLoopHead := func(b *cfg.Block, rss ...*ast.RangeStmt) bool {
		if b.Kind != cfg.KindRangeLoop && b.Kind != cfg.KindRangeDone {
			return false
		}
		for _, rs := range rss {
			if b.Stmt == ast.Stmt(rs) {
				return true
			}
		}
		return false
	}
	if l, ok := bodyStart(outer); ok {
		pth, skip := g.FindPath(l, SearchOpts{
			Stop: func(n ast.Node) bool {
				return n == ast.Node(inner.X) || containsNode(n, false, func(y ast.Node) bool { return y == ast.Node(inner.X) })
			},
			GoalExit:  func(k ExitKind, last ast.Node) bool { return k != ExitPanic },
			GoalBlock: func(b *cfg.Block) bool { return isLoopHead(b, outer) },
		})
		c.Check(!skip, rule, f.Key+"#every topic reaches the partition sweep", outer.Pos(), m, "", "an iteration of the topic loop can skip the partition sweep (path: "+pathStr(pth)+"): "+why)
	} else {
		c.Undecided(rule, f.Key+"#topic loop body", outer.Pos(), m, "cannot locate the topic loop body in the CFG")
	}
	if l, ok := bodyStart(inner); ok {
		pth, skip := g.FindPath(l, SearchOpts{
			Stop: func(n ast.Node) bool {
				return containsNode(n, false, func(y ast.Node) bool {
					call, ok := y.(*ast.CallExpr)
					return ok && isCallTo(info, call, far)
				})
			},
			GoalExit:  func(k ExitKind, last ast.Node) bool { return k != ExitPanic },
			GoalBlock: func(b *cfg.Block) bool { return isLoopHead(b, inner, outer) },
		})
		c.Check(!skip, rule, f.Key+"#every partition reaches failAllRecords", inner.Pos(), m, "", "an iteration of the partition loop can skip failAllRecords (path: "+pathStr(pth)+"): "+why)
	} else {
		c.Undecided(rule, f.Key+"#partition loop body", inner.Pos(), m, "cannot locate the partition loop body in the CFG")
	}
	// neither loop is left early (break / return / goto): the only way to the
	// statement after a loop is through its loop head
	for _, lp := range []struct {
		rs   *ast.RangeStmt
		name string
	}{{outer, "topic"}, {inner, "partition"}} {
		l, ok := bodyStart(lp.rs)
		if !ok {
			continue
		}
		rs := lp.rs
		pth, early := g.FindPath(l, SearchOpts{
			StopBlock: func(b *cfg.Block) bool { return b.Kind == cfg.KindRangeLoop && b.Stmt == ast.Stmt(rs) },
			GoalBlock: func(b *cfg.Block) bool { return b.Kind == cfg.KindRangeDone && b.Stmt == ast.Stmt(rs) },
			GoalExit:  func(k ExitKind, last ast.Node) bool { return k != ExitPanic },
		})
		c.Check(!early, rule, f.Key+"#"+lp.name+" loop is not left early", rs.Pos(), m, "", "the "+lp.name+" loop of the sweep can be left before all elements were visited (path: "+pathStr(pth)+"): "+why)
	}
	// the partition loop ranges the data loaded from the topic loop's value, unfiltered
	c.Check(nosp(exprStr(outer.X)) == "p.topics.load()", rule, f.Key+"#topic loop ranges every producer topic", outer.Pos(), m, "", "the topic loop does not range p.topics.load()")
}

// c13closedCheckInBufferRecord: the client-closed check that pairs with the
// close sweep runs under recBuf.mu inside bufferRecord, before any append.
// (Equivalent to C01's close-sweep `bufferRecord#closed-check-before-append`,
// restated type-resolved here because the violation makes Close leave a
// promise that is never called.)
func c13closedCheckInBufferRecord(c *Ctx, m *Module) {
	rule := "close-sweep"
	f := c.NeedFunc(m, "kgo.recBuf.bufferRecord")
	tb := m.Func("kgo.recBatch.tryBuffer")
	clCtx := m.Field("kgo", "Client", "ctx")
	errClosed := m.Object("kgo", "ErrClientClosed")
	prom := m.Method("kgo", "producer", "promiseRecord")
	batches := m.Field("kgo", "recBuf", "batches")
	if f == nil || tb == nil || clCtx == nil || errClosed == nil || prom == nil || batches == nil {
		c.Undecided("anchor", "kgo.recBuf.bufferRecord#closed-check objects", 0, m, "anchors not found")
		return
	}
	info := f.Info()
	g := f.Graph()
	var sel *ast.SelectStmt
	var armLoc Loc
	var armNode ast.Node
	ast.Inspect(f.Decl.Body, func(x ast.Node) bool {
		if _, isLit := x.(*ast.FuncLit); isLit {
			return false
		}
		s, ok := x.(*ast.SelectStmt)
		if !ok {
			return true
		}
		hasDefault, hasArm := false, false
		for _, cl := range s.Body.List {
			cc := cl.(*ast.CommClause)
			if cc.Comm == nil {
				hasDefault = true
				continue
			}
			r := c13commRecv(cc)
			if r == nil {
				continue
			}
			call, ok := unparen(r).(*ast.CallExpr)
			if !ok {
				continue
			}
			fs, ok := unparen(call.Fun).(*ast.SelectorExpr)
			if !ok || fs.Sel.Name != "Done" || !sameField(fieldOfSel(info, fs.X), clCtx) {
				continue
			}
			// body: promiseRecord(pr, ErrClientClosed); return true
			okProm, okRet := false, false
			for _, st := range cc.Body {
				switch b := st.(type) {
				case *ast.ExprStmt:
					if pc, ok := b.X.(*ast.CallExpr); ok && isCallTo(info, pc, prom) && len(pc.Args) == 2 && c13usesObj(info, pc.Args[1], errClosed) {
						okProm = true
					}
				case *ast.ReturnStmt:
					if len(b.Results) == 1 {
						if v, isC := constBool(info, b.Results[0]); isC && v {
							okRet = true
						}
					}
				}
			}
			if okProm && okRet {
				hasArm = true
				if l, ok := g.LocOf(cc.Comm); ok {
					armLoc = l
					armNode = cc.Comm
				}
			}
		}
		if hasArm && hasDefault {
			sel = s
		}
		return true
	})
	why := "Close cancels cl.ctx and then sweeps every recBuf once under recBuf.mu; only a check of cl.ctx under that same lock, inside bufferRecord, guarantees that a record is either failed here or appended before the sweep. A check anywhere else (e.g. at the top of produce) is check-then-act: a Produce that passed it before Close appends after the sweep into a recBuf nobody drains or fails, and its promise never fires"
	if sel == nil {
		c.Fail(rule, f.Key+"#client-closed check under recBuf.mu", f.Pos(), m, "bufferRecord has no non-blocking `select { case <-cl.ctx.Done(): promiseRecord(pr, ErrClientClosed); return true; default: }`: "+why)
		return
	}
	env := newLockEnv(f, nil, nil)
	held, okH := LockSet{}, false
	if armNode != nil {
		held, okH = env.HeldAtNode(armNode)
	}
	c.Check(okH && held.Holds("recBuf.mu", true), rule, f.Key+"#client-closed check under recBuf.mu", sel.Pos(), m, "select on cl.ctx.Done() with recBuf.mu held", "the client-closed check in bufferRecord does not run with recBuf.mu held: "+why)
	n := 0
	ast.Inspect(f.Decl.Body, func(x ast.Node) bool {
		var what string
		switch s := x.(type) {
		case *ast.CallExpr:
			if isCallTo(info, s, tb.Obj) {
				what = "tryBuffer"
			}
		case *ast.AssignStmt:
			for _, l := range s.Lhs {
				if sameField(fieldOfSel(info, l), batches) {
					what = "recBuf.batches store"
				}
			}
		}
		if what == "" {
			return true
		}
		n++
		l, ok := g.LocOf(x)
		c.Check(ok && g.DominatesReg(armLoc, l), rule, fmt.Sprintf("%s#closed check before %s#%d", f.Key, what, n), x.Pos(), m, "", "`"+what+"` is reachable without passing the client-closed check: "+why)
		return true
	})
	c.Floor(rule+"#append-sites", n, 3)
}
