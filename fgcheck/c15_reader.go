package main

// C15, part 3: symbolic extraction of the wire schema consumed by a generated
// readFrom at one concrete version (and one value of `unsafe`), together with
// the field every value read is stored into.

import (
	"fmt"
	"go/ast"
	"go/constant"
	"go/token"
	"go/types"
	"strings"
)

type c15rval struct {
	kind string // ref | rd | old | zero | reader | arr | idx | arrdone | key
	path string
	op   *c15Op
}

type c15R struct {
	c15X
	env     map[types.Object]*c15rval
	readers []types.Object // stack of live kbin.Reader variables; reads must use the innermost
	unsafe  bool
	all     []*c15Op // every value-producing op, to check it was stored
}

// c15ExtractReader returns the schema read by fn (a readFrom) at version ver.
func c15ExtractReader(m *Module, fn *Func, ver int, unsafe bool) (ops []*c15Op, err *c15Abort) {
	x := &c15R{c15X: c15X{m: m, info: fn.Info(), fn: fn, consts: map[types.Object]constant.Value{}, ver: ver},
		env: map[types.Object]*c15rval{}, unsafe: unsafe}
	defer func() {
		if r := recover(); r != nil {
			if a, ok := r.(*c15Abort); ok {
				ops, err = nil, a
				return
			}
			panic(r)
		}
	}()
	d := fn.Decl
	if d.Recv == nil || len(d.Recv.List) != 1 || len(d.Recv.List[0].Names) != 1 {
		x.fail(d, "readFrom without a named receiver")
	}
	x.recv = x.info.Defs[d.Recv.List[0].Names[0]]
	x.env[x.recv] = &c15rval{kind: "ref"}
	ps := d.Type.Params
	if ps == nil || ps.NumFields() != 2 {
		x.fail(d, "readFrom does not take (src []byte, unsafe bool)")
	}
	var params []types.Object
	for _, f := range ps.List {
		for _, n := range f.Names {
			params = append(params, x.info.Defs[n])
		}
	}
	if len(params) != 2 {
		x.fail(d, "readFrom does not take (src []byte, unsafe bool)")
	}
	x.env[params[0]] = &c15rval{kind: "src"}
	if b, ok := params[1].Type().(*types.Basic); !ok || b.Kind() != types.Bool {
		x.fail(d, "second parameter is not the unsafe flag")
	}
	x.consts[params[1]] = constant.MakeBool(unsafe)
	body := d.Body.List
	if len(body) < 3 {
		x.fail(d, "body too short")
	}
	// must start by defaulting the receiver
	if es, ok := body[0].(*ast.ExprStmt); !ok || !x.isDefaultCall(es.X, "") {
		x.violate(body[0], "readFrom does not start with v.Default(): fields absent at this version would keep stale values")
	}
	ret, ok := body[len(body)-1].(*ast.ReturnStmt)
	if !ok || len(ret.Results) != 1 {
		x.fail(body[len(body)-1], "readFrom does not end in `return b.Complete()`")
	}
	x.stmts(body[:len(body)-1], &ops)
	if len(x.readers) != 1 || !x.isReaderCall(ret.Results[0], "Complete") {
		x.fail(ret, "readFrom does not end in `return b.Complete()` on the message reader")
	}
	for _, o := range x.all {
		if !o.stored {
			panic(&c15Abort{pos: o.Pos, viol: true, msg: fmt.Sprintf("value read by %s at %s is never stored into a field: the field is not recovered by ReadFrom", o.K, o.Src)})
		}
	}
	return ops, nil
}

func (x *c15R) isDefaultCall(e ast.Expr, wantPath string) bool {
	c, ok := e.(*ast.CallExpr)
	if !ok || len(c.Args) != 0 {
		return false
	}
	sel, ok := c.Fun.(*ast.SelectorExpr)
	if !ok || sel.Sel.Name != "Default" {
		return false
	}
	id, ok := sel.X.(*ast.Ident)
	if !ok {
		return false
	}
	v := x.env[x.obj(id)]
	return v != nil && v.kind == "ref" && v.path == wantPath
}

// readerCall matches b.M(args) on the innermost live reader and returns the call.
func (x *c15R) readerCall(e ast.Expr) (*ast.CallExpr, string) {
	c, ok := unparen(e).(*ast.CallExpr)
	if !ok {
		return nil, ""
	}
	sel, ok := unparen(c.Fun).(*ast.SelectorExpr)
	if !ok {
		return nil, ""
	}
	id, ok := unparen(sel.X).(*ast.Ident)
	if !ok {
		return nil, ""
	}
	v := x.env[x.obj(id)]
	if v == nil || v.kind != "reader" {
		return nil, ""
	}
	f, ok := calleeObj(x.info, c).(*types.Func)
	if !ok || !c15IsKbin(f) {
		return nil, ""
	}
	if len(x.readers) == 0 || x.readers[len(x.readers)-1] != x.obj(id) {
		x.violate(e, "read %s is not from the innermost reader", exprStr(e))
	}
	return c, f.Name()
}

func (x *c15R) isReaderCall(e ast.Expr, name string) bool {
	c, n := x.readerCall(e)
	return c != nil && n == name && len(c.Args) == 0
}

// read turns a value-producing reader call into an op (nil if e is not one).
func (x *c15R) read(e ast.Expr) *c15Op {
	c, name := x.readerCall(e)
	if c == nil {
		return nil
	}
	k := name
	if strings.HasPrefix(name, "Unsafe") {
		k = name[len("Unsafe"):]
		if !x.unsafe {
			x.violate(e, "b.%s is used on the safe (copying) path", name)
		}
	}
	// (a copying read on the unsafe path is only slower, not wrong: accepted)
	if k == "Span" {
		// length-field-minus: b.Span(int(s.Length) - N)
		if len(c.Args) == 1 {
			if be, ok := x.stripConv(c.Args[0]).(*ast.BinaryExpr); ok && be.Op == token.SUB {
				n, ok1 := constInt(x.info, be.Y)
				sel, ok2 := x.stripConv(be.X).(*ast.SelectorExpr)
				if ok1 && ok2 && fieldOfSel(x.info, sel) != nil {
					if id, ok := unparen(sel.X).(*ast.Ident); ok {
						if r := x.env[x.obj(id)]; r != nil && r.kind == "ref" {
							op := &c15Op{K: "Raw", Aux: fmt.Sprintf("len=%s-%d", sel.Sel.Name, n), Src: x.src(e), Pos: e.Pos()}
							x.all = append(x.all, op)
							return op
						}
					}
				}
			}
		}
		x.fail(e, "b.Span(%s) is not the length-field-minus idiom", exprStr(c.Args[0]))
	}
	if !c15PrimKinds[k] || len(c.Args) != 0 {
		x.fail(e, "b.%s is not a value read", name)
	}
	op := &c15Op{K: k, Src: x.src(e), Pos: e.Pos()}
	x.all = append(x.all, op)
	return op
}

func (x *c15R) stmts(list []ast.Stmt, out *[]*c15Op) {
	for i := 0; i < len(list); i++ {
		// the array idiom spans several statements starting at `a := v`
		if as, ok := list[i].(*ast.AssignStmt); ok && as.Tok == token.DEFINE && len(as.Lhs) == 1 && len(as.Rhs) == 1 {
			if id, ok := unparen(as.Rhs[0]).(*ast.Ident); ok {
				if v := x.env[x.obj(id)]; v != nil && v.kind == "old" {
					i = x.array(list, i, id, v.path, out)
					continue
				}
			}
		}
		x.stmt(list[i], out)
	}
}

func (x *c15R) refOf(e ast.Expr) *c15rval {
	id, ok := unparen(e).(*ast.Ident)
	if !ok {
		return nil
	}
	v := x.env[x.obj(id)]
	if v == nil || v.kind != "ref" {
		return nil
	}
	return v
}

func (x *c15R) stmt(s ast.Stmt, out *[]*c15Op) {
	switch s := s.(type) {
	case *ast.BlockStmt:
		x.stmts(s.List, out)
	case *ast.EmptyStmt:
	case *ast.DeclStmt:
		gd, ok := s.Decl.(*ast.GenDecl)
		if !ok || gd.Tok != token.VAR || len(gd.Specs) != 1 {
			x.fail(s, "declaration not understood")
		}
		vs := gd.Specs[0].(*ast.ValueSpec)
		if len(vs.Names) != 1 || len(vs.Values) != 0 {
			x.fail(s, "declaration not understood")
		}
		x.env[x.info.Defs[vs.Names[0]]] = &c15rval{kind: "zero"}
	case *ast.ExprStmt:
		c, ok := s.X.(*ast.CallExpr)
		if !ok {
			x.fail(s, "expression statement not understood")
		}
		if sel, ok := c.Fun.(*ast.SelectorExpr); ok && sel.Sel.Name == "Default" && len(c.Args) == 0 {
			if r := x.refOf(sel.X); r != nil {
				*out = append(*out, &c15Op{K: "Default", Path: r.path, Src: x.src(s), Pos: s.Pos()})
				return
			}
		}
		x.fail(s, "call %s is not one of the decode idioms", exprStr(c.Fun))
	case *ast.AssignStmt:
		x.assign(s, out)
	case *ast.IfStmt:
		x.ifStmt(s, out)
	case *ast.ForStmt:
		x.tagLoop(s, out)
	default:
		x.fail(s, "statement %s is not one of the decode idioms", nodeStr(s))
	}
}

// store assigns the destination field path to the op behind v.
func (x *c15R) store(at ast.Node, v *c15rval, path string) {
	if v == nil || (v.kind != "rd" && v.kind != "arrdone") {
		x.fail(at, "value stored into %s does not come from the reader", path)
	}
	if v.op.stored {
		x.violate(at, "value read at %s is stored twice (second store into %s)", v.op.Src, path)
	}
	if v.kind == "arrdone" && v.path != path {
		x.violate(at, "array decoded from %s is stored into %s", v.path, path)
	}
	v.op.Path = path
	v.op.stored = true
}

func (x *c15R) assign(s *ast.AssignStmt, out *[]*c15Op) {
	if len(s.Lhs) != 1 || len(s.Rhs) != 1 {
		x.fail(s, "multi-assignment")
	}
	lhs, rhs := unparen(s.Lhs[0]), unparen(s.Rhs[0])
	if id, ok := lhs.(*ast.Ident); ok && id.Name == "_" && s.Tok == token.ASSIGN {
		return
	}
	if s.Tok == token.DEFINE {
		id := lhs.(*ast.Ident)
		o := x.info.Defs[id]
		if x.bindVersionOrConst(s, func(e ast.Expr) bool { r := x.refOf(e); return r != nil && r.path == "" }) {
			return
		}
		// b := kbin.Reader{Src: src}
		if cl, ok := rhs.(*ast.CompositeLit); ok {
			if n, ok := x.info.TypeOf(cl).(*types.Named); ok && c15IsKbin(n.Obj()) && n.Obj().Name() == "Reader" && len(cl.Elts) == 1 {
				kv, ok := cl.Elts[0].(*ast.KeyValueExpr)
				if ok && exprStr(kv.Key) == "Src" {
					if sid, ok := unparen(kv.Value).(*ast.Ident); ok && len(x.readers) == 0 {
						if sv := x.env[x.obj(sid)]; sv != nil && sv.kind == "src" {
							x.env[o] = &c15rval{kind: "reader"}
							x.readers = append(x.readers, o)
							return
						}
					}
				}
			}
			x.fail(s, "reader construction %s is not over src", exprStr(rhs))
		}
		if op := x.read(rhs); op != nil {
			*out = append(*out, op)
			x.env[o] = &c15rval{kind: "rd", op: op}
			return
		}
		switch r := rhs.(type) {
		case *ast.Ident:
			if v := x.env[x.obj(r)]; v != nil && (v.kind == "ref" || v.kind == "rd") {
				x.env[o] = v
				return
			}
		case *ast.SelectorExpr:
			// v := s.Field (array about to be decoded)
			if b := x.refOf(r.X); b != nil && fieldOfSel(x.info, r) != nil {
				if _, isSlice := x.info.TypeOf(r).Underlying().(*types.Slice); isSlice {
					x.env[o] = &c15rval{kind: "old", path: c15join(b.path, r.Sel.Name)}
					return
				}
			}
		case *ast.UnaryExpr:
			if r.Op == token.AND {
				switch t := unparen(r.X).(type) {
				case *ast.SelectorExpr:
					// v := &s.Field (embedded struct)
					if b := x.refOf(t.X); b != nil && fieldOfSel(x.info, t) != nil {
						if _, isStruct := x.info.TypeOf(t).Underlying().(*types.Struct); isStruct {
							x.env[o] = &c15rval{kind: "ref", path: c15join(b.path, t.Sel.Name)}
							return
						}
					}
				case *ast.IndexExpr:
					// v := &a[i]
					aid, ok1 := unparen(t.X).(*ast.Ident)
					iid, ok2 := unparen(t.Index).(*ast.Ident)
					if ok1 && ok2 {
						av, iv := x.env[x.obj(aid)], x.env[x.obj(iid)]
						if av != nil && iv != nil && av.kind == "arr" && iv.kind == "idx" && iv.path == av.path {
							x.env[o] = &c15rval{kind: "ref", path: av.path + "[]"}
							return
						}
					}
				}
			}
		}
		x.fail(s, "definition %s is not one of the decode idioms", nodeStr(s))
	}
	if s.Tok != token.ASSIGN {
		x.fail(s, "operator assignment")
	}
	switch l := lhs.(type) {
	case *ast.Ident:
		lv := x.env[x.obj(l)]
		if lv == nil || lv.kind != "zero" {
			x.fail(s, "assignment to %s which is not a freshly declared variable", l.Name)
		}
		if op := x.read(rhs); op != nil {
			*out = append(*out, op)
			x.env[x.obj(l)] = &c15rval{kind: "rd", op: op}
			return
		}
		// v = &vv : a non-null string kept behind a pointer field
		if u, ok := rhs.(*ast.UnaryExpr); ok && u.Op == token.AND {
			if id, ok := unparen(u.X).(*ast.Ident); ok {
				if v := x.env[x.obj(id)]; v != nil && v.kind == "rd" && (v.op.K == "String" || v.op.K == "CompactString") && v.op.Aux == "" {
					v.op.Aux = "ptr"
					x.env[x.obj(l)] = v
					return
				}
			}
		}
		// t = EnumType(v)
		if c, ok := rhs.(*ast.CallExpr); ok && len(c.Args) == 1 {
			if tv, ok := x.info.Types[c.Fun]; ok && tv.IsType() {
				if n, ok := tv.Type.(*types.Named); ok {
					if id, ok := unparen(c.Args[0]).(*ast.Ident); ok {
						if v := x.env[x.obj(id)]; v != nil && v.kind == "rd" && v.op.Aux == "" {
							if _, basic := n.Underlying().(*types.Basic); basic && types.Identical(x.info.TypeOf(c.Args[0]), n.Underlying()) {
								v.op.Aux = "enum=" + n.Obj().Name()
								x.env[x.obj(l)] = v
								return
							}
						}
					}
				}
			}
		}
		x.fail(s, "assignment %s is not one of the decode idioms", nodeStr(s))
	case *ast.SelectorExpr:
		b := x.refOf(l.X)
		if b == nil || fieldOfSel(x.info, l) == nil {
			x.fail(s, "store %s is not into a field of the message", nodeStr(s))
		}
		path := c15join(b.path, l.Sel.Name)
		// s.UnknownTags = internalReadTags(&b)
		if c, ok := rhs.(*ast.CallExpr); ok {
			if f, ok := calleeObj(x.info, c).(*types.Func); ok && f.Name() == "internalReadTags" && len(c.Args) == 1 {
				u, ok := unparen(c.Args[0]).(*ast.UnaryExpr)
				if !ok || u.Op != token.AND {
					x.fail(s, "internalReadTags argument")
				}
				id, ok := unparen(u.X).(*ast.Ident)
				if !ok || len(x.readers) == 0 || x.obj(id) != x.readers[len(x.readers)-1] {
					x.fail(s, "internalReadTags does not read from the innermost reader")
				}
				if l.Sel.Name != "UnknownTags" {
					x.fail(s, "unknown tags are stored into %s", path)
				}
				*out = append(*out, &c15Op{K: "Tags", Path: b.path, Unknown: path, Src: x.src(s), Pos: s.Pos()})
				return
			}
		}
		if op := x.read(rhs); op != nil {
			*out = append(*out, op)
			x.store(s, &c15rval{kind: "rd", op: op}, path)
			return
		}
		id, ok := rhs.(*ast.Ident)
		if !ok {
			x.fail(s, "store %s: the value is not a decoded variable", nodeStr(s))
		}
		x.store(s, x.env[x.obj(id)], path)
	case *ast.IndexExpr:
		// a[i] = v
		aid, ok1 := unparen(l.X).(*ast.Ident)
		iid, ok2 := unparen(l.Index).(*ast.Ident)
		rid, ok3 := rhs.(*ast.Ident)
		if ok1 && ok2 && ok3 {
			av, iv := x.env[x.obj(aid)], x.env[x.obj(iid)]
			if av != nil && iv != nil && av.kind == "arr" && iv.kind == "idx" && iv.path == av.path {
				x.store(s, x.env[x.obj(rid)], av.path+"[]")
				return
			}
		}
		x.fail(s, "store %s is not a[i] = v inside the element loop", nodeStr(s))
	default:
		x.fail(s, "assignment %s is not one of the decode idioms", nodeStr(s))
	}
}

func (x *c15R) ifStmt(s *ast.IfStmt, out *[]*c15Op) {
	if s.Init != nil {
		// if present := b.Int8(); present != -1 && b.Ok() { s.F = new(T); v := s.F; v.Default(); ... }
		as, ok := s.Init.(*ast.AssignStmt)
		if ok && as.Tok == token.DEFINE && len(as.Lhs) == 1 && x.isReaderCall(as.Rhs[0], "Int8") && s.Else == nil && len(s.Body.List) >= 3 {
			po := x.info.Defs[as.Lhs[0].(*ast.Ident)]
			be, ok := unparen(s.Cond).(*ast.BinaryExpr)
			if ok && be.Op == token.LAND && x.isReaderCall(be.Y, "Ok") {
				ne, ok := unparen(be.X).(*ast.BinaryExpr)
				if ok && ne.Op == token.NEQ {
					id, ok1 := unparen(ne.X).(*ast.Ident)
					n, ok2 := constInt(x.info, ne.Y)
					if ok1 && ok2 && x.obj(id) == po && n == -1 {
						x.nullableStruct(s, out)
						return
					}
				}
			}
			x.fail(s, "nullable struct presence test %s is not `present != -1 && b.Ok()`", exprStr(s.Cond))
		}
		x.fail(s, "if with init statement is not the nullable-struct idiom")
	}
	if v, ok := x.eval(s.Cond); ok && v.Kind() == constant.Bool {
		if constant.BoolVal(v) {
			x.stmts(s.Body.List, out)
		} else if s.Else != nil {
			x.stmt(s.Else, out)
		}
		return
	}
	x.fail(s, "condition %s is neither a version guard nor a known idiom", exprStr(s.Cond))
}

func (x *c15R) nullableStruct(s *ast.IfStmt, out *[]*c15Op) {
	l := s.Body.List
	// s.F = new(T)
	as, ok := l[0].(*ast.AssignStmt)
	if !ok || as.Tok != token.ASSIGN || len(as.Lhs) != 1 {
		x.fail(l[0], "nullable struct: first statement is not s.F = new(T)")
	}
	sel, ok := unparen(as.Lhs[0]).(*ast.SelectorExpr)
	c, ok2 := unparen(as.Rhs[0]).(*ast.CallExpr)
	if !ok || !ok2 || len(c.Args) != 1 {
		x.fail(l[0], "nullable struct: first statement is not s.F = new(T)")
	}
	if b, ok := calleeObj(x.info, c).(*types.Builtin); !ok || b.Name() != "new" {
		x.fail(l[0], "nullable struct: first statement is not s.F = new(T)")
	}
	base := x.refOf(sel.X)
	if base == nil || fieldOfSel(x.info, sel) == nil {
		x.fail(l[0], "nullable struct: first statement is not s.F = new(T)")
	}
	path := c15join(base.path, sel.Sel.Name)
	// v := s.F
	d, ok := l[1].(*ast.AssignStmt)
	if !ok || d.Tok != token.DEFINE || len(d.Lhs) != 1 {
		x.fail(l[1], "nullable struct: second statement is not v := s.F")
	}
	sel2, ok := unparen(d.Rhs[0]).(*ast.SelectorExpr)
	if !ok || !sameField(fieldOfSel(x.info, sel2), fieldOfSel(x.info, sel)) || x.refOf(sel2.X) != base {
		x.fail(l[1], "nullable struct: second statement is not v := s.F")
	}
	x.env[x.info.Defs[d.Lhs[0].(*ast.Ident)]] = &c15rval{kind: "ref", path: path}
	op := &c15Op{K: "NullableStruct", Path: path, Aux: "marker=int8", Src: x.src(s), Pos: s.Pos()}
	x.stmts(l[2:], &op.Body)
	*out = append(*out, op)
}

// reduce evaluates guards around a single simple statement.
func (x *c15R) reduce(s ast.Stmt) ast.Stmt {
	for {
		switch t := s.(type) {
		case *ast.BlockStmt:
			if len(t.List) != 1 {
				return s
			}
			s = t.List[0]
		case *ast.IfStmt:
			if t.Init != nil {
				return s
			}
			v, ok := x.eval(t.Cond)
			if !ok || v.Kind() != constant.Bool {
				return s
			}
			if constant.BoolVal(v) {
				s = t.Body
			} else if t.Else != nil {
				s = t.Else
			} else {
				return &ast.EmptyStmt{Semicolon: t.Pos()}
			}
		default:
			return s
		}
	}
}

// array consumes the array decode idiom starting at list[i] (`a := v`) and
// returns the index of its last statement (`v = a`).
func (x *c15R) array(list []ast.Stmt, i int, vid *ast.Ident, path string, out *[]*c15Op) int {
	at := list[i]
	need := func(k int) ast.Stmt {
		if k >= len(list) {
			x.fail(at, "array %s: decode idiom is truncated", path)
		}
		return list[k]
	}
	bad := func(s ast.Node, why string) { x.fail(s, "array %s: %s", path, why) }
	vobj := x.obj(vid)
	aobj := x.info.Defs[list[i].(*ast.AssignStmt).Lhs[0].(*ast.Ident)]
	x.env[aobj] = &c15rval{kind: "arr", path: path}
	isA := func(e ast.Expr) bool { id, ok := unparen(e).(*ast.Ident); return ok && x.obj(id) == aobj }
	i++
	// var l int32
	var lobj types.Object
	if ds, ok := need(i).(*ast.DeclStmt); ok {
		if gd, ok := ds.Decl.(*ast.GenDecl); ok && len(gd.Specs) == 1 {
			if vs, ok := gd.Specs[0].(*ast.ValueSpec); ok && len(vs.Names) == 1 && len(vs.Values) == 0 {
				lobj = x.info.Defs[vs.Names[0]]
			}
		}
	}
	if lobj == nil {
		bad(need(i), "length variable declaration expected")
	}
	isL := func(e ast.Expr) bool { id, ok := unparen(e).(*ast.Ident); return ok && x.obj(id) == lobj }
	i++
	// l = b.[Compact|Varint]ArrayLen()
	ls, ok := x.reduce(need(i)).(*ast.AssignStmt)
	if !ok || ls.Tok != token.ASSIGN || len(ls.Lhs) != 1 || !isL(ls.Lhs[0]) {
		bad(need(i), "length read expected")
	}
	c, name := x.readerCall(ls.Rhs[0])
	ln := map[string]string{"ArrayLen": "Int32", "CompactArrayLen": "Compact", "VarintArrayLen": "Varint"}[name]
	if c == nil || ln == "" || len(c.Args) != 0 {
		bad(ls, "length is not read with an ArrayLen method")
	}
	op := &c15Op{K: "Array", Src: x.src(ls), Pos: ls.Pos()}
	x.all = append(x.all, op)
	i++
	// optional: if version < N || l == 0 { a = T{} }
	nullable := false
	if is, ok := need(i).(*ast.IfStmt); ok && is.Init == nil && is.Else == nil {
		if be, ok := unparen(is.Cond).(*ast.BinaryExpr); ok && be.Op == token.LOR {
			if re, ok := unparen(be.Y).(*ast.BinaryExpr); ok && re.Op == token.EQL && isL(re.X) {
				n, ok1 := constInt(x.info, re.Y)
				lv, ok2 := x.eval(be.X)
				emp := false
				if len(is.Body.List) == 1 {
					if as, ok := is.Body.List[0].(*ast.AssignStmt); ok && as.Tok == token.ASSIGN && len(as.Lhs) == 1 && isA(as.Lhs[0]) {
						if cl, ok := unparen(as.Rhs[0]).(*ast.CompositeLit); ok && len(cl.Elts) == 0 {
							_, emp = x.info.TypeOf(cl).Underlying().(*types.Slice)
						}
					}
				}
				if !ok1 || n != 0 || !ok2 || lv.Kind() != constant.Bool || !emp {
					bad(is, "null/empty distinction is not `if version < N || l == 0 { a = T{} }`")
				}
				// version < N: the array cannot be null, an empty slice is always produced;
				// otherwise a negative length leaves the default (nil) in place
				nullable = !constant.BoolVal(lv)
				i++
			}
		}
	}
	op.Aux = fmt.Sprintf("len=%s,nullable=%v", ln, nullable)
	// if !b.Ok() { return b.Complete() }
	if is, ok := need(i).(*ast.IfStmt); !ok || is.Init != nil || is.Else != nil || len(is.Body.List) != 1 {
		bad(need(i), "missing `if !b.Ok() { return b.Complete() }` after the length read")
	} else {
		ne, ok := unparen(is.Cond).(*ast.UnaryExpr)
		rs, ok2 := is.Body.List[0].(*ast.ReturnStmt)
		if !ok || !ok2 || ne.Op != token.NOT || !x.isReaderCall(ne.X, "Ok") || len(rs.Results) != 1 || !x.isReaderCall(rs.Results[0], "Complete") {
			bad(is, "missing `if !b.Ok() { return b.Complete() }` after the length read")
		}
	}
	i++
	// a = a[:0]
	if as, ok := need(i).(*ast.AssignStmt); !ok || as.Tok != token.ASSIGN || len(as.Lhs) != 1 || !isA(as.Lhs[0]) {
		bad(need(i), "`a = a[:0]` expected")
	} else if se, ok := unparen(as.Rhs[0]).(*ast.SliceExpr); !ok || !isA(se.X) || se.Low != nil || se.High == nil {
		bad(as, "`a = a[:0]` expected")
	} else if n, ok := constInt(x.info, se.High); !ok || n != 0 {
		bad(as, "`a = a[:0]` expected")
	}
	i++
	// if l > 0 { a = append(a, make(T, l)...) }
	okAlloc := false
	if is, ok := need(i).(*ast.IfStmt); ok && is.Init == nil && is.Else == nil && len(is.Body.List) == 1 {
		if be, ok := unparen(is.Cond).(*ast.BinaryExpr); ok && be.Op == token.GTR && isL(be.X) {
			if n, ok := constInt(x.info, be.Y); ok && n == 0 {
				if as, ok := is.Body.List[0].(*ast.AssignStmt); ok && as.Tok == token.ASSIGN && len(as.Lhs) == 1 && isA(as.Lhs[0]) {
					if ac, ok := unparen(as.Rhs[0]).(*ast.CallExpr); ok && len(ac.Args) == 2 && ac.Ellipsis.IsValid() && isA(ac.Args[0]) {
						if mc, ok := unparen(ac.Args[1]).(*ast.CallExpr); ok && len(mc.Args) == 2 && isL(mc.Args[1]) {
							b1, ok1 := calleeObj(x.info, ac).(*types.Builtin)
							b2, ok2 := calleeObj(x.info, mc).(*types.Builtin)
							okAlloc = ok1 && ok2 && b1.Name() == "append" && b2.Name() == "make"
						}
					}
				}
			}
		}
	}
	if !okAlloc {
		bad(need(i), "`if l > 0 { a = append(a, make(T, l)...) }` expected")
	}
	i++
	// for i := int32(0); i < l; i++ { ... }
	fs, ok := need(i).(*ast.ForStmt)
	if !ok || fs.Init == nil || fs.Cond == nil || fs.Post == nil {
		bad(need(i), "element loop expected")
	}
	ia, ok := fs.Init.(*ast.AssignStmt)
	if !ok || ia.Tok != token.DEFINE || len(ia.Lhs) != 1 {
		bad(fs, "element loop does not start at 0")
	}
	if n, ok := constInt(x.info, ia.Rhs[0]); !ok || n != 0 {
		bad(fs, "element loop does not start at 0")
	}
	iobj := x.info.Defs[ia.Lhs[0].(*ast.Ident)]
	isI := func(e ast.Expr) bool { id, ok := unparen(e).(*ast.Ident); return ok && x.obj(id) == iobj }
	if be, ok := unparen(fs.Cond).(*ast.BinaryExpr); !ok || be.Op != token.LSS || !isI(be.X) || !isL(be.Y) {
		bad(fs, "element loop bound is not `i < l`")
	}
	if inc, ok := fs.Post.(*ast.IncDecStmt); !ok || inc.Tok != token.INC || !isI(inc.X) {
		bad(fs, "element loop step is not i++")
	}
	x.env[iobj] = &c15rval{kind: "idx", path: path}
	x.stmts(fs.Body.List, &op.Body)
	i++
	// v = a
	if as, ok := need(i).(*ast.AssignStmt); !ok || as.Tok != token.ASSIGN || len(as.Lhs) != 1 || !isA(as.Rhs[0]) {
		bad(need(i), "`v = a` expected after the element loop")
	} else if id, ok := unparen(as.Lhs[0]).(*ast.Ident); !ok || x.obj(id) != vobj {
		bad(as, "`v = a` expected after the element loop")
	}
	x.env[vobj] = &c15rval{kind: "arrdone", path: path, op: op}
	*out = append(*out, op)
	return i
}

// tagLoop handles
//
//	for i := b.Uvarint(); i > 0; i-- { switch key := b.Uvarint(); key { default: ...; case k: ... } }
func (x *c15R) tagLoop(s *ast.ForStmt, out *[]*c15Op) {
	bad := func(n ast.Node, why string) { x.fail(n, "tag section: %s", why) }
	ia, ok := s.Init.(*ast.AssignStmt)
	if !ok || ia.Tok != token.DEFINE || len(ia.Lhs) != 1 || !x.isReaderCall(ia.Rhs[0], "Uvarint") {
		bad(s, "loop does not start from the tag count b.Uvarint()")
	}
	cnt := x.info.Defs[ia.Lhs[0].(*ast.Ident)]
	isC := func(e ast.Expr) bool { id, ok := unparen(e).(*ast.Ident); return ok && x.obj(id) == cnt }
	if be, ok := unparen(s.Cond).(*ast.BinaryExpr); !ok || be.Op != token.GTR || !isC(be.X) {
		bad(s, "loop condition is not `i > 0`")
	} else if n, ok := constInt(x.info, be.Y); !ok || n != 0 {
		bad(s, "loop condition is not `i > 0`")
	}
	if dec, ok := s.Post.(*ast.IncDecStmt); !ok || dec.Tok != token.DEC || !isC(dec.X) {
		bad(s, "loop step is not i--")
	}
	if len(s.Body.List) != 1 {
		bad(s, "loop body is not a single switch")
	}
	sw, ok := s.Body.List[0].(*ast.SwitchStmt)
	if !ok || sw.Init == nil {
		bad(s, "loop body is not `switch key := b.Uvarint(); key`")
	}
	ka, ok := sw.Init.(*ast.AssignStmt)
	if !ok || ka.Tok != token.DEFINE || len(ka.Lhs) != 1 || !x.isReaderCall(ka.Rhs[0], "Uvarint") {
		bad(sw, "tag key is not read with b.Uvarint()")
	}
	key := x.info.Defs[ka.Lhs[0].(*ast.Ident)]
	if id, ok := unparen(sw.Tag).(*ast.Ident); !ok || x.obj(id) != key {
		bad(sw, "switch is not on the tag key")
	}
	outer := x.readers[len(x.readers)-1]
	// b.Span(int(b.Uvarint())) on the outer reader
	isSized := func(e ast.Expr) bool {
		c, n := x.readerCall(e)
		if c == nil || n != "Span" || len(c.Args) != 1 {
			return false
		}
		return x.isReaderCall(x.stripConv(c.Args[0]), "Uvarint")
	}
	op := &c15Op{K: "Tags", Src: x.src(s), Pos: s.Pos()}
	havePath := false
	seen := map[int]bool{}
	for _, cl := range sw.Body.List {
		cc := cl.(*ast.CaseClause)
		if cc.List == nil {
			// default: s.UnknownTags.Set(key, b.Span(int(b.Uvarint())))
			if len(cc.Body) != 1 {
				bad(cc, "default arm is not a single UnknownTags.Set")
			}
			es, ok := cc.Body[0].(*ast.ExprStmt)
			if !ok {
				bad(cc, "default arm is not a single UnknownTags.Set")
			}
			c, ok := es.X.(*ast.CallExpr)
			if !ok || len(c.Args) != 2 {
				bad(cc, "default arm is not a single UnknownTags.Set")
			}
			sel, ok := c.Fun.(*ast.SelectorExpr)
			if !ok || sel.Sel.Name != "Set" {
				bad(cc, "default arm is not a single UnknownTags.Set")
			}
			fs, ok := unparen(sel.X).(*ast.SelectorExpr)
			if !ok || fs.Sel.Name != "UnknownTags" || fieldOfSel(x.info, fs) == nil {
				bad(cc, "default arm does not store into UnknownTags")
			}
			b := x.refOf(fs.X)
			if b == nil {
				bad(cc, "default arm does not store into the message's UnknownTags")
			}
			if id, ok := unparen(c.Args[0]).(*ast.Ident); !ok || x.obj(id) != key {
				bad(cc, "unknown tag is not stored under its key")
			}
			if !isSized(c.Args[1]) {
				bad(cc, "unknown tag value is not b.Span(int(b.Uvarint()))")
			}
			op.Unknown = c15join(b.path, "UnknownTags")
			if havePath && op.Path != b.path {
				bad(cc, "unknown tags stored into a different struct than the known tags")
			}
			op.Path, havePath = b.path, true
			continue
		}
		if len(cc.List) != 1 {
			bad(cc, "multi-value case")
		}
		k, ok := constInt(x.info, cc.List[0])
		if !ok || seen[int(k)] {
			bad(cc, "case value is not a distinct constant")
		}
		seen[int(k)] = true
		n := len(cc.Body)
		if n < 3 {
			bad(cc, "case body too short")
		}
		// b := kbin.Reader{Src: b.Span(int(b.Uvarint()))}
		ra, ok := cc.Body[0].(*ast.AssignStmt)
		okR := false
		var inner types.Object
		if ok && ra.Tok == token.DEFINE && len(ra.Lhs) == 1 {
			if cl, ok := unparen(ra.Rhs[0]).(*ast.CompositeLit); ok && len(cl.Elts) == 1 {
				if nt, ok := x.info.TypeOf(cl).(*types.Named); ok && c15IsKbin(nt.Obj()) && nt.Obj().Name() == "Reader" {
					if kv, ok := cl.Elts[0].(*ast.KeyValueExpr); ok && exprStr(kv.Key) == "Src" && isSized(kv.Value) {
						inner = x.info.Defs[ra.Lhs[0].(*ast.Ident)]
						okR = true
					}
				}
			}
		}
		if !okR {
			bad(cc.Body[0], fmt.Sprintf("tag %d: value is not confined to b.Span(int(b.Uvarint()))", k))
		}
		x.env[inner] = &c15rval{kind: "reader"}
		x.readers = append(x.readers, inner)
		tg := &c15Tag{N: int(k), Src: x.src(cc), Pos: cc.Pos()}
		x.stmts(cc.Body[1:n-1], &tg.Body)
		// if err := b.Complete(); err != nil { return err }
		fin, ok := cc.Body[n-1].(*ast.IfStmt)
		okF := false
		if ok && fin.Init != nil && fin.Else == nil && len(fin.Body.List) == 1 {
			if ea, ok := fin.Init.(*ast.AssignStmt); ok && ea.Tok == token.DEFINE && len(ea.Lhs) == 1 && x.isReaderCall(ea.Rhs[0], "Complete") {
				eo := x.info.Defs[ea.Lhs[0].(*ast.Ident)]
				if be, ok := unparen(fin.Cond).(*ast.BinaryExpr); ok && be.Op == token.NEQ {
					if id, ok := unparen(be.X).(*ast.Ident); ok && x.obj(id) == eo {
						if rs, ok := fin.Body.List[0].(*ast.ReturnStmt); ok && len(rs.Results) == 1 {
							if rid, ok := unparen(rs.Results[0]).(*ast.Ident); ok && x.obj(rid) == eo {
								okF = true
							}
						}
					}
				}
			}
		}
		if !okF {
			bad(cc.Body[n-1], fmt.Sprintf("tag %d: missing `if err := b.Complete(); err != nil { return err }`", k))
		}
		x.readers = x.readers[:len(x.readers)-1]
		if x.readers[len(x.readers)-1] != outer {
			bad(cc, "reader nesting")
		}
		op.Tags = append(op.Tags, tg)
	}
	if op.Unknown == "" {
		x.violate(sw, "tag section: no default arm keeps unknown tags: they are dropped instead of being stored in UnknownTags")
	}
	// order tags by number; they must be 0..n-1
	for k := 0; k < len(op.Tags); k++ {
		for j := k + 1; j < len(op.Tags); j++ {
			if op.Tags[j].N < op.Tags[k].N {
				op.Tags[k], op.Tags[j] = op.Tags[j], op.Tags[k]
			}
		}
	}
	for _, tg := range op.Tags {
		for _, o := range tg.Body {
			if o.K == "Default" {
				continue
			}
			if !(strings.HasPrefix(o.Path, c15join(op.Path, ""))) {
				bad(sw, fmt.Sprintf("tag %d stores into %s outside %s", tg.N, o.Path, c15p(op.Path)))
			}
		}
	}
	*out = append(*out, op)
}
