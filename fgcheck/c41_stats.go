package main

import (
	"fmt"
	"go/ast"
	"go/types"
	"os"
	"sort"
	"strings"
)

// Candidate discovery for the C41 guarded-by table (debug aid, enabled with
// FGCHECK_C41_STATS=1): for every struct of kgo that has a mutex field, count
// for every sibling field how many accesses hold each sibling mutex.  The
// output is only used by the author to find candidates; the verdicts come
// from the explicit table in c41_defs.go.

func c41isMutexType(t types.Type) bool {
	s := types.Unalias(t).String()
	// under -tags synctests the kgo mutexes are the channel-backed xsync types
	return s == "sync.Mutex" || s == "sync.RWMutex" || strings.HasSuffix(s, "/xsync.Mutex") || strings.HasSuffix(s, "/xsync.RWMutex")
}

func c41isAtomicType(t types.Type) bool {
	s := types.Unalias(t).String()
	return strings.HasPrefix(s, "sync/atomic.") || strings.HasPrefix(s, "github.com/twmb/franz-go/pkg/kgo.atomic")
}

type c41structInfo struct {
	name    string
	st      *types.Struct
	mutexes []string
}

// c41structs lists named structs (and anonymous struct-typed fields, named
// Outer.field) of the package that contain at least one mutex field.
func c41structs(m *Module, pkg string) []c41structInfo {
	p := m.Pkg(pkg)
	if p == nil {
		return nil
	}
	var out []c41structInfo
	var visit func(name string, st *types.Struct)
	visit = func(name string, st *types.Struct) {
		si := c41structInfo{name: name, st: st}
		for i := 0; i < st.NumFields(); i++ {
			f := st.Field(i)
			if c41isMutexType(f.Type()) {
				si.mutexes = append(si.mutexes, f.Name())
			}
			if _, named := f.Type().(*types.Named); !named {
				if sub, ok := f.Type().Underlying().(*types.Struct); ok {
					visit(name+"."+f.Name(), sub)
				}
			}
		}
		if len(si.mutexes) > 0 {
			out = append(out, si)
		}
	}
	sc := p.Types.Scope()
	for _, n := range sc.Names() {
		tn, ok := sc.Lookup(n).(*types.TypeName)
		if !ok || tn.IsAlias() {
			continue
		}
		if st, ok := tn.Type().Underlying().(*types.Struct); ok {
			visit(n, st)
		}
	}
	return out
}

func c41stats(m *Module) {
	if os.Getenv("FGCHECK_C41_STATS") == "cow" {
		return
	}
	structs := c41structs(m, "kgo")
	owner := map[*types.Var]*c41structInfo{}
	for i := range structs {
		si := &structs[i]
		for j := 0; j < si.st.NumFields(); j++ {
			owner[si.st.Field(j)] = si
		}
	}
	type cnt struct{ rd, rdHeld, wr, wrHeld int }
	stats := map[string]*cnt{}
	unheld := map[string][]string{}
	for _, f := range m.FuncsIn("kgo") {
		env := newLockEnv(f, nil, nil)
		info := f.Info()
		pm := parentMap(f.Decl.Body)
		ast.Inspect(f.Decl.Body, func(x ast.Node) bool {
			sel, ok := x.(*ast.SelectorExpr)
			if !ok {
				return true
			}
			fv := fieldOfSel(info, sel)
			if fv == nil {
				return true
			}
			si := owner[fv.Origin()]
			if si == nil || c41isMutexType(fv.Type()) {
				return true
			}
			held, ok := env.HeldAtNode(sel)
			if !ok {
				return true
			}
			wr := c41isWrite(pm, info, sel)
			base := canonPath(f, sel.X)
			for _, mu := range si.mutexes {
				k := si.name + "." + fv.Name() + " <- " + mu
				c := stats[k]
				if c == nil {
					c = &cnt{}
					stats[k] = c
				}
				h := held.Holds(base+"."+mu, wr)
				if wr {
					c.wr++
					if h {
						c.wrHeld++
					}
				} else {
					c.rd++
					if h {
						c.rdHeld++
					}
				}
				if !h {
					w := "r"
					if wr {
						w = "W"
					}
					unheld[k] = append(unheld[k], fmt.Sprintf("%s %s %s [%s]", w, f.Key, exprStr(sel), m.Position(sel.Pos())))
				}
			}
			return true
		})
	}
	keys := sortedKeys(stats)
	sort.Strings(keys)
	for _, k := range keys {
		c := stats[k]
		if c.rdHeld+c.wrHeld == 0 {
			continue
		}
		fmt.Fprintf(os.Stderr, "STAT %-60s writes %d/%d reads %d/%d\n", k, c.wrHeld, c.wr, c.rdHeld, c.rd)
		for _, u := range unheld[k] {
			fmt.Fprintf(os.Stderr, "       unheld: %s\n", u)
		}
	}
}

// c41isWrite classifies a field selector occurrence as a write: assignment /
// inc-dec target (also through index, slice or nested field selection),
// address-of, delete/clear/append-into, range key/value target.
func c41isWrite(pm map[ast.Node]ast.Node, info *types.Info, sel ast.Expr) bool {
	var cur ast.Node = sel
	for {
		par := pm[cur]
		switch p := par.(type) {
		case *ast.ParenExpr:
			cur = p
			continue
		case *ast.IndexExpr:
			if p.X == cur {
				// element write mutates the container only for maps/slices/arrays (shared backing)
				cur = p
				continue
			}
			return false
		case *ast.SelectorExpr:
			if p.X == cur {
				// x.f.g = v writes into x.f only when f is a struct value (not a pointer)
				if tv, ok := info.Types[cur.(ast.Expr)]; ok {
					if _, isPtr := tv.Type.Underlying().(*types.Pointer); isPtr {
						return false
					}
				}
				if s := info.Selections[p]; s != nil && s.Kind() == types.FieldVal {
					cur = p
					continue
				}
			}
			return false
		case *ast.StarExpr:
			return false
		case *ast.AssignStmt:
			for _, l := range p.Lhs {
				if l == cur {
					return true
				}
			}
			return false
		case *ast.IncDecStmt:
			return p.X == cur
		case *ast.UnaryExpr:
			return p.Op.String() == "&" && p.X == cur
		case *ast.RangeStmt:
			return p.Key == cur || p.Value == cur
		case *ast.CallExpr:
			if id, ok := unparen(p.Fun).(*ast.Ident); ok && len(p.Args) > 0 && p.Args[0] == cur {
				if _, isBuiltin := info.Uses[id].(*types.Builtin); isBuiltin && (id.Name == "delete" || id.Name == "clear") {
					return true
				}
			}
			return false
		}
		return false
	}
}
