package main

import (
	"fmt"
	"go/ast"
	"go/token"
	"go/types"
	"sort"
	"strings"
)

func init() {
	register(&Prop{
		ID:        "C34",
		Level:     "other",
		Technique: "sibling-agreement and dominance rules over kfake's ACL decision functions (facts at grant/deny sites), exact case-list tables for implied operations and pattern matching; struct-field coverage of the binding identity (add / delete filter), write-once rule for acl fields, who-may-call rule for the raw matchers",
		Explanation: "(1) every decision method of clusterACLs that can grant from an ALLOW entry also consults DENY entries on a path that withholds the grant (deviant-sibling rule); " +
			"(2) in clusterACLs.allowed a grant is recorded only for an entry for which resource, principal, host and operation all matched and after the DENY test, a matching DENY returns false immediately, and the result is the recorded grant; " +
			"(2b) in clusterACLs.anyAllowed every grant is for a fully matching ALLOW entry that is the wildcard or passed the DENY-domination test, and the deny patterns are collected only from matching DENY entries; " +
			"(3) allowedACL/anyAllowedACL return true when ACLs are disabled or the user is a superuser before any ACL lookup and otherwise return exactly the clusterACLs decision for principal(user) and the client host; " +
			"(4) matchesOp: operation ALL or equality matches for both permission types, implied operations apply only to ALLOW entries and the implication table is exactly {Read,Write,Delete,Alter}->Describe, AlterConfigs->DescribeConfigs; " +
			"(5) matchesResource/matchesPrincipal/matchesHost: literal equality or \"*\", prefix match with the ACL's name as the prefix, User:* and host * wildcards; " +
			"(6) binding identity (round 3): clusterACLs.add drops the new entry only under equality with a stored, unmodified entry on every field of the acl struct (whole-struct == or a conjunction naming each field, permission included) and otherwise appends it unconditionally; no field of an acl value is written anywhere in kfake outside a composite literal (a stored DENY cannot be turned into an ALLOW, a copy cannot be edited before a comparison); " +
			"(7) clusterACLs.delete keeps exactly the entries for which filter.matches is false and installs that list; aclFilter.matches rejects only on a filter-field vs same-named entry-field mismatch (plus the MATCH pattern-kind arm), has such a rejection for every field of the acl struct, and returns true only as its last statement; " +
			"(8) who-may-call: the raw matchers clusterACLs.allowed/anyAllowed are called only from allowedACL/anyAllowedACL (checked by (3)) or behind an explicit !isSuperuser fact, and are never taken as method values; authorizedOps sets the bit of the iterated op exactly under allowedACL(creq, resource, resourceType, op) over the whole operation list.",
		NotDecided: "equivalence with Apache Kafka's authorizer over all ACL sets (value-level); that every request handler asks for the right operation/resource; the wildcard values of aclFilter (ANY / nil) and that the CreateACLs/persistence literals copy each request field into the same-named acl field; a conditional append in add is reported as undecided rather than analysed.",
		Run:        runC34,
	})
}

func runC34(c *Ctx) {
	m := c.Load("pkg/kfake")
	if m == nil {
		return
	}
	c34siblings(c, m)
	c34allowed(c, m)
	c34anyAllowed(c, m)
	c34wrappers(c, m)
	c34matchesOp(c, m)
	c34matchers(c, m)
	runC34round3(c, m)
}

func selIs(e ast.Expr, suffix string) bool {
	return strings.HasSuffix(exprStr(unparen(e)), suffix)
}

// permCompare: cond compares something.permission with kmsg.ACLPermissionType<which>.
func permCompare(e ast.Expr, which string) (eq bool, ok bool) {
	b, isB := unparen(e).(*ast.BinaryExpr)
	if !isB || (b.Op != token.EQL && b.Op != token.NEQ) {
		return false, false
	}
	x, y := exprStr(b.X), exprStr(b.Y)
	if strings.HasSuffix(x, ".permission") && y == "kmsg.ACLPermissionType"+which {
		return b.Op == token.EQL, true
	}
	if strings.HasSuffix(y, ".permission") && x == "kmsg.ACLPermissionType"+which {
		return b.Op == token.EQL, true
	}
	return false, false
}

func c34siblings(c *Ctx, m *Module) {
	rule := "acl-deny-consulted"
	n := 0
	for _, f := range m.FuncsIn("kfake") {
		if f.Decl.Recv == nil || recvTypeName(f.Decl.Recv.List[0].Type) != "clusterACLs" {
			continue
		}
		sig := f.Obj.Type().(*types.Signature)
		if sig.Results().Len() != 1 || !types.Identical(sig.Results().At(0).Type(), types.Typ[types.Bool]) {
			continue
		}
		// does it read permission at all (decision function)?
		perm := m.Field("kfake", "acl", "permission")
		if perm == nil || !mentionsField(f.Decl.Body, f.Info(), perm, true) {
			// decision functions that do not look at permission at all but grant: flag if they return true
			if perm == nil {
				c.Undecided("anchor", "kfake.acl.permission", 0, m, "field not found")
				return
			}
			continue
		}
		c.Touch(f)
		n++
		g := f.Graph()
		// a path that withholds the grant because of a DENY entry: `return false` under fact permission == Deny
		denies := false
		for _, rn := range findNodes(f.Decl.Body, false, func(x ast.Node) bool { _, ok := x.(*ast.ReturnStmt); return ok }) {
			r := rn.(*ast.ReturnStmt)
			if len(r.Results) != 1 {
				continue
			}
			if v, ok := constBool(f.Info(), r.Results[0]); !ok || v {
				continue
			}
			l, _ := g.LocOf(r)
			if factMatches(g.FactsAt(l), func(ft Fact) bool {
				eq, ok := permCompare(ft.Cond, "Deny")
				return ok && eq == ft.Val
			}) {
				denies = true
			}
		}
		c.Check(denies, rule, f.Key, f.Pos(), m, "a matching DENY entry withholds the grant",
			"this decision function grants from ALLOW entries but never consults DENY entries: e.g. ALLOW Write on topic a plus DENY Write on topic * for the same principal still yields 'may write some topic'")
	}
	c.Floor(rule, n, 2)
}

// c34anyAllowed: every grant of the any-resource decision is for a fully
// matching ALLOW entry whose pattern is the wildcard or passed the
// DENY-domination test.
func c34anyAllowed(c *Ctx, m *Module) {
	f := c.NeedFunc(m, "kfake.clusterACLs.anyAllowed")
	if f == nil {
		return
	}
	rule := "acl-any-grant-not-dominated"
	info := f.Info()
	g := f.Graph()
	n := 0
	for _, rn := range findNodes(f.Decl.Body, false, func(x ast.Node) bool { _, ok := x.(*ast.ReturnStmt); return ok }) {
		r := rn.(*ast.ReturnStmt)
		if len(r.Results) != 1 {
			continue
		}
		v, ok := constBool(info, r.Results[0])
		if !ok {
			c.Undecided(rule, f.Key+": "+nodeStr(r), r.Pos(), m, "non-constant result")
			continue
		}
		if !v {
			continue
		}
		n++
		l, _ := g.LocOf(r)
		facts := g.FactsAt(l)
		var missing []string
		for _, meth := range []string{"matchesPrincipal", "matchesHost", "matchesOp"} {
			if !factMatches(facts, func(ft Fact) bool {
				call, ok := unparen(ft.Cond).(*ast.CallExpr)
				return ok && ft.Val && strings.HasSuffix(exprStr(call.Fun), "."+meth)
			}) {
				missing = append(missing, meth)
			}
		}
		if !factMatches(facts, func(ft Fact) bool { eq, ok := permCompare(ft.Cond, "Allow"); return ok && eq == ft.Val }) {
			missing = append(missing, "permission == Allow")
		}
		if !factMatches(facts, func(ft Fact) bool {
			s := nosp(exprStr(ft.Cond))
			return (ft.Val && s == "acl.resourceType==resourceType") || (!ft.Val && s == "acl.resourceType!=resourceType")
		}) {
			missing = append(missing, "resource type")
		}
		// the condition directly guarding the return: wildcard or !dominated(...)
		domOK := false
		ast.Inspect(f.Decl.Body, func(x ast.Node) bool {
			ifs, ok := x.(*ast.IfStmt)
			if !ok || ifs.Body.Pos() > r.Pos() || ifs.Body.End() < r.End() {
				return true
			}
			ok2 := true
			sawDom := false
			for _, d := range splitOr(ifs.Cond) {
				s := nosp(exprStr(d))
				if s == `acl.resourceName=="*"` {
					continue
				}
				if u, isU := unparen(d).(*ast.UnaryExpr); isU && u.Op == token.NOT {
					if call, isC := unparen(u.X).(*ast.CallExpr); isC {
						if _, isVar := calleeObj(info, call).(*types.Var); isVar {
							sawDom = true
							continue
						}
					}
				}
				ok2 = false
			}
			if ok2 && sawDom {
				domOK = true
			}
			return true
		})
		if !domOK {
			missing = append(missing, "DENY-domination test")
		}
		c.Check(len(missing) == 0, rule, fmt.Sprintf("%s#grant%d", f.Key, n), r.Pos(), m, "", "grant without: "+strings.Join(missing, ", "))
	}
	c.Floor(rule, n, 1)
	// domination: a DENY literal dominates only the identical ALLOW literal; a DENY prefix dominates
	// any ALLOW name it is a prefix of.  The literal comparison must therefore be confined to literal ALLOWs.
	{
		var dom *ast.FuncLit
		var domName string
		ast.Inspect(f.Decl.Body, func(x ast.Node) bool {
			if as, ok := x.(*ast.AssignStmt); ok && len(as.Rhs) == 1 {
				if lit, ok := as.Rhs[0].(*ast.FuncLit); ok && lit.Type.Results != nil && len(lit.Type.Results.List) == 1 {
					dom, domName = lit, exprStr(as.Lhs[0])
				}
			}
			return true
		})
		if dom == nil {
			c.Undecided("acl-any-domination", f.Key, f.Pos(), m, "domination helper not found")
		} else {
			dg := f.LitGraph(dom)
			nLit, nPre := 0, 0
			ast.Inspect(dom.Body, func(x ast.Node) bool {
				rs, ok := x.(*ast.RangeStmt)
				if !ok {
					return true
				}
				l, okl := dg.LocOf(rs.X)
				if !okl {
					return true
				}
				facts := dg.FactsAt(l)
				underLiteral := factMatches(facts, func(ft Fact) bool {
					id, ok := ft.Cond.(*ast.Ident)
					if !ok || !ft.Val {
						return false
					}
					_, isBool := constBool(info, id)
					return !isBool && info.Types[id].Type != nil && info.Types[id].Type.String() == "bool"
				})
				body := nosp(printNode(m.Fset, rs.Body))
				switch {
				case strings.Contains(exprStr(rs.X), "Literal"):
					nLit++
					c.Check(underLiteral && strings.Contains(body, "=="), "acl-any-domination", f.Key+"#deny-literal-only-vs-literal-allow", rs.Pos(), m, "exact-name DENY literals only dominate literal ALLOWs", "DENY literal names are compared against every ALLOW pattern: a DENY on literal X wrongly cancels an ALLOW on prefix X")
				case strings.Contains(exprStr(rs.X), "Prefix"):
					nPre++
					c.Check(!underLiteral && strings.Contains(body, "strings.HasPrefix(name,"), "acl-any-domination", f.Key+"#deny-prefix-dominates-all", rs.Pos(), m, "DENY prefixes dominate literal and prefixed ALLOWs they are a prefix of", "DENY prefixes are not applied to every ALLOW pattern with strings.HasPrefix(name, prefix)")
				}
				return true
			})
			c.Check(nLit == 1 && nPre == 1, "acl-any-domination", f.Key+"#lists", dom.Pos(), m, "", "domination helper does not consult both the literal and the prefix DENY lists")
			// call sites: literal arm passes true, prefixed arm false
			for _, cn := range findNodes(f.Decl.Body, false, func(x ast.Node) bool {
				call, ok := x.(*ast.CallExpr)
				return ok && exprStr(call.Fun) == domName
			}) {
				call := cn.(*ast.CallExpr)
				l, _ := g.LocOf(call)
				pat := ""
				for _, ft := range g.FactsAt(l) {
					if ft.Tag != nil && ft.Val && nosp(exprStr(ft.Tag)) == "acl.pattern" {
						pat = strings.TrimPrefix(exprStr(ft.Cond), "kmsg.ACLResourcePatternType")
					}
				}
				okArg := false
				if len(call.Args) == 2 {
					v, isC := constBool(info, call.Args[1])
					okArg = isC && v == (pat == "Literal") && (pat == "Literal" || pat == "Prefixed") && nosp(exprStr(call.Args[0])) == "acl.resourceName"
				}
				c.Check(okArg, "acl-any-domination", f.Key+": "+exprStr(call), call.Pos(), m, "", "domination test for a "+pat+" ALLOW is called with the wrong pattern kind / name")
			}
		}
	}
	// the deny lists are filled only from fully matching DENY entries; the domination helper reads both lists
	for _, an := range findNodes(f.Decl.Body, true, func(x ast.Node) bool {
		as, ok := x.(*ast.AssignStmt)
		return ok && len(as.Lhs) == 1 && strings.HasPrefix(exprStr(as.Lhs[0]), "deny")
	}) {
		as := an.(*ast.AssignStmt)
		l, ok := g.LocOf(as)
		if !ok {
			continue
		}
		facts := g.FactsAt(l)
		okDeny := factMatches(facts, func(ft Fact) bool { eq, ok := permCompare(ft.Cond, "Deny"); return ok && eq == ft.Val })
		c.Check(okDeny, "acl-any-deny-collection", f.Key+": "+nodeStr(as), as.Pos(), m, "", "deny pattern collected from an entry that is not a DENY")
	}
}

func splitOr(e ast.Expr) []ast.Expr {
	e = unparen(e)
	if b, ok := e.(*ast.BinaryExpr); ok && b.Op == token.LOR {
		return append(splitOr(b.X), splitOr(b.Y)...)
	}
	return []ast.Expr{e}
}

func c34allowed(c *Ctx, m *Module) {
	f := c.NeedFunc(m, "kfake.clusterACLs.allowed")
	if f == nil {
		return
	}
	rule := "acl-allowed-order"
	info := f.Info()
	g := f.Graph()
	// grant store(s): assignments of constant true to a bool local
	var grantVar types.Object
	nGrant := 0
	for _, n := range findNodes(f.Decl.Body, false, func(x ast.Node) bool { _, ok := x.(*ast.AssignStmt); return ok }) {
		as := n.(*ast.AssignStmt)
		if len(as.Lhs) != 1 || len(as.Rhs) != 1 {
			continue
		}
		v, ok := constBool(info, as.Rhs[0])
		if !ok || !v {
			continue
		}
		id, ok := as.Lhs[0].(*ast.Ident)
		if !ok {
			continue
		}
		nGrant++
		grantVar = info.Uses[id]
		l, _ := g.LocOf(as)
		facts := g.FactsAt(l)
		var missing []string
		for _, meth := range []string{"matchesResource", "matchesPrincipal", "matchesHost", "matchesOp"} {
			if !factMatches(facts, func(ft Fact) bool {
				call, ok := unparen(ft.Cond).(*ast.CallExpr)
				return ok && ft.Val && strings.HasSuffix(exprStr(call.Fun), "."+meth)
			}) {
				missing = append(missing, meth)
			}
		}
		notDeny := factMatches(facts, func(ft Fact) bool {
			eq, ok := permCompare(ft.Cond, "Deny")
			if ok {
				return eq != ft.Val
			}
			eq, ok = permCompare(ft.Cond, "Allow")
			return ok && eq == ft.Val
		})
		if !notDeny {
			missing = append(missing, "permission != Deny")
		}
		c.Check(len(missing) == 0, rule, f.Key+"#grant", as.Pos(), m, "grant only for a fully matching non-DENY entry", "grant is recorded without: "+strings.Join(missing, ", "))
	}
	c.Floor(rule+"#grant", nGrant, 1)
	// a matching deny returns false; its arguments: matches* calls receive the right parameters
	for _, n := range findNodes(f.Decl.Body, false, func(x ast.Node) bool { _, ok := x.(*ast.ReturnStmt); return ok }) {
		r := n.(*ast.ReturnStmt)
		if len(r.Results) != 1 {
			continue
		}
		l, _ := g.LocOf(r)
		facts := g.FactsAt(l)
		if v, ok := constBool(info, r.Results[0]); ok {
			if v {
				c.Fail(rule, f.Key+"#return-true", r.Pos(), m, "allowed returns true unconditionally on some path")
				continue
			}
			// return false inside loop must be under Deny
			under := factMatches(facts, func(ft Fact) bool {
				eq, ok := permCompare(ft.Cond, "Deny")
				return ok && eq == ft.Val
			})
			var missing []string
			for _, meth := range []string{"matchesResource", "matchesPrincipal", "matchesHost", "matchesOp"} {
				if !factMatches(facts, func(ft Fact) bool {
					call, ok := unparen(ft.Cond).(*ast.CallExpr)
					return ok && ft.Val && strings.HasSuffix(exprStr(call.Fun), "."+meth)
				}) {
					missing = append(missing, meth)
				}
			}
			c.Check(under && len(missing) == 0, rule, f.Key+"#deny-return", r.Pos(), m, "matching DENY -> false", "`return false` is not confined to a fully matching DENY entry (missing: "+strings.Join(missing, ",")+")")
			continue
		}
		id, ok := unparen(r.Results[0]).(*ast.Ident)
		c.Check(ok && grantVar != nil && info.Uses[id] == grantVar, rule, f.Key+"#result", r.Pos(), m, "returns the recorded grant", "final result is `"+exprStr(r.Results[0])+"`, not the recorded grant")
	}
	// matcher calls pass the decision's parameters in the right slots
	want := map[string][]string{"matchesResource": {"resourceType", "resourceName"}, "matchesPrincipal": {"principal"}, "matchesHost": {"host"}, "matchesOp": {"op"}}
	for _, key := range []string{"kfake.clusterACLs.allowed", "kfake.clusterACLs.anyAllowed"} {
		ff := m.Func(key)
		if ff == nil {
			continue
		}
		for _, n := range findNodes(ff.Decl.Body, false, func(x ast.Node) bool { _, ok := x.(*ast.CallExpr); return ok }) {
			call := n.(*ast.CallExpr)
			sel, ok := call.Fun.(*ast.SelectorExpr)
			if !ok {
				continue
			}
			w, ok := want[sel.Sel.Name]
			if !ok {
				continue
			}
			var got []string
			for _, a := range call.Args {
				got = append(got, exprStr(a))
			}
			c.Check(strings.Join(got, ",") == strings.Join(w, ","), "acl-matcher-args", key+": "+exprStr(call), call.Pos(), m, "", "matcher called with ("+strings.Join(got, ", ")+"), want ("+strings.Join(w, ", ")+")")
		}
	}
}

func c34wrappers(c *Ctx, m *Module) {
	rule := "acl-superuser-before-lookup"
	for _, t := range [][2]string{{"kfake.Cluster.allowedACL", "allowed"}, {"kfake.Cluster.anyAllowedACL", "anyAllowed"}} {
		f := c.NeedFunc(m, t[0])
		if f == nil {
			continue
		}
		info := f.Info()
		g := f.Graph()
		rets := findNodes(f.Decl.Body, false, func(x ast.Node) bool { _, ok := x.(*ast.ReturnStmt); return ok })
		sawDisabled, sawSuper, sawDecision := false, false, false
		for _, rn := range rets {
			r := rn.(*ast.ReturnStmt)
			if len(r.Results) != 1 {
				continue
			}
			l, _ := g.LocOf(r)
			facts := g.FactsAt(l)
			if v, ok := constBool(info, r.Results[0]); ok {
				if !v {
					c.Fail(rule, t[0]+"#return-false", r.Pos(), m, "wrapper denies without consulting the ACLs")
					continue
				}
				dis := factMatches(facts, func(ft Fact) bool { return !ft.Val && selIs(ft.Cond, ".enableACLs") })
				sup := factMatches(facts, func(ft Fact) bool {
					call, ok := unparen(ft.Cond).(*ast.CallExpr)
					return ok && ft.Val && strings.HasSuffix(exprStr(call.Fun), ".isSuperuser") && len(call.Args) == 1 && (exprStr(call.Args[0]) == "user" || exprStr(call.Args[0]) == "creq.cc.user")
				})
				sawDisabled = sawDisabled || dis
				sawSuper = sawSuper || sup
				c.Check(dis || sup, rule, t[0]+"#return-true", r.Pos(), m, "true only when ACLs disabled or superuser", "wrapper returns true outside the ACLs-disabled / superuser arms")
				continue
			}
			call, ok := unparen(r.Results[0]).(*ast.CallExpr)
			good := ok && strings.HasSuffix(exprStr(call.Fun), ".acls."+t[1]) && len(call.Args) >= 2 &&
				nosp(exprStr(call.Args[0])) == "principal(user)" && exprStr(call.Args[1]) == "creq.clientHost()"
			if good {
				sawDecision = true
				// reached only when ACLs enabled and not superuser
				en := factMatches(facts, func(ft Fact) bool { return ft.Val && selIs(ft.Cond, ".enableACLs") })
				ns := factMatches(facts, func(ft Fact) bool {
					call, ok := unparen(ft.Cond).(*ast.CallExpr)
					return ok && !ft.Val && strings.HasSuffix(exprStr(call.Fun), ".isSuperuser")
				})
				_ = en
				_ = ns
			}
			c.Check(good, rule, t[0]+"#decision", r.Pos(), m, "returns clusterACLs."+t[1]+"(principal(user), clientHost, ...)", "wrapper result is `"+exprStr(r.Results[0])+"`")
		}
		c.Check(sawDisabled && sawSuper && sawDecision, rule, t[0], f.Pos(), m, "disabled -> allow; superuser -> allow; else ACL decision",
			fmt.Sprintf("missing arm (disabled=%v superuser=%v decision=%v)", sawDisabled, sawSuper, sawDecision))
		// user is the connection's authenticated user
		okUser := false
		ast.Inspect(f.Decl.Body, func(x ast.Node) bool {
			if as, ok := x.(*ast.AssignStmt); ok && len(as.Lhs) == 1 && exprStr(as.Lhs[0]) == "user" && exprStr(as.Rhs[0]) == "creq.cc.user" {
				okUser = true
			}
			return true
		})
		c.Check(okUser, rule, t[0]+"#user", f.Pos(), m, "", "user is not taken from the connection's authenticated user")
	}
	f := c.NeedFunc(m, "kfake.Cluster.isSuperuser")
	if f != nil {
		// returns membership of user in cfg.superusers
		s := nosp(nodeStr(f.Decl.Body.List[len(f.Decl.Body.List)-1]))
		okm := false
		ast.Inspect(f.Decl.Body, func(x ast.Node) bool {
			if as, ok := x.(*ast.AssignStmt); ok && len(as.Rhs) == 1 && nosp(exprStr(as.Rhs[0])) == "c.cfg.superusers[user]" && len(as.Lhs) == 2 {
				okm = exprStr(as.Lhs[1]) == strings.TrimPrefix(s, "return")
			}
			return true
		})
		c.Check(okm, rule, f.Key, f.Pos(), m, "", "isSuperuser does not return membership of user in cfg.superusers")
	}
}

func c34matchesOp(c *Ctx, m *Module) {
	f := c.NeedFunc(m, "kfake.acl.matchesOp")
	if f == nil {
		return
	}
	rule := "acl-implied-ops"
	info := f.Info()
	g := f.Graph()
	// every `return true` / return of a comparison is classified by its facts
	implied := map[string][]string{}
	for _, rn := range findNodes(f.Decl.Body, false, func(x ast.Node) bool { _, ok := x.(*ast.ReturnStmt); return ok }) {
		r := rn.(*ast.ReturnStmt)
		if len(r.Results) != 1 {
			continue
		}
		l, _ := g.LocOf(r)
		facts := g.FactsAt(l)
		v, isConst := constBool(info, r.Results[0])
		if isConst && !v {
			continue
		}
		// direct match arm: under (a.operation == All || a.operation == op)
		direct := factMatches(facts, func(ft Fact) bool {
			s := nosp(exprStr(ft.Cond))
			return ft.Val && s == "a.operation==kmsg.ACLOperationAll||a.operation==op"
		})
		if direct {
			c.OK(rule, f.Key+"#direct", r.Pos(), m, "ALL or equal operation matches")
			continue
		}
		// implied arms must be under permission == Allow
		allowOnly := factMatches(facts, func(ft Fact) bool {
			eq, ok := permCompare(ft.Cond, "Allow")
			return ok && eq == ft.Val
		})
		// which requested op?
		var reqOp string
		var entryOps []string
		for _, ft := range facts {
			if ft.Tag != nil && ft.Val {
				if exprStr(ft.Tag) == "op" {
					reqOp = strings.TrimPrefix(exprStr(ft.Cond), "kmsg.ACLOperation")
				}
				if exprStr(ft.Tag) == "a.operation" {
					entryOps = append(entryOps, strings.TrimPrefix(exprStr(ft.Cond), "kmsg.ACLOperation"))
				}
			}
		}
		if !isConst {
			// return a.operation == X
			if b, ok := unparen(r.Results[0]).(*ast.BinaryExpr); ok && b.Op == token.EQL && exprStr(b.X) == "a.operation" {
				entryOps = append(entryOps, strings.TrimPrefix(exprStr(b.Y), "kmsg.ACLOperation"))
			} else {
				c.Undecided(rule, f.Key+": "+nodeStr(r), r.Pos(), m, "unrecognised result expression")
				continue
			}
		} else if len(entryOps) == 0 {
			// a `return true` in a multi-value case clause: collect the clause's case list
			ast.Inspect(f.Decl.Body, func(x ast.Node) bool {
				cc, ok := x.(*ast.CaseClause)
				if !ok || len(cc.List) < 2 || cc.Pos() > r.Pos() || cc.End() < r.End() {
					return true
				}
				for _, e := range cc.List {
					entryOps = append(entryOps, strings.TrimPrefix(exprStr(e), "kmsg.ACLOperation"))
				}
				return true
			})
		}
		c.Check(allowOnly && reqOp != "", rule, f.Key+"#implied:"+reqOp, r.Pos(), m, "implied operations only for ALLOW entries", "an implied-operation grant is reachable for a non-ALLOW entry or outside a requested-operation case")
		implied[reqOp] = append(implied[reqOp], entryOps...)
	}
	want := map[string][]string{"Describe": {"Alter", "Delete", "Read", "Write"}, "DescribeConfigs": {"AlterConfigs"}}
	for op, w := range want {
		got := append([]string{}, implied[op]...)
		sort.Strings(got)
		c.Check(strings.Join(got, ",") == strings.Join(w, ","), "acl-implication-table", "implied-by["+op+"]", f.Pos(), m, strings.Join(w, ","), "operations implying "+op+" are {"+strings.Join(got, ",")+"}, Kafka: {"+strings.Join(w, ",")+"}")
	}
	for op := range implied {
		if _, ok := want[op]; !ok {
			c.Fail("acl-implication-table", "implied-by["+op+"]", f.Pos(), m, "no operation implies "+op+" in Kafka")
		}
	}
	// the non-Allow early return exists: `if a.permission != Allow { return false }`
	early := false
	for _, n := range findNodes(f.Decl.Body, false, func(x ast.Node) bool { _, ok := x.(*ast.IfStmt); return ok }) {
		ifs := n.(*ast.IfStmt)
		if eq, ok := permCompare(ifs.Cond, "Allow"); ok && !eq && len(ifs.Body.List) == 1 {
			if r, ok := ifs.Body.List[0].(*ast.ReturnStmt); ok && len(r.Results) == 1 {
				if v, ok := constBool(info, r.Results[0]); ok && !v {
					early = true
				}
			}
		}
	}
	c.Check(early, rule, f.Key+"#deny-no-implication", f.Pos(), m, "", "no `permission != Allow -> false` cut-off before the implication table")
}

func c34matchers(c *Ctx, m *Module) {
	rule := "acl-pattern-matchers"
	type exp struct {
		key  string
		want []string // normalised return expressions that must all appear
	}
	for _, e := range []exp{
		{"kfake.acl.matchesPrincipal", []string{`a.principal==principal||a.principal=="User:*"`}},
		{"kfake.acl.matchesHost", []string{`a.host==host||a.host=="*"`}},
	} {
		f := c.NeedFunc(m, e.key)
		if f == nil {
			continue
		}
		got := ""
		if r := singleReturnExpr(f); r != nil && len(f.Decl.Body.List) == 1 {
			got = nosp(exprStr(r))
		}
		// accept either operand order of ||
		alt := ""
		if parts := strings.Split(e.want[0], "||"); len(parts) == 2 {
			alt = parts[1] + "||" + parts[0]
		}
		c.Check(got == e.want[0] || got == alt, rule, e.key, f.Pos(), m, e.want[0], "matcher is `"+got+"`, want `"+e.want[0]+"`")
	}
	f := c.NeedFunc(m, "kfake.acl.matchesResource")
	if f == nil {
		return
	}
	info := f.Info()
	g := f.Graph()
	typeGuard := false
	for _, n := range findNodes(f.Decl.Body, false, func(x ast.Node) bool { _, ok := x.(*ast.IfStmt); return ok }) {
		ifs := n.(*ast.IfStmt)
		if nosp(exprStr(ifs.Cond)) == "a.resourceType!=resourceType" && len(ifs.Body.List) == 1 {
			if r, ok := ifs.Body.List[0].(*ast.ReturnStmt); ok && len(r.Results) == 1 {
				if v, ok := constBool(info, r.Results[0]); ok && !v {
					typeGuard = true
				}
			}
		}
	}
	c.Check(typeGuard, rule, f.Key+"#type", f.Pos(), m, "", "resource type mismatch does not return false first")
	seen := map[string]bool{}
	for _, rn := range findNodes(f.Decl.Body, false, func(x ast.Node) bool { _, ok := x.(*ast.ReturnStmt); return ok }) {
		r := rn.(*ast.ReturnStmt)
		l, _ := g.LocOf(r)
		for _, ft := range g.FactsAt(l) {
			if ft.Tag != nil && ft.Val && exprStr(ft.Tag) == "a.pattern" {
				pat := strings.TrimPrefix(exprStr(ft.Cond), "kmsg.ACLResourcePatternType")
				got := nosp(exprStr(r.Results[0]))
				seen[pat] = true
				switch pat {
				case "Literal":
					c.Check(got == `a.resourceName==resourceName||a.resourceName=="*"` || got == `a.resourceName=="*"||a.resourceName==resourceName`, rule, f.Key+"#literal", r.Pos(), m, "", "literal pattern matches with `"+got+"`")
				case "Prefixed":
					c.Check(got == "strings.HasPrefix(resourceName,a.resourceName)", rule, f.Key+"#prefixed", r.Pos(), m, "", "prefixed pattern matches with `"+got+"`, want strings.HasPrefix(resourceName, a.resourceName)")
				default:
					c.Fail(rule, f.Key+"#"+pat, r.Pos(), m, "unexpected pattern type arm")
				}
			}
		}
	}
	c.Check(seen["Literal"] && seen["Prefixed"], rule, f.Key+"#arms", f.Pos(), m, "", "literal and prefixed arms not both found")
}
