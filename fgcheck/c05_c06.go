package main

import (
	"fmt"
	"go/ast"
	"go/token"
	"go/types"
	"strings"

	"golang.org/x/tools/go/cfg"
)

func init() {
	register(&Prop{
		ID:        "C06",
		Level:     "other",
		Technique: "dominating-guard bounds proof (difference-bound facts, closure call-site facts, callee summaries, kmsg minimum-size summary) over the fetch decoders; who-may-write and guard-fact rules on the next-offset field, the record appender and the aborted-transaction tracker; field-mapping table of the record conversion",
		Explanation: "(1) every index/slice/binary.BigEndian access in ProcessFetchPartition (and its check closure), processRecordBatch, processV0/V1OuterMessage, readRawRecordsInto and recordToRecord is proven in bounds on every path and every make() size is proven non-negative (arbitrary bytes never panic); " +
			"(2) next-offset discipline: ProcessFetchPartitionOpts.Offset is written only in maybeKeepRecord (record.Offset+1 after the `record.Offset < o.Offset` filter), the KAFKA-5443 defer (only forward and only when the decoded count equals the claimed count, so a truncated batch never advances it) and the unknown-magic arm (only forward); " +
			"(3) records are appended to FetchPartition.Records only in maybeKeepRecord, only when not aborted, with control records forced to aborted unless KeepControlRecords; every record of a batch is offered with the batch's shouldAbortBatch verdict and the abort-marker bookkeeping is reached for every record; " +
			"(4) aborted-transaction tracking: buildAborter sorts every producer's first offsets before returning, shouldAbortBatch compares with the smallest remaining first offset and the transactional bit 0x10, trackAbortedPID pops exactly one entry (delete only when none remain) and is called at most once per batch for an abort marker (key type 0) of an aborted batch; " +
			"(5) record conversion field map: offset = FirstOffset+OffsetDelta, timestamp = FirstTimestamp+TimestampDelta64 (the deprecated 32-bit TimestampDelta is never read) or MaxTimestamp for LogAppendTime, producer fields from the batch; " +
			"(6) per-entry validation state (c06_round4.go): every local that the CRC/length-validating closure of ProcessFetchPartition captures and that the entry loop derives from the current entry (r, kind, length, lengthField, crcField, crcTable, crcAt) is assigned on every path of the iteration that reaches the closure call - no value of the previous entry or of before the loop reaches it - and the magic switch (on data[16]) sets CRC-32 IEEE from byte 16 for magic 0/1 and CRC-32C (a package variable built with MakeTable(Castagnoli)) from byte 21 for magic 2; " +
			"(7) no escape of pooled memory from (*decompressor).Decompress (c06_round4.go): every success result is fresh/unrelated memory or aliases the scratch buffer only on paths where that buffer is caller-owned (a flag that is set only right after the buffer was replaced by a constructor-built one, inside a literal that runs before the shared-pool Get; the Get and every Put of the buffer are under `buffer == nil`); a slice obtained from a pooled local, appended onto it, or returned by any callee that was given such a slice counts as aliasing unless passed through slices.Clone/bytes.Clone/append onto fresh memory; " +
			"(8) buildAborter inserts every AbortedTransactions entry (see C05 clause 2b).",
		NotDecided:  "field-by-field equality with a reference decoder on all inputs (value level), compression round trips (C19), aliasing inside the codec libraries and inside user-supplied pools (a callee given a pooled slice is assumed to possibly return it, nothing more), pooled memory other than Decompress's scratch buffer, the header slab sizing in recordToRecord (an inter-procedural sum invariant, exempted and listed).",
		Assumptions: []string{"64-bit int (index arithmetic does not overflow)", "function literals passed as call arguments run synchronously inside the callee", "kbin.Varint/Uvarint return n <= len(in) and |n| <= 5 (established by C17)"},
		Run:         runC06,
	})
	register(&Prop{
		ID:        "C05",
		Level:     "other",
		Technique: "who-may-write / constant-plumbing tables for the isolation level, guard-fact rules on the only record appender and the aborted-transaction tracker, must-pass-through of the abort-marker bookkeeping in the per-record loop, sort-key agreement of every binary search over kfake's aborted-transaction index",
		Explanation: "(1) isolation plumbing: every fetchRequest literal sets isolationLevel from cfg.isolationLevel, fetchRequest.AppendTo copies it into kmsg.FetchRequest.IsolationLevel, processRespPartition builds ProcessFetchPartitionOpts.IsolationLevel from the same config field, buildListReq stores its parameter into the list request and its caller passes cfg.isolationLevel; " +
			"(2) buildAborter is invoked exactly under IsolationLevel.level == 1 and sorts each producer's aborted first offsets; " +
			"(2b) aborter completeness (c05_round4.go): the loop over the response's whole AbortedTransactions list inserts every entry under its producer id on every path of the iteration (no continue/guard/filter - an entry whose FirstOffset is below the fetch offset is the one a fetch resuming inside that transaction needs), the map is written only by that insertion (no delete, trim or replacement), is created once, is returned only after the loop (nil only for an empty list), and the caller's aborter variable is assigned only from buildAborter(response parameter); " +
			"(3) the only append to FetchPartition.Records (maybeKeepRecord) is dominated by !abort, with abort forced for control records unless KeepControlRecords, and processRecordBatch passes shouldAbortBatch(batch) for every record; " +
			"(4) trackAbortedPID pops exactly one aborted transaction per abort marker, is reached only for control records with key type 0 of an aborted batch at most once per batch, and that bookkeeping is on every path of the per-record loop (a kept record cannot skip it); " +
			"(5) broker half in kfake: every binary search of a partition's aborted-transaction index compares the index's sort key lastOffset (>= start), and handleFetch reports each entry from there on unless it starts at or after one past the last returned offset - i.e. every aborted transaction overlapping the returned range is in AbortedTransactions (C32 checks the last-stable-offset cut of the same handler); " +
			"(6) kfake transaction outcome (c05_round4.go): pidinfo.lastWasCommit, which EndTxn retry detection answers from, is stored with endTx's commit parameter on every path of endTx (through resetTx, which stores its forwarded parameter on every path and nothing else), so all callers - EndTxn, the transaction-timeout abort, the InitProducerID fence abort, log replay - record the outcome; any other writer must be a restore from a persisted log entry (*entry.Commit), the EndTxn request's own Commit flag, or a constant equal to the request's Commit on that path; its address is taken only into a log entry.",
		NotDecided: "eventual delivery of committed data across fetches; the history-level behaviour of kfake's transaction state (clause 6 decides only where the outcome flag is written, not the retry-detection predicate that reads it, and not that pids.log replay of a `timeout` entry restores it).",
		Run:        runC05,
	})
}

var c06Funcs = []string{
	"kgo.ProcessFetchPartition", "kgo.ProcessFetchPartitionOpts.processRecordBatch", "kgo.ProcessFetchPartitionOpts.processV0OuterMessage",
	"kgo.ProcessFetchPartitionOpts.processV1OuterMessage", "kgo.readRawRecordsInto", "kgo.recordToRecord",
	"kgo.aborter.trackAbortedPID", "kgo.aborter.shouldAbortBatch", "kgo.buildAborter", "kgo.ProcessFetchPartitionOpts.maybeKeepRecord",
	"kgo.ProcessFetchPartitionOpts.processV0Message", "kgo.ProcessFetchPartitionOpts.processV1Message",
}

func runC06(c *Ctx) {
	m := c.Load("")
	if m == nil {
		return
	}
	opts := BoundsOpts{Sums: kgoSummaries, MinSize: kmsgMinSizeFunc(c, m, "kgo", []string{"MessageV0", "MessageV1", "RecordBatch"}), NoUpper: true}
	exempt := map[string]string{
		"kgo.recordToRecord: (*hslab)[:n:n]": "header slab is sized by readRawRecordsInto's header count (sum of len(Headers) of the decoded records) and each record takes its own count once: inter-procedural sum invariant, not decided",
		"kgo.recordToRecord: (*hslab)[n:]":   "same slab invariant as above",
	}
	n := boundsRuleO(c, m, "fetch-decode-bounds", c06Funcs, opts, exempt, 1<<16)
	c.Floor("fetch-decode-bounds", n, 40)
	c06ensureLen(c, m)
	c06offset(c, m)
	c06batchSkip(c, m)
	c06xerial(c, m)
	c06legacyMasks(c, m)
	cursorAdvanceRule(c, m)
	fetchKeepRules(c, m)
	abortRules(c, m)
	c05aborterComplete(c, m)
	c06recordMap(c, m)
	c06crcPerMagic(c, m)
	c06pooledEscape(c, m)
}

func runC05(c *Ctx) {
	m := c.Load("")
	if m == nil {
		return
	}
	c05plumbing(c, m)
	fetchKeepRules(c, m)
	abortRules(c, m)
	cursorAdvanceRule(c, m)
	c05aborterComplete(c, m)
	c05kfakeAbortedIndex(c)
	c05kfakeOutcome(c)
}

// c05kfakeAbortedIndex: the broker half that the client's aborter depends on.
// kfake's per-partition aborted-transaction index is ordered by lastOffset
// (the abort marker); a read_committed fetch must report every entry that
// overlaps the returned range [fetchOffset, upperBound): lower cut by binary
// search on the index's sort key (lastOffset >= start), upper cut on
// firstOffset < upperBound, reported as (producerID, firstOffset).  (C32 checks
// the LSO side of the same handler.)
func c05kfakeAbortedIndex(c *Ctx) {
	m := c.Load("pkg/kfake")
	if m == nil {
		return
	}
	rule := "kfake-aborted-index-lookup"
	fv := m.Field("kfake", "partData", "abortedTxns")
	last := m.Field("kfake", "abortedTxnEntry", "lastOffset")
	first := m.Field("kfake", "abortedTxnEntry", "firstOffset")
	if fv == nil || last == nil || first == nil {
		c.Undecided("anchor", "kfake.partData.abortedTxns", 0, m, "aborted-transaction index fields not found")
		return
	}
	// the index is appended in marker order: every append stores lastOffset from the marker's offset
	nSearch := 0
	for _, f := range m.FuncsIn("kfake") {
		info := f.Info()
		ast.Inspect(f.Decl.Body, func(x ast.Node) bool {
			call, ok := x.(*ast.CallExpr)
			if !ok || len(call.Args) != 2 {
				return true
			}
			fn, _ := calleeObj(info, call).(*types.Func)
			if fn == nil || fn.Pkg() == nil || fn.Pkg().Path() != "sort" || fn.Name() != "Search" {
				return true
			}
			// len(X.abortedTxns)
			lc, ok := unparen(call.Args[0]).(*ast.CallExpr)
			if !ok || len(lc.Args) != 1 || !sameField(fieldOfSel(info, lc.Args[0]), fv) {
				return true
			}
			nSearch++
			cons := f.Key + ": sort.Search over abortedTxns"
			lit, ok := call.Args[1].(*ast.FuncLit)
			good := false
			if ok && len(lit.Body.List) == 1 {
				if r, isR := lit.Body.List[0].(*ast.ReturnStmt); isR && len(r.Results) == 1 {
					if be, isB := unparen(r.Results[0]).(*ast.BinaryExpr); isB && be.Op == token.GEQ {
						good = sameField(fieldOfSel(info, be.X), last)
					}
				}
			}
			c.Check(good, rule, cons, call.Pos(), m, "binary search on the index's sort key lastOffset (>= start)", "the aborted-transaction index (ordered by lastOffset) is searched by another field or comparison: a transaction that started before the fetch offset but was aborted after it is not reported, so a read_committed consumer returns its aborted records")
			return true
		})
	}
	c.Floor(rule+"/searches", nSearch, 3)
	// the last stable offset moves with an append only while NO transaction is
	// open on the partition (whoever appends): a plain append behind another
	// producer's open transaction must not expose that transaction's records
	if pf := c.NeedFunc(m, "kfake.Cluster.pushBatch"); pf != nil {
		lso := m.Field("kfake", "partData", "lastStableOffset")
		pg := pf.Graph()
		k := 0
		for _, st := range storesTo(pf.Decl.Body, pf.Info(), lso, false) {
			k++
			l, _ := pg.LocOf(st.Node)
			noOpen := factMatches(pg.FactsAt(l), func(ft Fact) bool { return ft.Val && nosp(exprStr(ft.Cond)) == "len(pd.uncommittedPIDs)==0" })
			c.Check(noOpen, "kfake-lso-behind-open-transactions", pf.Key+": lastStableOffset advanced only with no open transaction", st.Node.Pos(), m, "", "pushBatch advances the last stable offset without the `no open transaction on this partition` test: a read_committed fetch then returns records of a still-open transaction, which cannot be filtered (it is not in the aborted list) and may later abort")
		}
		c.Check(k >= 1, "kfake-lso-behind-open-transactions", pf.Key+"#store", pf.Pos(), m, "", "lastStableOffset store not found in pushBatch")
	}
	f := c.NeedFunc(m, "kfake.Cluster.handleFetch")
	if f == nil {
		return
	}
	info := f.Info()
	g := f.Graph()
	nApp := 0
	ast.Inspect(f.Decl.Body, func(x ast.Node) bool {
		as, ok := x.(*ast.AssignStmt)
		if !ok || len(as.Lhs) != 1 || !strings.HasSuffix(nosp(exprStr(as.Lhs[0])), ".AbortedTransactions") {
			return true
		}
		call, ok := as.Rhs[0].(*ast.CallExpr)
		if !ok || exprStr(call.Fun) != "append" {
			return true
		}
		nApp++
		l, _ := g.LocOf(as)
		facts := g.FactsAt(l)
		var guards []string
		upper := false
		for _, ft := range facts {
			s := nosp(exprStr(ft.Cond))
			be, isB := unparen(ft.Cond).(*ast.BinaryExpr)
			if isB && sameField(fieldOfSel(info, be.X), first) {
				if be.Op == token.GEQ && !ft.Val && nosp(exprStr(be.Y)) == "upperBound" {
					upper = true
					continue
				}
				guards = append(guards, s)
				continue
			}
			if isB && sameField(fieldOfSel(info, be.X), last) {
				guards = append(guards, s)
			}
		}
		c.Check(upper && len(guards) == 0, rule, f.Key+": aborted entry reported unless it starts at or after the end of the returned range", as.Pos(), m, "", "the aborted-transaction list is filtered by "+strings.Join(guards, ", ")+" (expected only `firstOffset >= upperBound` to skip): an overlapping aborted transaction can be left out")
		return true
	})
	c.Floor(rule+"/appends", nApp, 1)
	// an entry that starts past the returned range is skipped, not a reason to stop:
	// the index is ordered by lastOffset, so a later entry can still start inside the range
	nSkip := 0
	ast.Inspect(f.Decl.Body, func(x ast.Node) bool {
		ifs, ok := x.(*ast.IfStmt)
		if !ok {
			return true
		}
		be, isB := unparen(ifs.Cond).(*ast.BinaryExpr)
		if !isB || be.Op != token.GEQ || !sameField(fieldOfSel(info, be.X), first) || nosp(exprStr(be.Y)) != "upperBound" {
			return true
		}
		nSkip++
		okCont := false
		if n := len(ifs.Body.List); n == 1 {
			if br, ok := ifs.Body.List[0].(*ast.BranchStmt); ok && br.Tok == token.CONTINUE && br.Label == nil {
				okCont = true
			}
		}
		c.Check(okCont, rule, f.Key+": entries past the range are skipped with continue", ifs.Pos(), m, "", "the scan of the aborted-transaction index stops (break/return) at the first entry that starts past the returned range: the index is ordered by abort marker, not by first offset, so an aborted transaction that started earlier but was aborted later is left out and its records are returned as committed")
		return true
	})
	c.Floor(rule+"/skip-arms", nSkip, 1)
	if o := localObj(f, "upperBound"); o != nil {
		d := singleDef(f, o)
		c.Check(d != nil && nosp(exprStr(d)) == "lastMeta.firstOffset+int64(lastMeta.lastOffsetDelta)+1", rule, f.Key+": upperBound", f.Pos(), m, "one past the last returned offset", "upperBound is not one past the last offset of the last returned batch")
	}
}

// c06ensureLen checks the shape the ensureLen summary relies on.
func c06ensureLen(c *Ctx, m *Module) {
	f := c.NeedFunc(m, "kgo.ensureLen")
	if f == nil {
		return
	}
	// every return is s[:n] under len(s) >= n, or append(s, make([]E, n-len(s))...)
	g := f.Graph()
	ok := true
	var why []string
	for _, rn := range findNodes(f.Decl.Body, false, func(x ast.Node) bool { _, ok := x.(*ast.ReturnStmt); return ok }) {
		r := rn.(*ast.ReturnStmt)
		s := nosp(exprStr(r.Results[0]))
		switch s {
		case "s[:n]":
			l, _ := g.LocOf(r)
			if !factMatches(g.FactsAt(l), func(ft Fact) bool { return ft.Val && nosp(exprStr(ft.Cond)) == "len(s)>=n" }) {
				ok = false
				why = append(why, "s[:n] not under len(s) >= n")
			}
		case "append(s,make([]E,n-len(s))...)":
		default:
			ok = false
			why = append(why, "unrecognised return "+s)
		}
	}
	c.Check(ok, "summary-shape", "kgo.ensureLen", f.Pos(), m, "returns a slice of length n", strings.Join(why, "; "))
	// precondition n >= 0 (s[:n] and make(n-len(s)) panic otherwise) at every call in the decode path
	opts := BoundsOpts{Sums: kgoSummaries}
	n := 0
	for _, k := range c06Funcs {
		cf := m.Func(k)
		if cf == nil {
			continue
		}
		for _, call := range callsTo(cf.Decl.Body, cf.Info(), f.Obj, false) {
			n++
			cs, okc := FactsAtCall(cf, cf.Decl.Body, cf.Graph(), opts, call)
			proved := false
			if okc && len(call.Args) == 2 {
				bc := newBoundsCtx(cf, cf.Decl.Body, cf.Graph(), opts)
				l := bc.linOf(call.Args[1])
				if l.ok {
					cs = bc.shapeBounds(call.Args[1], cs)
					terms := map[string]bool{l.term: true}
					for _, q := range cs {
						terms[q.x] = true
						terms[q.y] = true
					}
					cs = bc.termFacts(terms, cs)
					proved = newSolver(cs).proves(l.term, "", -l.off)
				}
			}
			c.Check(proved, "ensureLen-nonnegative", k+": "+exprStr(call), call.Pos(), m, "n >= 0 at the call", "ensureLen is called with a length not proven non-negative (s[:n] panics for n < 0)")
		}
	}
	c.Floor("ensureLen-nonnegative", n, 2)
}

func fieldMust(c *Ctx, m *Module, typ, field string) *types.Var {
	v := m.Field("kgo", typ, field)
	if v == nil {
		c.Undecided("anchor", "kgo."+typ+"."+field, 0, m, "field not found")
	}
	return v
}

func c06offset(c *Ctx, m *Module) {
	rule := "next-offset-writers"
	off := fieldMust(c, m, "ProcessFetchPartitionOpts", "Offset")
	if off == nil {
		return
	}
	n := 0
	for _, st := range StoreSites(m.FuncsIn("kgo"), off) {
		if st.Kind == "complit" {
			continue // construction of the options
		}
		n++
		c.Touch(st.Fn)
		cons := st.Fn.Key + ": " + nodeStr(st.Node)
		g := st.Fn.GraphFor(st.Node)
		l, ok := g.LocOf(st.Node)
		if !ok || st.Kind != "assign" {
			c.Fail(rule, cons, st.Node.Pos(), m, "unexpected kind of write ("+st.Kind+") to the next offset")
			continue
		}
		facts := g.FactsAt(l)
		rhs := nosp(exprStr(st.RHS))
		base := nosp(exprStr(st.LHS))
		switch {
		case st.Fn.Key == "kgo.ProcessFetchPartitionOpts.maybeKeepRecord":
			okv := rhs == "record.Offset+1" && factMatches(facts, func(ft Fact) bool {
				return !ft.Val && nosp(exprStr(ft.Cond)) == "record.Offset<"+base
			})
			c.Check(okv, rule, cons, st.Node.Pos(), m, "record.Offset+1 after the skip filter", "the next offset is set to `"+rhs+"` without the `record.Offset < o.Offset` filter having passed")
		default:
			// forward only: fact  base < rhs  or  rhs > base
			fwd := factMatches(facts, func(ft Fact) bool {
				s := nosp(exprStr(ft.Cond))
				return ft.Val && (s == base+"<"+rhs || s == rhs+">"+base)
			})
			why := ""
			if !fwd {
				why = "store is not guarded by `" + base + " < " + rhs + "` (the next offset could move backwards)"
			}
			if rhs == "nextAskOffset" {
				trunc := factMatches(facts, func(ft Fact) bool { return ft.Val && nosp(exprStr(ft.Cond)) == "numRecords==len(krecords)" })
				if !trunc {
					fwd = false
					why += " the KAFKA-5443 advance is not conditioned on numRecords == len(krecords): a truncated batch would advance the offset"
				}
			}
			c.Check(fwd, rule, cons, st.Node.Pos(), m, "forward-only", strings.TrimSpace(why))
		}
	}
	c.Floor(rule, n, 3)
	// the KAFKA-5443 advance is deferred after krecords is final: nextAskOffset = lastOffset + 1
	if f := c.NeedFunc(m, "kgo.ProcessFetchPartitionOpts.processRecordBatch"); f != nil {
		okDef := false
		ast.Inspect(f.Decl.Body, func(x ast.Node) bool {
			if as, ok := x.(*ast.AssignStmt); ok && len(as.Lhs) == 1 && exprStr(as.Lhs[0]) == "nextAskOffset" && nosp(exprStr(as.Rhs[0])) == "lastOffset+1" {
				okDef = true
			}
			return true
		})
		okLast := false
		ast.Inspect(f.Decl.Body, func(x ast.Node) bool {
			if as, ok := x.(*ast.AssignStmt); ok && len(as.Lhs) == 1 && exprStr(as.Lhs[0]) == "lastOffset" && nosp(exprStr(as.Rhs[0])) == "batch.FirstOffset+int64(batch.LastOffsetDelta)" {
				okLast = true
			}
			return true
		})
		c.Check(okDef && okLast, rule, f.Key+"#nextAskOffset", f.Pos(), m, "FirstOffset+LastOffsetDelta+1", "nextAskOffset is not FirstOffset + LastOffsetDelta + 1")
		// decompression-error returns precede any store to Offset: `return 0, 0` under err != nil of Decompress has no Offset store before it in the function except in defers registered later
		for _, rn := range findNodes(f.Decl.Body, false, func(x ast.Node) bool { _, ok := x.(*ast.ReturnStmt); return ok }) {
			r := rn.(*ast.ReturnStmt)
			g := f.Graph()
			l, _ := g.LocOf(r)
			if !factMatches(g.FactsAt(l), func(ft Fact) bool { return ft.Val && nosp(exprStr(ft.Cond)) == "err!=nil" }) {
				continue
			}
			// no defer that writes Offset dominates this return
			bad := false
			for _, dn := range findNodes(f.Decl.Body, false, func(x ast.Node) bool { _, ok := x.(*ast.DeferStmt); return ok }) {
				d := dn.(*ast.DeferStmt)
				dl, _ := g.LocOf(d)
				if g.Dominates(dl, l) && len(storesTo(d, f.Info(), off, true)) > 0 {
					bad = true
				}
			}
			c.Check(!bad, rule, f.Key+"#decompress-error-return", r.Pos(), m, "no offset advance on a decompression error", "the offset-advancing defer is registered before the decompression-error return")
		}
	}
}

// fetchKeepRules: clause (3) shared by C05 and C06.
func fetchKeepRules(c *Ctx, m *Module) {
	rule := "records-appended-only-when-kept"
	recs := fieldMust(c, m, "FetchPartition", "Records")
	if recs == nil {
		return
	}
	mk := c.NeedFunc(m, "kgo.ProcessFetchPartitionOpts.maybeKeepRecord")
	prb := c.NeedFunc(m, "kgo.ProcessFetchPartitionOpts.processRecordBatch")
	if mk == nil || prb == nil {
		return
	}
	// appends to .Records inside the decode path
	decode := map[string]bool{}
	for _, k := range c06Funcs {
		decode[k] = true
	}
	nApp := 0
	for _, st := range StoreSites(m.FuncsIn("kgo"), recs) {
		if !decode[st.Fn.Key] && st.Fn.Key != "kgo.cursorOffsetNext.processRespPartition" {
			continue
		}
		call, isCall := unparen(st.RHS).(*ast.CallExpr)
		if st.Kind != "assign" || !isCall || exprStr(call.Fun) != "append" {
			if isCall && exprStr(call.Fun) == "make" && len(call.Args) >= 2 {
				if v, ok := constInt(st.Fn.Info(), call.Args[1]); ok && v == 0 {
					continue // presizing with length 0
				}
			}
			if st.Kind == "complit" {
				continue
			}
			c.Fail(rule, st.Fn.Key+": "+nodeStr(st.Node), st.Node.Pos(), m, "records are written by something other than the keep-append")
			continue
		}
		nApp++
		cons := st.Fn.Key + ": " + nodeStr(st.Node)
		if st.Fn != mk {
			c.Fail(rule, cons, st.Node.Pos(), m, "records are appended outside maybeKeepRecord (bypasses the aborted / control / offset filters)")
			continue
		}
		g := mk.Graph()
		l, _ := g.LocOf(st.Node)
		facts := g.FactsAt(l)
		notAbort := factMatches(facts, func(ft Fact) bool { id, ok := ft.Cond.(*ast.Ident); return ok && id.Name == "abort" && !ft.Val })
		filtered := factMatches(facts, func(ft Fact) bool { return !ft.Val && nosp(exprStr(ft.Cond)) == "record.Offset<o.Offset" })
		c.Check(notAbort && filtered, rule, cons, st.Node.Pos(), m, "under !abort, after the offset filter", "append is not dominated by !abort and the offset filter")
	}
	c.Floor(rule, nApp, 1)
	// control records force abort unless KeepControlRecords; no other assignment to abort
	{
		g := mk.Graph()
		nAs := 0
		ast.Inspect(mk.Decl.Body, func(x ast.Node) bool {
			as, ok := x.(*ast.AssignStmt)
			if !ok || len(as.Lhs) != 1 || exprStr(as.Lhs[0]) != "abort" {
				return true
			}
			nAs++
			l, _ := g.LocOf(as)
			ctl := factMatches(g.FactsAt(l), func(ft Fact) bool { return ft.Val && nosp(exprStr(ft.Cond)) == "record.Attrs.IsControl()" })
			c.Check(ctl && nosp(exprStr(as.Rhs[0])) == "!o.KeepControlRecords", "control-records-dropped", mk.Key+": "+nodeStr(as), as.Pos(), m, "control -> abort unless KeepControlRecords", "abort is reassigned to `"+exprStr(as.Rhs[0])+"` outside the control-record rule")
			return true
		})
		c.Check(nAs == 1, "control-records-dropped", mk.Key+"#control-arm", mk.Pos(), m, "", fmt.Sprintf("expected exactly one reassignment of abort (control records), found %d", nAs))
		// the control test must precede the append
		var condLoc, appLoc Loc
		haveC, haveA := false, false
		ast.Inspect(mk.Decl.Body, func(x ast.Node) bool {
			if ifs, ok := x.(*ast.IfStmt); ok && nosp(exprStr(ifs.Cond)) == "record.Attrs.IsControl()" {
				condLoc, haveC = g.LocOf(ifs.Cond)
			}
			if as, ok := x.(*ast.AssignStmt); ok && len(as.Rhs) == 1 {
				if call, ok := as.Rhs[0].(*ast.CallExpr); ok && exprStr(call.Fun) == "append" && strings.HasSuffix(exprStr(as.Lhs[0]), ".Records") {
					appLoc, haveA = g.LocOf(as)
				}
			}
			return true
		})
		c.Check(haveC && haveA && g.Dominates(condLoc, appLoc), "control-records-dropped", mk.Key+"#order", mk.Pos(), m, "control test before the append", "the control-record test does not dominate the append")
	}
	// processRecordBatch: abort verdict plumbing and per-record must-pass-through
	info := prb.Info()
	mkObj := mk.Obj
	calls := callsTo(prb.Decl.Body, info, mkObj, false)
	c.Check(len(calls) == 1, "abort-verdict-plumbing", prb.Key+"#maybeKeepRecord-call", prb.Pos(), m, "", fmt.Sprintf("expected one maybeKeepRecord call in the record loop, found %d", len(calls)))
	for _, call := range calls {
		okArg := len(call.Args) == 3 && exprStr(call.Args[2]) == "abortBatch"
		// abortBatch has a single definition: aborter.shouldAbortBatch(batch)
		nDef, good := 0, false
		ast.Inspect(prb.Decl.Body, func(x ast.Node) bool {
			if as, ok := x.(*ast.AssignStmt); ok {
				for i, l := range as.Lhs {
					if exprStr(l) == "abortBatch" {
						nDef++
						if i < len(as.Rhs) && nosp(exprStr(as.Rhs[i])) == "aborter.shouldAbortBatch(batch)" {
							good = true
						}
					}
				}
			}
			return true
		})
		c.Check(okArg && nDef == 1 && good, "abort-verdict-plumbing", prb.Key+": "+exprStr(call), call.Pos(), m, "abort = aborter.shouldAbortBatch(batch)", "maybeKeepRecord is not given the batch's shouldAbortBatch verdict")
		// must-pass-through: from the call to the next iteration, the abort-marker condition is evaluated
		g := prb.Graph()
		cl, _ := g.LocOf(call)
		var loopHead *cfg.Block
		for _, b := range g.C.Blocks {
			if b.Kind == cfg.KindRangeLoop {
				if rs, ok := b.Stmt.(*ast.RangeStmt); ok && rs.Body.Pos() <= call.Pos() && call.End() <= rs.Body.End() {
					loopHead = b
				}
			}
		}
		if loopHead == nil {
			c.Undecided("abort-marker-reached", prb.Key, call.Pos(), m, "record loop not found")
			continue
		}
		isMarkerCond := func(n ast.Node) bool {
			e, ok := n.(ast.Expr)
			if !ok {
				return false
			}
			s := nosp(exprStr(e))
			return strings.Contains(s, "abortBatch") && strings.Contains(s, "IsControl()")
		}
		path, found := g.FindPath(cl, SearchOpts{Stop: isMarkerCond, GoalBlock: func(b *cfg.Block) bool { return b == loopHead },
			GoalExit: func(k ExitKind, last ast.Node) bool { return k != ExitPanic }})
		detail := ""
		if found {
			var ps []string
			for _, n := range path {
				ps = append(ps, nodeStr(n))
			}
			if len(ps) > 6 {
				ps = ps[len(ps)-6:]
			}
			detail = "a record can reach the next iteration without the abort-marker bookkeeping: " + strings.Join(ps, " -> ")
		}
		c.Check(!found, "abort-marker-reached", prb.Key+"#per-record", call.Pos(), m, "every record passes the abort-marker test", detail)
	}
}

func abortRules(c *Ctx, m *Module) {
	// buildAborter sorted
	if f := c.NeedFunc(m, "kgo.buildAborter"); f != nil {
		g := f.Graph()
		var sortLoc Loc
		haveSort := false
		ast.Inspect(f.Decl.Body, func(x ast.Node) bool {
			rs, ok := x.(*ast.RangeStmt)
			if !ok || exprStr(rs.X) != "a" {
				return true
			}
			for _, n := range findNodes(rs.Body, false, func(y ast.Node) bool { _, ok := y.(*ast.CallExpr); return ok }) {
				call := n.(*ast.CallExpr)
				fn := exprStr(call.Fun)
				if (fn == "slices.Sort" || fn == "sort.Slice" || fn == "slices.SortFunc") && len(call.Args) >= 1 && strings.HasPrefix(exprStr(call.Args[0]), "a[") {
					sortLoc, haveSort = g.LocOf(rs.X)
				}
			}
			return true
		})
		for _, rn := range findNodes(f.Decl.Body, false, func(x ast.Node) bool { _, ok := x.(*ast.ReturnStmt); return ok }) {
			r := rn.(*ast.ReturnStmt)
			if exprStr(r.Results[0]) == "nil" {
				continue
			}
			l, _ := g.LocOf(r)
			c.Check(haveSort && g.Dominates(sortLoc, l), "aborter-sorted", f.Key+": "+nodeStr(r), r.Pos(), m, "every producer's first offsets are sorted before return",
				"the aborter is returned without sorting each producer's aborted first offsets: a broker listing them out of order lets an aborted batch through")
		}
		// entries are appended per producer with FirstOffset
		okApp := false
		ast.Inspect(f.Decl.Body, func(x ast.Node) bool {
			if as, ok := x.(*ast.AssignStmt); ok && len(as.Rhs) == 1 && nosp(exprStr(as.Lhs[0])) == "a[abort.ProducerID]" && nosp(exprStr(as.Rhs[0])) == "append(a[abort.ProducerID],abort.FirstOffset)" {
				okApp = true
			}
			return true
		})
		c.Check(okApp, "aborter-sorted", f.Key+"#fill", f.Pos(), m, "", "aborted first offsets are not collected per producer ID")
	}
	// called exactly under level == 1
	if f := c.NeedFunc(m, "kgo.ProcessFetchPartition"); f != nil {
		ba := m.Object("kgo", "buildAborter")
		n := 0
		for _, site := range CallSites(m.FuncsIn("kgo"), ba) {
			n++
			g := site.Fn.GraphFor(site.Node)
			l, _ := g.LocOf(site.Node)
			lvl := factMatches(g.FactsAt(l), func(ft Fact) bool { return ft.Val && nosp(exprStr(ft.Cond)) == "o.IsolationLevel.level==1" })
			as, _ := enclosingStmt(site.Fn.Decl.Body, site.Node).(*ast.AssignStmt)
			c.Check(lvl && site.Fn == f && as != nil && exprStr(as.Lhs[0]) == "aborter", "aborter-built-for-read-committed", site.Fn.Key+": "+exprStr(site.Node), site.Node.Pos(), m, "under IsolationLevel.level == 1", "buildAborter is not called exactly under read_committed")
		}
		c.Floor("aborter-built-for-read-committed", n, 1)
		// the aborter variable reaches processRecordBatch
		prb := m.Method("kgo", "ProcessFetchPartitionOpts", "processRecordBatch")
		for _, call := range callsTo(f.Decl.Body, f.Info(), prb, true) {
			c.Check(len(call.Args) == 4 && exprStr(call.Args[2]) == "aborter", "aborter-built-for-read-committed", f.Key+": processRecordBatch(...aborter...)", call.Pos(), m, "", "processRecordBatch is not given the aborter")
		}
	}
	// shouldAbortBatch
	if f := c.NeedFunc(m, "kgo.aborter.shouldAbortBatch"); f != nil {
		info := f.Info()
		g := f.Graph()
		rule := "should-abort-batch"
		txnBit, cmp, finalTrue := false, false, false
		for _, rn := range findNodes(f.Decl.Body, false, func(x ast.Node) bool { _, ok := x.(*ast.ReturnStmt); return ok }) {
			r := rn.(*ast.ReturnStmt)
			v, ok := constBool(info, r.Results[0])
			if !ok {
				c.Undecided(rule, f.Key+": "+nodeStr(r), r.Pos(), m, "non-constant result")
				continue
			}
			l, _ := g.LocOf(r)
			facts := g.FactsAt(l)
			if v {
				finalTrue = factMatches(facts, func(ft Fact) bool { return !ft.Val && nosp(exprStr(ft.Cond)) == "b.FirstOffset<pidAborts[0]" }) &&
					factMatches(facts, func(ft Fact) bool { return !ft.Val && nosp(exprStr(ft.Cond)) == "len(pidAborts)==0" }) &&
					factMatches(facts, func(ft Fact) bool {
						if ft.Val {
							return false
						}
						b, ok := unparen(ft.Cond).(*ast.BinaryExpr)
						if !ok || b.Op != token.EQL {
							return false
						}
						x, y, ok2 := binop(b.X, token.AND)
						if !ok2 {
							return false
						}
						mv, okm := constInt(info, y)
						return okm && mv == 0x10 && nosp(exprStr(x)) == "b.Attributes"
					})
				if finalTrue {
					txnBit = true
				}
			} else {
				if factMatches(facts, func(ft Fact) bool { return ft.Val && nosp(exprStr(ft.Cond)) == "b.FirstOffset<pidAborts[0]" }) {
					cmp = true
				}
			}
		}
		okDef := false
		ast.Inspect(f.Decl.Body, func(x ast.Node) bool {
			if as, ok := x.(*ast.AssignStmt); ok && len(as.Lhs) == 1 && exprStr(as.Lhs[0]) == "pidAborts" && nosp(exprStr(as.Rhs[0])) == "a[b.ProducerID]" {
				okDef = true
			}
			return true
		})
		c.Check(finalTrue && txnBit && cmp && okDef, rule, f.Key, f.Pos(), m, "aborted iff transactional and FirstOffset >= smallest remaining aborted first offset of the producer",
			fmt.Sprintf("shape not recognised (true-arm guarded=%v, transactional bit 0x10=%v, first-offset comparison=%v, per-producer lookup=%v)", finalTrue, txnBit, cmp, okDef))
	}
	// trackAbortedPID pops exactly one
	if f := c.NeedFunc(m, "kgo.aborter.trackAbortedPID"); f != nil {
		info := f.Info()
		g := f.Graph()
		rule := "abort-marker-pops-one"
		remDef := false
		ast.Inspect(f.Decl.Body, func(x ast.Node) bool {
			if as, ok := x.(*ast.AssignStmt); ok && len(as.Lhs) == 1 && exprStr(as.Lhs[0]) == "remaining" && nosp(exprStr(as.Rhs[0])) == "pidAborts[1:]" {
				remDef = true
			}
			if as, ok := x.(*ast.AssignStmt); ok && len(as.Lhs) == 1 && exprStr(as.Lhs[0]) == "pidAborts" {
				if nosp(exprStr(as.Rhs[0])) != "a[producerID]" {
					remDef = false
				}
			}
			return true
		})
		c.Check(remDef, rule, f.Key+"#remaining", f.Pos(), m, "remaining = pidAborts[1:]", "the remaining aborted transactions are not pidAborts[1:] of a[producerID]")
		nDel, nStore := 0, 0
		ast.Inspect(f.Decl.Body, func(x ast.Node) bool {
			switch s := x.(type) {
			case *ast.CallExpr:
				if id, ok := s.Fun.(*ast.Ident); ok && id.Name == "delete" {
					if _, isB := info.Uses[id].(*types.Builtin); isB {
						nDel++
						l, _ := g.LocOf(s)
						okd := factMatches(g.FactsAt(l), func(ft Fact) bool { return ft.Val && nosp(exprStr(ft.Cond)) == "len(remaining)==0" })
						c.Check(okd, rule, f.Key+": "+exprStr(s), s.Pos(), m, "delete only when no aborted transaction remains", "the producer is deleted from the aborter while aborted transactions remain: later aborted batches of the same producer are returned as committed")
					}
				}
			case *ast.AssignStmt:
				if len(s.Lhs) == 1 && nosp(exprStr(s.Lhs[0])) == "a[producerID]" {
					nStore++
					c.Check(exprStr(s.Rhs[0]) == "remaining", rule, f.Key+": "+nodeStr(s), s.Pos(), m, "", "the producer's list is replaced by `"+exprStr(s.Rhs[0])+"`, not the remaining entries")
				}
			}
			return true
		})
		c.Check(nStore == 1, rule, f.Key+"#store", f.Pos(), m, "", "no store of the remaining entries back into the aborter")
		// call sites
		tr := f.Obj
		n := 0
		for _, site := range CallSites(m.FuncsIn("kgo"), tr) {
			n++
			g := site.Fn.GraphFor(site.Node)
			l, _ := g.LocOf(site.Node)
			facts := g.FactsAt(l)
			var missing []string
			for _, want := range []string{"abortBatch", "!abortMarkerHandled", "record.Attrs.IsControl()", "key[2]==0", "key[3]==0", "len(key)>=4"} {
				neg := strings.HasPrefix(want, "!")
				w := strings.TrimPrefix(want, "!")
				if !factMatches(facts, func(ft Fact) bool { return nosp(exprStr(ft.Cond)) == w && ft.Val == !neg }) {
					missing = append(missing, want)
				}
			}
			c.Check(len(missing) == 0 && site.Fn.Key == "kgo.ProcessFetchPartitionOpts.processRecordBatch", "abort-marker-once-per-batch", site.Fn.Key+": "+exprStr(site.Node), site.Node.Pos(), m, "only for an abort marker of an aborted batch, once", "trackAbortedPID call lacks guard(s): "+strings.Join(missing, ", "))
			// followed by abortMarkerHandled = true
			_, lost := g.FindPath(l, SearchOpts{Stop: func(n ast.Node) bool {
				as, ok := n.(*ast.AssignStmt)
				return ok && len(as.Lhs) == 1 && exprStr(as.Lhs[0]) == "abortMarkerHandled" && exprStr(as.Rhs[0]) == "true"
			}, GoalExit: func(ExitKind, ast.Node) bool { return true }, GoalBlock: func(b *cfg.Block) bool { return b.Kind == cfg.KindRangeLoop }})
			c.Check(!lost, "abort-marker-once-per-batch", site.Fn.Key+"#handled-flag", site.Node.Pos(), m, "", "the once-per-batch flag is not set after popping")
		}
		c.Floor("abort-marker-once-per-batch", n, 1)
	}
}

func c06recordMap(c *Ctx, m *Module) {
	rule := "record-field-map"
	f := c.NeedFunc(m, "kgo.recordToRecord")
	if f == nil {
		return
	}
	// the deprecated 32-bit delta is never read in kgo
	kp := f.Pkg.Imports["github.com/twmb/franz-go/pkg/kmsg"]
	if kp != nil && kp.Types != nil {
		if obj := kp.Types.Scope().Lookup("Record"); obj != nil {
			if st, ok := obj.Type().Underlying().(*types.Struct); ok {
				for i := 0; i < st.NumFields(); i++ {
					if st.Field(i).Name() == "TimestampDelta" {
						fv := st.Field(i)
						n := 0
						for _, fn := range m.FuncsIn("kgo") {
							for _, r := range readsOf(fn.Decl.Body, fn.Info(), fv, true) {
								n++
								c.Fail(rule, fn.Key+": "+exprStr(r), r.Pos(), m, "reads the deprecated 32-bit kmsg.Record.TimestampDelta: deltas beyond +-2^31 ms are truncated; TimestampDelta64 carries the value")
							}
						}
						if n == 0 {
							c.OK(rule, "kmsg.Record.TimestampDelta#no-readers", f.Pos(), m, "no reader of the truncated delta in kgo")
						}
					}
				}
			}
		}
	}
	want := map[string]string{
		"Key": "krecord.Key", "Value": "krecord.Value", "Headers": "h", "Topic": "topic", "Partition": "partition",
		"ProducerID": "batch.ProducerID", "ProducerEpoch": "batch.ProducerEpoch", "LeaderEpoch": "batch.PartitionLeaderEpoch",
	}
	got := map[string]string{}
	ast.Inspect(f.Decl.Body, func(x ast.Node) bool {
		if cl, ok := x.(*ast.CompositeLit); ok && exprStr(cl.Type) == "Record" {
			for _, e := range cl.Elts {
				if kv, ok := e.(*ast.KeyValueExpr); ok {
					got[exprStr(kv.Key)] = nosp(exprStr(kv.Value))
				}
			}
		}
		return true
	})
	for k, w := range want {
		c.Check(got[k] == w, rule, f.Key+"#"+k, f.Pos(), m, w, "Record."+k+" is set from `"+got[k]+"`, want "+w)
	}
	// attrs from the batch attributes
	attrsOK := false
	ast.Inspect(f.Decl.Body, func(x ast.Node) bool {
		if kv, ok := x.(*ast.KeyValueExpr); ok && exprStr(kv.Key) == "Attrs" {
			if cl, ok := kv.Value.(*ast.CompositeLit); ok && len(cl.Elts) == 1 && nosp(exprStr(cl.Elts[0])) == "uint8(batch.Attributes)" {
				attrsOK = true
			}
		}
		return true
	})
	c.Check(attrsOK, rule, f.Key+"#Attrs", f.Pos(), m, "uint8(batch.Attributes)", "record attributes are not the batch attributes")
	g := f.Graph()
	for _, n := range findNodes(f.Decl.Body, false, func(x ast.Node) bool { _, ok := x.(*ast.AssignStmt); return ok }) {
		as := n.(*ast.AssignStmt)
		if len(as.Lhs) != 1 {
			continue
		}
		l, _ := g.LocOf(as)
		facts := g.FactsAt(l)
		switch exprStr(as.Lhs[0]) {
		case "r.Offset":
			rhs := nosp(exprStr(as.Rhs[0]))
			if factMatches(facts, func(ft Fact) bool { return ft.Val && nosp(exprStr(ft.Cond)) == "batch.FirstOffset==-1" }) {
				c.Check(rhs == "-1", rule, f.Key+"#Offset(-1)", as.Pos(), m, "", "offset for an unassigned batch is "+rhs)
			} else {
				c.Check(rhs == "batch.FirstOffset+int64(krecord.OffsetDelta)", rule, f.Key+"#Offset", as.Pos(), m, "FirstOffset+OffsetDelta", "record offset is computed as `"+rhs+"`")
			}
		case "r.Timestamp":
			rhs := nosp(exprStr(as.Rhs[0]))
			create := factMatches(facts, func(ft Fact) bool { return ft.Val && nosp(exprStr(ft.Cond)) == "r.Attrs.TimestampType()==0" })
			if create {
				c.Check(rhs == "timeFromMillis(batch.FirstTimestamp+krecord.TimestampDelta64)", rule, f.Key+"#Timestamp(create)", as.Pos(), m, "FirstTimestamp+TimestampDelta64", "CreateTime timestamp is `"+rhs+"`")
			} else {
				c.Check(rhs == "timeFromMillis(batch.MaxTimestamp)", rule, f.Key+"#Timestamp(logappend)", as.Pos(), m, "MaxTimestamp", "LogAppendTime timestamp is `"+rhs+"`")
			}
		}
	}
}

func c05plumbing(c *Ctx, m *Module) {
	rule := "isolation-level-plumbing"
	funcs := m.FuncsIn("kgo")
	iso := fieldMust(c, m, "fetchRequest", "isolationLevel")
	if iso == nil {
		return
	}
	// every fetchRequest composite literal sets isolationLevel from cfg.isolationLevel
	nLit := 0
	for _, f := range funcs {
		ast.Inspect(f.Decl.Body, func(x ast.Node) bool {
			cl, ok := x.(*ast.CompositeLit)
			if !ok {
				return true
			}
			tv := f.Info().Types[cl]
			n, _ := tv.Type.(*types.Named)
			if n == nil || n.Obj().Name() != "fetchRequest" || n.Obj().Pkg().Name() != "kgo" {
				return true
			}
			nLit++
			c.Touch(f)
			val := ""
			for _, e := range cl.Elts {
				if kv, ok := e.(*ast.KeyValueExpr); ok && exprStr(kv.Key) == "isolationLevel" {
					val = nosp(exprStr(kv.Value))
				}
			}
			c.Check(strings.HasSuffix(val, "cfg.isolationLevel"), rule, f.Key+"#fetchRequest-literal", cl.Pos(), m, val, "fetchRequest is built with isolationLevel `"+val+"` instead of cfg.isolationLevel")
			return true
		})
	}
	c.Floor(rule+"#literals", nLit, 2)
	for _, st := range StoreSites(funcs, iso) {
		if st.Kind != "complit" {
			c.Fail(rule, st.Fn.Key+": "+nodeStr(st.Node), st.Node.Pos(), m, "fetchRequest.isolationLevel is modified after construction")
		}
	}
	// AppendTo copies it
	if f := c.NeedFunc(m, "kgo.fetchRequest.AppendTo"); f != nil {
		ok := false
		ast.Inspect(f.Decl.Body, func(x ast.Node) bool {
			if as, ok2 := x.(*ast.AssignStmt); ok2 && len(as.Lhs) == 1 && exprStr(as.Lhs[0]) == "req.IsolationLevel" && exprStr(as.Rhs[0]) == "f.isolationLevel" {
				ok = true
			}
			return true
		})
		c.Check(ok, rule, f.Key+"#wire", f.Pos(), m, "req.IsolationLevel = f.isolationLevel", "the wire request's IsolationLevel is not copied from the fetchRequest")
	}
	if f := c.NeedFunc(m, "kgo.cursorOffsetNext.processRespPartition"); f != nil {
		ok := false
		ast.Inspect(f.Decl.Body, func(x ast.Node) bool {
			if kv, ok2 := x.(*ast.KeyValueExpr); ok2 && exprStr(kv.Key) == "IsolationLevel" {
				if cl, ok3 := kv.Value.(*ast.CompositeLit); ok3 && len(cl.Elts) == 1 && strings.HasSuffix(nosp(exprStr(cl.Elts[0])), "cfg.isolationLevel") {
					ok = true
				}
			}
			return true
		})
		c.Check(ok, rule, f.Key+"#opts", f.Pos(), m, "", "ProcessFetchPartitionOpts.IsolationLevel is not built from cfg.isolationLevel")
	}
	if f := c.NeedFunc(m, "kgo.offsetLoadMap.buildListReq"); f != nil {
		ok := false
		ast.Inspect(f.Decl.Body, func(x ast.Node) bool {
			if as, ok2 := x.(*ast.AssignStmt); ok2 && len(as.Lhs) == 1 && exprStr(as.Lhs[0]) == "r1.IsolationLevel" && exprStr(as.Rhs[0]) == "isolationLevel" {
				ok = true
			}
			return true
		})
		// r2 is a copy of r1
		cp := false
		ast.Inspect(f.Decl.Body, func(x ast.Node) bool {
			if as, ok2 := x.(*ast.AssignStmt); ok2 && len(as.Lhs) == 1 && nosp(exprStr(as.Lhs[0])) == "*r2" && nosp(exprStr(as.Rhs[0])) == "*r1" {
				cp = true
			}
			return true
		})
		c.Check(ok && cp, rule, f.Key, f.Pos(), m, "", "list-offsets requests do not carry the isolation level (r1 store / r2 copy)")
		for _, site := range CallSites(funcs, f.Obj) {
			call := site.Node.(*ast.CallExpr)
			c.Check(len(call.Args) == 1 && strings.HasSuffix(nosp(exprStr(call.Args[0])), "cfg.isolationLevel"), rule, site.Fn.Key+": "+exprStr(call), call.Pos(), m, "", "buildListReq is not passed cfg.isolationLevel")
		}
	}
	// cfg.isolationLevel written only by the option
	cf := fieldMust(c, m, "cfg", "isolationLevel")
	if cf != nil {
		for _, st := range StoreSites(funcs, cf) {
			okw := st.Fn.Key == "kgo.FetchIsolationLevel" || st.Kind == "complit"
			c.Check(okw, rule, st.Fn.Key+": "+nodeStr(st.Node), st.Node.Pos(), m, "", "cfg.isolationLevel is written outside the FetchIsolationLevel option / defaults")
		}
	}
}

// c06batchSkip: a whole batch is skipped without decoding only when its last
// offset (FirstOffset + LastOffsetDelta, which compaction preserves) is below
// the requested offset.  NumRecords shrinks under compaction and must not
// decide the skip.
func c06batchSkip(c *Ctx, m *Module) {
	rule := "batch-skip-by-last-offset"
	f := c.NeedFunc(m, "kgo.ProcessFetchPartitionOpts.processRecordBatch")
	if f == nil {
		return
	}
	g := f.Graph()
	info := f.Info()
	// returns before the records are read
	var readCall *ast.CallExpr
	for _, call := range callsNamed(f.Decl.Body, info, "readRawRecordsInto", false) {
		readCall = call
	}
	if readCall == nil {
		c.Undecided(rule, f.Key+"#decode", f.Pos(), m, "readRawRecordsInto call not found")
		return
	}
	rl, _ := g.LocOf(readCall)
	lo := localObj(f, "lastOffset")
	var ld ast.Expr
	if lo != nil {
		ld = singleDef(f, lo)
	}
	c.Check(ld != nil && nosp(exprStr(ld)) == "batch.FirstOffset+int64(batch.LastOffsetDelta)", rule, f.Key+": lastOffset", f.Pos(), m, "FirstOffset + LastOffsetDelta", "lastOffset is not batch.FirstOffset + int64(batch.LastOffsetDelta)")
	n, k := 0, 0
	ast.Inspect(f.Decl.Body, func(x ast.Node) bool {
		if _, isLit := x.(*ast.FuncLit); isLit {
			return false
		}
		r, ok := x.(*ast.ReturnStmt)
		if !ok {
			return true
		}
		l, okl := g.LocOf(r)
		if !okl || g.reachFwd(rl, l) {
			return true // after the decode
		}
		// an early return: either an error was recorded (fp.Err store in the same block) or it is the skip
		blk := innerBlock(f.Decl.Body, r)
		hasErr := blk != nil && containsNode(blk, false, func(y ast.Node) bool {
			as, ok := y.(*ast.AssignStmt)
			return ok && len(as.Lhs) == 1 && nosp(exprStr(as.Lhs[0])) == "fp.Err"
		})
		if hasErr {
			return true
		}
		n++
		facts := g.FactsAt(l)
		var guards []string
		okSkip := false
		for _, ft := range facts {
			s := nosp(exprStr(ft.Cond))
			if ft.Val && s == "lastOffset<o.Offset" {
				okSkip = true
				continue
			}
			if ft.Val {
				guards = append(guards, s)
			}
		}
		c.Check(okSkip && len(guards) == 0, rule, f.Key+": silent skip of a batch#"+ordinal(&k), r.Pos(), m, "only when lastOffset < o.Offset", "a batch is skipped without decoding under `"+strings.Join(guards, ", ")+"` instead of lastOffset < o.Offset: a compacted batch (fewer records than its offset range) that still holds wanted records is dropped, and the next offset does not move past it")
		return true
	})
	c.Floor(rule+"/silent-skips", n, 1)
}

// cursorAdvanceRule: the offset ProcessFetchPartition returns is stored into
// the cursor entry unconditionally - also when every record of the response
// was filtered out (aborted data, control records, compacted-away batches) -
// otherwise the same bytes are fetched forever and nothing behind them is
// ever delivered.
func cursorAdvanceRule(c *Ctx, m *Module) {
	rule := "cursor-advances-past-filtered-data"
	f := c.NeedFunc(m, "kgo.cursorOffsetNext.processRespPartition")
	if f == nil {
		return
	}
	info := f.Info()
	g := f.Graph()
	off := m.Field("kgo", "cursorOffset", "offset")
	n := 0
	ast.Inspect(f.Decl.Body, func(x ast.Node) bool {
		as, ok := x.(*ast.AssignStmt)
		if !ok || len(as.Rhs) != 1 || len(as.Lhs) != 2 {
			return true
		}
		call, ok := as.Rhs[0].(*ast.CallExpr)
		if !ok || calleeName(info, call) != "kgo.ProcessFetchPartition" {
			return true
		}
		n++
		cons := f.Key + ": next offset of ProcessFetchPartition"
		if sameField(fieldOfSel(info, as.Lhs[1]), off) {
			c.OK(rule, cons, as.Pos(), m, "stored into the cursor entry directly")
			return true
		}
		id, isID := as.Lhs[1].(*ast.Ident)
		if !isID {
			c.Fail(rule, cons, as.Pos(), m, "the next offset returned by ProcessFetchPartition is discarded")
			return true
		}
		obj := info.Defs[id]
		if obj == nil {
			obj = info.Uses[id]
		}
		// every path from the call to an exit stores it into o.offset
		al, _ := g.LocOf(as)
		isStore := func(nd ast.Node) bool {
			s2, ok := nd.(*ast.AssignStmt)
			if !ok {
				return false
			}
			for i, l := range s2.Lhs {
				if sameField(fieldOfSel(info, l), off) && i < len(s2.Rhs) {
					if rid, ok := unparen(s2.Rhs[i]).(*ast.Ident); ok && info.Uses[rid] == obj {
						return true
					}
				}
			}
			return false
		}
		path, found := g.FindPath(al, SearchOpts{Stop: isStore, GoalExit: func(k ExitKind, last ast.Node) bool { return k != ExitPanic }})
		c.Check(!found, rule, cons, as.Pos(), m, "stored into the cursor entry on every path", "the next offset is stored into the cursor only on some paths ("+pathStr(path)+"): a response whose records were all filtered out (aborted transaction, control batch) never moves the cursor, the same data is fetched forever and nothing behind it is delivered")
		return true
	})
	c.Floor(rule+"/calls", n, 1)
}

// c06xerial: the multi-chunk snappy ("xerial") decoder decodes every chunk
// into one reused scratch buffer, so the output it accumulates must be built
// by copying each chunk (append(out, chunk...)); aliasing the output to the
// scratch buffer lets a later chunk overwrite an earlier one.
func c06xerial(c *Ctx, m *Module) {
	rule := "xerial-output-copied"
	f := c.NeedFunc(m, "kgo.xerialDecode")
	if f == nil {
		return
	}
	info := f.Info()
	// the accumulator: the identifier returned with a nil error
	var acc types.Object
	ast.Inspect(f.Decl.Body, func(x ast.Node) bool {
		r, ok := x.(*ast.ReturnStmt)
		if ok && len(r.Results) == 2 && exprStr(r.Results[1]) == "nil" {
			if id, ok := r.Results[0].(*ast.Ident); ok {
				acc = info.Uses[id]
			}
		}
		return true
	})
	if acc == nil {
		c.Undecided(rule, f.Key+"#result", f.Pos(), m, "success return of an identifier not found")
		return
	}
	// the scratch: the identifier that receives s2.Decode's result
	var scratch types.Object
	ast.Inspect(f.Decl.Body, func(x ast.Node) bool {
		as, ok := x.(*ast.AssignStmt)
		if !ok || len(as.Rhs) != 1 {
			return true
		}
		if call, ok := as.Rhs[0].(*ast.CallExpr); ok {
			if fn, ok := calleeObj(info, call).(*types.Func); ok && fn.Name() == "Decode" && fn.Pkg() != nil && strings.HasSuffix(fn.Pkg().Path(), "/s2") {
				if id, ok := as.Lhs[0].(*ast.Ident); ok {
					scratch = info.Uses[id]
					if scratch == nil {
						scratch = info.Defs[id]
					}
				}
			}
		}
		return true
	})
	c.Check(scratch != nil && scratch != acc, rule, f.Key+": chunks decode into a scratch buffer distinct from the output", f.Pos(), m, "", "the chunk decode target is the output itself or was not found")
	n := 0
	for _, rhs := range assignsTo(f, acc) {
		ok := false
		if call, isCall := rhs.(*ast.CallExpr); isCall && exprStr(call.Fun) == "append" && len(call.Args) == 2 && call.Ellipsis != token.NoPos {
			if a0, isID := call.Args[0].(*ast.Ident); isID && info.Uses[a0] == acc {
				if a1, isID := call.Args[1].(*ast.Ident); isID && info.Uses[a1] == scratch {
					ok = true
				}
			}
		}
		c.Check(ok, rule, f.Key+": output = "+exprStr(rhs)+"#"+ordinal(&n), f.Pos(), m, "each chunk is copied onto the output", "the output is assigned `"+exprStr(rhs)+"` instead of append(output, chunk...): it aliases the reused scratch buffer, and a later chunk overwrites the bytes of an earlier one (multi-block xerial frames from Java producers decode to corrupt records)")
	}
	c.Floor(rule+"/output-stores", n, 1)
}

// c06legacyMasks: the reserved-attribute test of the pre-0.11 message formats.
// Magic 0 uses the low three bits (compression); magic 1 additionally uses bit 3
// (timestamp type, set for LogAppendTime topics).  Rejecting bit 3 on a v1
// message drops valid data.
func c06legacyMasks(c *Ctx, m *Module) {
	rule := "legacy-message-reserved-bits"
	for _, w := range []struct {
		key  string
		mask int64
	}{{"kgo.ProcessFetchPartitionOpts.processV0Message", 0xF8}, {"kgo.ProcessFetchPartitionOpts.processV1Message", 0xF0}} {
		f := c.NeedFunc(m, w.key)
		if f == nil {
			continue
		}
		info := f.Info()
		n := 0
		ast.Inspect(f.Decl.Body, func(x ast.Node) bool {
			be, ok := x.(*ast.BinaryExpr)
			if !ok || be.Op != token.AND || !strings.Contains(nosp(exprStr(be.X)), ".Attributes") {
				return true
			}
			v, isC := constInt(info, be.Y)
			if !isC || v < 0x10 {
				return true // the compression / codec mask
			}
			n++
			c.Check(v == w.mask, rule, fmt.Sprintf("%s: reserved attribute mask", w.key), be.Pos(), m, fmt.Sprintf("%#x", w.mask), fmt.Sprintf("the reserved-bits mask is %#x, the format reserves %#x: valid messages (e.g. magic 1 with the LogAppendTime bit 0x08) are rejected and everything after them is not returned", v, w.mask))
			return true
		})
		c.Check(n == 1, rule, w.key+"#mask", f.Pos(), m, "", "reserved attribute test not found")
	}
}
