package main

import (
	"go/ast"
	"go/types"
	"strings"
)

// Round-4 rule of C36: width/signedness agreement of the conversion chains
// between the Go-side schema ID / index values and their wire form.
//
// The ID travels  Register(id int) -> tserde.id (uint32) -> int(t.id) ->
// byte(id>>24..0)  on the way out and  BigEndian.Uint32(b[1:5]) -> ... -> int
// on the way in.  Every value in [0, 2^32) must survive: on the way in every
// conversion / intermediate variable between the Uint32 call and the returned
// int must be able to hold all of uint32 (uint32, uint, uint64, uintptr, int64,
// int); on the way out only the low 32 bits matter, so every step must be at
// least 32 bits wide.  The index elements travel int -> int64 -> varint ->
// int64 -> int; every step must be int or int64.

type c36chainStep struct {
	what string
	typ  types.Type
	pos  ast.Node
}

// c36chain walks from e towards its source through conversions and local
// variables with a single definition.  It returns the steps (types the value
// takes on the way) and the source expression where the walk stopped.
func c36chain(f *Func, e ast.Expr) (steps []c36chainStep, src ast.Expr) {
	info := f.Info()
	for depth := 0; depth < 12; depth++ {
		e = unparen(e)
		switch x := e.(type) {
		case *ast.CallExpr:
			if tv, ok := info.Types[x.Fun]; ok && tv.IsType() && len(x.Args) == 1 {
				steps = append(steps, c36chainStep{"conversion " + nosp(exprStr(x.Fun)) + "(...)", tv.Type, x})
				e = x.Args[0]
				continue
			}
			return steps, e
		case *ast.Ident:
			v := c36identObj(info, x)
			if v == nil || v.IsField() {
				return steps, e
			}
			// definitions: single-value, or a result of a single multi-value call
			var rhs []ast.Expr
			nDefs := 0
			other := false
			ast.Inspect(f.Decl.Body, func(n ast.Node) bool {
				switch s := n.(type) {
				case *ast.AssignStmt:
					for i, l := range s.Lhs {
						if c36identObj(info, l) != v {
							continue
						}
						nDefs++
						if len(s.Lhs) == len(s.Rhs) {
							rhs = append(rhs, s.Rhs[i])
						} else if len(s.Rhs) == 1 {
							rhs = append(rhs, s.Rhs[0])
						} else {
							other = true
						}
					}
				case *ast.ValueSpec:
					for i, nm := range s.Names {
						if info.Defs[nm] == types.Object(v) && i < len(s.Values) {
							nDefs++
							rhs = append(rhs, s.Values[i])
						}
					}
				case *ast.UnaryExpr:
					if s.Op.String() == "&" && c36identObj(info, s.X) == v {
						other = true
					}
				case *ast.IncDecStmt:
					if c36identObj(info, s.X) == v {
						other = true
					}
				}
				return true
			})
			if other || nDefs != 1 || len(rhs) != 1 {
				return steps, e // parameter, range variable, or several definitions
			}
			steps = append(steps, c36chainStep{"variable " + v.Name(), v.Type(), x})
			e = rhs[0]
			continue
		}
		return steps, e
	}
	return steps, e
}

func c36basic(t types.Type) *types.Basic {
	b, _ := t.Underlying().(*types.Basic)
	return b
}

// holds every uint32 value (int is as wide as the writer's int)
func c36holdsUint32(t types.Type) bool {
	b := c36basic(t)
	if b == nil {
		return false
	}
	switch b.Kind() {
	case types.Uint32, types.Uint64, types.Uint, types.Uintptr, types.Int64, types.Int:
		return true
	}
	return false
}

// keeps the low 32 bits
func c36atLeast32(t types.Type) bool {
	b := c36basic(t)
	if b == nil {
		return false
	}
	switch b.Kind() {
	case types.Uint32, types.Uint64, types.Uint, types.Uintptr, types.Int64, types.Int, types.Int32:
		return true
	}
	return false
}

func c36intOrInt64(t types.Type) bool {
	b := c36basic(t)
	return b != nil && (b.Kind() == types.Int || b.Kind() == types.Int64)
}

func c36badSteps(steps []c36chainStep, ok func(types.Type) bool) []string {
	var bad []string
	for _, s := range steps {
		if !ok(s.typ) {
			bad = append(bad, s.what+" has type "+s.typ.String())
		}
	}
	return bad
}

func c36isFuncKey(info *types.Info, e ast.Expr, keys ...string) bool {
	call, ok := unparen(e).(*ast.CallExpr)
	if !ok {
		return false
	}
	fn, ok := calleeObj(info, call).(*types.Func)
	if !ok {
		return false
	}
	k := keyOfObj(fn)
	for _, want := range keys {
		if k == want {
			return true
		}
	}
	return false
}

func c36round4(c *Ctx, m *Module) {
	c36decodeNoExtraReject(c, m)
	rule := "sr-id-width-agree"
	n := 0
	// reader: DecodeID's returned ID
	if f := c.NeedFunc(m, "sr.ConfluentHeader.DecodeID"); f != nil {
		info := f.Info()
		for _, rn := range findNodes(f.Decl.Body, false, func(x ast.Node) bool { _, ok := x.(*ast.ReturnStmt); return ok }) {
			r := rn.(*ast.ReturnStmt)
			if len(r.Results) != 3 || exprStr(r.Results[2]) != "nil" {
				continue
			}
			n++
			steps, src := c36chain(f, r.Results[0])
			con := f.Key + "#returned-id-chain"
			if !c36isFuncKey(info, src, "binary.bigEndian.Uint32") {
				c.Undecided(rule, con, r.Pos(), m, "the returned ID is not traced back to binary.BigEndian.Uint32 (stopped at `"+nosp(exprStr(src))+"`)")
				continue
			}
			bad := c36badSteps(steps, c36holdsUint32)
			c.Check(len(bad) == 0, rule, con, r.Pos(), m, "uint32 -> int without a narrower or signed 32-bit step",
				"the four ID bytes are read back through a type that cannot hold every uint32 ("+strings.Join(bad, "; ")+") while the writer emits uint32(id): a registered ID >= 2^31 decodes to id-2^32 and Serde.Decode returns ErrNotRegistered for the Serde's own output")
		}
	}
	// reader: DecodeIndex's elements
	if f := c.NeedFunc(m, "sr.ConfluentHeader.DecodeIndex"); f != nil {
		info := f.Info()
		for _, an := range findNodes(f.Decl.Body, false, func(x ast.Node) bool { _, ok := x.(*ast.AssignStmt); return ok }) {
			as := an.(*ast.AssignStmt)
			if len(as.Lhs) != 1 || len(as.Rhs) != 1 {
				continue
			}
			ix, ok := unparen(as.Lhs[0]).(*ast.IndexExpr)
			if !ok {
				continue
			}
			if tv, ok := info.Types[ix.X]; !ok || tv.Type == nil {
				continue
			} else if sl, ok := tv.Type.Underlying().(*types.Slice); !ok || !c36intOrInt64(sl.Elem()) {
				continue
			}
			n++
			steps, src := c36chain(f, as.Rhs[0])
			con := f.Key + ": " + nosp(exprStr(as.Lhs[0])) + "#element-chain"
			if !c36isFuncKey(info, src, "binary.ReadVarint") {
				c.Undecided(rule, con, as.Pos(), m, "the stored index element is not traced back to binary.ReadVarint (stopped at `"+nosp(exprStr(src))+"`)")
				continue
			}
			bad := c36badSteps(steps, c36intOrInt64)
			c.Check(len(bad) == 0, rule, con, as.Pos(), m, "int64 -> int", "an index element is read back through a narrower or unsigned type ("+strings.Join(bad, "; ")+") while the writer emits int64(idx)")
		}
	}
	// writer: header AppendEncode: ID shift operands and index varint arguments
	if f := c.NeedFunc(m, "sr.ConfluentHeader.AppendEncode"); f != nil {
		info := f.Info()
		for _, cn := range findNodes(f.Decl.Body, false, func(x ast.Node) bool { _, ok := x.(*ast.CallExpr); return ok }) {
			call := cn.(*ast.CallExpr)
			if c36isFuncKey(info, call, "binary.AppendVarint") && len(call.Args) == 2 {
				n++
				steps, src := c36chain(f, call.Args[1])
				bad := c36badSteps(steps, c36intOrInt64)
				if tv, ok := info.Types[src]; ok && tv.Type != nil && !c36intOrInt64(tv.Type) {
					bad = append(bad, "source `"+nosp(exprStr(src))+"` has type "+tv.Type.String())
				}
				c.Check(len(bad) == 0, rule, f.Key+": AppendVarint("+nosp(exprStr(call.Args[1]))+")#chain", call.Pos(), m, "int -> int64", "an index value is narrowed before it is written ("+strings.Join(bad, "; ")+")")
			}
		}
		// the shifted ID operand (rule sr-header-writer-reader-agree pins it to the parameter `id`): at least 32 bits
		if f.Decl.Type.Params != nil {
			for _, fl := range f.Decl.Type.Params.List {
				for _, nm := range fl.Names {
					if nm.Name == "id" {
						n++
						t := info.Defs[nm].Type()
						c.Check(c36atLeast32(t), rule, f.Key+"#id-param-width", nm.Pos(), m, "id is "+t.String(), "the ID parameter is narrower than 32 bits")
					}
				}
			}
		}
	}
	// Serde side: Register stores the ID into tserde.id, AppendEncode hands it to the header
	idField := m.Field("sr", "tserde", "id")
	if idField == nil {
		c.Undecided(rule, "sr.tserde.id", 0, m, "field not found")
	} else {
		n++
		c.Check(c36atLeast32(idField.Type()), rule, "sr.tserde.id#width", idField.Pos(), m, idField.Type().String(), "tserde.id is narrower than 32 bits")
		if f := c.NeedFunc(m, "sr.Serde.Register"); f != nil {
			for _, st := range storesTo(f.Decl.Body, f.Info(), idField, true) {
				if st.RHS == nil {
					continue
				}
				n++
				steps, src := c36chain(f, st.RHS)
				bad := c36badSteps(steps, c36atLeast32)
				if tv, ok := f.Info().Types[src]; ok && tv.Type != nil && !c36atLeast32(tv.Type) {
					bad = append(bad, "source `"+nosp(exprStr(src))+"` has type "+tv.Type.String())
				}
				c.Check(len(bad) == 0, rule, f.Key+": tserde.id = "+nosp(exprStr(st.RHS))+"#chain", st.RHS.Pos(), m, "every step keeps 32 bits", "the registered ID is narrowed below 32 bits before it is stored ("+strings.Join(bad, "; ")+"): Encode writes a different ID than was registered")
			}
		}
		if f := c.NeedFunc(m, "sr.Serde.AppendEncode"); f != nil {
			info := f.Info()
			for _, cn := range findNodes(f.Decl.Body, false, func(x ast.Node) bool { _, ok := x.(*ast.CallExpr); return ok }) {
				call := cn.(*ast.CallExpr)
				fn, ok := calleeObj(info, call).(*types.Func)
				if !ok || fn.Name() != "AppendEncode" || len(call.Args) != 3 {
					continue
				}
				n++
				steps, src := c36chain(f, call.Args[1])
				con := f.Key + ": header.AppendEncode(" + nosp(exprStr(call.Args[1])) + ")#id-chain"
				if !sameField(fieldOfSel(info, src), idField) {
					c.Undecided(rule, con, call.Pos(), m, "the ID handed to the header is not traced back to tserde.id (stopped at `"+nosp(exprStr(src))+"`)")
					continue
				}
				bad := c36badSteps(steps, c36atLeast32)
				c.Check(len(bad) == 0, rule, con, call.Pos(), m, "uint32 -> int", "the ID is narrowed below 32 bits before it is written ("+strings.Join(bad, "; ")+")")
			}
		}
	}
	c.Floor(rule, n, 8)
}

// c36shortCircuitFacts returns the facts that hold when n is evaluated because
// of short-circuit evaluation inside its own expression: n in the right
// operand of `A && ...` gives A, of `A || ...` gives !A.
func c36shortCircuitFacts(f *Func, n ast.Node) []Fact {
	parents := parentMap(f.Decl.Body)
	var out []Fact
	child := n
	for p := parents[n]; p != nil; p = parents[p] {
		if _, isStmt := p.(ast.Stmt); isStmt {
			break
		}
		if _, isLit := p.(*ast.FuncLit); isLit {
			break
		}
		if be, ok := p.(*ast.BinaryExpr); ok && be.Y == child {
			switch be.Op.String() {
			case "&&":
				out = decompose(be.X, true, out)
			case "||":
				out = decompose(be.X, false, out)
			}
		}
		child = p
	}
	return out
}

// c36decodeNoExtraReject: once decodeFind has found a registered entry with a
// decoder, Serde.Decode must hand the payload to that decoder: every return
// of Decode that does not contain the t.decode call is decodeFind's error
// return (`return err` under `err != nil`).
func c36decodeNoExtraReject(c *Ctx, m *Module) {
	rule := "sr-decode-find"
	f := c.NeedFunc(m, "sr.Serde.Decode")
	if f == nil {
		return
	}
	info := f.Info()
	g := f.Graph()
	nDec := 0
	for _, rn := range findNodes(f.Decl.Body, false, func(x ast.Node) bool { _, ok := x.(*ast.ReturnStmt); return ok }) {
		r := rn.(*ast.ReturnStmt)
		hasDecode := containsNode(r, false, func(x ast.Node) bool {
			call, ok := x.(*ast.CallExpr)
			if !ok {
				return false
			}
			fld := c36fieldRef(f, call.Fun)
			return fld != nil && fld.Name() == "decode"
		})
		if hasDecode {
			nDec++
			continue
		}
		l, _ := g.LocOf(r)
		isFindErr := len(r.Results) == 1 && factMatches(g.FactsAt(l), func(ft Fact) bool {
			return ft.Tag == nil && ft.Val && nosp(exprStr(ft.Cond)) == nosp(exprStr(r.Results[0]))+"!=nil"
		})
		if isFindErr {
			// the returned error variable is decodeFind's
			steps, src := c36chain(f, r.Results[0])
			_ = steps
			isFindErr = c36isFuncKey(info, src, "sr.Serde.decodeFind")
		}
		c.Check(isFindErr, rule, f.Key+"#no-extra-reject", r.Pos(), m, "only decodeFind's error is returned before the decoder runs",
			"Decode returns without calling the registered decoder although decodeFind found a registered entry: Encode output of a validly registered ID/type (e.g. a pointer-registered protobuf message) no longer decodes")
	}
	c.Check(nDec >= 1, rule, f.Key+"#calls-decoder", f.Pos(), m, "", "Decode has no return through t.decode")
}
