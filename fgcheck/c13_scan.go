package main

import (
	"fmt"
	"go/ast"
	"go/token"
	"go/types"
	"sort"
	"strings"
)

// ---------------------------------------------------------------------------
// C13 scanner: loops, their exits with lexical guards, parking sites and go
// statements of package kgo. Pure syntax + types; no tables in this file.
// ---------------------------------------------------------------------------

// c13exit is one way control can leave a loop.
type c13exit struct {
	Node   ast.Node
	How    string   // return | break | goto | cond | continue-outer
	Guards []string // atoms (nosp) that hold lexically at the exit, collected between the loop and the exit
	Ctx    bool     // guarded by a receive from (context.Context).Done() or a test of (context.Context).Err()
}

// c13loop is a `for {}` / `for cond {}` loop (no init, no post, not range).
type c13loop struct {
	Fn    *Func
	For   *ast.ForStmt
	Label string
	Key   string
	Cond  string
	Exits []c13exit
	Parks []c13park // parking sites directly in the loop body (not in nested function literals)
	// Counted: the loop has an init or post statement (three-clause loop).
	Counted bool
	// CondAtoms: conjuncts of the loop condition (all must hold to continue).
	CondAtoms []string
}

// InScope: loops that can run or park indefinitely: no condition at all, or a
// condition-only loop (no init/post), or any loop with a parking operation in
// its body.
func (l *c13loop) InScope() bool {
	return l.For.Cond == nil || len(l.Parks) > 0
}

// c13park is an operation that can park the goroutine.
type c13park struct {
	Node ast.Node
	Desc string // select{...} | recv:<ch> | send:<ch> | range:<ch> | wait:<x> | sleep
	// for selects: the arms
	Arms    []string
	CtxArm  bool // has a `<-ctx.Done()` arm
	Default bool
}

func c13isCtxType(t types.Type) bool {
	if t == nil {
		return false
	}
	n, ok := t.(*types.Named)
	if !ok {
		if a, ok := t.(*types.Alias); ok {
			return c13isCtxType(types.Unalias(a))
		}
		return false
	}
	return n.Obj().Name() == "Context" && n.Obj().Pkg() != nil && n.Obj().Pkg().Path() == "context"
}

// c13ctxCall reports whether e is a call X.<name>() with X of type context.Context.
func c13ctxCall(info *types.Info, e ast.Expr, name string) (string, bool) {
	call, ok := unparen(e).(*ast.CallExpr)
	if !ok {
		return "", false
	}
	sel, ok := unparen(call.Fun).(*ast.SelectorExpr)
	if !ok || sel.Sel.Name != name {
		return "", false
	}
	if tv, ok := info.Types[sel.X]; ok && c13isCtxType(tv.Type) {
		return nosp(exprStr(sel.X)), true
	}
	return "", false
}

// c13mentionsCtx reports whether e contains ctx.Err() / ctx.Done() on a context.Context.
func c13mentionsCtx(info *types.Info, e ast.Node) bool {
	return containsNode(e, false, func(x ast.Node) bool {
		ex, ok := x.(ast.Expr)
		if !ok {
			return false
		}
		if _, ok := c13ctxCall(info, ex, "Err"); ok {
			return true
		}
		if _, ok := c13ctxCall(info, ex, "Done"); ok {
			return true
		}
		return false
	})
}

// c13commStr describes a select arm.
func c13commStr(cc *ast.CommClause) string {
	if cc.Comm == nil {
		return "default"
	}
	switch s := cc.Comm.(type) {
	case *ast.ExprStmt:
		return nosp(exprStr(s.X))
	case *ast.AssignStmt:
		if len(s.Rhs) == 1 {
			return nosp(exprStr(s.Rhs[0]))
		}
	case *ast.SendStmt:
		return nosp(exprStr(s.Chan)) + "<-"
	}
	return nosp(nodeStr(cc.Comm))
}

func c13commRecv(cc *ast.CommClause) ast.Expr {
	if cc.Comm == nil {
		return nil
	}
	var e ast.Expr
	switch s := cc.Comm.(type) {
	case *ast.ExprStmt:
		e = s.X
	case *ast.AssignStmt:
		if len(s.Rhs) == 1 {
			e = s.Rhs[0]
		}
	}
	if u, ok := unparen(e).(*ast.UnaryExpr); ok && u.Op == token.ARROW {
		return u.X
	}
	return nil
}

// c13localChanOfCtx: `ctxCh = fm.ctx.Done()` style single-assignment local; returns true when the
// identifier is a local variable whose every assignment is a ctx.Done() call or nil.
func c13identIsCtxDone(fn *Func, id *ast.Ident) bool {
	info := fn.Info()
	obj := info.Uses[id]
	if obj == nil {
		obj = info.Defs[id]
	}
	v, ok := obj.(*types.Var)
	if !ok || v.IsField() {
		return false
	}
	nDone, bad := 0, false
	ast.Inspect(fn.Decl.Body, func(x ast.Node) bool {
		switch s := x.(type) {
		case *ast.AssignStmt:
			for i, l := range s.Lhs {
				lid, ok := l.(*ast.Ident)
				if !ok {
					continue
				}
				o := info.Defs[lid]
				if o == nil {
					o = info.Uses[lid]
				}
				if o != obj {
					continue
				}
				if len(s.Rhs) != len(s.Lhs) {
					bad = true
					continue
				}
				r := s.Rhs[i]
				if _, ok := c13ctxCall(info, r, "Done"); ok {
					nDone++
				} else if rid, ok := unparen(r).(*ast.Ident); ok && rid.Name == "nil" {
				} else {
					bad = true
				}
			}
		case *ast.ValueSpec:
			for i, nm := range s.Names {
				if info.Defs[nm] != obj {
					continue
				}
				if i < len(s.Values) {
					if _, ok := c13ctxCall(info, s.Values[i], "Done"); ok {
						nDone++
					} else {
						bad = true
					}
				}
			}
		}
		return true
	})
	return nDone > 0 && !bad
}

func c13armIsCtx(fn *Func, cc *ast.CommClause) bool {
	ch := c13commRecv(cc)
	if ch == nil {
		return false
	}
	if _, ok := c13ctxCall(fn.Info(), ch, "Done"); ok {
		return true
	}
	if id, ok := unparen(ch).(*ast.Ident); ok {
		return c13identIsCtxDone(fn, id)
	}
	return false
}

// c13parksIn lists parking operations directly under root (function literals
// are not entered: they are separate bodies unless called in place).
func c13parksIn(fn *Func, root ast.Node) []c13park {
	info := fn.Info()
	var out []c13park
	inSelectComm := map[ast.Node]bool{}
	var visit func(n ast.Node)
	visit = func(n ast.Node) {
		ast.Inspect(n, func(x ast.Node) bool {
			if x == nil {
				return false
			}
			switch s := x.(type) {
			case *ast.FuncLit:
				return x == root
			case *ast.SelectStmt:
				p := c13park{Node: s, Desc: "select"}
				for _, cl := range s.Body.List {
					cc := cl.(*ast.CommClause)
					if cc.Comm != nil {
						ast.Inspect(cc.Comm, func(y ast.Node) bool {
							if y != nil {
								inSelectComm[y] = true
							}
							return true
						})
					}
					p.Arms = append(p.Arms, c13commStr(cc))
					if cc.Comm == nil {
						p.Default = true
					}
					if c13armIsCtx(fn, cc) {
						p.CtxArm = true
					}
				}
				out = append(out, p)
			case *ast.UnaryExpr:
				if s.Op == token.ARROW && !inSelectComm[s] {
					out = append(out, c13park{Node: s, Desc: "recv:" + nosp(exprStr(s.X))})
				}
			case *ast.SendStmt:
				if !inSelectComm[s] {
					out = append(out, c13park{Node: s, Desc: "send:" + nosp(exprStr(s.Chan))})
				}
			case *ast.RangeStmt:
				if tv, ok := info.Types[s.X]; ok {
					if _, isChan := tv.Type.Underlying().(*types.Chan); isChan {
						out = append(out, c13park{Node: s, Desc: "range:" + nosp(exprStr(s.X))})
					}
				}
			case *ast.CallExpr:
				if fo, ok := calleeObj(info, s).(*types.Func); ok && fo.Pkg() != nil {
					full := keyOfObj(fo)
					switch full {
					case "sync.Cond.Wait", "sync.WaitGroup.Wait":
						if sel, ok := unparen(s.Fun).(*ast.SelectorExpr); ok {
							out = append(out, c13park{Node: s, Desc: "wait:" + nosp(exprStr(sel.X))})
						}
					case "time.Sleep":
						out = append(out, c13park{Node: s, Desc: "sleep"})
					}
				}
			}
			return true
		})
	}
	visit(root)
	return out
}

// c13guardsBetween collects the lexical guards that hold at node n, walking
// up the parent chain until stop (exclusive).
func c13guardsBetween(fn *Func, parents map[ast.Node]ast.Node, n ast.Node, stop ast.Node) (guards []string, ctx bool) {
	info := fn.Info()
	addFacts := func(e ast.Expr, val bool) {
		for _, ft := range decompose(e, val, nil) {
			s := nosp(exprStr(ft.Cond))
			if !ft.Val {
				s = "!(" + s + ")"
			}
			guards = append(guards, s)
			if c13mentionsCtx(info, ft.Cond) {
				ctx = true
			}
		}
	}
	child := n
	for p := parents[n]; p != nil && p != stop; child, p = p, parents[p] {
		switch s := p.(type) {
		case *ast.IfStmt:
			if child == s.Body {
				addFacts(s.Cond, true)
			} else if child == s.Else {
				addFacts(s.Cond, false)
			}
		case *ast.CaseClause:
			if len(s.List) == 0 {
				guards = append(guards, "switch-default")
			} else if len(s.List) == 1 {
				// tagless switch: the case expression holds; tag switch: tag == expr
				if sw, ok := parents[parents[s]].(*ast.SwitchStmt); ok && sw.Tag == nil {
					addFacts(s.List[0], true)
				} else if ok && sw.Tag != nil {
					guards = append(guards, nosp(exprStr(sw.Tag))+"=="+nosp(exprStr(s.List[0])))
				}
			} else {
				var alts []string
				for _, e := range s.List {
					alts = append(alts, nosp(exprStr(e)))
				}
				guards = append(guards, "case:"+strings.Join(alts, "|"))
			}
		case *ast.CommClause:
			isStmtOfBody := false
			for _, b := range s.Body {
				if b == child {
					isStmtOfBody = true
				}
			}
			if isStmtOfBody {
				guards = append(guards, "comm:"+c13commStr(s))
				if c13armIsCtx(fn, s) {
					ctx = true
				}
			}
		}
	}
	return guards, ctx
}

// c13breakTarget resolves the statement a break/continue leaves.
func c13branchTarget(parents map[ast.Node]ast.Node, br *ast.BranchStmt, labels map[string]ast.Stmt) ast.Node {
	if br.Label != nil {
		return labels[br.Label.Name]
	}
	for p := parents[br]; p != nil; p = parents[p] {
		switch p.(type) {
		case *ast.ForStmt, *ast.RangeStmt:
			return p
		case *ast.SwitchStmt, *ast.TypeSwitchStmt, *ast.SelectStmt:
			if br.Tok == token.BREAK {
				return p
			}
		case *ast.FuncLit:
			return nil
		}
	}
	return nil
}

// c13loopsOf lists the condition-only loops of a function (including those in
// its function literals) with exits and parking sites.
func c13loopsOf(fn *Func) []*c13loop {
	parents := parentMap(fn.Decl.Body)
	labels := map[string]ast.Stmt{}
	labelOf := map[ast.Stmt]string{}
	ast.Inspect(fn.Decl.Body, func(x ast.Node) bool {
		if ls, ok := x.(*ast.LabeledStmt); ok {
			labels[ls.Label.Name] = ls.Stmt
			labelOf[ls.Stmt] = ls.Label.Name
		}
		return true
	})
	var out []*c13loop
	ord := map[string]int{}
	ast.Inspect(fn.Decl.Body, func(x ast.Node) bool {
		fs, ok := x.(*ast.ForStmt)
		if !ok {
			return true
		}
		lp := &c13loop{Fn: fn, For: fs, Label: labelOf[fs], Counted: fs.Init != nil || fs.Post != nil}
		if fs.Cond != nil {
			lp.Cond = nosp(exprStr(fs.Cond))
		}
		k := ord[lp.Cond]
		ord[lp.Cond] = k + 1
		lp.Key = fmt.Sprintf("%s#for[%s]%d", fn.Key, lp.Cond, k)
		lp.Parks = c13parksIn(fn, fs.Body)
		if fs.Cond != nil {
			for _, ft := range decompose(fs.Cond, true, nil) {
				a := nosp(exprStr(ft.Cond))
				if !ft.Val {
					a = "!(" + a + ")"
				}
				lp.CondAtoms = append(lp.CondAtoms, a)
			}
			ex := c13exit{Node: fs.Cond, How: "cond"}
			for _, ft := range decompose(fs.Cond, false, nil) {
				s := nosp(exprStr(ft.Cond))
				if !ft.Val {
					s = "!(" + s + ")"
				}
				ex.Guards = append(ex.Guards, s)
			}
			ex.Ctx = c13mentionsCtx(fn.Info(), fs.Cond)
			lp.Exits = append(lp.Exits, ex)
		}
		// the innermost function body containing the loop
		ast.Inspect(fs.Body, func(y ast.Node) bool {
			if y == nil {
				return false
			}
			switch s := y.(type) {
			case *ast.FuncLit:
				return false
			case *ast.ReturnStmt:
				g, ctx := c13guardsBetween(fn, parents, s, fs)
				lp.Exits = append(lp.Exits, c13exit{Node: s, How: "return", Guards: g, Ctx: ctx})
			case *ast.BranchStmt:
				switch s.Tok {
				case token.BREAK:
					if c13branchTarget(parents, s, labels) == ast.Node(fs) {
						g, ctx := c13guardsBetween(fn, parents, s, fs)
						lp.Exits = append(lp.Exits, c13exit{Node: s, How: "break", Guards: g, Ctx: ctx})
					} else if t := c13branchTarget(parents, s, labels); t != nil && !(t.Pos() >= fs.Pos() && t.End() <= fs.End()) {
						g, ctx := c13guardsBetween(fn, parents, s, fs)
						lp.Exits = append(lp.Exits, c13exit{Node: s, How: "break-outer", Guards: g, Ctx: ctx})
					}
				case token.CONTINUE:
					if t := c13branchTarget(parents, s, labels); t != nil && t != ast.Node(fs) && !(t.Pos() >= fs.Pos() && t.End() <= fs.End()) {
						g, ctx := c13guardsBetween(fn, parents, s, fs)
						lp.Exits = append(lp.Exits, c13exit{Node: s, How: "continue-outer", Guards: g, Ctx: ctx})
					}
				case token.GOTO:
					if s.Label != nil {
						if t := labels[s.Label.Name]; t != nil && !(t.Pos() >= fs.Pos() && t.End() <= fs.End()) {
							g, ctx := c13guardsBetween(fn, parents, s, fs)
							lp.Exits = append(lp.Exits, c13exit{Node: s, How: "goto", Guards: g, Ctx: ctx})
						}
					}
				}
			}
			return true
		})
		out = append(out, lp)
		return true
	})
	return out
}

// c13go is one `go` statement.
type c13go struct {
	Fn     *Func
	Stmt   *ast.GoStmt
	Key    string       // enclosing function + target
	Target string       // callee key or "func"
	Lit    *ast.FuncLit // literal target
	TFn    *Func        // named kgo target with a body
}

func c13goStmts(m *Module) []*c13go {
	var out []*c13go
	for _, fn := range m.FuncsIn("kgo") {
		ord := map[string]int{}
		ast.Inspect(fn.Decl.Body, func(x ast.Node) bool {
			gs, ok := x.(*ast.GoStmt)
			if !ok {
				return true
			}
			g := &c13go{Fn: fn, Stmt: gs}
			if lit, ok := unparen(gs.Call.Fun).(*ast.FuncLit); ok {
				g.Lit = lit
				g.Target = "func"
			} else {
				switch o := calleeObj(fn.Info(), gs.Call).(type) {
				case *types.Func:
					g.Target = keyOfObj(o)
					g.TFn = fn.mod.Func(g.Target)
				case *types.Var:
					g.Target = "var:" + nosp(exprStr(gs.Call.Fun))
				default:
					g.Target = "?:" + nosp(exprStr(gs.Call.Fun))
				}
			}
			k := ord[g.Target]
			ord[g.Target] = k + 1
			g.Key = fmt.Sprintf("%s: go %s#%d", fn.Key, g.Target, k)
			out = append(out, g)
			return true
		})
	}
	sort.SliceStable(out, func(i, j int) bool { return out[i].Key < out[j].Key })
	return out
}

func c13parkStr(p c13park) string {
	if p.Desc == "select" {
		return "select{" + strings.Join(p.Arms, ";") + "}"
	}
	return p.Desc
}

// c13gotoLoop is a loop formed by a backward goto: the region between the
// label and the goto statement repeats while the goto's guards hold.
type c13gotoLoop struct {
	Fn     *Func
	Goto   *ast.BranchStmt
	Label  string
	Key    string
	Guards []string // lexical guards of the goto statement (must hold to continue the loop)
	Ctx    bool
	Parks  []c13park // parking sites in the label..goto region
}

func c13gotoLoopsOf(fn *Func) []*c13gotoLoop {
	parents := parentMap(fn.Decl.Body)
	labels := map[string]*ast.LabeledStmt{}
	ast.Inspect(fn.Decl.Body, func(x ast.Node) bool {
		if ls, ok := x.(*ast.LabeledStmt); ok {
			labels[ls.Label.Name] = ls
		}
		return true
	})
	var out []*c13gotoLoop
	ord := map[string]int{}
	ast.Inspect(fn.Decl.Body, func(x ast.Node) bool {
		br, ok := x.(*ast.BranchStmt)
		if !ok || br.Tok != token.GOTO || br.Label == nil {
			return true
		}
		ls := labels[br.Label.Name]
		if ls == nil || ls.Pos() > br.Pos() {
			return true // forward goto
		}
		gl := &c13gotoLoop{Fn: fn, Goto: br, Label: br.Label.Name}
		k := ord[gl.Label]
		ord[gl.Label] = k + 1
		gl.Key = fmt.Sprintf("%s#goto[%s]%d", fn.Key, gl.Label, k)
		// guards: up to the innermost function body containing the goto
		var stop ast.Node = fn.Decl.Body
		if lit := innermostLit(fn, br); lit != nil {
			stop = lit.Body
		}
		gl.Guards, gl.Ctx = c13guardsBetween(fn, parents, br, stop)
		// parks in the region label..goto (same function body)
		var body ast.Node = fn.Decl.Body
		if lit := innermostLit(fn, br); lit != nil {
			body = lit
		}
		for _, p := range c13parksIn(fn, body) {
			if p.Node.Pos() >= ls.Pos() && p.Node.Pos() < br.Pos() {
				gl.Parks = append(gl.Parks, p)
			}
		}
		out = append(out, gl)
		return true
	})
	return out
}
