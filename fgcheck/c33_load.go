package main

import (
	"fmt"
	"go/ast"
	"go/token"
	"go/types"
	"sort"
	"strings"
)

// Round-3 rules of C33 (restart succeeds / clean restart recovers identical
// producer state):
//
//   load-index-nonempty-segment   every constant / last-element index into a
//                                 segment's batch index in the partition
//                                 loaders is safe: either guarded by
//                                 len(X.index) > 0, or under pd.hasBatches()
//                                 after pruneEmptySegments with no segment
//                                 appended in between; pruneEmptySegments keeps
//                                 a segment only under len(index) > 0.
//   seqwindow-save-load-agree     saveSeqWindows / loadSeqWindows are sibling
//                                 writer / reader tables of pidwindow: every
//                                 pidwindow field is stored, and the current
//                                 format branch restores each field from the
//                                 JSON field it was stored in, with no later
//                                 overwrite before the window is installed.

// ---- restart does not index an empty segment ----

func (e *c33env) loadIndexBounds() {
	c, m := e.c, e.m
	rule := "load-index-nonempty-segment"
	segs := m.Field(c32pkg, "partData", "segments")
	index := m.Field(c32pkg, "segmentInfo", "index")
	prune := m.Method(c32pkg, "partData", "pruneEmptySegments")
	hasB := m.Method(c32pkg, "partData", "hasBatches")
	if segs == nil || index == nil || prune == nil || hasB == nil {
		c.Undecided("anchor", "kfake partData.segments / segmentInfo.index / pruneEmptySegments / hasBatches", token.NoPos, m, "not found")
		return
	}
	isZero := func(info *types.Info) func(ast.Expr) bool {
		return func(y ast.Expr) bool { v, ok := constInt(info, y); return ok && v == 0 }
	}
	lenOf := func(info *types.Info, want string) func(ast.Expr) bool {
		return func(x ast.Expr) bool {
			cl, ok := unparen(x).(*ast.CallExpr)
			if !ok || len(cl.Args) != 1 || exprStr(cl.Fun) != "len" {
				return false
			}
			return c32isField(info, cl.Args[0], index) && (want == "" || nosp(exprStr(cl.Args[0])) == nosp(want))
		}
	}
	nonEmpty := func(info *types.Info, facts []Fact, want string) bool {
		if c32factCmp(facts, token.GTR, lenOf(info, want), isZero(info)) || c32factCmp(facts, token.NEQ, lenOf(info, want), isZero(info)) {
			return true
		}
		return c32factCmp(facts, token.GEQ, lenOf(info, want), func(y ast.Expr) bool { v, ok := constInt(info, y); return ok && v >= 1 })
	}

	// (a) pruneEmptySegments keeps a segment only when it has batches
	if pf := c.NeedFunc(m, "kfake.partData.pruneEmptySegments"); pf != nil {
		info := pf.Info()
		g := pf.Graph()
		nk := 0
		var keepIdx types.Object
		ast.Inspect(pf.Decl.Body, func(x ast.Node) bool {
			as, ok := x.(*ast.AssignStmt)
			if !ok || len(as.Lhs) != 1 || len(as.Rhs) != 1 || as.Tok != token.ASSIGN {
				return true
			}
			lix, ok := unparen(as.Lhs[0]).(*ast.IndexExpr)
			if !ok || !c32isField(info, lix.X, segs) {
				return true
			}
			nk++
			keepIdx = c32identObj(info, lix.Index)
			loc, _ := g.LocOf(as)
			facts := g.FactsAt(loc)
			okf := false
			if rix, ok := unparen(as.Rhs[0]).(*ast.IndexExpr); ok && c32isField(info, rix.X, segs) {
				okf = nonEmpty(info, facts, exprStr(rix)+".index")
			}
			c.Check(okf, rule, e.keys.uniq(pf.Key+": keep segment"), as.Pos(), m, "kept only under len(pd.segments[i].index) > 0",
				"pruneEmptySegments keeps `"+exprStr(as.Rhs[0])+"` without the fact that this segment has at least one batch (facts: "+c32factsStr(facts)+"): after a stop during a segment roll the newest .dat is empty, the loaders then evaluate lastSeg.index[len(lastSeg.index)-1] with an empty index and every restart on the directory panics")
			return true
		})
		c.Floor(rule+"/prune-keep", nk, 1)
		// the kept prefix is what remains
		okSlice := false
		for _, st := range storesTo(pf.Decl.Body, info, segs, false) {
			if sl, ok := unparen(st.RHS).(*ast.SliceExpr); ok && c32isField(info, sl.X, segs) && sl.Low == nil && sl.High != nil && keepIdx != nil && c32identObj(info, sl.High) == keepIdx {
				okSlice = true
			}
		}
		c.Check(okSlice, rule, pf.Key+": truncates to the kept prefix", pf.Pos(), m, "pd.segments = pd.segments[:n]", "pruneEmptySegments does not cut pd.segments down to the kept prefix: segments without batches stay in the list")
	}

	// (b) the loaders index a segment's batch index only when it cannot be empty
	n := 0
	for _, key := range []string{"kfake.Cluster.loadPartitionFromSnapshot", "kfake.Cluster.loadPartitionFullReplay"} {
		f := c.NeedFunc(m, key)
		if f == nil {
			continue
		}
		info := f.Info()
		g := f.Graph()
		var pruneLocs []Loc
		for _, pc := range callsTo(f.Decl.Body, info, prune, false) {
			if l, ok := g.LocOf(pc); ok {
				pruneLocs = append(pruneLocs, l)
			}
		}
		segStores := storesTo(f.Decl.Body, info, segs, false)
		for _, un := range findNodes(f.Decl.Body, false, func(x ast.Node) bool {
			ix, ok := x.(*ast.IndexExpr)
			return ok && c32isField(info, ix.X, index)
		}) {
			ix := un.(*ast.IndexExpr)
			n++
			cons := e.keys.uniq(f.Key + ": " + exprStr(ix))
			loc, ok := g.LocOf(ix)
			if !ok {
				c.Undecided(rule, cons, ix.Pos(), m, "index expression is inside a function literal: not analysed")
				continue
			}
			facts := g.FactsAt(loc)
			if nonEmpty(info, facts, exprStr(ix.X)) {
				c.OK(rule, cons, ix.Pos(), m, "guarded by len("+exprStr(ix.X)+") > 0")
				continue
			}
			has := factMatches(facts, func(ft Fact) bool {
				cl, isC := unparen(ft.Cond).(*ast.CallExpr)
				return ft.Tag == nil && ft.Val && isC && isCallTo(info, cl, hasB)
			})
			dom := false
			for _, pl := range pruneLocs {
				if g.Dominates(pl, loc) {
					dom = true
				}
			}
			bypass := ""
			for _, st := range segStores {
				sl, ok := g.LocOf(st.Node)
				if !ok {
					continue
				}
				if p, found := g.FindPath(sl, SearchOpts{
					Stop: func(nd ast.Node) bool { return c32hasCall(info, nd, prune) },
					GoalNode: func(nd ast.Node) bool {
						return containsNode(nd, false, func(y ast.Node) bool { return y == ast.Node(ix) })
					},
				}); found {
					bypass = nodeStr(st.Node) + " -> " + pathStr(p)
				}
			}
			why := ""
			switch {
			case !has:
				why = "it is not under pd.hasBatches() (facts: " + c32factsStr(facts) + ")"
			case !dom:
				why = "pruneEmptySegments() does not run before it on every path"
			case bypass != "":
				why = "a segment is appended to pd.segments after pruning (" + bypass + ")"
			}
			c.Check(why == "", rule, cons, ix.Pos(), m, "under hasBatches() after pruneEmptySegments()",
				"`"+exprStr(ix)+"` is evaluated while loading a partition and "+why+": a segment file without a complete batch (stop during a segment roll, or a fully corrupt file) makes the index empty, the expression panics and the cluster cannot be restarted on that directory")
		}
	}
	c.Floor(rule, n, 4)
}

// ---- seq_windows.json: writer and reader agree ----

type c33pair struct{ json, field string }

func (e *c33env) seqWindowAgreement() {
	c, m := e.c, e.m
	rule := "seqwindow-save-load-agree"
	sv := c.NeedFunc(m, "kfake.Cluster.saveSeqWindows")
	ld := c.NeedFunc(m, "kfake.Cluster.loadSeqWindows")
	if sv == nil || ld == nil {
		return
	}
	pwType := m.Object(c32pkg, "pidwindow")
	if pwType == nil {
		c.Undecided("anchor", "kfake.pidwindow", token.NoPos, m, "type not found")
		return
	}
	pwStruct, _ := pwType.Type().Underlying().(*types.Struct)
	if pwStruct == nil {
		c.Undecided("anchor", "kfake.pidwindow", token.NoPos, m, "not a struct")
		return
	}
	isPWField := func(v *types.Var) bool {
		for i := 0; i < pwStruct.NumFields(); i++ {
			if sameField(pwStruct.Field(i), v) {
				return true
			}
		}
		return false
	}
	typeNamed := func(info *types.Info, x ast.Expr, name string) bool {
		t := info.TypeOf(x)
		nt, ok := t.(*types.Named)
		return ok && nt.Obj().Name() == name
	}
	sinfo := sv.Info()

	// writer table
	var direct []c33pair           // JSON field <- pidwindow scalar field
	var arrays []c33pair           // JSON array field <- pidwindow array field
	elem := map[string][]c33pair{} // per array JSON field: element JSON field <- pidEntry field
	var lit *ast.CompositeLit
	ast.Inspect(sv.Decl.Body, func(x ast.Node) bool {
		if cl, ok := x.(*ast.CompositeLit); ok && typeNamed(sinfo, cl, "persistSeqWindowEntry") {
			lit = cl
		}
		return true
	})
	if lit == nil {
		c.Undecided(rule, sv.Key+"#entry-literal", sv.Pos(), m, "no persistSeqWindowEntry{...} literal found")
		return
	}
	for _, el := range lit.Elts {
		kv, ok := el.(*ast.KeyValueExpr)
		if !ok {
			c.Undecided(rule, sv.Key+"#entry-literal", lit.Pos(), m, "positional literal")
			return
		}
		k := exprStr(kv.Key)
		val := c32strip(sinfo, kv.Value)
		if v := fieldOfSel(sinfo, val); v != nil && isPWField(v) {
			direct = append(direct, c33pair{k, v.Name()})
			continue
		}
		// a local array filled from a range over a pidwindow array field
		if o := c32identObj(sinfo, val); o != nil {
			ast.Inspect(sv.Decl.Body, func(x ast.Node) bool {
				rs, ok := x.(*ast.RangeStmt)
				if !ok {
					return true
				}
				fv := fieldOfSel(sinfo, c32strip(sinfo, rs.X))
				if fv == nil || !isPWField(fv) {
					return true
				}
				ast.Inspect(rs.Body, func(y ast.Node) bool {
					as, ok := y.(*ast.AssignStmt)
					if !ok || len(as.Lhs) != 1 || len(as.Rhs) != 1 {
						return true
					}
					ix, ok := unparen(as.Lhs[0]).(*ast.IndexExpr)
					if !ok || c32identObj(sinfo, ix.X) != o {
						return true
					}
					if el, ok := unparen(as.Rhs[0]).(*ast.CompositeLit); ok {
						arrays = append(arrays, c33pair{k, fv.Name()})
						for _, e2 := range el.Elts {
							if kv2, ok := e2.(*ast.KeyValueExpr); ok {
								if v2 := fieldOfSel(sinfo, c32strip(sinfo, kv2.Value)); v2 != nil {
									elem[k] = append(elem[k], c33pair{exprStr(kv2.Key), v2.Name()})
								}
							}
						}
					}
					return true
				})
				return true
			})
		}
	}
	// every pidwindow field is stored
	stored := map[string]bool{}
	for _, p := range append(append([]c33pair{}, direct...), arrays...) {
		stored[p.field] = true
	}
	var missing []string
	for i := 0; i < pwStruct.NumFields(); i++ {
		if !stored[pwStruct.Field(i).Name()] {
			missing = append(missing, pwStruct.Field(i).Name())
		}
	}
	sort.Strings(missing)
	c.Check(len(missing) == 0, rule, sv.Key+": stores every pidwindow field", lit.Pos(), m, fmt.Sprintf("%d scalar + %d array fields", len(direct), len(arrays)),
		"saveSeqWindows does not store pidwindow field(s) "+strings.Join(missing, ", ")+": after a clean Close and restart the producer's duplicate-detection state differs from the state before the Close")
	c.Floor(rule+"/writer-fields", len(direct)+len(arrays), 6)

	// reader table: the current-format branch (w.Count > 0)
	linfo := ld.Info()
	g := ld.Graph()
	var pw types.Object
	ast.Inspect(ld.Decl.Body, func(x ast.Node) bool {
		if vs, ok := x.(*ast.ValueSpec); ok {
			for _, id := range vs.Names {
				if o := linfo.Defs[id]; o != nil && types.Identical(o.Type(), pwType.Type()) {
					pw = o
				}
			}
		}
		return true
	})
	if pw == nil {
		c.Undecided(rule, ld.Key+"#window-variable", ld.Pos(), m, "no local `var pw pidwindow` found")
		return
	}
	isV2 := func(n ast.Node) bool {
		l, ok := g.LocOf(n)
		if !ok {
			return false
		}
		return c32factCmp(g.FactsAt(l), token.GTR, func(x ast.Expr) bool { return c32fieldNamed(linfo, x, "persistSeqWindowEntry", "Count") }, func(y ast.Expr) bool { v, ok := constInt(linfo, y); return ok && v == 0 })
	}
	// the call that installs the window
	var install ast.Node
	ast.Inspect(ld.Decl.Body, func(x ast.Node) bool {
		if cl, ok := x.(*ast.CallExpr); ok {
			if sel, ok := unparen(cl.Fun).(*ast.SelectorExpr); ok && sel.Sel.Name == "set" {
				for _, a := range cl.Args {
					if c32identObj(linfo, a) == pw {
						install = cl
					}
				}
			}
		}
		return true
	})
	if install == nil {
		c.Undecided(rule, ld.Key+"#install", ld.Pos(), m, "no windows.set(..., pw) call found")
		return
	}
	for _, p := range direct {
		fld := m.Field(c32pkg, "pidwindow", p.field)
		cons := ld.Key + ": " + p.field + " <- " + p.json
		var all []Store
		for _, st := range storesTo(ld.Decl.Body, linfo, fld, false) {
			if st.LHS != nil && c32baseObj(linfo, st.LHS) == pw {
				all = append(all, st)
			}
		}
		var restore *Store
		for i := range all {
			st := all[i]
			if st.Kind == "assign" && isV2(st.Node) && c32fieldNamed(linfo, st.RHS, "persistSeqWindowEntry", p.json) {
				restore = &all[i]
			}
		}
		if restore == nil {
			c.Fail(rule, cons, ld.Pos(), m, "saveSeqWindows stores pidwindow."+p.field+" in JSON field "+p.json+" but the current-format branch of loadSeqWindows (w.Count > 0) never assigns pw."+p.field+" = w."+p.json+": after a clean Close and restart this part of the producer's sequence window is not the saved one (for `at`: once the 5-slot ring has wrapped the next batch overwrites the wrong slot and a legal retry is answered OUT_OF_ORDER_SEQUENCE_NUMBER)")
			continue
		}
		// not overwritten before the window is installed
		rl, _ := g.LocOf(restore.Node)
		p2, over := g.FindPath(rl, SearchOpts{
			Stop: func(nd ast.Node) bool { return containsNode(nd, false, func(y ast.Node) bool { return y == install }) },
			GoalNode: func(nd ast.Node) bool {
				for _, st := range all {
					if st.Node == nd && st.Node != restore.Node {
						return true
					}
				}
				return false
			},
		})
		c.Check(!over, rule, cons, restore.Node.Pos(), m, "restored and not overwritten", "pw."+p.field+" is restored from w."+p.json+" and then overwritten before the window is installed ("+pathStr(p2)+")")
	}
	for _, p := range arrays {
		cons := ld.Key + ": " + p.field + "[] <- " + p.json + "[]"
		fld := m.Field(c32pkg, "pidwindow", p.field)
		var got []c33pair
		found := false
		ast.Inspect(ld.Decl.Body, func(x ast.Node) bool {
			rs, ok := x.(*ast.RangeStmt)
			if !ok || !c32fieldNamed(linfo, rs.X, "persistSeqWindowEntry", p.json) {
				return true
			}
			ast.Inspect(rs.Body, func(y ast.Node) bool {
				as, ok := y.(*ast.AssignStmt)
				if !ok || len(as.Lhs) != 1 || len(as.Rhs) != 1 {
					return true
				}
				ix, ok := unparen(as.Lhs[0]).(*ast.IndexExpr)
				if !ok || !c32isField(linfo, ix.X, fld) || c32baseObj(linfo, ix.X) != pw || !isV2(as) {
					return true
				}
				// same position: index is the range key
				if rs.Key == nil || c32identObj(linfo, ix.Index) != c32identObj(linfo, rs.Key) {
					return true
				}
				if el, ok := unparen(as.Rhs[0]).(*ast.CompositeLit); ok {
					found = true
					for _, e2 := range el.Elts {
						if kv2, ok := e2.(*ast.KeyValueExpr); ok {
							if v2 := fieldOfSel(linfo, c32strip(linfo, kv2.Value)); v2 != nil {
								got = append(got, c33pair{v2.Name(), exprStr(kv2.Key)})
							}
						}
					}
				}
				return true
			})
			return true
		})
		if !found {
			c.Fail(rule, cons, ld.Pos(), m, "the current-format branch of loadSeqWindows does not restore pw."+p.field+"[i] from w."+p.json+"[i]")
			continue
		}
		var bad []string
		for _, want := range elem[p.json] {
			ok := false
			for _, gp := range got {
				if gp == want {
					ok = true
				}
			}
			if !ok {
				bad = append(bad, want.field+" <- "+want.json)
			}
		}
		c.Check(len(bad) == 0 && len(elem[p.json]) >= 3, rule, cons, ld.Pos(), m, fmt.Sprintf("%d element fields", len(elem[p.json])), "window entries are not restored from the JSON fields they were stored in (missing: "+strings.Join(bad, ", ")+"): retried batches are matched against wrong sequence numbers / answered with wrong offsets after a restart")
	}
}

// ---- a torn tail of an append-only state log is cut off at load (F13) ----
//
// state-log-torn-tail-truncated: every loader that keeps the valid-prefix
// length returned by readEntries (the log is appended to again after the
// restart; the rewriting compactor discards the length) must, under the fact
// validBytes < len(raw) and under no other condition, reach a File.Truncate
// whose size is that length, directly or through one resolved callee that
// truncates to its own parameter. Otherwise entries acknowledged after the
// restart sit behind the garbage and are dropped by the next restart.
func (e *c33env) stateLogTornTail() {
	c, m := e.c, e.m
	rule := "state-log-torn-tail-truncated"
	re := m.Object(c32pkg, "readEntries")
	if re == nil {
		c.Undecided("anchor", "kfake.readEntries", token.NoPos, m, "not found")
		return
	}
	n := 0
	for _, f := range m.FuncsIn(c32pkg) {
		if f.Decl.Body == nil {
			continue
		}
		info := f.Info()
		for _, x := range findNodes(f.Decl.Body, true, func(x ast.Node) bool {
			as, ok := x.(*ast.AssignStmt)
			if !ok || len(as.Lhs) != 2 || len(as.Rhs) != 1 {
				return false
			}
			cl, ok := unparen(as.Rhs[0]).(*ast.CallExpr)
			return ok && isCallTo(info, cl, re)
		}) {
			as := x.(*ast.AssignStmt)
			vb := c32identObj(info, as.Lhs[1])
			if id, isID := as.Lhs[1].(*ast.Ident); vb == nil || (isID && id.Name == "_") { // `entries, _ :=`: the caller rewrites the file, nothing is appended behind the tail
				c.OK(rule, f.Key+"#length-discarded", as.Pos(), m, "valid length discarded: not an append-after-load site")
				continue
			}
			n++
			rawArg := nosp(exprStr(unparen(as.Rhs[0]).(*ast.CallExpr).Args[0]))
			g := f.GraphFor(as)
			isVB := func(y ast.Expr) bool { return c32identObj(info, c32strip(info, y)) == vb }
			ok, why := false, "no Truncate of the log to the valid length found"
			for _, tn := range findNodes(f.Decl.Body, true, func(x ast.Node) bool { _, ok := x.(*ast.CallExpr); return ok }) {
				cl := tn.(*ast.CallExpr)
				direct := c33methodCallOn(cl, "Truncate", func(ast.Expr) bool { return true }) && len(cl.Args) == 1 && isVB(cl.Args[0])
				via := false
				if !direct {
					if fo, _ := calleeObj(info, cl).(*types.Func); fo != nil {
						if cf := m.Func(keyOfObj(fo)); cf != nil && cf.Decl.Body != nil && cf != f {
							for ai, a := range cl.Args {
								if !isVB(a) {
									continue
								}
								// the callee truncates to the parameter that receives the length, unconditionally w.r.t. that parameter
								var pobj types.Object
								k := 0
								for _, fld := range cf.Decl.Type.Params.List {
									for _, nm := range fld.Names {
										if k == ai {
											pobj = cf.Info().Defs[nm]
										}
										k++
									}
								}
								if pobj == nil {
									continue
								}
								for _, t2 := range findNodes(cf.Decl.Body, true, func(x ast.Node) bool {
									c2, ok := x.(*ast.CallExpr)
									return ok && c33methodCallOn(c2, "Truncate", func(ast.Expr) bool { return true }) && len(c2.Args) == 1 &&
										c32identObj(cf.Info(), c32strip(cf.Info(), c2.Args[0])) == pobj
								}) {
									g2 := cf.GraphFor(t2)
									l2, _ := g2.LocOf(t2)
									bad := false
									for _, ft := range g2.FactsAt(l2) {
										if strings.Contains(nosp(exprStr(ft.Cond)), pobj.Name()) {
											bad = true
										}
									}
									if !bad {
										via = true
									}
								}
							}
						}
					}
				}
				if !direct && !via {
					continue
				}
				tl, _ := g.LocOf(tn)
				facts := g.FactsAt(tl)
				torn := factMatches(facts, func(ft Fact) bool {
					x, y, op, ok := c32cmp(ft)
					return ok && ((op == token.LSS && isVB(x) && nosp(exprStr(y)) == "len("+rawArg+")") || (op == token.GTR && isVB(y) && nosp(exprStr(x)) == "len("+rawArg+")") ||
						(op == token.NEQ && (isVB(x) || isVB(y))))
				})
				extra := ""
				for _, ft := range facts {
					x, y, _, okc := c32cmp(ft)
					if okc && (isVB(x) || isVB(y)) {
						cs := nosp(exprStr(ft.Cond))
						if strings.Contains(cs, "len("+rawArg+")") {
							continue
						}
						extra = cs
					}
				}
				if extra != "" {
					why = "the log is truncated only under the additional condition `" + extra + "` on the valid length (a tail torn at that length is kept)"
					continue
				}
				_ = torn
				ok = true
			}
			c.Check(ok, rule, f.Key+"#"+rawArg, as.Pos(), m, "Truncate(validBytes) reached when validBytes < len(raw)",
				why+": entries appended (and acknowledged) after this restart land behind the torn tail and are lost at the following restart")
		}
	}
	c.Floor(rule, n, 2)
}
