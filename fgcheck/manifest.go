package main

import (
	"encoding/json"
	"fmt"
	"os"
	"sort"
	"strings"
)

// notApplicable lists the properties not claimed, with the reason.
var notApplicable = map[string]string{
	"C25": "Validity of every balancer's output for all inputs is an algorithmic property of computed values (maps of partitions to members); no structural necessary condition short of re-deriving the algorithms exists, and static analysis without executing or symbolically evaluating the code cannot decide it.",
	"C26": "Optimality of the sticky plan over all inputs is a property of computed values (a graph-balancing algorithm's result); nothing in the shape of the code decides it without running or symbolically executing it.",
	"C27": "Safety and convergence of cooperative hand-off are properties of AdjustCooperative's output and of multi-round histories; the only structural clause (the adjust step is wired into the cooperative balancer) is checked under C07.",
}

func printManifest() {
	var ids []string
	for id := range registry {
		ids = append(ids, id)
	}
	sort.Strings(ids)
	var checks []map[string]any
	served := []string{}
	for _, id := range ids {
		p := registry[id]
		served = append(served, id)
		text := p.LevelText
		if text == "" {
			text = "Structural necessary conditions of the property, decided statically at every site of the anchored constructs: " + p.Explanation + " Not decided: " + p.NotDecided
		}
		ref := p.DesignRef
		if ref == "" {
			ref = "DESIGN.md section 9 (rules as built), section 3 (plan), " + id
		}
		checks = append(checks, map[string]any{
			"property_id":         id,
			"quick_cmd":           "./run.sh " + id + " quick",
			"thorough_cmd":        "./run.sh " + id + " thorough",
			"evidence_file":       "/verif/evidence/" + id + ".json",
			"replay_cmd_template": "./run.sh " + id + " quick  # re-derives every obligation; the violated ones are listed in {path}",
			"engine":              "fgcheck",
			"level_claimed":       map[string]any{"category": p.Level, "text": text, "design_ref": ref},
			"level_note":          "Trusted base: go/packages + go/types + go/cfg (go1.26.8, x/tools v0.50.0) and the rule tables of /verif/fgcheck confirmed by reading the pinned tree. " + strings.Join(p.Assumptions, "; ") + ". Not decided: " + p.NotDecided,
			"technique":           "static analysis: " + p.Technique,
		})
	}
	var na []map[string]string
	var naIDs []string
	for id := range notApplicable {
		naIDs = append(naIDs, id)
	}
	// properties with no registered check and no explicit reason are pending
	for i := 1; i <= 41; i++ {
		id := fmt.Sprintf("C%02d", i)
		if registry[id] == nil && notApplicable[id] == "" {
			notApplicable[id] = "Not claimed (yet): no sound static rule for this property has been built and both-ways tested in /verif; see DESIGN.md section 3 for the planned structural clauses."
			naIDs = append(naIDs, id)
		}
	}
	sort.Strings(naIDs)
	for _, id := range naIDs {
		if registry[id] != nil {
			continue
		}
		na = append(na, map[string]string{"property_id": id, "reason": notApplicable[id]})
	}
	m := map[string]any{
		"version":   1,
		"setup_cmd": "./setup.sh",
		"hooks": map[string]any{
			"guard":            "verif",
			"enable":           "none needed: the checks read unexported code directly from the source; no hook commits exist (go build -tags verif would enable them if any were added)",
			"baseline_off_cmd": "for m in $(cat /w/out/gomods.txt); do MF=$(cd /repo/$m && . /w/out/goenv.sh && gomodflag); (cd /repo/$m && go test $MF -json -vet=off -count=1 -timeout 25m ./...); done",
			"source_commits":   []string{},
			"add_only":         true,
		},
		"engines": []map[string]any{{
			"name": "fgcheck", "path": "/verif/fgcheck", "serves_properties": served,
			"kind_free_text": "repository-specific static analyser (Go): go/packages type-checked syntax, go/cfg control-flow graphs with dominators / edge-dominance facts / must-pass-through path search, who-may-call and who-may-write tables, constant-table evaluation, must-lockset analysis, codec schema translation",
		}},
		"checks":         checks,
		"not_applicable": na,
		"notes":          "All checks are static: they load /repo's working tree with go/packages on every run and never execute repository code. quick = the property's rules on the default build configuration; thorough = the same rules re-derived additionally under GOARCH=386 and -tags synctests (every obligation records its configuration). Violations not listed as `known` in /verif/known_findings.jsonl exit 1 with a VIOLATION line; undecidable shapes (renamed anchors, unrecognised idioms, type errors) also fail. /repo carries only unguarded `fix:` commits for the genuine defects the checks found (DESIGN.md section 4; each recorded as a `fixed` line in known_findings.jsonl); there are no hook commits. Statements without effect on any property (blank assignments, logger calls) are ignored by every rule.",
	}
	enc := json.NewEncoder(os.Stdout)
	enc.SetIndent("", " ")
	enc.Encode(m)
}
