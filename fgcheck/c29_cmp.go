package main

import (
	"go/ast"
	"go/token"
	"go/types"
)

// c29seqComparisons: sequence numbers live in Z/2^31. A value that wraps has
// no meaningful order relative to the value before the wrap, and every value
// in [0, 2^31) is a legitimate next sequence, so
//
//	(a) no sequence field (or a local copied from one) is an operand of
//	    <, <=, >, >= anywhere in the package, and
//	(b) in kfake, the authoritative next-sequence / window-entry fields are
//	    never compared with a constant (no value can serve as an "empty"
//	    marker: a batch ending exactly on the wrap leaves nextSeq == 0).
//
// The client's `recBuf.seq == 0` in the unknown-failure heuristic is an
// equality on the client side and is outside (b).
func c29seqComparisons(c *Ctx, m *Module, pkg string, fields [][2]string, banConstEq bool) {
	rule := "sequence-compared-only-for-equality"
	set := map[*types.Var]string{}
	for _, fl := range fields {
		v := m.Field(pkg, fl[0], fl[1])
		if v == nil {
			c.Undecided("anchor", pkg+"."+fl[0]+"."+fl[1], 0, m, "field not found")
			continue
		}
		set[v] = fl[0] + "." + fl[1]
	}
	nCmp := 0
	for _, f := range m.FuncsIn(pkg) {
		if f.Decl == nil || f.Decl.Body == nil {
			continue
		}
		info := f.Info()
		// locals that are plain copies of a sequence field
		alias := map[types.Object]string{}
		ast.Inspect(f.Decl.Body, func(x ast.Node) bool {
			as, ok := x.(*ast.AssignStmt)
			if !ok || len(as.Lhs) != len(as.Rhs) {
				return true
			}
			for i, l := range as.Lhs {
				id, ok := l.(*ast.Ident)
				if !ok {
					continue
				}
				if fv := fieldOfSel(info, unparen(as.Rhs[i])); fv != nil && set[fv] != "" {
					o := info.Defs[id]
					if o == nil {
						o = info.Uses[id]
					}
					if o != nil {
						alias[o] = set[fv]
					}
				}
			}
			return true
		})
		seqOf := func(e ast.Expr) string {
			e = unparen(e)
			if call, ok := e.(*ast.CallExpr); ok && len(call.Args) == 1 {
				if tv, ok := info.Types[call.Fun]; ok && tv.IsType() {
					e = unparen(call.Args[0])
				}
			}
			if fv := fieldOfSel(info, e); fv != nil && set[fv] != "" {
				return set[fv]
			}
			if id, ok := e.(*ast.Ident); ok {
				if s := alias[info.Uses[id]]; s != "" {
					return s + " (copied into " + id.Name + ")"
				}
			}
			return ""
		}
		ast.Inspect(f.Decl.Body, func(x ast.Node) bool {
			b, ok := x.(*ast.BinaryExpr)
			if !ok {
				return true
			}
			switch b.Op {
			case token.LSS, token.LEQ, token.GTR, token.GEQ:
				for _, side := range []ast.Expr{b.X, b.Y} {
					if s := seqOf(side); s != "" {
						nCmp++
						c.Touch(f)
						c.Fail(rule, f.Key+": "+nosp(exprStr(b)), b.Pos(), m, "the modular sequence value "+s+" is ordered with `"+b.Op.String()+"`: across the 2^31 wrap the later sequence is numerically smaller, so the branch takes the wrong arm exactly when the pending batches straddle the wrap")
						return true
					}
				}
			case token.EQL, token.NEQ:
				sx, sy := seqOf(b.X), seqOf(b.Y)
				if sx == "" && sy == "" {
					return true
				}
				nCmp++
				c.Touch(f)
				if !banConstEq {
					return true
				}
				other := b.Y
				s := sx
				if sx == "" {
					other, s = b.X, sy
				}
				if _, isC := constInt(info, other); isC {
					c.Fail(rule, f.Key+": "+nosp(exprStr(b)), b.Pos(), m, s+" is compared with a constant: every value in [0, 2^31) is a legitimate sequence (a batch ending exactly on the wrap leaves the next sequence 0), so no constant can mark a window as empty or unused")
				} else {
					c.OK(rule, f.Key+": "+nosp(exprStr(b)), b.Pos(), m, "equality between sequence values")
				}
			}
			return true
		})
	}
	c.Floor(rule+"/"+pkg+"-comparisons", nCmp, 1)
}

// c29saveAll: every producer window is written on shutdown; a filter on the
// window's content (nextSeq == 0 is also the state right after a batch that
// ends on the wrap) drops the duplicate-detection state of a live producer.
func c29saveAll(c *Ctx, m *Module) {
	rule := "kfake-window-saved-unconditionally"
	f := c.NeedFunc(m, "kfake.Cluster.saveSeqWindows")
	if f == nil {
		return
	}
	info := f.Info()
	n := 0
	for _, call := range callsNamed(f.Decl.Body, info, "each", true) {
		if len(call.Args) != 1 {
			continue
		}
		lit, ok := call.Args[0].(*ast.FuncLit)
		if !ok {
			continue
		}
		n++
		g := f.LitGraph(lit)
		var app ast.Node
		ast.Inspect(lit.Body, func(x ast.Node) bool {
			if as, ok := x.(*ast.AssignStmt); ok && len(as.Lhs) == 1 && exprStr(as.Lhs[0]) == "windows" {
				app = as
			}
			return true
		})
		if app == nil || g == nil {
			c.Fail(rule, f.Key+": windows = append(...)", lit.Pos(), m, "the callback does not append the window")
			continue
		}
		l, ok := g.LocOf(app)
		uncond := ok && len(g.FactsAt(l)) == 0
		early := containsNode(lit.Body, false, func(y ast.Node) bool { _, isR := y.(*ast.ReturnStmt); return isR })
		c.Check(uncond && !early, rule, f.Key+": windows = append(...)", app.Pos(), m, "every window is appended", "a producer window can be skipped when saving (guarded append or early return in the callback): after a clean restart the partition counts as never seen for that producer, so a retried duplicate is appended again and any first sequence is accepted")
	}
	c.Floor(rule+"/callbacks", n, 1)
}
