package main

import (
	"fmt"
	"go/ast"
	"go/token"
	"go/types"
	"strings"

	"golang.org/x/tools/go/cfg"
)

// c07goLit returns the literal of the (single) `go func() {...}()` statement of f.
func c07goLits(f *Func) []*ast.FuncLit {
	var out []*ast.FuncLit
	ast.Inspect(f.Decl.Body, func(y ast.Node) bool {
		if gs, ok := y.(*ast.GoStmt); ok {
			if lit, ok := gs.Call.Fun.(*ast.FuncLit); ok {
				out = append(out, lit)
			}
		}
		return true
	})
	return out
}

// c07recvOf reports whether node n is (or contains, outside literals) a receive from the channel field.
func c07recvFrom(info *types.Info, n ast.Node, fld *types.Var) bool {
	switch n.(type) {
	case *ast.DeferStmt, *ast.GoStmt:
		return false
	}
	return containsNode(n, false, func(y ast.Node) bool {
		u, ok := y.(*ast.UnaryExpr)
		return ok && u.Op == token.ARROW && sameField(fieldOfSel(info, u.X), fld)
	})
}

func c07firstDeferClose(info *types.Info, lit *ast.FuncLit, fld *types.Var) bool {
	if len(lit.Body.List) == 0 {
		return false
	}
	d, ok := lit.Body.List[0].(*ast.DeferStmt)
	if !ok || exprStr(d.Call.Fun) != "close" || len(d.Call.Args) != 1 {
		return false
	}
	return sameField(fieldOfSel(info, d.Call.Args[0]), fld)
}

// ---------------------------------------------------------------- (3) prerevoke / assign / revoke goroutines

func (x *c07x) sessionGoroutines() {
	c, m := x.c, x.m
	rule := "revoke-before-rejoin"
	pre := fieldMust(c, m, "assignRevokeSession", "prerevokeDone")
	asg := fieldMust(c, m, "assignRevokeSession", "assignDone")
	rev := fieldMust(c, m, "assignRevokeSession", "revokeDone")
	if pre == nil || asg == nil || rev == nil {
		return
	}
	type spec struct {
		key    string
		closes *types.Var
		waits  *types.Var
		then   func(info *types.Info, n ast.Node) bool
		what   string
		why    string
	}
	isRevokeCall := func(stage string) func(*types.Info, ast.Node) bool {
		return func(info *types.Info, n ast.Node) bool {
			return c07now(info, n, "kgo.groupConsumer.revoke", func(call *ast.CallExpr) bool { return len(call.Args) == 3 && exprStr(call.Args[0]) == stage })
		}
	}
	isOnAssigned := func(info *types.Info, n ast.Node) bool {
		return containsNode(n, false, func(y ast.Node) bool {
			call, ok := y.(*ast.CallExpr)
			if !ok {
				return false
			}
			fv := fieldOfSel(info, call.Fun)
			return fv != nil && fv.Name() == "onAssigned"
		})
	}
	specs := []spec{
		{"kgo.assignRevokeSession.prerevoke", pre, nil, isRevokeCall("revokeLastSession"), "g.revoke(revokeLastSession, lost, false)", ""},
		{"kgo.assignRevokeSession.assign", asg, pre, isOnAssigned, "onAssigned", "OnPartitionsAssigned can run before the cooperative prerevoke (OnPartitionsRevoked of the lost partitions) finished"},
		{"kgo.assignRevokeSession.revoke", rev, asg, isRevokeCall("revokeThisSession"), "g.revoke(revokeThisSession, nil, leaving)", "the end-of-session revoke can run concurrently with OnPartitionsAssigned / the prerevoke of the same session"},
	}
	for _, sp := range specs {
		f := x.fn(sp.key)
		if f == nil {
			continue
		}
		info := f.Info()
		lits := c07goLits(f)
		if len(lits) != 1 {
			c.Undecided(rule, sp.key+"#goroutine", f.Pos(), m, fmt.Sprintf("%d goroutine literals, want 1", len(lits)))
			continue
		}
		lit := lits[0]
		lg := f.LitGraph(lit)
		c.Check(c07firstDeferClose(info, lit, sp.closes), rule, sp.key+"#closes-done-on-every-exit", lit.Pos(), m, "defer close("+sp.closes.Name()+") first", "close("+sp.closes.Name()+") is not the first deferred call of the goroutine: a stage waiting on it can hang, or proceed before this stage finished")
		// the work happens in the goroutine
		var workLoc *Loc
		for _, b := range lg.C.Blocks {
			for i, nd := range b.Nodes {
				if sp.then(info, nd) {
					workLoc = &Loc{int(b.Index), i}
				}
			}
		}
		if workLoc == nil {
			c.Fail(rule, sp.key+"#work", lit.Pos(), m, sp.what+" not found in the goroutine")
			continue
		}
		if sp.waits != nil {
			p, found := lg.FindPath(Loc{-1, 0}, SearchOpts{Stop: func(n ast.Node) bool { return c07recvFrom(info, n, sp.waits) }, GoalNode: func(n ast.Node) bool { return sp.then(info, n) }})
			c.Check(!found, rule, sp.key+"#waits-"+sp.waits.Name(), lit.Pos(), m, "<-s."+sp.waits.Name()+" before "+sp.what, sp.why+" ("+pathStr(p)+")")
		} else {
			// prerevoke: the revoke is guarded only by cooperative && len(lost) > 0
			facts := lg.FactsAt(*workLoc)
			ok := len(facts) == 2 && c04fact(facts, "g.cooperative.Load()", true) && c04fact(facts, "len(lost)>0", true)
			c.Check(ok, rule, sp.key+"#revokes-lost", lit.Pos(), m, "cooperative members revoke what they lost at the start of the session", "the prerevoke is skipped under ["+c04factsStr(facts)+"]: partitions lost in the rebalance are never revoked (no OnPartitionsRevoked, cursors keep fetching) while the group assigns them to another member")
			// its argument is prerevoke's lost parameter
			lostP := c04param(f, "lost")
			okArg := false
			ast.Inspect(lit.Body, func(y ast.Node) bool {
				if call, ok := y.(*ast.CallExpr); ok && calleeName(info, call) == "kgo.groupConsumer.revoke" && len(call.Args) == 3 && lostP != nil && c04obj(info, call.Args[1]) == lostP {
					if v, isC := constBool(info, call.Args[2]); isC && !v {
						okArg = true
					}
				}
				return true
			})
			c.Check(okArg, rule, sp.key+"#revokes-lost-arg", lit.Pos(), m, "", "the prerevoke does not revoke exactly its `lost` argument")
		}
		// the function returns the channel it closes
		okRet := false
		ast.Inspect(f.Decl.Body, func(y ast.Node) bool {
			if _, isLit := y.(*ast.FuncLit); isLit {
				return false
			}
			if r, ok := y.(*ast.ReturnStmt); ok && len(r.Results) == 1 && sameField(fieldOfSel(info, r.Results[0]), sp.closes) {
				okRet = true
			}
			return true
		})
		c.Check(okRet, rule, sp.key+"#returns-done", f.Pos(), m, "", "the stage does not return its own done channel")
	}
	// close sites of the three channels
	for _, fld := range []*types.Var{pre, asg, rev} {
		n := 0
		for _, f := range x.funcs {
			ast.Inspect(f.Decl.Body, func(y ast.Node) bool {
				call, ok := y.(*ast.CallExpr)
				if ok && exprStr(call.Fun) == "close" && len(call.Args) == 1 && sameField(fieldOfSel(f.Info(), call.Args[0]), fld) {
					n++
					want := map[string]string{"prerevokeDone": "kgo.assignRevokeSession.prerevoke", "assignDone": "kgo.assignRevokeSession.assign", "revokeDone": "kgo.assignRevokeSession.revoke"}[fld.Name()]
					c.Check(f.Key == want, rule, f.Key+": close("+fld.Name()+")", call.Pos(), m, "", fld.Name()+" is closed outside its own stage: the next stage is released before this one finished")
				}
				return true
			})
		}
		c.Check(n == 1, rule, "close("+fld.Name()+")#once", token.NoPos, m, "", fmt.Sprintf("%s is closed at %d sites, want 1", fld.Name(), n))
	}
}

// ---------------------------------------------------------------- (3) setupAssignedAndHeartbeat

func (x *c07x) setupFn() {
	c, m := x.c, x.m
	rule := "revoke-before-rejoin"
	f := x.fn("kgo.groupConsumer.setupAssignedAndHeartbeat")
	if f == nil {
		return
	}
	info := f.Info()
	g := f.Graph()
	asg := fieldMust(c, m, "assignRevokeSession", "assignDone")
	// diffAssigned results
	var added, lost types.Object
	ast.Inspect(f.Decl.Body, func(y ast.Node) bool {
		if as, ok := y.(*ast.AssignStmt); ok && len(as.Lhs) == 2 && len(as.Rhs) == 1 {
			if call, ok := as.Rhs[0].(*ast.CallExpr); ok && calleeName(info, call) == "kgo.groupConsumer.diffAssigned" {
				added, lost = c04obj(info, as.Lhs[0]), c04obj(info, as.Lhs[1])
			}
		}
		return true
	})
	if added == nil || lost == nil {
		c.Undecided(rule, f.Key+"#diff", f.Pos(), m, "`added, lost := g.diffAssigned()` not found")
		return
	}
	find := func(key string) (*ast.CallExpr, Loc) {
		var out *ast.CallExpr
		var l Loc
		ast.Inspect(f.Decl.Body, func(y ast.Node) bool {
			if _, isLit := y.(*ast.FuncLit); isLit {
				return false
			}
			if call, ok := y.(*ast.CallExpr); ok && calleeName(info, call) == key {
				out = call
				l, _ = g.LocOf(call)
			}
			return true
		})
		return out, l
	}
	preCall, preLoc := find("kgo.assignRevokeSession.prerevoke")
	asgCall, asgLoc := find("kgo.assignRevokeSession.assign")
	adjCall, adjLoc := find("kgo.groupConsumer.adjustCooperativeFetchOffsets")
	// heartbeat goroutine
	var hbGo *ast.GoStmt
	var hbLit *ast.FuncLit
	ast.Inspect(f.Decl.Body, func(y ast.Node) bool {
		if gs, ok := y.(*ast.GoStmt); ok {
			if lit, ok := gs.Call.Fun.(*ast.FuncLit); ok && len(c04calls(lit.Body, info, "kgo.groupConsumer.heartbeat")) == 1 {
				hbGo, hbLit = gs, lit
			}
		}
		return true
	})
	if preCall == nil || asgCall == nil || hbGo == nil {
		c.Undecided(rule, f.Key+"#stages", f.Pos(), m, "s.prerevoke / s.assign / heartbeat goroutine not found")
		return
	}
	hbLoc, _ := g.LocOf(hbGo)
	c.Check(len(preCall.Args) == 2 && c04obj(info, preCall.Args[1]) == lost && g.Dominates(preLoc, hbLoc), "kip848-no-ack-before-revoke", f.Key+"#prerevoke-before-heartbeat", preCall.Pos(), m, "s.prerevoke(g, lost) (which sets g848.prerevoking synchronously) runs before the heartbeat goroutine starts",
		"the heartbeat goroutine can start before s.prerevoke(g, lost) marked the session as prerevoking: its first heartbeat is a full request whose Topics no longer lists the revoked partitions, so the coordinator hands them to another member before OnPartitionsRevoked ran")
	okAssignArg := len(asgCall.Args) == 2 && c04obj(info, asgCall.Args[1]) == added && (adjCall == nil || g.Dominates(asgLoc, adjLoc))
	c.Check(okAssignArg, "assigned-only-new", f.Key+"#assign-arg", asgCall.Pos(), m, "OnPartitionsAssigned receives diffAssigned's added set, before fetch-resume partitions are merged in", "OnPartitionsAssigned is not given exactly the newly added partitions (diffAssigned's first result, before adjustCooperativeFetchOffsets): partitions the member already owns are announced as newly assigned")
	// lastAssigned updated from nowAssigned after the diff
	okLast := false
	ast.Inspect(f.Decl.Body, func(y ast.Node) bool {
		if as, ok := y.(*ast.AssignStmt); ok && len(as.Lhs) == 1 && nosp(exprStr(as.Lhs[0])) == "g.lastAssigned" && nosp(exprStr(as.Rhs[0])) == "g.nowAssigned.clone()" {
			if l, ok := g.LocOf(as); ok {
				dl, _ := g.LocOf(c04calls(f.Decl.Body, info, "kgo.groupConsumer.diffAssigned")[0])
				okLast = g.Dominates(dl, l)
			}
		}
		return true
	})
	c.Check(okLast, "assigned-only-new", f.Key+"#last-assigned", f.Pos(), m, "lastAssigned becomes the new assignment only after the diff", "g.lastAssigned is not set to the new assignment after the diff: the next JoinGroup claims partitions the member has revoked (or the next diff re-adds owned ones)")
	// returns only after assignDone, fetchDone and the heartbeat result
	var rets []*ast.ReturnStmt
	ast.Inspect(f.Decl.Body, func(y ast.Node) bool {
		if _, isLit := y.(*ast.FuncLit); isLit {
			return false
		}
		if r, ok := y.(*ast.ReturnStmt); ok {
			rets = append(rets, r)
		}
		return true
	})
	p, found := g.FindPath(Loc{-1, 0}, SearchOpts{Stop: func(n ast.Node) bool { return c07recvFrom(info, n, asg) }, GoalExit: c07anyExit})
	c.Check(!found && len(rets) >= 1, rule, f.Key+"#returns-after-assignDone", f.Pos(), m, "every return follows <-s.assignDone (which follows prerevokeDone)", "setupAssignedAndHeartbeat can return before <-s.assignDone ("+pathStr(p)+"): the manage loop's onLost / next join runs concurrently with the prerevoke and OnPartitionsAssigned of this session")
	// heartbeat result
	hbCh := ""
	ast.Inspect(hbLit.Body, func(y ast.Node) bool {
		if s, ok := y.(*ast.SendStmt); ok {
			hbCh = exprStr(s.Chan)
		}
		return true
	})
	lg := f.LitGraph(hbLit)
	_, early := lg.FindPath(Loc{-1, 0}, SearchOpts{Stop: func(n ast.Node) bool { return c07now(info, n, "kgo.groupConsumer.heartbeat", nil) }, GoalNode: func(n ast.Node) bool { _, ok := n.(*ast.SendStmt); return ok }})
	p2, found2 := g.FindPath(Loc{-1, 0}, SearchOpts{Stop: func(n ast.Node) bool {
		return containsNode(n, false, func(y ast.Node) bool {
			u, ok := y.(*ast.UnaryExpr)
			return ok && u.Op == token.ARROW && exprStr(u.X) == hbCh
		})
	}, GoalExit: c07anyExit})
	c.Check(hbCh != "" && !early && !found2, rule, f.Key+"#returns-after-heartbeat", f.Pos(), m, "every return follows the heartbeat loop's result", "setupAssignedAndHeartbeat can return without the heartbeat loop having finished ("+pathStr(p2)+"): the next join starts while this session's revoke may still run")
	// deferred wait for fetchDone
	okFetch := false
	for _, st := range f.Decl.Body.List {
		if d, ok := st.(*ast.DeferStmt); ok {
			if lit, ok := d.Call.Fun.(*ast.FuncLit); ok && len(lit.Body.List) == 1 && nosp(nodeStr(lit.Body.List[0])) == "<-fetchDone" {
				okFetch = true
			}
		}
	}
	c.Check(okFetch, rule, f.Key+"#returns-after-fetchDone", f.Pos(), m, "defer func() { <-fetchDone }()", "setupAssignedAndHeartbeat no longer waits for the offset fetch goroutine: its assignPartitions can race the next session's revoke / assign")
}

// ---------------------------------------------------------------- (3) heartbeat loop

func (x *c07x) heartbeatFn() {
	c, m := x.c, x.m
	rule := "revoke-before-rejoin"
	f := x.fn("kgo.groupConsumer.heartbeat")
	if f == nil {
		return
	}
	info := f.Info()
	g := f.Graph()
	didRevoke, revoked := localObj(f, "didRevoke"), localObj(f, "revoked")
	if didRevoke == nil || revoked == nil {
		c.Undecided(rule, f.Key+"#locals", f.Pos(), m, "didRevoke / revoked not found")
		return
	}
	n := 0
	ast.Inspect(f.Decl.Body, func(y ast.Node) bool {
		if _, isLit := y.(*ast.FuncLit); isLit {
			return false
		}
		r, ok := y.(*ast.ReturnStmt)
		if !ok {
			return true
		}
		n++
		l, _ := g.LocOf(r)
		facts := g.FactsAt(l)
		after := factMatches(facts, func(ft Fact) bool { return ft.Tag == nil && ft.Val && c04obj(info, ft.Cond) == didRevoke })
		fatal := factMatches(facts, func(ft Fact) bool {
			return ft.Tag == nil && !ft.Val && nosp(exprStr(ft.Cond)) == "errors.Is(err,kerr.RebalanceInProgress)"
		})
		c.Check(after || fatal, rule, fmt.Sprintf("%s: return #%d", f.Key, n), r.Pos(), m, map[bool]string{true: "after the revoke finished", false: "fatal error: the manage loop runs onLost before the next join"}[after],
			"the heartbeat loop can return for a rebalance ["+c04factsStr(facts)+"] before the end-of-session revoke finished: the member rejoins (eager: claiming nothing, so the group reassigns its partitions) while OnPartitionsRevoked is still running and the cursors are still fetching")
		return true
	})
	c.Floor(rule+"#heartbeat-returns", n, 2)
	// didRevoke = true only on receiving from `revoked`; revoked only from s.revoke
	for _, d := range c04defs(f, didRevoke) {
		if d.rhs == nil {
			continue
		}
		v, isC := constBool(info, d.rhs)
		if isC && !v {
			continue
		}
		ok := false
		ast.Inspect(f.Decl.Body, func(y ast.Node) bool {
			cc, isCC := y.(*ast.CommClause)
			if !isCC || cc.Comm == nil || d.stmt.Pos() < cc.Pos() || d.stmt.End() > cc.End() {
				return true
			}
			if es, isES := cc.Comm.(*ast.ExprStmt); isES {
				if u, isU := es.X.(*ast.UnaryExpr); isU && u.Op == token.ARROW && c04obj(info, u.X) == revoked {
					for _, st := range cc.Body {
						if st == d.stmt {
							ok = true
						}
					}
				}
			}
			return true
		})
		c.Check(ok && isC, rule, f.Key+": "+nodeStr(d.stmt), d.stmt.Pos(), m, "set only when the revoke's done channel was received", "didRevoke is set without having received from the revoke stage's done channel")
	}
	nRev := 0
	for _, d := range c04defs(f, revoked) {
		if d.rhs == nil || exprStr(d.rhs) == "nil" {
			continue
		}
		nRev++
		call, isCall := d.rhs.(*ast.CallExpr)
		c.Check(isCall && calleeName(info, call) == "kgo.assignRevokeSession.revoke", rule, f.Key+": "+nodeStr(d.stmt), d.stmt.Pos(), m, "the awaited channel is s.revoke's", "`revoked` is assigned something other than s.revoke(...)'s done channel")
	}
	c.Floor(rule+"#revoke-started", nRev, 1)
	// KIP-848: no heartbeat after the assignment changed
	rule8 := "kip848-no-ack-before-revoke"
	var hbCall *ast.CallExpr
	ast.Inspect(f.Decl.Body, func(y ast.Node) bool {
		if call, ok := y.(*ast.CallExpr); ok && exprStr(call.Fun) == "hbfn" {
			hbCall = call
		}
		return true
	})
	if hbCall == nil {
		c.Undecided(rule8, f.Key+"#hbfn", f.Pos(), m, "hbfn() call not found")
		return
	}
	l, _ := g.LocOf(hbCall)
	facts := g.FactsAt(l)
	// a flag set to true exactly when the closure reported errReassigned848
	setOnReassign := func(o types.Object) bool {
		if v, ok := o.(*types.Var); !ok || v.IsField() {
			return false
		}
		for _, d := range c04defs(f, o) {
			if d.rhs == nil {
				continue
			}
			as, isAs := d.stmt.(*ast.AssignStmt)
			if v, isC := constBool(info, d.rhs); !isC || !v || !isAs || as.Tok != token.ASSIGN {
				continue
			}
			sl, okl := g.LocOf(d.stmt)
			if !okl {
				continue
			}
			for _, ft := range g.FactsAt(sl) {
				if fo := c04obj(info, ft.Cond); fo != nil && ft.Val && ft.Tag == nil {
					if dd := c04single(f, fo); dd != nil && nosp(exprStr(dd.rhs)) == "errors.Is(err,errReassigned848)" {
						return true
					}
				}
				if ft.Val && ft.Tag == nil && nosp(exprStr(ft.Cond)) == "errors.Is(err,errReassigned848)" {
					return true
				}
			}
		}
		return false
	}
	guarded := factMatches(facts, func(ft Fact) bool {
		o := c04obj(info, ft.Cond)
		return ft.Tag == nil && !ft.Val && o != nil && setOnReassign(o)
	})
	c.Check(guarded, rule8, f.Key+"#no-heartbeat-after-reassign", hbCall.Pos(), m, "hbfn() runs only while a stop flag, set when the closure reports errReassigned848, is false",
		"hbfn() is reachable under ["+c04factsStr(facts)+"], with no stop flag that is set when the closure reports errReassigned848: after a response removed partitions (nowAssigned already shrunk, prerevoking not yet set) the old session's timer heartbeat is a full request without them - the coordinator takes it as the revocation ack and assigns them to another member before this member's OnPartitionsRevoked ran")
	// a forced rejoin counts as a rebalance
	okRejoin := false
	rj := fieldMust(c, m, "groupConsumer", "rejoinCh")
	ast.Inspect(f.Decl.Body, func(y ast.Node) bool {
		cc, ok := y.(*ast.CommClause)
		if !ok || cc.Comm == nil || !c07recvFrom(info, cc.Comm, rj) {
			return true
		}
		for _, st := range cc.Body {
			if as, ok := st.(*ast.AssignStmt); ok && len(as.Lhs) == 1 && exprStr(as.Lhs[0]) == "err" && nosp(exprStr(as.Rhs[0])) == "kerr.RebalanceInProgress" {
				okRejoin = true
			}
		}
		return true
	})
	c.Check(okRejoin, "rejoin-signal-not-lost", f.Key+"#rejoin-is-rebalance", f.Pos(), m, "a rejoin signal ends the session like a rebalance (revoke, then rejoin)", "a rejoin signal received by the heartbeat loop does not end the session with RebalanceInProgress: the signal is consumed and the member never rejoins (new topics / partitions stay unassigned)")
}

// ---------------------------------------------------------------- (3) manage loops

func (x *c07x) manageLoops() {
	c, m := x.c, x.m
	rule := "revoke-before-rejoin"
	if f := x.fn("kgo.groupConsumer.manage"); f != nil {
		info := f.Info()
		g := f.Graph()
		n := 0
		for _, b := range g.C.Blocks {
			for i, nd := range b.Nodes {
				if !c07now(info, nd, "kgo.groupConsumer.setupAssignedAndHeartbeat", nil) {
					continue
				}
				n++
				p, found := g.FindPath(Loc{int(b.Index), i}, SearchOpts{
					Stop:     func(y ast.Node) bool { return c07now(info, y, "kgo.groupConsumer.manageFailWait", nil) },
					GoalNode: func(y ast.Node) bool { return c07now(info, y, "kgo.groupConsumer.joinAndSync", nil) },
					EdgeOK: func(from *cfg.Block, k int, to *cfg.Block) bool {
						cond, _, ok := g.condOf(from)
						return !(ok && nosp(exprStr(cond)) == "err==nil" && k == 0)
					},
				})
				c.Check(!found, rule, f.Key+"#session-end", nd.Pos(), m, "a session that ended with an error reaches the next join only through manageFailWait (onLost / onRevoked + invalidate)", "after a failed session the next joinAndSync is reachable without manageFailWait ("+pathStr(p)+"): the member rejoins while still owning (fetching) its old partitions")
			}
		}
		c.Floor(rule+"#manage", n, 1)
	}
	if f := x.fn("kgo.groupConsumer.manage848"); f != nil {
		info := f.Info()
		g := f.Graph()
		n := 0
		for _, b := range g.C.Blocks {
			for i, nd := range b.Nodes {
				if !c07now(info, nd, "kgo.groupConsumer.setupAssignedAndHeartbeat", nil) {
					continue
				}
				n++
				p, found := g.FindPath(Loc{int(b.Index), i}, SearchOpts{
					Stop: func(y ast.Node) bool {
						return c07now(info, y, "kgo.groupConsumer.manageFailWait", nil) || c07now(info, y, "kgo.groupConsumer.abandonAssignment", nil)
					},
					GoalNode: func(y ast.Node) bool { return c07now(info, y, "kgo.g848.initialJoin", nil) },
				})
				c.Check(!found, rule, f.Key+"#session-end", nd.Pos(), m, "a new initialJoin (epoch 0, fresh assignment) is reached only through abandonAssignment / manageFailWait", "after a heartbeat session the member can re-join from epoch 0 without abandoning its assignment ("+pathStr(p)+"): it keeps fetching partitions the coordinator hands to others")
			}
		}
		c.Floor(rule+"#manage848", n, 1)
	}
}

// ---------------------------------------------------------------- rejoin signal

func (x *c07x) rejoinSignal() {
	c, m := x.c, x.m
	rule := "rejoin-signal-not-lost"
	rj := fieldMust(c, m, "groupConsumer", "rejoinCh")
	if rj == nil {
		return
	}
	n := 0
	for _, f := range x.funcs {
		info := f.Info()
		var recvs []ast.Node
		ast.Inspect(f.Decl.Body, func(y ast.Node) bool {
			if u, ok := y.(*ast.UnaryExpr); ok && u.Op == token.ARROW && sameField(fieldOfSel(info, u.X), rj) {
				recvs = append(recvs, u)
			}
			return true
		})
		for i, r := range recvs {
			n++
			c.Touch(f)
			cons := fmt.Sprintf("%s: <-rejoinCh #%d", f.Key, i+1)
			g := f.GraphFor(r)
			var build string
			switch f.Key {
			case "kgo.groupConsumer.heartbeat":
				c.OK(rule, cons, r.Pos(), m, "ends the session, see #rejoin-is-rebalance")
				continue
			case "kgo.groupConsumer.joinAndSync":
				build = "kgo.groupConsumer.joinGroupProtocols"
			case "kgo.g848.initialJoin":
				build = "kgo.g848.mkreq"
			default:
				c.Fail(rule, cons, r.Pos(), m, "the rejoin signal is received outside the heartbeat loop / the pre-join drains: a subscription or partition-count change signalled to the manage loop is swallowed")
				continue
			}
			// locate the node holding the receive
			var from *Loc
			for _, b := range g.C.Blocks {
				for k, nd := range b.Nodes {
					if containsNode(nd, false, func(z ast.Node) bool { return z == r }) {
						from = &Loc{int(b.Index), k}
					}
				}
			}
			if from == nil {
				c.Undecided(rule, cons, r.Pos(), m, "receive not located")
				continue
			}
			p, found := g.FindPath(*from, SearchOpts{
				Stop:     func(y ast.Node) bool { return c07now(info, y, build, nil) },
				GoalExit: func(k ExitKind, last ast.Node) bool { return k != ExitPanic },
			})
			c.Check(!found, rule, cons, r.Pos(), m, "drained only before the request is built from live state ("+strings.TrimPrefix(build, "kgo.")+")",
				"a rejoin signal can be drained and the function return without building a new join request afterwards ("+pathStr(p)+"): a signal raised after the request's metadata was computed (AddConsumeTopics, new partitions seen by the leader) is thrown away, the member stays in a generation that does not cover the new topic / partitions and they are assigned to nobody")
		}
	}
	c.Floor(rule, n, 3)
}

// ---------------------------------------------------------------- KIP-848

func (x *c07x) kip848() {
	c, m := x.c, x.m
	rule := "kip848-no-ack-before-revoke"
	pv := fieldMust(c, m, "g848", "prerevoking")
	if pv == nil {
		return
	}
	// (a) the keepalive guard
	if f := x.fn("kgo.groupConsumer.manage848"); f != nil {
		info := f.Info()
		var lit *ast.FuncLit
		for _, call := range c04calls(f.Decl.Body, info, "kgo.groupConsumer.setupAssignedAndHeartbeat") {
			if len(call.Args) == 2 {
				lit, _ = call.Args[1].(*ast.FuncLit)
			}
		}
		if lit == nil {
			c.Undecided(rule, f.Key+"#closure", f.Pos(), m, "heartbeat closure not found")
		} else {
			lg := f.LitGraph(lit)
			var req types.Object
			ast.Inspect(lit.Body, func(y ast.Node) bool {
				if as, ok := y.(*ast.AssignStmt); ok && len(as.Lhs) == 1 && len(as.Rhs) == 1 {
					if call, ok := as.Rhs[0].(*ast.CallExpr); ok && calleeName(info, call) == "kgo.g848.mkreq" {
						req = c04obj(info, as.Lhs[0])
					}
				}
				return true
			})
			var strip *ast.IfStmt
			ast.Inspect(lit.Body, func(y ast.Node) bool {
				ifs, ok := y.(*ast.IfStmt)
				if !ok {
					return true
				}
				for _, st := range ifs.Body.List {
					if as, ok := st.(*ast.AssignStmt); ok && len(as.Lhs) == 1 && exprStr(as.Rhs[0]) == "nil" {
						if sel, ok := as.Lhs[0].(*ast.SelectorExpr); ok && sel.Sel.Name == "Topics" && c04obj(info, sel.X) == req && req != nil {
							strip = ifs
						}
					}
				}
				return true
			})
			var send *ast.CallExpr
			ast.Inspect(lit.Body, func(y ast.Node) bool {
				if call, ok := y.(*ast.CallExpr); ok {
					if sel, ok := call.Fun.(*ast.SelectorExpr); ok && sel.Sel.Name == "RequestWith" && c04obj(info, sel.X) == req && req != nil {
						send = call
					}
				}
				return true
			})
			if strip == nil || send == nil {
				c.Fail(rule, f.Key+"#keepalive-while-prerevoking", lit.Pos(), m, "the heartbeat closure has no arm that strips req.Topics to nil before req.RequestWith: every heartbeat during a prerevoke acknowledges the shrunk assignment")
			} else {
				env := &triEnv{f: f, atom: func(e ast.Expr) (tri, bool) {
					if call, ok := unparen(e).(*ast.CallExpr); ok {
						if sel, ok := call.Fun.(*ast.SelectorExpr); ok && sel.Sel.Name == "Load" && sameField(fieldOfSel(info, sel.X), pv) {
							return triT, true
						}
					}
					return triU, false
				}}
				v := env.eval(strip.Cond)
				cl, _ := lg.LocOf(strip.Cond)
				sl, _ := lg.LocOf(send)
				// no other store to req.Topics between
				c.Check(v == triT && lg.Dominates(cl, sl), rule, f.Key+"#keepalive-while-prerevoking", strip.Pos(), m, "prerevoking alone forces Topics = nil, before the request is sent",
					"with g848.prerevoking set the guard `"+exprStr(strip.Cond)+"` does not necessarily strip the request to a keepalive: a heartbeat sent while OnPartitionsRevoked is still running is a full request whose Topics (built from the already-shrunk nowAssigned) no longer lists the revoked partitions - the coordinator clears the pending revocation and assigns them to another member, whose OnPartitionsAssigned runs while the old owner is still revoking")
			}
			// errReassigned848 when handleResp reports a change
			okRe := false
			ast.Inspect(lit.Body, func(y ast.Node) bool {
				as, ok := y.(*ast.AssignStmt)
				if !ok || len(as.Lhs) != 1 || exprStr(as.Lhs[0]) != "err" || exprStr(as.Rhs[0]) != "errReassigned848" {
					return true
				}
				l, _ := lg.LocOf(as)
				for _, ft := range lg.FactsAt(l) {
					if be, ok := unparen(ft.Cond).(*ast.BinaryExpr); ok && ft.Val && be.Op == token.NEQ && exprStr(be.Y) == "nil" {
						if d := c04single(f, c04obj(info, be.X)); d != nil {
							if call, ok := d.rhs.(*ast.CallExpr); ok && calleeName(info, call) == "kgo.g848.handleResp" {
								okRe = true
							}
						}
					}
				}
				return true
			})
			c.Check(okRe, rule, f.Key+"#reassign-ends-session", lit.Pos(), m, "a changed assignment returns errReassigned848", "a heartbeat response that changed the assignment does not end the session with errReassigned848: revoked partitions are dropped from nowAssigned (and acknowledged by the next heartbeat) without OnPartitionsRevoked ever running")
		}
		// cooperative on first success
		okCoop := false
		ast.Inspect(f.Decl.Body, func(y ast.Node) bool {
			if call, ok := y.(*ast.CallExpr); ok && nosp(exprStr(call.Fun)) == "g.cooperative.Store" && len(call.Args) == 1 {
				if v, isC := constBool(info, call.Args[0]); isC && v {
					okCoop = true
				}
			}
			return true
		})
		g := f.Graph()
		okCall := false
		ast.Inspect(f.Decl.Body, func(y ast.Node) bool {
			if call, ok := y.(*ast.CallExpr); ok && exprStr(call.Fun) == "optInKnown" {
				if l, ok := g.LocOf(call); ok {
					facts := g.FactsAt(l)
					if c04fact(facts, "known848Support", false) && c04fact(facts, "err!=nil", false) {
						okCall = true
					}
				}
			}
			return true
		})
		c.Check(okCoop && okCall, "cooperative-wiring", f.Key+"#cooperative", f.Pos(), m, "the first successful 848 join switches the member to cooperative revocation", "manage848 does not switch g.cooperative on after the first successful join: prerevoke then skips OnPartitionsRevoked for partitions the coordinator takes away")
	}
	// (b) prerevoking writers and order
	n := 0
	for _, f := range x.funcs {
		info := f.Info()
		ast.Inspect(f.Decl.Body, func(y ast.Node) bool {
			call, ok := y.(*ast.CallExpr)
			if !ok {
				return true
			}
			sel, ok := call.Fun.(*ast.SelectorExpr)
			if !ok || !atomicWriters[sel.Sel.Name] || !sameField(fieldOfSel(info, sel.X), pv) {
				return true
			}
			n++
			v, isC := constBool(info, call.Args[len(call.Args)-1])
			cons := fmt.Sprintf("%s: prerevoking.%s(%s)", f.Key, sel.Sel.Name, exprStr(call.Args[len(call.Args)-1]))
			switch {
			case f.Key == "kgo.assignRevokeSession.prerevoke" && isC && v:
				c.Check(innermostLit(f, call) == nil, rule, cons, call.Pos(), m, "set synchronously, before the goroutine (and the heartbeat loop) starts", "prerevoking is set inside the goroutine: a heartbeat can be sent before it is set")
			case f.Key == "kgo.assignRevokeSession.prerevoke" && isC && !v:
				lit := innermostLit(f, call)
				if lit == nil {
					c.Fail(rule, cons, call.Pos(), m, "prerevoking is cleared outside the prerevoke goroutine")
					return true
				}
				lg := f.LitGraph(lit)
				l, _ := lg.LocOf(call)
				_, found := lg.FindPath(l, SearchOpts{GoalNode: func(nd ast.Node) bool { return c07now(info, nd, "kgo.groupConsumer.revoke", nil) }})
				var condLoc Loc
				haveCond := false
				ast.Inspect(lit.Body, func(z ast.Node) bool {
					if ifs, ok := z.(*ast.IfStmt); ok && len(c04calls(ifs.Body, info, "kgo.groupConsumer.revoke")) > 0 {
						condLoc, haveCond = lg.LocOf(ifs.Cond)
					}
					return true
				})
				c.Check(!found && haveCond && lg.Dominates(condLoc, l), rule, cons, call.Pos(), m, "cleared only after g.revoke (OnPartitionsRevoked and its commit) returned", "prerevoking is cleared before the revoke of the lost partitions ran: the next heartbeat is a full request that releases them to another member while OnPartitionsRevoked is still running")
			case f.Key == "kgo.g848.initialJoin" && isC && !v:
				c.OK(rule, cons, call.Pos(), m, "reset for a fresh member epoch (nowAssigned is nil there)")
			default:
				c.Fail(rule, cons, call.Pos(), m, "g848.prerevoking is written outside prerevoke / initialJoin")
			}
			return true
		})
	}
	c.Floor(rule+"#prerevoking-writers", n, 3)
	// (c) handleResp: a stored assignment is always reported
	if f := x.fn("kgo.g848.handleResp"); f != nil {
		g := f.Graph()
		k := 0
		for _, b := range g.C.Blocks {
			for i, nd := range b.Nodes {
				var arg ast.Expr
				if !containsNode(nd, false, func(y ast.Node) bool {
					call, ok := y.(*ast.CallExpr)
					if ok && nosp(exprStr(call.Fun)) == "g.g.nowAssigned.store" && len(call.Args) == 1 {
						arg = call.Args[0]
						return true
					}
					return false
				}) {
					continue
				}
				k++
				ok := false
				if i+1 < len(b.Nodes) {
					if r, isR := b.Nodes[i+1].(*ast.ReturnStmt); isR && len(r.Results) == 1 && exprStr(r.Results[0]) == exprStr(arg) && exprStr(arg) != "nil" {
						ok = true
					}
				}
				c.Check(ok, rule, fmt.Sprintf("%s: nowAssigned.store #%d", f.Key, k), nd.Pos(), m, "the new assignment is returned to the heartbeat closure", "handleResp stores a new assignment without returning it: the heartbeat session continues, partitions removed by the coordinator are acknowledged by the next heartbeat and never revoked locally")
			}
		}
		c.Floor(rule+"#handleResp", k, 1)
	}
	// (d) mkreq acknowledges nowAssigned
	if f := x.fn("kgo.g848.mkreq"); f != nil {
		info := f.Info()
		ok := false
		ast.Inspect(f.Decl.Body, func(y ast.Node) bool {
			rs, isR := y.(*ast.RangeStmt)
			if !isR || rs.Value == nil {
				return true
			}
			d := c04single(f, c04obj(info, rs.X))
			if d == nil || nosp(exprStr(d.rhs)) != "g.g.nowAssigned.read()" {
				return true
			}
			clone, app := false, false
			ast.Inspect(rs.Body, func(z ast.Node) bool {
				if as, isA := z.(*ast.AssignStmt); isA && len(as.Lhs) == 1 {
					l, r := nosp(exprStr(as.Lhs[0])), nosp(exprStr(as.Rhs[0]))
					if strings.HasSuffix(l, ".Partitions") && r == "slices.Clone("+exprStr(rs.Value)+")" {
						clone = true
					}
					if l == "req.Topics" && strings.HasPrefix(r, "append(req.Topics,") {
						app = true
					}
				}
				return true
			})
			ok = clone && app
			return true
		})
		c.Check(ok, rule, f.Key+"#acks-now-assigned", f.Pos(), m, "Topics lists exactly the partitions of nowAssigned (what the member still owns)", "mkreq does not build Topics from g.nowAssigned: the acknowledged assignment differs from what the member owns")
	}
}

// ---------------------------------------------------------------- diffAssigned

func (x *c07x) diffAssigned() {
	c, m := x.c, x.m
	rule := "assigned-only-new"
	f := x.fn("kgo.groupConsumer.diffAssigned")
	if f == nil {
		return
	}
	info := f.Info()
	g := f.Graph()
	added, lost := localObj(f, "added"), localObj(f, "lost")
	if added == nil || lost == nil {
		// named results
		for _, fl := range f.Decl.Type.Results.List {
			for _, id := range fl.Names {
				switch id.Name {
				case "added":
					added = info.Defs[id]
				case "lost":
					lost = info.Defs[id]
				}
			}
		}
	}
	if added == nil || lost == nil {
		c.Undecided(rule, f.Key+"#results", f.Pos(), m, "added / lost results not found")
		return
	}
	// guard facts: an `exists`-style boolean defined from a map lookup
	lookupFalse := func(facts []Fact, inMap string) bool {
		return factMatches(facts, func(ft Fact) bool {
			if ft.Tag != nil || ft.Val {
				return false
			}
			d := c04single(f, c04obj(info, ft.Cond))
			if d == nil || d.idx != 1 {
				return false
			}
			ix, ok := unparen(d.rhs).(*ast.IndexExpr)
			return ok && nosp(exprStr(ix.X)) == inMap
		})
	}
	nA, nL := 0, 0
	ast.Inspect(f.Decl.Body, func(y ast.Node) bool {
		as, ok := y.(*ast.AssignStmt)
		if !ok || len(as.Lhs) != 1 {
			return true
		}
		ix, ok := as.Lhs[0].(*ast.IndexExpr)
		if !ok {
			return true
		}
		l, okl := g.LocOf(as)
		if !okl {
			return true
		}
		facts := g.FactsAt(l)
		switch c04obj(info, ix.X) {
		case added:
			nA++
			ok := lookupFalse(facts, "lasts") || lookupFalse(facts, "g.lastAssigned")
			c.Check(ok, rule, fmt.Sprintf("%s: added[...] = #%d", f.Key, nA), as.Pos(), m, "only partitions / topics absent from the last assignment", "a partition is reported as added under ["+c04factsStr(facts)+"] without having been looked up (and not found) in the last assignment: OnPartitionsAssigned announces (and offsets are re-fetched for) partitions the member already owns")
		case lost:
			nL++
			inLasts := false
			ast.Inspect(f.Decl.Body, func(z ast.Node) bool {
				if rs, ok := z.(*ast.RangeStmt); ok && exprStr(rs.X) == "lasts" && as.Pos() >= rs.Body.Pos() && as.End() <= rs.Body.End() {
					inLasts = true
				}
				return true
			})
			ok := lookupFalse(facts, "nowAssigned") || inLasts
			c.Check(ok, rule, fmt.Sprintf("%s: lost[...] = #%d", f.Key, nL), as.Pos(), m, "only partitions / topics absent from the new assignment", "a partition is reported as lost under ["+c04factsStr(facts)+"] although it was not checked to be absent from the new assignment")
		}
		return true
	})
	c.Floor(rule+"#added", nA, 2)
	c.Floor(rule+"#lost", nL, 2)
	// eager: everything is new, nothing is lost (it was all revoked at the end of the last session)
	okEager := false
	ast.Inspect(f.Decl.Body, func(y ast.Node) bool {
		if ifs, ok := y.(*ast.IfStmt); ok && nosp(exprStr(ifs.Cond)) == "!g.cooperative.Load()" && len(ifs.Body.List) == 1 {
			if r, ok := ifs.Body.List[0].(*ast.ReturnStmt); ok && len(r.Results) == 2 && exprStr(r.Results[1]) == "nil" {
				if d := c04single(f, c04obj(info, r.Results[0])); d != nil && nosp(exprStr(d.rhs)) == "g.nowAssigned.clone()" {
					okEager = true
				}
			}
		}
		return true
	})
	c.Check(okEager, rule, f.Key+"#eager", f.Pos(), m, "eager: the whole new assignment is added", "the eager arm of diffAssigned does not return (nowAssigned, nil)")
}

// ---------------------------------------------------------------- (4) cooperative wiring

func (x *c07x) wiring() {
	c, m := x.c, x.m
	rule := "cooperative-wiring"
	// every IsCooperative in kgo
	n := 0
	for _, f := range x.funcs {
		if f.Decl.Name.Name != "IsCooperative" || f.Decl.Recv == nil {
			continue
		}
		n++
		typ := recvTypeName(f.Decl.Recv.List[0].Type)
		ret := ""
		if len(f.Decl.Body.List) == 1 {
			if r, ok := f.Decl.Body.List[0].(*ast.ReturnStmt); ok && len(r.Results) == 1 {
				ret = nosp(exprStr(r.Results[0]))
			}
		}
		pn := x.m.Func("kgo." + typ + ".ProtocolName")
		bal := x.m.Func("kgo." + typ + ".Balance")
		name := ""
		if pn != nil {
			name = nows(stripComments(printNode(m.Fset, pn.Decl.Body)))
		}
		switch ret {
		case "false":
			c.Check(!strings.Contains(name, "cooperative"), rule, f.Key, f.Pos(), m, "eager balancer, eager protocol name", "a balancer that reports IsCooperative() == false advertises a cooperative protocol name")
		case "s.cooperative":
			okName := name == `{ifs.cooperative{return"cooperative-sticky"}return"sticky"}`
			c.Check(okName, rule, f.Key+"#protocol-name", f.Pos(), m, "cooperative-sticky exactly when cooperative", "ProtocolName and IsCooperative disagree: members would follow the eager protocol under the cooperative name (or vice versa) and keep partitions the leader's plan moved away")
			if bal == nil {
				c.Fail(rule, f.Key+"#balance", f.Pos(), m, "Balance method not found")
				break
			}
			bg := bal.Graph()
			isAdj := func(nd ast.Node) bool { return c07now(bal.Info(), nd, "kgo.BalancePlan.AdjustCooperative", nil) }
			p, found := bg.FindPath(Loc{-1, 0}, SearchOpts{Stop: isAdj, GoalExit: func(k ExitKind, _ ast.Node) bool { return k != ExitPanic }, EdgeOK: c07edges(bal, bg, map[string]tri{"s.cooperative": triT})})
			// the adjusted plan is the returned one
			okRet := false
			ast.Inspect(bal.Decl.Body, func(y ast.Node) bool {
				if call, ok := y.(*ast.CallExpr); ok && calleeName(bal.Info(), call) == "kgo.BalancePlan.AdjustCooperative" {
					recv := call.Fun.(*ast.SelectorExpr).X
					ast.Inspect(bal.Decl.Body, func(z ast.Node) bool {
						if r, ok := z.(*ast.ReturnStmt); ok && len(r.Results) == 1 && c04obj(bal.Info(), r.Results[0]) == c04obj(bal.Info(), recv) {
							okRet = true
						}
						return true
					})
				}
				return true
			})
			c.Check(!found && okRet, rule, bal.Key+"#withholds-moved-partitions", bal.Pos(), m, "a cooperative plan always passes AdjustCooperative (partitions that change owner are withheld for one round)",
				"the cooperative sticky balancer can return a plan that did not pass AdjustCooperative ("+pathStr(p)+"): a partition is assigned to its new owner in the same generation in which the old owner still consumes it (the old owner only revokes after its sync)")
			// JoinGroupMetadata reports owned partitions when cooperative
			if jm := x.m.Func("kgo." + typ + ".JoinGroupMetadata"); jm != nil {
				ok := false
				jg := jm.Graph()
				ast.Inspect(jm.Decl.Body, func(y ast.Node) bool {
					if as, isA := y.(*ast.AssignStmt); isA && len(as.Lhs) == 1 && nosp(exprStr(as.Lhs[0])) == "meta.OwnedPartitions" && strings.HasPrefix(nosp(exprStr(as.Rhs[0])), "append(meta.OwnedPartitions,") {
						if l, okl := jg.LocOf(as); okl && c04fact(jg.FactsAt(l), "s.cooperative", true) {
							ok = true
						}
					}
					return true
				})
				c.Check(ok, rule, jm.Key+"#owned-partitions", jm.Pos(), m, "cooperative members report what they own", "cooperative members do not report OwnedPartitions: AdjustCooperative cannot see which partitions change owner and withholds nothing")
			}
		default:
			c.Fail(rule, f.Key, f.Pos(), m, "unrecognised IsCooperative implementation `"+ret+"`: its protocol name / Balance wiring is not in the table")
		}
	}
	c.Floor(rule+"#IsCooperative", n, 3)
	// constructors
	for key, want := range map[string]bool{"kgo.CooperativeStickyBalancer": true, "kgo.StickyBalancer": false} {
		if f := x.fn(key); f != nil {
			body := nows(printNode(m.Fset, f.Decl.Body))
			c.Check(body == fmt.Sprintf("{return&stickyBalancer{cooperative:%v}}", want), rule, key, f.Pos(), m, "", "constructor does not set cooperative: "+fmt.Sprint(want))
		}
	}
	// g.cooperative writers
	coop := fieldMust(c, m, "groupConsumer", "cooperative")
	k := 0
	for _, st := range StoreSites(x.funcs, coop) {
		k++
		cons := st.Fn.Key + ": " + nodeStr(st.Node)
		switch st.Fn.Key {
		case "kgo.groupConsumer.handleJoinResp":
			f := st.Fn
			info := f.Info()
			g := f.Graph()
			ok := false
			if d := c04single(f, c04obj(info, st.RHS)); d != nil && nosp(exprStr(d.rhs)) == "balancer.IsCooperative()" {
				l, _ := g.LocOf(st.Node)
				ok = c04fact(g.FactsAt(l), "protocol==balancer.ProtocolName()", true)
			}
			c.Check(ok, rule, cons, st.Node.Pos(), m, "the member follows the protocol the group chose", "g.cooperative is not the IsCooperative() of the balancer whose protocol the coordinator selected: the member revokes eagerly / cooperatively out of step with the leader's plan")
		case "kgo.groupConsumer.manage848":
			v, isC := constBool(st.Fn.Info(), st.RHS)
			c.Check(isC && v, rule, cons, st.Node.Pos(), m, "KIP-848 is always cooperative", "manage848 stores a non-true cooperative flag")
		default:
			c.Fail(rule, cons, st.Node.Pos(), m, "g.cooperative is written outside handleJoinResp / manage848")
		}
	}
	c.Floor(rule+"#cooperative-writers", k, 2)
}
