package main

import (
	"fmt"
	"go/ast"
	"go/token"
	"go/types"
	"os"
	"sort"
	"strings"

	"golang.org/x/tools/go/cfg"
)

func init() {
	register(&Prop{
		ID:        "C23",
		Level:     "other",
		Technique: "table agreement between the three lists of sharded request kinds (type-resolved), must-pass-through analysis of every loop over request items in the shard methods (taint from the loop variables to accounting statements, alias resolution of per-broker containers), container-consumption and emission-loop rules up to the returned []issueShard, accumulate-shape rule for every append/map store, exclusive-accounting (at most once per iteration) path search, sibling agreement between the single-item request construction and the response-side key conversion, per-shard counting in handleShardedReq.issue with request-identity rule, sibling-agreement of the scalar request fields enumerated from go/types, and must-pass-through analysis of the merge functions",
		Explanation: "(1) sharded-request-tables-agree: the request types that shardedRequest routes to handleShardedReq equal the types with a sharder arm in handleShardedReq (no default arm, one distinct sharder type per request type) and the list in Request's documentation; each sharder's shard/onResp/merge type-assert exactly the request type they are dispatched for and its response type. " +
			"(2) every-item-accounted: in every shard method, every path through the body of a loop over the request's items (and over their sub-items, and over replica fan-outs) reaches an accounting statement before the next iteration - an append/map store of data derived from the loop variable into a container that is later turned into issueShards, unknownErrShards.err/errs on such a container, a call of a local accounting closure, or a wholesale error return; a freshly made per-broker container is registered in its parent map; every container that receives items is consumed (ranged by an emission loop, collected, returned, or emitted under len(c) > 0) and every path through an emission loop body carries the loop's data into the issueShard it appends, whose req value derives from the loop variables; every issueShard literal is routed (broker, any or err). unknownErrShards.err appends to what is already stored for (error, topic), errs feeds every element through err, collect emits one error shard per error with every topic. Every `x = append(y, ..)` accumulates into the same place (y is x). " +
			"(3) shard-issued-exactly-once: in handleShardedReq.issue a failed split adds exactly one error shard for the piece; in the per-shard loop every iteration adds one shard or starts one goroutine, the goroutine ends on every path with exactly one addShard or one recursive issue, all of them naming the shard's own request (issues[i].req), the goroutine is registered in the WaitGroup before it starts and wg.Wait precedes the return; addShard appends under the mutex. " +
			"(4) split-requests-copy-scalar-fields (observation only, never a violation: the statement of C23 is about items, not request settings): for every place a sharder builds a new request of the sharded type, every non-slice field of the kmsg struct (enumerated through go/types, minus Version/UnknownTags) is expected to be assigned from the same field of the original request, or the whole struct copied; deviations are listed under `observations` in the evidence (on the pinned tree: listOffsetsSharder does not copy ListOffsetsRequest.TimeoutMillis). " +
			"(2b) item-accounted-at-most-once: in every item loop (and nested sub-item / fan-out loop) of every shard method the accounting statements of one loop level are mutually exclusive per iteration: after an accounting statement (or a nested item loop) no second one is reachable before the next iteration, so an item is never placed in an error list and then also in a broker request. " +
			"(6) response-item-key-from-assigned-request-field: wherever the response side (onResp and the package-level helpers it calls with the request) stores a field of the request into a response item (group name, transactional id, coordinator key), every request field it reads is one that the single-item request construction assigns unconditionally (the forward conversion helper, e.g. offsetFetchGroupToReq / addPartitionsTxnToReq, or the per-item construction inside the shard loop), and the store dominates the point where the converted item is returned or appended. " +
			"(7) rebuilt-item-keys-are-a-set: when a shard method rebuilds a string key array of its own request copy (FindCoordinator's CoordinatorKeys), the new contents are appended from ranging a map keyed by the item that was filled, on every path, from every original key before the rebuild, or come from slices.Compact of a slice that a sort call dominates with no write in between; any slices.Compact in a sharder must have a sorted operand. " +
			"(5) merge-keeps-every-item: every item array of the response type is transferred by the merge callback on every path (append of resp.F... or a loop whose body appends on every path; skipping is allowed only for first-wins de-duplication through a seen-set), intermediate maps are emitted into the merged response, and firstErrMerger hands every error-free shard to the callback.",
		NotDecided: "that the broker chosen for an item is the right one (metadata/coordinator lookups are trusted), exactly-one-shard for the replica-fanned kinds (AlterReplicaLogDirs and DescribeLogDirs send an item to every replica by design; an item whose metadata lists zero replicas lands in no shard), value-level contents of the merged response (e.g. WriteTxnMarkers merges by producer ID only), and duplicate items in the caller's request (FindCoordinator de-duplicates keys by design).",
		Assumptions: []string{
			"field lists of the kmsg request/response types come from the kmsg version linked by the root module (export data)",
			"reflect.Append/AppendSlice/Value.Call behave as documented",
		},
		Run: runC23,
	})
}

type c23sharder struct {
	name     string       // "ListOffsets"
	reqType  *types.Named // kmsg.ListOffsetsRequest
	respType *types.Named
	typ      string // "listOffsetsSharder"
	shard    *Func
	onResp   *Func
	merge    *Func
}

func runC23(c *Ctx) {
	m := c.Load("")
	if m == nil {
		return
	}
	shs := c23tables(c, m)
	c23accounting(c, m, shs)
	c23unknownErrShards(c, m)
	c23issue(c, m)
	c23scalars(c, m, shs)
	c23merge(c, m, shs)
	c23convert(c, m, shs)
	c23dedupe(c, m, shs)
	c23dump(c)
}

// c23dump prints every obligation when FGCHECK_DUMP is set (debug aid).
func c23dump(c *Ctx) {
	if os.Getenv("FGCHECK_DUMP") == "" {
		return
	}
	for _, o := range c.Obs {
		fmt.Printf("OB %s | %s | %s | %s | %s\n", o.Verdict, o.Rule, o.Construct, o.Pos, o.Detail)
	}
}

// ---------------------------------------------------------------------------
// shared helpers

// c23kmsgNamed returns the kmsg named type behind a *kmsg.T or kmsg.T type.
func c23kmsgNamed(t types.Type) *types.Named {
	if t == nil {
		return nil
	}
	if p, ok := t.(*types.Pointer); ok {
		t = p.Elem()
	}
	n, ok := t.(*types.Named)
	if !ok || n.Obj().Pkg() == nil || n.Obj().Pkg().Name() != "kmsg" {
		return nil
	}
	return n
}

func c23rootObj(info *types.Info, e ast.Expr) types.Object {
	for {
		switch x := unparen(e).(type) {
		case *ast.Ident:
			if o := info.Uses[x]; o != nil {
				return o
			}
			return info.Defs[x]
		case *ast.SelectorExpr:
			// package-qualified identifier
			if id, ok := x.X.(*ast.Ident); ok {
				if _, isPkg := info.Uses[id].(*types.PkgName); isPkg {
					return info.Uses[x.Sel]
				}
			}
			e = x.X
		case *ast.IndexExpr:
			e = x.X
		case *ast.StarExpr:
			e = x.X
		case *ast.UnaryExpr:
			e = x.X
		case *ast.SliceExpr:
			e = x.X
		case *ast.TypeAssertExpr:
			e = x.X
		default:
			return nil
		}
	}
}

func c23within(n ast.Node, outer ast.Node) bool {
	return n.Pos() >= outer.Pos() && n.End() <= outer.End()
}

// c23mentions: the expression uses one of the objects (not descending into
// function literals).
func c23mentions(e ast.Node, info *types.Info, set map[types.Object]bool) bool {
	if e == nil {
		return false
	}
	return containsNode(e, false, func(x ast.Node) bool {
		id, ok := x.(*ast.Ident)
		if !ok {
			return false
		}
		if o := info.Uses[id]; o != nil && set[o] {
			return true
		}
		return false
	})
}

func c23mentionsDeep(e ast.Node, info *types.Info, set map[types.Object]bool) bool {
	if e == nil {
		return false
	}
	return containsNode(e, true, func(x ast.Node) bool {
		id, ok := x.(*ast.Ident)
		if !ok {
			return false
		}
		if o := info.Uses[id]; o != nil && set[o] {
			return true
		}
		return false
	})
}

func c23isAppend(info *types.Info, e ast.Expr) (*ast.CallExpr, bool) {
	call, ok := unparen(e).(*ast.CallExpr)
	if !ok {
		return nil, false
	}
	id, ok := unparen(call.Fun).(*ast.Ident)
	if !ok || id.Name != "append" {
		return nil, false
	}
	if _, isB := info.Uses[id].(*types.Builtin); !isB {
		return nil, false
	}
	return call, true
}

func c23typeName(t types.Type) string {
	if t == nil {
		return ""
	}
	if p, ok := t.(*types.Pointer); ok {
		t = p.Elem()
	}
	if n, ok := t.(*types.Named); ok {
		return n.Obj().Name()
	}
	return ""
}

// c23isIssueShardLit: composite literal of type issueShard (possibly elided
// inside a []issueShard literal).
func c23isIssueShardLit(info *types.Info, n ast.Node) bool {
	cl, ok := n.(*ast.CompositeLit)
	if !ok {
		return false
	}
	tv, ok := info.Types[cl]
	return ok && c23typeName(tv.Type) == "issueShard" && func() bool {
		_, isP := tv.Type.(*types.Pointer)
		_, isS := tv.Type.Underlying().(*types.Struct)
		return !isP && isS
	}()
}

func c23hasIssueShardLit(info *types.Info, n ast.Node) bool {
	return containsNode(n, true, func(x ast.Node) bool { return c23isIssueShardLit(info, x) })
}

// loopBlocks finds the head/body/done blocks of a range statement.
func c23loopBlocks(g *Graph, rs *ast.RangeStmt) (head, body, done *cfg.Block) {
	for _, b := range g.C.Blocks {
		if b.Stmt != ast.Stmt(rs) {
			continue
		}
		switch b.Kind {
		case cfg.KindRangeLoop:
			head = b
		case cfg.KindRangeBody:
			body = b
		case cfg.KindRangeDone:
			done = b
		}
	}
	return
}

// ---------------------------------------------------------------------------
// (1) tables

func c23tables(c *Ctx, m *Module) []c23sharder {
	rule := "sharded-request-tables-agree"
	var out []c23sharder
	routed := map[string]bool{}
	if f := c.NeedFunc(m, "kgo.Client.shardedRequest"); f != nil {
		info := f.Info()
		ast.Inspect(f.Decl.Body, func(x ast.Node) bool {
			ts, ok := x.(*ast.TypeSwitchStmt)
			if !ok {
				return true
			}
			for _, cl := range ts.Body.List {
				cc := cl.(*ast.CaseClause)
				if !containsNode(cc, false, func(y ast.Node) bool {
					call, ok := y.(*ast.CallExpr)
					return ok && calleeName(info, call) == "kgo.Client.handleShardedReq"
				}) {
					continue
				}
				for _, e := range cc.List {
					n := c23kmsgNamed(info.Types[e].Type)
					if n == nil {
						c.Fail(rule, f.Key+": case "+exprStr(e), e.Pos(), m, "a non-kmsg or interface type is routed to handleShardedReq: kinds without a sharder arm reach it (nil sharder)")
						continue
					}
					routed[n.Obj().Name()] = true
				}
			}
			return true
		})
	}
	armOf := map[string]string{}
	var armOrder []string
	armType := map[string]*types.Named{}
	if f := c.NeedFunc(m, "kgo.Client.handleShardedReq"); f != nil {
		info := f.Info()
		var sw *ast.TypeSwitchStmt
		for _, st := range f.Decl.Body.List {
			if ts, ok := st.(*ast.TypeSwitchStmt); ok && sw == nil {
				sw = ts
			}
		}
		if sw == nil {
			c.Undecided(rule, f.Key+"#sharder-switch", f.Pos(), m, "type switch selecting the sharder not found")
		} else {
			used := map[string]string{}
			for _, cl := range sw.Body.List {
				cc := cl.(*ast.CaseClause)
				if cc.List == nil {
					c.Fail(rule, f.Key+"#default-arm", cc.Pos(), m, "the sharder switch has a default arm: an unlisted request kind is split by a catch-all sharder")
					continue
				}
				var st string
				if len(cc.Body) == 1 {
					if as, ok := cc.Body[0].(*ast.AssignStmt); ok && len(as.Lhs) == 1 && len(as.Rhs) == 1 {
						if tv, ok := info.Types[as.Lhs[0]]; ok && c23typeName(tv.Type) == "sharder" {
							if ue, ok := unparen(as.Rhs[0]).(*ast.UnaryExpr); ok && ue.Op == token.AND {
								if lit, ok := ue.X.(*ast.CompositeLit); ok {
									st = c23typeName(info.Types[lit].Type)
								}
							}
						}
					}
				}
				for _, e := range cc.List {
					n := c23kmsgNamed(info.Types[e].Type)
					cons := f.Key + ": case " + exprStr(e)
					if n == nil || st == "" || len(cc.List) != 1 {
						c.Fail(rule, cons, e.Pos(), m, "arm does not assign exactly one `&xSharder{cl}` for exactly one kmsg request type")
						continue
					}
					if prev, dup := used[st]; dup {
						c.Fail(rule, cons, e.Pos(), m, "sharder type "+st+" is used for two request kinds ("+prev+" and "+n.Obj().Name()+"): its type assertions panic for one of them")
						continue
					}
					used[st] = n.Obj().Name()
					armOf[n.Obj().Name()] = st
					armType[n.Obj().Name()] = n
					armOrder = append(armOrder, n.Obj().Name())
				}
			}
		}
	}
	// set equality
	for _, k := range sortedKeys(routed) {
		_, ok := armOf[k]
		c.Check(ok, rule, "routed-has-sharder: "+k, 0, m, "", k+" is routed to handleShardedReq but has no sharder arm: the nil sharder panics on the first call")
	}
	for _, k := range armOrder {
		c.Check(routed[k], rule, "sharder-is-routed: "+k, 0, m, "", k+" has a sharder but shardedRequest does not route it to handleShardedReq: the request is sent whole to one broker and items owned by other brokers are not answered")
	}
	c.Floor(rule+"#routed", len(routed), 21)
	c.Floor(rule+"#arms", len(armOf), 21)
	// documentation list on Request
	if f := c.NeedFunc(m, "kgo.Client.Request"); f != nil {
		doc := map[string]bool{}
		if f.Decl.Doc != nil {
			in := false
			for _, cm := range f.Decl.Doc.List {
				line := strings.TrimPrefix(cm.Text, "//")
				if strings.Contains(line, "following requests are split") {
					in = true
					continue
				}
				if !in {
					continue
				}
				if strings.TrimSpace(line) == "" {
					continue
				}
				if !strings.HasPrefix(line, "\t") && !strings.HasPrefix(line, "  ") {
					if len(doc) > 0 {
						in = false
					}
					continue
				}
				fs := strings.Fields(line)
				if len(fs) > 0 {
					doc[fs[0]+"Request"] = true
				}
			}
		}
		if len(doc) == 0 {
			c.Undecided(rule, f.Key+"#doc-list", f.Pos(), m, "the list of split requests was not found in Request's documentation")
		} else {
			for _, k := range sortedKeys(doc) {
				_, ok := armOf[k]
				c.Check(ok, rule, "documented-is-sharded: "+k, f.Pos(), m, "", k+" is documented as split but has no sharder")
			}
			for _, k := range armOrder {
				c.Check(doc[k], rule, "sharded-is-documented: "+k, f.Pos(), m, "", k+" is split but missing from the list in Request's documentation")
			}
		}
	}
	// methods and their type assertions
	kmsgPkg := (*types.Package)(nil)
	for _, k := range armOrder {
		kmsgPkg = armType[k].Obj().Pkg()
	}
	for _, k := range armOrder {
		sh := c23sharder{name: strings.TrimSuffix(k, "Request"), reqType: armType[k], typ: armOf[k]}
		if kmsgPkg != nil {
			if o := kmsgPkg.Scope().Lookup(sh.name + "Response"); o != nil {
				sh.respType, _ = o.Type().(*types.Named)
			}
		}
		if sh.respType == nil {
			c.Undecided(rule, "response-type: "+k, 0, m, "response type "+sh.name+"Response not found in kmsg")
		}
		sh.shard = c.NeedFunc(m, "kgo."+sh.typ+".shard")
		sh.onResp = c.NeedFunc(m, "kgo."+sh.typ+".onResp")
		sh.merge = c.NeedFunc(m, "kgo."+sh.typ+".merge")
		for _, f := range []*Func{sh.shard, sh.onResp, sh.merge} {
			if f == nil {
				continue
			}
			info := f.Info()
			ast.Inspect(f.Decl.Body, func(x ast.Node) bool {
				ta, ok := x.(*ast.TypeAssertExpr)
				if !ok || ta.Type == nil {
					return true
				}
				src := info.Types[ta.X].Type
				if src == nil {
					return true
				}
				sn := ""
				if nm, ok := src.(*types.Named); ok && nm.Obj().Pkg() != nil && nm.Obj().Pkg().Name() == "kmsg" {
					sn = nm.Obj().Name()
				}
				var want *types.Named
				switch sn {
				case "Request":
					want = sh.reqType
				case "Response":
					want = sh.respType
				default:
					return true
				}
				got := c23kmsgNamed(info.Types[ta.Type].Type)
				c.Check(got != nil && want != nil && got.Obj() == want.Obj(), rule, f.Key+": "+exprStr(ta), ta.Pos(), m, "", "type assertion to "+exprStr(ta.Type)+" in the sharder dispatched for "+k+": it panics on the first request")
				return true
			})
		}
		out = append(out, sh)
	}
	return out
}

// ---------------------------------------------------------------------------
// (2) per-item accounting

type c23fn struct {
	c    *Ctx
	m    *Module
	f    *Func
	info *types.Info
	// emitted: locals mentioned in the emission region (statements that build issueShards / return)
	emitted map[types.Object]bool
	// accounting closures: local func variable -> container root it appends its arguments to
	closureRoot map[types.Object]types.Object
	// roots: containers that received items in distribution loops
	roots map[types.Object]ast.Node
	nDist int
	nEmit int
	nOnce int
	seen  map[string]int
	// merge analysis: record emit-mode transfer roots; sets that are emitted later
	recordEmit bool
	liveSets   map[types.Object]bool
	// itemVars: key/value variables of the item loops entered so far
	itemVars map[types.Object]bool
}

func (s *c23fn) isLocal(o types.Object) bool {
	v, ok := o.(*types.Var)
	return ok && !v.IsField() && c23within(identNode(o), s.f.Decl)
}

type posNode struct{ p, e token.Pos }

func (n posNode) Pos() token.Pos { return n.p }
func (n posNode) End() token.Pos { return n.e }

func identNode(o types.Object) ast.Node { return posNode{o.Pos(), o.Pos() + 1} }

// effRoot follows reference aliases: x := C[k] / x := C.f / x := &C[k] for x of
// map or pointer type denotes (part of) container C.
func (s *c23fn) effRoot(o types.Object, depth int) types.Object {
	if o == nil || depth > 6 {
		return o
	}
	v, ok := o.(*types.Var)
	if !ok || !s.isLocal(o) {
		return o
	}
	switch v.Type().Underlying().(type) {
	case *types.Map, *types.Pointer:
	default:
		return o
	}
	for _, rhs := range c23defsOf(s.f, o) {
		if rhs == nil {
			continue
		}
		e := unparen(rhs)
		if ue, ok := e.(*ast.UnaryExpr); ok && ue.Op == token.AND {
			e = unparen(ue.X)
		}
		switch e.(type) {
		case *ast.IndexExpr, *ast.SelectorExpr:
			r := c23rootObj(s.info, e)
			if r != nil && r != o && s.isLocal(r) {
				return s.effRoot(r, depth+1)
			}
		}
	}
	return o
}

// c23defsOf is assignsTo plus the comma-ok forms: in `x, ok := m[k]` the
// definition of x is m[k].
func c23defsOf(f *Func, obj types.Object) []ast.Expr {
	out := assignsTo(f, obj)
	info := f.Info()
	ast.Inspect(f.Decl.Body, func(x ast.Node) bool {
		as, ok := x.(*ast.AssignStmt)
		if !ok || len(as.Lhs) != 2 || len(as.Rhs) != 1 {
			return true
		}
		if c23rootObj(info, as.Lhs[0]) != obj {
			return true
		}
		if _, isID := as.Lhs[0].(*ast.Ident); !isID {
			return true
		}
		switch unparen(as.Rhs[0]).(type) {
		case *ast.IndexExpr, *ast.TypeAssertExpr:
			out = append(out, as.Rhs[0])
		}
		return true
	})
	return out
}

// taintIn propagates taint over the statements under root (a loop body or an
// if body): an assignment whose right side mentions a tainted object taints the
// left side's root when that root is declared inside `scope`.
func (s *c23fn) taintIn(root ast.Node, scope ast.Node, seeds map[types.Object]bool) map[types.Object]bool {
	t := map[types.Object]bool{}
	for k := range seeds {
		t[k] = true
	}
	for changed := true; changed; {
		changed = false
		add := func(o types.Object) {
			if o != nil && !t[o] && c23within(identNode(o), scope) {
				t[o] = true
				changed = true
			}
		}
		ast.Inspect(root, func(x ast.Node) bool {
			switch st := x.(type) {
			case *ast.FuncLit:
				return false
			case *ast.AssignStmt:
				any := false
				for _, r := range st.Rhs {
					if c23mentions(r, s.info, t) {
						any = true
					}
				}
				if any {
					for _, l := range st.Lhs {
						add(c23rootObj(s.info, l))
					}
				}
			case *ast.RangeStmt:
				if c23mentions(st.X, s.info, t) {
					if st.Key != nil {
						add(c23rootObj(s.info, st.Key))
					}
					if st.Value != nil {
						add(c23rootObj(s.info, st.Value))
					}
				}
			case *ast.CallExpr:
				// reflect.Value.Call mutates through its arguments
				if fn, ok := calleeObj(s.info, st).(*types.Func); ok && keyOfObj(fn) == "reflect.Value.Call" {
					if c23mentions(st, s.info, t) {
						for _, a := range st.Args {
							ast.Inspect(a, func(y ast.Node) bool {
								if id, ok := y.(*ast.Ident); ok {
									if o := s.info.Uses[id]; o != nil && s.isLocal(o) {
										add(o)
									}
								}
								return true
							})
						}
					}
				}
			}
			return true
		})
	}
	return t
}

const (
	c23dist = iota
	c23emit
)

// transferPred builds the predicate recognising accounting/transfer CFG nodes
// for a loop (or if) body `scope` with the given taint.
func (s *c23fn) transferPred(scope ast.Node, taint map[types.Object]bool, mode int, record bool) func(n ast.Node) bool {
	info := s.info
	outside := func(o types.Object) bool { return o != nil && !c23within(identNode(o), scope) }
	return func(n ast.Node) bool {
		switch st := n.(type) {
		case *ast.AssignStmt:
			if st.Tok != token.ASSIGN && st.Tok != token.DEFINE {
				return false
			}
			for i, l := range st.Lhs {
				if len(st.Rhs) != len(st.Lhs) {
					break
				}
				root := s.effRoot(c23rootObj(info, l), 0)
				if !outside(root) {
					continue
				}
				if mode == c23dist && !s.emitted[root] {
					continue
				}
				if app, ok := c23isAppend(info, st.Rhs[i]); ok {
					for _, v := range app.Args[1:] {
						if c23mentions(v, info, taint) {
							if record && (mode == c23dist || s.recordEmit) {
								if _, seen := s.roots[root]; !seen {
									s.roots[root] = n
								}
							}
							return true
						}
					}
					continue
				}
				// set insertion C[item] = struct{}{} into a set that is emitted later
				if ix, isIdx := unparen(l).(*ast.IndexExpr); isIdx && mode == c23emit && s.liveSets[root] && c23mentions(ix.Index, info, taint) {
					if record && s.recordEmit {
						if _, seen := s.roots[root]; !seen {
							s.roots[root] = n
						}
					}
					return true
				}
				// C[k] = x where x was built from the item by a call
				if _, isIdx := unparen(l).(*ast.IndexExpr); isIdx {
					if xo := c23rootObj(info, st.Rhs[i]); xo != nil {
						if _, isID := unparen(st.Rhs[i]).(*ast.Ident); isID && c23within(identNode(xo), scope) {
							for _, d := range assignsTo(s.f, xo) {
								if call, ok := unparen(d).(*ast.CallExpr); ok && d != nil {
									for _, a := range call.Args {
										if c23mentions(a, info, taint) {
											if record && mode == c23dist {
												if _, seen := s.roots[root]; !seen {
													s.roots[root] = n
												}
											}
											return true
										}
									}
								}
							}
						}
					}
				}
			}
		case *ast.ExprStmt:
			call, ok := unparen(st.X).(*ast.CallExpr)
			if !ok {
				return false
			}
			argTainted := false
			for _, a := range call.Args {
				if c23mentions(a, info, taint) {
					argTainted = true
				}
			}
			if !argTainted {
				return false
			}
			if fn, ok := calleeObj(info, call).(*types.Func); ok {
				switch keyOfObj(fn) {
				case "kgo.unknownErrShards.err", "kgo.unknownErrShards.errs":
					root := s.effRoot(c23rootObj(info, unparen(call.Fun).(*ast.SelectorExpr).X), 0)
					if outside(root) && (mode == c23emit || s.emitted[root]) {
						if record && mode == c23dist {
							if _, seen := s.roots[root]; !seen {
								s.roots[root] = n
							}
						}
						return true
					}
				case "reflect.Value.Call":
					return mode == c23emit
				}
				return false
			}
			if v, ok := calleeObj(info, call).(*types.Var); ok {
				if root, isAcc := s.closureRoot[v]; isAcc && (mode == c23emit || s.emitted[root]) {
					if record && mode == c23dist {
						if _, seen := s.roots[root]; !seen {
							s.roots[root] = n
						}
					}
					return true
				}
			}
		}
		return false
	}
}

// nestedLoops lists the range statements directly under body (not inside
// literals or other range statements) whose operand mentions taint.
func (s *c23fn) nestedLoops(body ast.Node, taint map[types.Object]bool) []*ast.RangeStmt {
	var out []*ast.RangeStmt
	var walk func(n ast.Node)
	walk = func(n ast.Node) {
		ast.Inspect(n, func(x ast.Node) bool {
			if x == nil || x == n {
				return true
			}
			switch st := x.(type) {
			case *ast.FuncLit:
				return false
			case *ast.RangeStmt:
				if c23mentions(st.X, s.info, taint) {
					out = append(out, st)
				} else {
					walk(st.Body)
				}
				return false
			}
			return true
		})
	}
	walk(body)
	return out
}

// checkLoop: every path through the loop body reaches a transfer before the
// next iteration / the loop's end. Recurses into nested loops over tainted data.
func (s *c23fn) checkLoop(g *Graph, rs *ast.RangeStmt, seeds map[types.Object]bool, mode int, rule, label string, allowSkip func(from *cfg.Block, k int) bool) {
	c, m := s.c, s.m
	info := s.info
	seed := map[types.Object]bool{}
	for k := range seeds {
		seed[k] = true
	}
	for _, e := range []ast.Expr{rs.Key, rs.Value} {
		if e != nil {
			if o := c23rootObj(info, e); o != nil && o.Name() != "_" {
				seed[o] = true
			}
		}
	}
	taint := s.taintIn(rs.Body, rs.Body, seed)
	nested := s.nestedLoops(rs.Body, taint)
	isNestedX := func(n ast.Node) bool {
		for _, nl := range nested {
			if n == ast.Node(nl.X) {
				return true
			}
		}
		return false
	}
	pred := s.transferPred(rs.Body, taint, mode, true)
	head, body, done := c23loopBlocks(g, rs)
	cons := s.f.Key + ": " + label + "for " + nosp(exprStr(rs.Key)) + "," + nosp(exprStr(rs.Value)) + " := range " + exprStr(rs.X)
	if s.seen == nil {
		s.seen = map[string]int{}
	}
	s.seen[cons]++
	if k := s.seen[cons]; k > 1 {
		cons = fmt.Sprintf("%s #%d", cons, k)
	}
	if mode == c23dist {
		s.nDist++
	} else {
		s.nEmit++
	}
	if head == nil || body == nil {
		c.Undecided(rule, cons, rs.Pos(), m, "loop blocks not found in the CFG")
		return
	}
	path, skip := g.FindPath(Loc{int(body.Index), -1}, SearchOpts{
		Stop:      func(n ast.Node) bool { return pred(n) || isNestedX(n) },
		GoalBlock: func(b *cfg.Block) bool { return b == head || (done != nil && b == done) },
		EdgeOK: func(from *cfg.Block, k int, to *cfg.Block) bool {
			return allowSkip == nil || !allowSkip(from, k)
		},
		GoalExit: func(kind ExitKind, last ast.Node) bool {
			if kind == ExitPanic {
				return false
			}
			if r, ok := last.(*ast.ReturnStmt); ok && len(r.Results) > 0 {
				// a wholesale failure of the request is an accounting of every item
				if e := r.Results[len(r.Results)-1]; !c22isNilExpr(info, e) {
					if tv, ok := info.Types[e]; ok && tv.Type != nil && tv.Type.String() == "error" {
						return false
					}
				}
			}
			return true
		},
	})
	what := "accounted (appended to a broker request / error list) before the next iteration"
	bad := "an item can pass through the loop body without being placed in any broker request or error list (path: " + pathStr(path) + "): it appears in no returned shard"
	if mode == c23emit {
		what = "carried into the result on every path"
		bad = "an iteration can end without transferring the loop's data into the result (path: " + pathStr(path) + "): the items it holds are dropped"
	}
	if len(nested) > 0 {
		what += fmt.Sprintf("; %d nested loop(s) checked separately", len(nested))
	}
	c.Check(!skip, rule, cons, rs.Pos(), m, what, bad)
	if mode == c23dist {
		// exactly once: after an accounting statement of this loop level (or a
		// nested item loop) no second one is reachable before the next iteration
		inNested := func(n ast.Node) bool {
			for _, nl := range nested {
				if c23within(n, nl.Body) {
					return true
				}
			}
			return false
		}
		isEvent := func(n ast.Node) bool {
			if !c23within(n, rs.Body) {
				return false
			}
			if isNestedX(n) {
				return true
			}
			return !inNested(n) && pred(n)
		}
		nEv := 0
		var dbl []ast.Node
		var first ast.Node
		for _, b := range g.C.Blocks {
			if !g.live[b.Index] {
				continue
			}
			for i, n := range b.Nodes {
				if !isEvent(n) {
					continue
				}
				nEv++
				if p, again := g.FindPath(Loc{int(b.Index), i}, SearchOpts{
					GoalNode:  isEvent,
					StopBlock: func(x *cfg.Block) bool { return x == head },
				}); again && dbl == nil {
					first = n
					dbl = p
				}
			}
		}
		s.nOnce++
		detail := ""
		if dbl != nil {
			detail = "after `" + nodeStr(first) + "` (" + m.Position(first.Pos()) + ") the same iteration can reach a second accounting statement (path: " + pathStr(dbl) + "): the item is placed in two broker requests / error lists and is returned in two shards"
		}
		c.Check(dbl == nil, "item-accounted-at-most-once", cons, rs.Pos(), m, fmt.Sprintf("the %d accounting statement(s) of the body are mutually exclusive per iteration", nEv), detail)
	}
	if s.itemVars == nil {
		s.itemVars = map[types.Object]bool{}
	}
	for _, e := range []ast.Expr{rs.Key, rs.Value} {
		if e != nil {
			if o := c23rootObj(info, e); o != nil {
				s.itemVars[o] = true
			}
		}
	}
	for _, nl := range nested {
		lab := label
		// a fan-out is a loop over data looked up for the item (not the item's own sub-items)
		if ro := c23rootObj(info, nl.X); ro != nil && !s.itemVars[ro] && mode == c23dist {
			lab = "fan-out "
		}
		s.checkLoop(g, nl, taint, mode, rule, lab, allowSkip)
	}
}

func c23accounting(c *Ctx, m *Module, shs []c23sharder) {
	rule := "every-item-accounted"
	totalDist, totalEmit, totalOnce := 0, 0, 0
	for _, sh := range shs {
		if sh.shard == nil {
			continue
		}
		s := c23analyseShard(c, m, sh.shard, rule, sh.reqType)
		totalDist += s.nDist
		totalEmit += s.nEmit
		totalOnce += s.nOnce
	}
	c.Floor("item-accounted-at-most-once", totalOnce, 26)
	c.Floor(rule+"#item-loops", totalDist, 26)
	c.Floor(rule+"#emission-loops", totalEmit, 40)
	// allBrokersShardedReq: one shard per known broker
	if f := c.NeedFunc(m, "kgo.Client.allBrokersShardedReq"); f != nil {
		s := &c23fn{c: c, m: m, f: f, info: f.Info(), emitted: map[types.Object]bool{}, closureRoot: map[types.Object]types.Object{}, roots: map[types.Object]ast.Node{}}
		n := 0
		ast.Inspect(f.Decl.Body, func(x ast.Node) bool {
			if rs, ok := x.(*ast.RangeStmt); ok && c23hasIssueShardLit(f.Info(), rs) {
				n++
				s.checkLoop(f.Graph(), rs, nil, c23emit, rule, "", nil)
				fo := fieldOfSel(f.Info(), rs.X)
				c.Check(fo != nil && fo.Name() == "brokers", rule, f.Key+"#over-all-brokers", rs.Pos(), m, "ranges cl.brokers", "allBrokersShardedReq does not range over cl.brokers")
				return false
			}
			return true
		})
		c.Check(n == 1, rule, f.Key+"#loop", f.Pos(), m, "", "expected one loop building a shard per broker")
	}
	// every issueShard literal is routed
	nLit := 0
	for _, f := range m.FuncsIn("kgo") {
		info := f.Info()
		ord := 0
		ast.Inspect(f.Decl.Body, func(x ast.Node) bool {
			if !c23isIssueShardLit(info, x) {
				return true
			}
			cl := x.(*ast.CompositeLit)
			nLit++
			ord++
			c.Touch(f)
			routed := false
			hasReq := c22litField(info, cl, "req") != nil
			if e := c22litField(info, cl, "broker"); e != nil {
				routed = true
			}
			if e := c22litField(info, cl, "any"); e != nil {
				if v, ok := constBool(info, e); ok && v {
					routed = true
				}
			}
			if e := c22litField(info, cl, "err"); e != nil && !c22isNilExpr(info, e) {
				routed = true
			}
			c.Check(routed && hasReq, "issue-shard-routed", fmt.Sprintf("%s#issueShard%d", f.Key, ord), cl.Pos(), m, "", "an issueShard is built without a destination (broker, any) or error, or without its request: it is sent to node 0 / loses its items")
			return true
		})
	}
	c.Floor("issue-shard-routed", nLit, 40)
}

// c23analyseShard runs the accounting rules on one shard method.
func c23analyseShard(c *Ctx, m *Module, f *Func, rule string, reqType *types.Named) *c23fn {
	info := f.Info()
	g := f.Graph()
	s := &c23fn{c: c, m: m, f: f, info: info, emitted: map[types.Object]bool{}, closureRoot: map[types.Object]types.Object{}, roots: map[types.Object]ast.Node{}}
	// the request variable
	var reqVar types.Object
	ast.Inspect(f.Decl.Body, func(x ast.Node) bool {
		if as, ok := x.(*ast.AssignStmt); ok && len(as.Lhs) == 1 && len(as.Rhs) == 1 && reqVar == nil {
			if ta, ok := unparen(as.Rhs[0]).(*ast.TypeAssertExpr); ok && ta.Type != nil {
				if n := c23kmsgNamed(info.Types[ta.Type].Type); n != nil && n.Obj() == reqType.Obj() {
					reqVar = c23rootObj(info, as.Lhs[0])
				}
			}
		}
		return true
	})
	if reqVar == nil {
		c.Undecided(rule, f.Key+"#request-var", f.Pos(), m, "the type-asserted request variable was not found")
		return s
	}
	// emission region
	var emitStmts []ast.Stmt
	for _, st := range f.Decl.Body.List {
		_, isRet := st.(*ast.ReturnStmt)
		if isRet || c23hasIssueShardLit(info, st) {
			emitStmts = append(emitStmts, st)
		}
	}
	for _, st := range emitStmts {
		ast.Inspect(st, func(x ast.Node) bool {
			if id, ok := x.(*ast.Ident); ok {
				if o := info.Uses[id]; o != nil && s.isLocal(o) {
					s.emitted[o] = true
				}
			}
			return true
		})
	}
	// local closures; accounting closures append (data derived from) a parameter to a captured container
	for _, st := range f.Decl.Body.List {
		as, ok := st.(*ast.AssignStmt)
		if !ok || len(as.Lhs) != 1 || len(as.Rhs) != 1 {
			continue
		}
		lit, ok := as.Rhs[0].(*ast.FuncLit)
		if !ok {
			continue
		}
		cv := c23rootObj(info, as.Lhs[0])
		params := map[types.Object]bool{}
		for _, fl := range lit.Type.Params.List {
			for _, nm := range fl.Names {
				params[info.Defs[nm]] = true
			}
		}
		taint := s.taintIn(lit.Body, lit.Body, params)
		var acc ast.Node
		var accRoot types.Object
		ast.Inspect(lit.Body, func(x ast.Node) bool {
			st, ok := x.(*ast.AssignStmt)
			if !ok || len(st.Lhs) != 1 || len(st.Rhs) != 1 || acc != nil {
				return true
			}
			app, ok := c23isAppend(info, st.Rhs[0])
			if !ok {
				return true
			}
			root := s.effRoot(c23rootObj(info, st.Lhs[0]), 0)
			if root == nil || c23within(identNode(root), lit) || !s.isLocal(root) {
				return true
			}
			for _, v := range app.Args[1:] {
				if c23mentions(v, info, taint) {
					acc, accRoot = st, root
				}
			}
			return true
		})
		if acc == nil || lit.Type.Results != nil {
			continue
		}
		lg := f.LitGraph(lit)
		path, skip := lg.FindPath(Loc{-1, 0}, SearchOpts{
			Stop:     func(n ast.Node) bool { return n == acc },
			GoalExit: func(k ExitKind, _ ast.Node) bool { return k != ExitPanic },
		})
		c.Check(!skip, rule, f.Key+": closure "+cv.Name(), lit.Pos(), m, "appends its argument to "+accRoot.Name()+" on every path", "the accounting closure can return without storing its argument (path: "+pathStr(path)+")")
		if !skip {
			s.closureRoot[cv] = accRoot
		}
		s.freshRegistered(lit.Body, rule, "closure "+cv.Name()+": ")
	}
	// outermost loops
	var outer []*ast.RangeStmt
	var walk func(n ast.Node)
	walk = func(n ast.Node) {
		ast.Inspect(n, func(x ast.Node) bool {
			switch st := x.(type) {
			case *ast.FuncLit:
				return false
			case *ast.RangeStmt:
				outer = append(outer, st)
				return false
			}
			return true
		})
	}
	walk(f.Decl.Body)
	for _, rs := range outer {
		isItem := c23rootObj(info, rs.X) == reqVar
		hasLit := c23hasIssueShardLit(info, rs)
		if isItem {
			// distribution loop iff it (transitively) contains a transfer into an emitted container
			seed := map[types.Object]bool{}
			for _, e := range []ast.Expr{rs.Key, rs.Value} {
				if e != nil {
					if o := c23rootObj(info, e); o != nil {
						seed[o] = true
					}
				}
			}
			taint := s.taintIn(rs.Body, rs.Body, seed)
			pred := s.transferPred(rs.Body, taint, c23dist, false)
			isDist := containsNode(rs.Body, false, func(x ast.Node) bool { return pred(x) })
			if isDist {
				s.checkLoop(g, rs, nil, c23dist, rule, "", nil)
				s.freshRegistered(rs.Body, rule, "")
				continue
			}
		}
		if hasLit {
			s.emissionLoop(g, rs, rule)
		}
	}
	// whole-request fan-out
	wholeOK := false
	for _, call := range c22calls(f.Decl.Body, func(call *ast.CallExpr) bool { return calleeName(info, call) == "kgo.Client.allBrokersShardedReq" }) {
		ok := false
		if len(call.Args) == 2 {
			if lit, isLit := call.Args[1].(*ast.FuncLit); isLit {
				ok = c23returnsCopyOf(f, lit, reqVar)
			}
		}
		c.Check(ok, rule, f.Key+"#whole-request-to-all-brokers", call.Pos(), m, "every broker receives a copy of the whole request", "the per-broker request is not a copy of the caller's request")
		wholeOK = wholeOK || ok
	}
	if s.nDist == 0 && !wholeOK {
		c.Undecided(rule, f.Key+"#item-loop", f.Pos(), m, "no loop distributing the request's items (and no whole-request fan-out) was recognised")
	}
	// consumption of every container that received items
	var rootObjs []types.Object
	for r := range s.roots {
		rootObjs = append(rootObjs, r)
	}
	sort.Slice(rootObjs, func(i, j int) bool { return rootObjs[i].Pos() < rootObjs[j].Pos() })
	for _, r := range rootObjs {
		how := s.consumed(g, r, reqVar, outer, rule)
		c.Check(how != "", rule, f.Key+": container "+r.Name()+"#consumed", s.roots[r].Pos(), m, how, "items are accumulated in "+r.Name()+" but it is never turned into shards: everything stored there is missing from the result")
	}
	return s
}

// c23returnsCopyOf: the literal's body is `dup := *req; return &dup`.
func c23returnsCopyOf(f *Func, lit *ast.FuncLit, reqVar types.Object) bool {
	info := f.Info()
	if len(lit.Body.List) != 2 {
		return false
	}
	as, ok := lit.Body.List[0].(*ast.AssignStmt)
	if !ok || len(as.Lhs) != 1 || len(as.Rhs) != 1 {
		return false
	}
	st, ok := unparen(as.Rhs[0]).(*ast.StarExpr)
	if !ok || c23rootObj(info, st.X) != reqVar {
		return false
	}
	if _, isID := unparen(st.X).(*ast.Ident); !isID {
		return false
	}
	dup := c23rootObj(info, as.Lhs[0])
	ret, ok := lit.Body.List[1].(*ast.ReturnStmt)
	if !ok || len(ret.Results) != 1 {
		return false
	}
	ue, ok := unparen(ret.Results[0]).(*ast.UnaryExpr)
	return ok && ue.Op == token.AND && c23rootObj(info, ue.X) == dup
}

// freshRegistered: `x = make(..)/newReq(..)` for an alias x of container C is
// followed in the same block by `C[..] = x`.
func (s *c23fn) freshRegistered(body ast.Node, rule, label string) {
	info := s.info
	ast.Inspect(body, func(x ast.Node) bool {
		if _, isLit := x.(*ast.FuncLit); isLit && x != body {
			return false
		}
		blk, ok := x.(*ast.BlockStmt)
		if !ok {
			return true
		}
		for i, st := range blk.List {
			as, ok := st.(*ast.AssignStmt)
			if !ok || as.Tok != token.ASSIGN || len(as.Lhs) != 1 || len(as.Rhs) != 1 {
				continue
			}
			id, ok := as.Lhs[0].(*ast.Ident)
			if !ok {
				continue
			}
			o := info.Uses[id]
			if o == nil || !s.isLocal(o) {
				continue
			}
			if _, isCall := unparen(as.Rhs[0]).(*ast.CallExpr); !isCall {
				continue
			}
			root := s.effRoot(o, 0)
			if root == o {
				continue
			}
			reg := false
			for _, later := range blk.List[i+1:] {
				if a2, ok := later.(*ast.AssignStmt); ok && len(a2.Lhs) == 1 && len(a2.Rhs) == 1 {
					if _, isIdx := unparen(a2.Lhs[0]).(*ast.IndexExpr); isIdx && c23rootObj(info, a2.Rhs[0]) == o {
						if _, isID := unparen(a2.Rhs[0]).(*ast.Ident); isID && s.effRoot(c23rootObj(info, a2.Lhs[0]), 0) == root {
							reg = true
						}
					}
				}
			}
			cons := s.f.Key + ": " + label + nodeStr(as) + "#registered"
			s.c.Check(reg, rule, cons, as.Pos(), s.m, "stored back into "+root.Name(), "a freshly created per-broker container is not stored into "+root.Name()+": the items appended to it are lost")
		}
		return true
	})
}

// emissionLoop: a loop that builds issueShards from an accumulated container.
func (s *c23fn) emissionLoop(g *Graph, rs *ast.RangeStmt, rule string) {
	info := s.info
	s.checkLoop(g, rs, nil, c23emit, rule, "", nil)
	seed := map[types.Object]bool{}
	for _, e := range []ast.Expr{rs.Key, rs.Value} {
		if e != nil {
			if o := c23rootObj(info, e); o != nil && o.Name() != "_" {
				seed[o] = true
			}
		}
	}
	taint := s.taintIn(rs.Body, rs.Body, seed)
	ord := 0
	ast.Inspect(rs.Body, func(x ast.Node) bool {
		if _, isLit := x.(*ast.FuncLit); isLit {
			return false
		}
		if !c23isIssueShardLit(info, x) {
			return true
		}
		ord++
		cl := x.(*ast.CompositeLit)
		e := c22litField(info, cl, "req")
		ok := e != nil && c23mentions(e, info, taint)
		s.c.Check(ok, rule, fmt.Sprintf("%s: range %s#issueShard%d.req", s.f.Key, exprStr(rs.X), ord), cl.Pos(), s.m, "request derives from the loop's container entry", "the shard built in this loop does not carry the container entry it iterates: its items are dropped or duplicated")
		return true
	})
}

// consumed reports how the container reaches the returned shards ("" = not at all).
func (s *c23fn) consumed(g *Graph, r types.Object, reqVar types.Object, outer []*ast.RangeStmt, rule string) string {
	info := s.info
	f := s.f
	set := map[types.Object]bool{r: true}
	if c23typeName(r.Type()) == "" {
		if sl, ok := r.Type().Underlying().(*types.Slice); ok && c23typeName(sl.Elem()) == "issueShard" {
			// returned
			ok := false
			for _, st := range f.Decl.Body.List {
				if ret, isRet := st.(*ast.ReturnStmt); isRet && len(ret.Results) > 0 && c23mentions(ret.Results[0], info, set) {
					ok = true
				}
			}
			if ok {
				return "returned"
			}
			return ""
		}
	}
	if r == reqVar {
		ok := false
		ast.Inspect(f.Decl.Body, func(x ast.Node) bool {
			if c23isIssueShardLit(info, x) {
				if e := c22litField(info, x.(*ast.CompositeLit), "req"); e != nil && c23mentions(e, info, set) {
					ok = true
				}
			}
			return true
		})
		if ok {
			return "the request itself is issued"
		}
		return ""
	}
	for _, rs := range outer {
		if c23hasIssueShardLit(info, rs) && c23rootObj(info, rs.X) == r {
			return "ranged by an emission loop"
		}
	}
	if c23typeName(r.Type()) == "unknownErrShards" {
		for _, st := range f.Decl.Body.List {
			ret, isRet := st.(*ast.ReturnStmt)
			if !isRet || len(ret.Results) == 0 {
				continue
			}
			if containsNode(ret.Results[0], false, func(x ast.Node) bool {
				call, ok := x.(*ast.CallExpr)
				return ok && calleeName(info, call) == "kgo.unknownErrShards.collect" && c23rootObj(info, unparen(call.Fun).(*ast.SelectorExpr).X) == r
			}) {
				return "collected into error shards in the return"
			}
		}
		return ""
	}
	// if len(r) > 0 { ... issues = append(issues, issueShard{req: <from r>}) }
	for _, st := range f.Decl.Body.List {
		ifs, ok := st.(*ast.IfStmt)
		if !ok || ifs.Else != nil || !c23hasIssueShardLit(info, ifs.Body) {
			continue
		}
		be, ok := unparen(ifs.Cond).(*ast.BinaryExpr)
		if !ok {
			continue
		}
		call, ok := unparen(be.X).(*ast.CallExpr)
		if !ok || exprStr(call.Fun) != "len" || len(call.Args) != 1 || c23rootObj(info, call.Args[0]) != r {
			continue
		}
		z, okz := constInt(info, be.Y)
		if !okz || z != 0 || (be.Op != token.GTR && be.Op != token.NEQ) {
			continue
		}
		taint := s.taintIn(ifs.Body, ifs.Body, set)
		isEmit := func(n ast.Node) bool {
			as, ok := n.(*ast.AssignStmt)
			if !ok || len(as.Rhs) != 1 {
				return false
			}
			app, ok := c23isAppend(info, as.Rhs[0])
			if !ok {
				return false
			}
			for _, v := range app.Args[1:] {
				if c23isIssueShardLit(info, unparen(v)) {
					if e := c22litField(info, unparen(v).(*ast.CompositeLit), "req"); e != nil && c23mentions(e, info, taint) {
						return true
					}
				}
			}
			return false
		}
		if _, skip := armMustPass(g, ifs, isEmit); !skip {
			return "emitted as one shard when non-empty"
		}
	}
	return ""
}

// ---------------------------------------------------------------------------
// unknownErrShards and the accumulate-shape rule

func c23unknownErrShards(c *Ctx, m *Module) {
	rule := "error-shards-accumulate"
	// err: every store into the (error, topic) table appends to what is already there
	nStores := 0
	for _, key := range []string{"kgo.unknownErrShards.err", "kgo.unknownErrShards.errs"} {
		f := c.NeedFunc(m, key)
		if f == nil {
			continue
		}
		info := f.Info()
		g := f.Graph()
		ast.Inspect(f.Decl.Body, func(x ast.Node) bool {
			as, ok := x.(*ast.AssignStmt)
			if !ok || len(as.Lhs) != 1 || len(as.Rhs) != 1 {
				return true
			}
			ix, ok := unparen(as.Lhs[0]).(*ast.IndexExpr)
			if !ok {
				return true
			}
			mt, ok := info.Types[ix.X].Type.Underlying().(*types.Map)
			if !ok {
				return true
			}
			nStores++
			cons := key + ": " + nodeStr(as)
			sl, _ := g.LocOf(as)
			lhsText := nosp(exprStr(ix))
			// the variable that was loaded from the same slot
			loadedFromSlot := func(o types.Object) (loaded bool, others []ast.Expr) {
				if o == nil {
					return false, nil
				}
				ast.Inspect(f.Decl.Body, func(y ast.Node) bool {
					a2, ok := y.(*ast.AssignStmt)
					if !ok {
						return true
					}
					for i, l := range a2.Lhs {
						if c23rootObj(info, l) != o {
							continue
						}
						if _, isID := unparen(l).(*ast.Ident); !isID {
							continue
						}
						var rhs ast.Expr
						if len(a2.Rhs) == len(a2.Lhs) {
							rhs = a2.Rhs[i]
						} else if len(a2.Rhs) == 1 && i == 0 {
							rhs = a2.Rhs[0]
						}
						if rhs != nil && nosp(exprStr(unparen(rhs))) == lhsText {
							loaded = true
						} else {
							others = append(others, rhs)
						}
					}
					return true
				})
				return
			}
			switch c23typeName(mt.Elem()) {
			case "Value": // reflect.Value: the slice of partitions
				call, isCall := unparen(as.Rhs[0]).(*ast.CallExpr)
				ok := false
				why := "the stored value is not reflect.Append/AppendSlice of the value already stored for this (error, topic)"
				if isCall && len(call.Args) >= 2 {
					switch calleeName(info, call) {
					case "reflect.Append", "reflect.AppendSlice":
						base := c23rootObj(info, call.Args[0])
						if _, isID := unparen(call.Args[0]).(*ast.Ident); isID && base != nil {
							loaded, _ := loadedFromSlot(base)
							// any other definition of base happens only when the slot was empty (!ok)
							guardOK := true
							ast.Inspect(f.Decl.Body, func(y ast.Node) bool {
								a2, ok := y.(*ast.AssignStmt)
								if !ok || len(a2.Lhs) != 1 || c23rootObj(info, a2.Lhs[0]) != base || a2.Tok != token.ASSIGN {
									return true
								}
								l2, _ := g.LocOf(a2)
								empty := factMatches(g.FactsAt(l2), func(ft Fact) bool {
									id, ok := unparen(ft.Cond).(*ast.Ident)
									return ok && !ft.Val && id.Name == "ok"
								})
								if !empty {
									guardOK = false
								}
								return true
							})
							ok = loaded && guardOK
						}
					}
				}
				c.Check(ok, rule, cons, as.Pos(), m, "appends to the partitions already recorded for (error, topic)", why+": recording the same failing topic twice discards the partitions recorded first - they are neither sent to a broker nor reported in an error shard")
			default: // nested map: created only when absent
				vo := c23rootObj(info, as.Rhs[0])
				loaded, _ := loadedFromSlot(vo)
				isNil := vo != nil && factMatches(g.FactsAt(sl), func(ft Fact) bool {
					be, ok := unparen(ft.Cond).(*ast.BinaryExpr)
					return ok && ft.Val && be.Op == token.EQL && c23rootObj(info, be.X) == vo && c22isNilExpr(info, be.Y)
				})
				c.Check(loaded && isNil, rule, cons, as.Pos(), m, "inner map created only when absent", "the per-error table is replaced although it may already hold topics: earlier failures for this error are dropped")
			}
			return true
		})
	}
	c.Floor(rule+"#stores", nStores, 2)
	// errs: every element goes through err with the same error and topic
	if f := c.NeedFunc(m, "kgo.unknownErrShards.errs"); f != nil {
		info := f.Info()
		g := f.Graph()
		var ps []types.Object
		for _, fl := range f.Decl.Type.Params.List {
			for _, nm := range fl.Names {
				ps = append(ps, info.Defs[nm])
			}
		}
		ok := false
		detail := "errs does not feed every element of its slice through err"
		if len(ps) == 3 {
			ast.Inspect(f.Decl.Body, func(x ast.Node) bool {
				rs, isR := x.(*ast.RangeStmt)
				if !isR || rs.Key == nil {
					return true
				}
				// range v.Len() where v := reflect.ValueOf(partitions)
				lc, isC := unparen(rs.X).(*ast.CallExpr)
				if !isC || calleeName(info, lc) != "reflect.Value.Len" {
					return true
				}
				vo := c23rootObj(info, unparen(lc.Fun).(*ast.SelectorExpr).X)
				fromParam := false
				for _, d := range assignsTo(f, vo) {
					if dc, ok := unparen(d).(*ast.CallExpr); ok && d != nil && calleeName(info, dc) == "reflect.ValueOf" && len(dc.Args) == 1 && c23rootObj(info, dc.Args[0]) == ps[2] {
						fromParam = true
					}
				}
				if !fromParam || len(assignsTo(f, vo)) != 1 {
					return true
				}
				ko := c23rootObj(info, rs.Key)
				isFeed := func(n ast.Node) bool {
					es, ok := n.(*ast.ExprStmt)
					if !ok {
						return false
					}
					call, ok := unparen(es.X).(*ast.CallExpr)
					if !ok || calleeName(info, call) != "kgo.unknownErrShards.err" || len(call.Args) != 3 {
						return false
					}
					if c23rootObj(info, call.Args[0]) != ps[0] || c23rootObj(info, call.Args[1]) != ps[1] {
						return false
					}
					a := nosp(exprStr(call.Args[2]))
					return a == vo.Name()+".Index("+ko.Name()+").Interface()"
				}
				head, body, done := c23loopBlocks(g, rs)
				if head == nil || body == nil {
					return true
				}
				_, skip := g.FindPath(Loc{int(body.Index), -1}, SearchOpts{
					Stop:      isFeed,
					GoalBlock: func(b *cfg.Block) bool { return b == head || b == done },
					GoalExit:  func(k ExitKind, _ ast.Node) bool { return k != ExitPanic },
				})
				// the loop is reached on every path
				_, miss := g.FindPath(Loc{-1, 0}, SearchOpts{
					Stop:     func(n ast.Node) bool { return n == ast.Node(rs.X) },
					GoalExit: func(k ExitKind, _ ast.Node) bool { return k != ExitPanic },
				})
				if !skip && !miss {
					ok = true
				}
				return true
			})
		}
		// alternatively errs stores by itself; then its stores were checked above
		selfStores := containsNode(f.Decl.Body, false, func(x ast.Node) bool {
			as, isA := x.(*ast.AssignStmt)
			if !isA || len(as.Lhs) != 1 {
				return false
			}
			_, isIdx := unparen(as.Lhs[0]).(*ast.IndexExpr)
			return isIdx
		})
		if selfStores {
			ok = true
			detail = ""
		}
		c.Check(ok, rule, f.Key+"#every-element", f.Pos(), m, "l.err(err, topic, v.Index(i).Interface()) for every i", detail+": partitions of a topic that failed to load appear in no shard")
	}
	// collect: one error shard per error holding every topic
	if f := c.NeedFunc(m, "kgo.unknownErrShards.collect"); f != nil {
		s := &c23fn{c: c, m: m, f: f, info: f.Info(), emitted: map[types.Object]bool{}, closureRoot: map[types.Object]types.Object{}, roots: map[types.Object]ast.Node{}}
		n := 0
		for _, st := range f.Decl.Body.List {
			if rs, ok := st.(*ast.RangeStmt); ok && c23hasIssueShardLit(f.Info(), rs) {
				n++
				fo := fieldOfSel(f.Info(), rs.X)
				c.Check(fo != nil && fo.Name() == "mapped", rule, f.Key+"#over-mapped", rs.Pos(), m, "", "collect does not range over l.mapped")
				s.emissionLoop(f.Graph(), rs, rule)
				// the shard carries the error key
				okErr := false
				ast.Inspect(rs.Body, func(x ast.Node) bool {
					if c23isIssueShardLit(f.Info(), x) {
						if e := c22litField(f.Info(), x.(*ast.CompositeLit), "err"); e != nil && rs.Key != nil && c23rootObj(f.Info(), e) == c23rootObj(f.Info(), rs.Key) {
							okErr = true
						}
					}
					return true
				})
				c.Check(okErr, rule, f.Key+"#shard-error", rs.Pos(), m, "error shard carries the map's error key", "the error shard is not given the error it was grouped under")
			}
		}
		c.Check(n == 1, rule, f.Key+"#loop", f.Pos(), m, "", "expected one loop over l.mapped building the error shards")
		// the shards slice is returned
		retOK := false
		for _, st := range f.Decl.Body.List {
			if r, ok := st.(*ast.ReturnStmt); ok && len(r.Results) == 1 {
				if o := c23rootObj(f.Info(), r.Results[0]); o != nil {
					if sl, ok := o.Type().Underlying().(*types.Slice); ok && c23typeName(sl.Elem()) == "issueShard" {
						retOK = true
					}
				}
			}
		}
		c.Check(retOK, rule, f.Key+"#returns-shards", f.Pos(), m, "", "collect does not return the shards it built")
	}
	// the per-topic callbacks handed to collect append (topic, partitions) to the request on every path
	nCb := 0
	for _, f := range m.FuncsIn("kgo") {
		info := f.Info()
		for _, call := range c22callsDeep(f.Decl.Body, func(call *ast.CallExpr) bool { return calleeName(info, call) == "kgo.unknownErrShards.collect" }) {
			if len(call.Args) != 2 {
				continue
			}
			lit, ok := call.Args[1].(*ast.FuncLit)
			cons := f.Key + ": collect callback"
			if !ok || len(lit.Type.Params.List) < 1 {
				c.Undecided(rule, cons, call.Pos(), m, "the per-topic callback is not a function literal")
				continue
			}
			nCb++
			c.Touch(f)
			var ps []types.Object
			for _, fl := range lit.Type.Params.List {
				for _, nm := range fl.Names {
					ps = append(ps, info.Defs[nm])
				}
			}
			if len(ps) != 3 {
				c.Fail(rule, cons, lit.Pos(), m, "callback does not take (request, topic, partitions)")
				continue
			}
			s := &c23fn{c: c, m: m, f: f, info: info, emitted: map[types.Object]bool{}, closureRoot: map[types.Object]types.Object{}, roots: map[types.Object]ast.Node{}}
			lg := f.LitGraph(lit)
			okAll := true
			for _, p := range ps[1:] {
				taint := s.taintIn(lit.Body, lit.Body, map[types.Object]bool{p: true})
				isStore := func(n ast.Node) bool {
					as, ok := n.(*ast.AssignStmt)
					if !ok || len(as.Lhs) != 1 || len(as.Rhs) != 1 || c23rootObj(info, as.Lhs[0]) != ps[0] {
						return false
					}
					app, ok := c23isAppend(info, as.Rhs[0])
					if !ok || nosp(exprStr(app.Args[0])) != nosp(exprStr(as.Lhs[0])) {
						return false
					}
					for _, v := range app.Args[1:] {
						if c23mentions(v, info, taint) {
							return true
						}
					}
					return false
				}
				if _, skip := lg.FindPath(Loc{-1, 0}, SearchOpts{Stop: isStore, GoalExit: func(k ExitKind, _ ast.Node) bool { return k != ExitPanic }}); skip {
					okAll = false
				}
			}
			c.Check(okAll, rule, cons, lit.Pos(), m, "appends the topic with its partitions to the error shard's request on every path", "the callback can return without adding the failing topic/partitions to the error shard's request")
			// the factory handed to collect builds the same request type the callback fills
			if tv, ok := info.Types[call.Args[0]]; ok {
				if sig, ok := tv.Type.Underlying().(*types.Signature); ok && sig.Results().Len() == 1 {
					same := types.Identical(sig.Results().At(0).Type(), ps[0].Type())
					c.Check(same, rule, f.Key+": collect factory", call.Pos(), m, "", "the request factory and the per-topic callback of collect disagree on the request type (reflect call panics)")
				}
			}
		}
	}
	c.Floor(rule+"#collect-callbacks", nCb, 5)

	// accumulate shape: x = append(y, ...) keeps what x held
	rule2 := "append-accumulates-in-place"
	nApp := 0
	for _, f := range m.FuncsIn("kgo") {
		recv := ""
		if f.Decl.Recv != nil {
			recv = recvTypeName(f.Decl.Recv.List[0].Type)
		}
		inScope := strings.HasSuffix(recv, "Sharder") || recv == "unknownErrShards" ||
			f.Key == "kgo.Client.handleShardedReq" || f.Key == "kgo.Client.allBrokersShardedReq" || f.Key == "kgo.firstErrMerger"
		if !inScope {
			continue
		}
		info := f.Info()
		seen := map[string]int{}
		ast.Inspect(f.Decl.Body, func(x ast.Node) bool {
			as, ok := x.(*ast.AssignStmt)
			if !ok || len(as.Lhs) != len(as.Rhs) {
				return true
			}
			for i := range as.Lhs {
				app, ok := c23isAppend(info, as.Rhs[i])
				if !ok {
					continue
				}
				nApp++
				c.Touch(f)
				cons := f.Key + ": " + nosp(exprStr(as.Lhs[i])) + " = append"
				seen[cons]++
				if k := seen[cons]; k > 1 {
					cons = fmt.Sprintf("%s #%d", cons, k)
				}
				same := nosp(exprStr(as.Lhs[i])) == nosp(exprStr(app.Args[0]))
				c.Check(same, rule2, cons, as.Pos(), m, "", "`"+nodeStr(as)+"` does not append to the destination's own contents: what was accumulated there for earlier items/shards is overwritten")
			}
			return true
		})
	}
	c.Floor(rule2, nApp, 90)
}

func c22callsDeep(root ast.Node, pred func(*ast.CallExpr) bool) []*ast.CallExpr {
	var out []*ast.CallExpr
	for _, n := range findNodes(root, true, func(x ast.Node) bool {
		call, ok := x.(*ast.CallExpr)
		return ok && pred(call)
	}) {
		out = append(out, n.(*ast.CallExpr))
	}
	return out
}

// ---------------------------------------------------------------------------
// (3) handleShardedReq.issue

func c23issue(c *Ctx, m *Module) {
	rule := "shard-issued-exactly-once"
	f := c.NeedFunc(m, "kgo.Client.handleShardedReq")
	if f == nil {
		return
	}
	info := f.Info()
	// locals
	find := func(name string) types.Object { return localObj(f, name) }
	issueV, addV := find("issue"), find("addShard")
	wgV := find("wg")
	if issueV == nil || addV == nil || wgV == nil {
		c.Undecided(rule, f.Key+"#locals", f.Pos(), m, "issue / addShard / wg locals not found")
		return
	}
	var issueLit, addLit *ast.FuncLit
	for _, d := range assignsTo(f, issueV) {
		if l, ok := d.(*ast.FuncLit); ok {
			issueLit = l
		}
	}
	for _, d := range assignsTo(f, addV) {
		if l, ok := d.(*ast.FuncLit); ok {
			addLit = l
		}
	}
	if issueLit == nil || addLit == nil || len(assignsTo(f, issueV)) != 1 || len(assignsTo(f, addV)) != 1 {
		c.Undecided(rule, f.Key+"#closures", f.Pos(), m, "issue / addShard are not each bound to exactly one function literal")
		return
	}
	isCallTo := func(call *ast.CallExpr, v types.Object) bool {
		id, ok := unparen(call.Fun).(*ast.Ident)
		return ok && info.Uses[id] == v
	}
	isAdd := func(n ast.Node) bool {
		return c22nodeHas(n, func(call *ast.CallExpr) bool { return isCallTo(call, addV) })
	}
	// addShard appends its parameter under the mutex
	{
		var p types.Object
		if len(addLit.Type.Params.List) == 1 && len(addLit.Type.Params.List[0].Names) == 1 {
			p = info.Defs[addLit.Type.Params.List[0].Names[0]]
		}
		ag := f.LitGraph(addLit)
		isStore := func(n ast.Node) bool {
			as, ok := n.(*ast.AssignStmt)
			if !ok || len(as.Lhs) != 1 || len(as.Rhs) != 1 {
				return false
			}
			app, ok := c23isAppend(info, as.Rhs[0])
			if !ok || len(app.Args) != 2 || c23rootObj(info, app.Args[1]) != p || p == nil {
				return false
			}
			o := c23rootObj(info, as.Lhs[0])
			return o != nil && !c23within(identNode(o), addLit)
		}
		_, skip := ag.FindPath(Loc{-1, 0}, SearchOpts{Stop: isStore, GoalExit: func(k ExitKind, _ ast.Node) bool { return k != ExitPanic }})
		env := newLockEnv(f, nil, nil)
		locked := false
		for _, n := range findNodes(addLit.Body, false, isStore) {
			if held, ok := env.HeldAtNode(n); ok && held.Holds("shardsMu", true) {
				locked = true
			}
		}
		c.Check(!skip && locked, rule, f.Key+": addShard", addLit.Pos(), m, "appends the shard under shardsMu on every path", "addShard can return without recording the shard, or records it without the mutex (concurrent appends lose shards)")
	}
	// the collected slice is what is returned, after wg.Wait
	{
		g := f.Graph()
		var shardsObj types.Object
		ast.Inspect(addLit.Body, func(x ast.Node) bool {
			if as, ok := x.(*ast.AssignStmt); ok && len(as.Lhs) == 1 {
				if _, isApp := c23isAppend(info, as.Rhs[0]); isApp {
					shardsObj = c23rootObj(info, as.Lhs[0])
				}
			}
			return true
		})
		var first *ast.CallExpr
		for _, st := range f.Decl.Body.List {
			if es, ok := st.(*ast.ExprStmt); ok {
				if call, ok := es.X.(*ast.CallExpr); ok && isCallTo(call, issueV) {
					first = call
				}
			}
		}
		reqParam := c22paramObj(f, "req")
		okFirst := false
		if first != nil && len(first.Args) == 2 {
			if cl, ok := unparen(first.Args[0]).(*ast.CompositeLit); ok {
				if e := c22litField(info, cl, "req"); e != nil && c23rootObj(info, e) == reqParam && reqParam != nil {
					if _, isID := unparen(e).(*ast.Ident); isID {
						okFirst = true
					}
				}
			}
		}
		c.Check(okFirst, rule, f.Key+"#initial-issue", f.Pos(), m, "issue(reqTry{0, req, nil}, -1) with the caller's request", "the initial issue does not carry the caller's request")
		var wait *ast.CallExpr
		for _, call := range c22calls(f.Decl.Body, func(call *ast.CallExpr) bool {
			sel, ok := unparen(call.Fun).(*ast.SelectorExpr)
			return ok && sel.Sel.Name == "Wait" && c23rootObj(info, sel.X) == wgV
		}) {
			wait = call
		}
		okRet := false
		nRet := 0
		for _, st := range f.Decl.Body.List {
			r, ok := st.(*ast.ReturnStmt)
			if !ok {
				continue
			}
			nRet++
			if len(r.Results) == 2 && c23rootObj(info, r.Results[0]) == shardsObj && shardsObj != nil && wait != nil && first != nil {
				wl, _ := g.LocOf(wait)
				rl, _ := g.LocOf(r)
				fl, _ := g.LocOf(first)
				okRet = g.Dominates(fl, wl) && g.Dominates(wl, rl)
			}
		}
		c.Check(okRet && nRet == 1, rule, f.Key+"#wait-then-return", f.Pos(), m, "issue(..); wg.Wait(); return shards", "the shards are returned before every shard goroutine finished (wg.Wait does not separate the initial issue from the return), or a different slice is returned")
	}
	ig := f.LitGraph(issueLit)
	tryP := types.Object(nil)
	if ps := issueLit.Type.Params.List; len(ps) >= 1 && len(ps[0].Names) == 1 {
		tryP = info.Defs[ps[0].Names[0]]
	}
	isTryReq := func(e ast.Expr) bool {
		fv := fieldOfSel(info, e)
		return fv != nil && fv.Name() == "req" && tryP != nil && c23rootObj(info, e) == tryP && nosp(exprStr(e)) == tryP.Name()+".req"
	}
	// the split
	var shardCall *ast.CallExpr
	for _, call := range c22calls(issueLit.Body, func(call *ast.CallExpr) bool { return calleeName(info, call) == "kgo.sharder.shard" }) {
		shardCall = call
	}
	if shardCall == nil || len(shardCall.Args) != 3 {
		c.Undecided(rule, f.Key+": issue#split", issueLit.Pos(), m, "call of sharder.shard not found in issue")
		return
	}
	c.Check(isTryReq(shardCall.Args[1]), rule, f.Key+": issue#splits-its-piece", shardCall.Pos(), m, "sharder.shard(ctx, try.req, ..)", "issue splits a request other than the piece it was given")
	sas, _ := enclosingStmt(issueLit.Body, shardCall).(*ast.AssignStmt)
	if sas == nil || len(sas.Lhs) != 3 {
		c.Undecided(rule, f.Key+": issue#split", shardCall.Pos(), m, "results of sharder.shard are not bound")
		return
	}
	issuesObj := c23rootObj(info, sas.Lhs[0])
	errObj := c23rootObj(info, sas.Lhs[2])
	// shardArgs extracts (req, err) of addShard(shard(br, req, resp, err))
	shardArgs := func(call *ast.CallExpr) (req, err ast.Expr) {
		if len(call.Args) != 1 {
			return nil, nil
		}
		inner, ok := unparen(call.Args[0]).(*ast.CallExpr)
		if !ok || calleeName(info, inner) != "kgo.shard" || len(inner.Args) != 4 {
			return nil, nil
		}
		return inner.Args[1], inner.Args[3]
	}
	// failed split: exactly one error shard for the piece
	{
		var arm *ast.IfStmt
		for _, st := range issueLit.Body.List {
			if ifs, ok := st.(*ast.IfStmt); ok && arm == nil {
				if be, ok := unparen(ifs.Cond).(*ast.BinaryExpr); ok && be.Op == token.NEQ && c22isNilExpr(info, be.Y) && c23rootObj(info, be.X) == errObj {
					arm = ifs
				}
			}
		}
		ok := false
		detail := "the error of sharder.shard is not checked right after the call"
		if arm != nil {
			adds := c22calls(arm.Body, func(call *ast.CallExpr) bool { return isCallTo(call, addV) })
			_, skip := armMustPass(ig, arm, isAdd)
			leaks := leaksToDone(ig, arm)
			okArgs := false
			if len(adds) == 1 {
				r, e := shardArgs(adds[0])
				okArgs = r != nil && isTryReq(r) && c23rootObj(info, e) == errObj
			}
			ok = len(adds) == 1 && !skip && !leaks && okArgs
			detail = "a failed split does not add exactly one error shard carrying the piece (try.req) and the error, then return"
		}
		c.Check(ok, rule, f.Key+": issue#failed-split", issueLit.Pos(), m, "addShard(shard(nil, try.req, nil, err)); return", detail+": the piece's items appear in no shard (or are split again)")
	}
	// other writes to issues: only the one-element replacement under len(issues) == 0
	for _, n := range findNodes(issueLit.Body, false, func(x ast.Node) bool {
		as, ok := x.(*ast.AssignStmt)
		if !ok || as == sas {
			return false
		}
		for _, l := range as.Lhs {
			if c23rootObj(info, l) == issuesObj {
				return true
			}
		}
		return false
	}) {
		as := n.(*ast.AssignStmt)
		l, _ := ig.LocOf(as)
		empty := factMatches(ig.FactsAt(l), func(ft Fact) bool {
			be, ok := unparen(ft.Cond).(*ast.BinaryExpr)
			if !ok || !ft.Val || be.Op != token.EQL {
				return false
			}
			call, ok := unparen(be.X).(*ast.CallExpr)
			z, okz := constInt(info, be.Y)
			return ok && okz && z == 0 && exprStr(call.Fun) == "len" && len(call.Args) == 1 && c23rootObj(info, call.Args[0]) == issuesObj
		})
		one := false
		if len(as.Rhs) == 1 {
			if cl, ok := unparen(as.Rhs[0]).(*ast.CompositeLit); ok && len(cl.Elts) == 1 {
				if el, ok := cl.Elts[0].(*ast.CompositeLit); ok {
					if e := c22litField(info, el, "req"); e != nil && isTryReq(e) {
						one = true
					}
				}
			}
		}
		c.Check(empty && one, rule, f.Key+": issue#"+nodeStr(as), as.Pos(), m, "an empty split is replaced by one any-broker shard of the piece", "the list of shards returned by the sharder is overwritten: pieces are dropped")
	}
	// the per-shard loop
	var loop *ast.RangeStmt
	for _, st := range issueLit.Body.List {
		if rs, ok := st.(*ast.RangeStmt); ok && c23rootObj(info, rs.X) == issuesObj {
			if _, isID := unparen(rs.X).(*ast.Ident); isID && c23hasGo(rs.Body) {
				loop = rs
			}
		}
	}
	if loop == nil {
		c.Fail(rule, f.Key+": issue#per-shard-loop", issueLit.Pos(), m, "no loop over the sharder's issueShards that starts the per-shard goroutines")
		return
	}
	// the shard variable: issues[i] (or the range value)
	var mine types.Object
	if loop.Value != nil {
		mine = c23rootObj(info, loop.Value)
	} else if loop.Key != nil {
		ko := c23rootObj(info, loop.Key)
		ast.Inspect(loop.Body, func(x ast.Node) bool {
			vs, ok := x.(*ast.ValueSpec)
			if ok {
				for i, nm := range vs.Names {
					if i < len(vs.Values) {
						if ix, ok := unparen(vs.Values[i]).(*ast.IndexExpr); ok && c23rootObj(info, ix.X) == issuesObj && c23rootObj(info, ix.Index) == ko {
							mine = info.Defs[nm]
						}
					}
				}
			}
			if as, ok := x.(*ast.AssignStmt); ok && as.Tok == token.DEFINE && len(as.Lhs) == 1 && len(as.Rhs) == 1 {
				if ix, ok := unparen(as.Rhs[0]).(*ast.IndexExpr); ok && c23rootObj(info, ix.X) == issuesObj && c23rootObj(info, ix.Index) == ko {
					mine = c23rootObj(info, as.Lhs[0])
				}
			}
			return true
		})
	}
	if mine == nil || len(assignsTo(f, mine)) > 1 {
		c.Fail(rule, f.Key+": issue#shard-variable", loop.Pos(), m, "the loop's shard is not bound once to issues[i]")
		return
	}
	// plain copies of the shard variable (x := myIssue) denote the same shard
	mineSet := map[types.Object]bool{mine: true}
	for changed := true; changed; {
		changed = false
		ast.Inspect(loop.Body, func(x ast.Node) bool {
			var names []*ast.Ident
			var vals []ast.Expr
			switch st := x.(type) {
			case *ast.ValueSpec:
				names, vals = st.Names, st.Values
			case *ast.AssignStmt:
				if st.Tok == token.DEFINE && len(st.Lhs) == len(st.Rhs) {
					for _, l := range st.Lhs {
						id, _ := l.(*ast.Ident)
						names = append(names, id)
					}
					vals = st.Rhs
				}
			}
			for i, nm := range names {
				if nm == nil || i >= len(vals) {
					continue
				}
				o := info.Defs[nm]
				if id, ok := unparen(vals[i]).(*ast.Ident); ok && o != nil && !mineSet[o] && mineSet[info.Uses[id]] && len(assignsTo(f, o)) == 1 {
					mineSet[o] = true
					changed = true
				}
			}
			return true
		})
	}
	isMine := func(e ast.Expr) bool {
		o := c23rootObj(info, e)
		return o != nil && mineSet[o]
	}
	isMineReq := func(e ast.Expr) bool {
		if e == nil {
			return false
		}
		fv := fieldOfSel(info, e)
		o := c23rootObj(info, e)
		return fv != nil && fv.Name() == "req" && o != nil && mineSet[o] && nosp(exprStr(e)) == o.Name()+".req"
	}
	head, body, done := c23loopBlocks(ig, loop)
	isGo := func(n ast.Node) bool { _, ok := n.(*ast.GoStmt); return ok }
	isEv := func(n ast.Node) bool { return isGo(n) || isAdd(n) }
	if head == nil || body == nil {
		c.Undecided(rule, f.Key+": issue#per-shard-loop", loop.Pos(), m, "loop blocks not found")
		return
	}
	path, skip := ig.FindPath(Loc{int(body.Index), -1}, SearchOpts{
		Stop:      isEv,
		GoalBlock: func(b *cfg.Block) bool { return b == head || b == done },
		GoalExit:  func(k ExitKind, _ ast.Node) bool { return k != ExitPanic },
	})
	double := false
	var gos []*ast.GoStmt
	for _, b := range ig.C.Blocks {
		for i, n := range b.Nodes {
			if !c23within(n, loop.Body) || !isEv(n) {
				continue
			}
			if gs, ok := n.(*ast.GoStmt); ok {
				gos = append(gos, gs)
			}
			if _, again := ig.FindPath(Loc{int(b.Index), i}, SearchOpts{GoalNode: isEv, StopBlock: func(x *cfg.Block) bool { return x == head }}); again {
				double = true
			}
		}
	}
	c.Check(!skip && !double && len(gos) == 1, rule, f.Key+": issue#per-shard-loop", loop.Pos(), m, "each issueShard adds one error shard or starts one goroutine",
		"an issueShard can be skipped (path: "+pathStr(path)+") or handled twice in the per-shard loop: its items are missing from / duplicated in the result")
	// the direct error shard
	nDirect := 0
	for _, call := range c22calls(loop.Body, func(call *ast.CallExpr) bool { return isCallTo(call, addV) }) {
		nDirect++
		r, e := shardArgs(call)
		l, _ := ig.LocOf(call)
		hasErr := factMatches(ig.FactsAt(l), func(ft Fact) bool {
			be, ok := unparen(ft.Cond).(*ast.BinaryExpr)
			if !ok || !ft.Val || be.Op != token.NEQ || !c22isNilExpr(info, be.Y) {
				return false
			}
			fv := fieldOfSel(info, be.X)
			return fv != nil && fv.Name() == "err" && isMine(be.X)
		})
		okE := false
		if e != nil {
			fv := fieldOfSel(info, e)
			okE = fv != nil && fv.Name() == "err" && isMine(e)
		}
		c.Check(r != nil && isMineReq(r) && okE && hasErr, rule, f.Key+": issue#unmappable-shard", call.Pos(), m, "addShard(shard(nil, myIssue.req, nil, myIssue.err)) under myIssue.err != nil", "the error shard for an unmappable piece does not carry that piece's request and error")
	}
	c.Floor(rule+"#unmappable-arm", nDirect, 1)
	if len(gos) != 1 {
		return
	}
	gs := gos[0]
	glit, ok := gs.Call.Fun.(*ast.FuncLit)
	if !ok {
		c.Undecided(rule, f.Key+": issue#goroutine", gs.Pos(), m, "per-shard goroutine is not a function literal")
		return
	}
	// started only for mappable pieces
	{
		l, _ := ig.LocOf(gs)
		noErr := factMatches(ig.FactsAt(l), func(ft Fact) bool {
			be, ok := unparen(ft.Cond).(*ast.BinaryExpr)
			if !ok || ft.Val || be.Op != token.NEQ || !c22isNilExpr(info, be.Y) {
				return false
			}
			fv := fieldOfSel(info, be.X)
			return fv != nil && fv.Name() == "err" && isMine(be.X)
		})
		// wg.Add(1) before the go statement, inside the loop body; defer wg.Done() first in the goroutine
		addOK := false
		for _, call := range c22calls(loop.Body, func(call *ast.CallExpr) bool {
			sel, ok := unparen(call.Fun).(*ast.SelectorExpr)
			return ok && sel.Sel.Name == "Add" && c23rootObj(info, sel.X) == wgV
		}) {
			al, _ := ig.LocOf(call)
			if v, ok := constInt(info, call.Args[0]); ok && v == 1 && ig.Dominates(al, l) {
				addOK = true
			}
		}
		doneOK := false
		if len(glit.Body.List) > 0 {
			if ds, ok := glit.Body.List[0].(*ast.DeferStmt); ok {
				if sel, ok := unparen(ds.Call.Fun).(*ast.SelectorExpr); ok && sel.Sel.Name == "Done" && c23rootObj(info, sel.X) == wgV {
					doneOK = true
				}
			}
		}
		c.Check(noErr && addOK && doneOK, rule, f.Key+": issue#goroutine-start", gs.Pos(), m, "wg.Add(1) before go, defer wg.Done() first, only for pieces without a mapping error", "the per-shard goroutine is not registered in the WaitGroup before it starts (Request can return before the shard is added) or is started for a piece that already has an error shard")
	}
	// goroutine: exactly one addShard or recursive issue on every exit
	gg := f.LitGraph(glit)
	spec := OnceSpec{Call: func(call *ast.CallExpr) Event {
		if isCallTo(call, addV) || isCallTo(call, issueV) {
			return Event{Kind: EvOnce}
		}
		return Event{}
	}}
	onceRule(c, m, rule, f, glit.Body, gg, f.Key+": issue#goroutine", spec, 2)
	// request identity: everything the goroutine issues / reports / re-splits is the shard's own request
	nID := 0
	ast.Inspect(glit.Body, func(x ast.Node) bool {
		call, ok := x.(*ast.CallExpr)
		if !ok {
			return true
		}
		var got ast.Expr
		what := ""
		switch {
		case isCallTo(call, addV):
			got, _ = shardArgs(call)
			what = "addShard"
			if got == nil {
				c.Fail(rule, f.Key+": issue#goroutine addShard shape", call.Pos(), m, "addShard is not given shard(br, req, resp, err)")
				return true
			}
		case isCallTo(call, issueV):
			what = "recursive issue"
			if len(call.Args) == 2 {
				if cl, ok := unparen(call.Args[0]).(*ast.CompositeLit); ok {
					got = c22litField(info, cl, "req")
				}
			}
		case calleeName(info, call) == "kgo.broker.waitResp":
			what = "waitResp"
			if len(call.Args) == 2 {
				got = call.Args[1]
			}
		case calleeName(info, call) == "kgo.sharder.onResp":
			what = "onResp"
			if len(call.Args) == 2 {
				got = call.Args[0]
			}
		default:
			return true
		}
		nID++
		c.Check(got != nil && isMineReq(got), rule, fmt.Sprintf("%s: issue#goroutine %s request #%d", f.Key, what, nID), call.Pos(), m, "names "+mine.Name()+".req",
			what+" is given `"+exprStr(got)+"` instead of this shard's own request ("+mine.Name()+".req): re-splitting or reporting the parent request repeats the sibling shards' items in the result")
		return true
	})
	c.Floor(rule+"#request-identity", nID, 5)
	// shard(): the ResponseShard carries its arguments
	if sf := c.NeedFunc(m, "kgo.shard"); sf != nil {
		si := sf.Info()
		var ps []types.Object
		for _, fl := range sf.Decl.Type.Params.List {
			for _, nm := range fl.Names {
				ps = append(ps, si.Defs[nm])
			}
		}
		okAll := len(ps) == 4
		nR := 0
		ast.Inspect(sf.Decl.Body, func(x ast.Node) bool {
			r, ok := x.(*ast.ReturnStmt)
			if !ok || len(r.Results) != 1 || !okAll {
				return true
			}
			nR++
			cl, ok := unparen(r.Results[0]).(*ast.CompositeLit)
			if !ok {
				okAll = false
				return true
			}
			for i, fld := range []string{"Req", "Resp", "Err"} {
				e := c22litField(si, cl, fld)
				if e == nil || c23rootObj(si, e) != ps[i+1] {
					okAll = false
				}
			}
			return true
		})
		c.Check(okAll && nR >= 1, rule, sf.Key, sf.Pos(), m, "ResponseShard{meta, req, resp, err}", "shard() does not put its request/response/error arguments into the ResponseShard")
	}
}

func c23hasGo(n ast.Node) bool {
	return containsNode(n, false, func(x ast.Node) bool { _, ok := x.(*ast.GoStmt); return ok })
}

// ---------------------------------------------------------------------------
// (4) scalar fields of split requests

// c23scalarExceptions: "<Type>.<Field>" -> why a new split request does not copy it.
var c23scalarExceptions = map[string]string{
	"OffsetFetchRequest.Group":                  "v0-v7 single-group form: offsetFetchGroupToReq derives it from the shard's one group; batched (v8+) requests leave it empty by design",
	"FindCoordinatorRequest.CoordinatorKey":     "the split item itself: each split (v0-v3) request carries exactly one of the requested keys",
	"AddPartitionsToTxnRequest.TransactionalID": "v0-v3 mirror of Transactions[0], filled by addPartitionsTxnToReq when the shard holds exactly one transaction",
	"AddPartitionsToTxnRequest.ProducerID":      "v0-v3 mirror of Transactions[0], filled by addPartitionsTxnToReq when the shard holds exactly one transaction",
	"AddPartitionsToTxnRequest.ProducerEpoch":   "v0-v3 mirror of Transactions[0], filled by addPartitionsTxnToReq when the shard holds exactly one transaction",
}

var c23observations []string

func c23scalars(c *Ctx, m *Module, shs []c23sharder) {
	rule := "split-requests-copy-scalar-fields"
	usedExc := map[string]bool{}
	nSites := 0
	scalarTable := map[string][]string{}
	c23observations = nil
	defer func() { c.Set("scalar_fields", scalarTable); c.Set("observations", c23observations) }()
	for _, sh := range shs {
		if sh.shard == nil {
			continue
		}
		T := sh.reqType
		st, ok := T.Underlying().(*types.Struct)
		if !ok {
			c.Undecided(rule, sh.typ+"#struct", 0, m, "request type is not a struct")
			continue
		}
		tname := T.Obj().Name()
		var scalars []string
		for i := 0; i < st.NumFields(); i++ {
			fd := st.Field(i)
			if fd.Name() == "Version" || fd.Name() == "UnknownTags" {
				continue
			}
			if _, isSlice := fd.Type().Underlying().(*types.Slice); isSlice {
				continue
			}
			scalars = append(scalars, fd.Name())
		}
		scalarTable[tname] = scalars
		isT := func(t types.Type) bool {
			n := c23kmsgNamed(t)
			return n != nil && n.Obj() == T.Obj()
		}
		// functions in scope: shard and the package-level kgo helpers it calls that build or fill a T
		scope := []*Func{sh.shard}
		seenFn := map[string]bool{sh.shard.Key: true}
		for _, call := range c22callsDeep(sh.shard.Decl.Body, func(call *ast.CallExpr) bool { return true }) {
			fn, ok := calleeObj(sh.shard.Info(), call).(*types.Func)
			if !ok || fn.Pkg() == nil || fn.Pkg().Name() != "kgo" {
				continue
			}
			if sig := fn.Type().(*types.Signature); sig.Recv() != nil {
				continue
			}
			hf := m.Func(keyOfObj(fn))
			if hf == nil || seenFn[hf.Key] {
				continue
			}
			seenFn[hf.Key] = true
			scope = append(scope, hf)
		}
		// helpers that fill fields of a *T parameter: field -> true
		fills := map[string]map[string]bool{}
		for _, hf := range scope[1:] {
			hi := hf.Info()
			for _, fl := range hf.Decl.Type.Params.List {
				for _, nm := range fl.Names {
					po := hi.Defs[nm]
					if po == nil || !isT(po.Type()) {
						continue
					}
					ast.Inspect(hf.Decl.Body, func(x ast.Node) bool {
						if as, ok := x.(*ast.AssignStmt); ok {
							for _, l := range as.Lhs {
								if sel, ok := unparen(l).(*ast.SelectorExpr); ok && c23rootObj(hi, sel.X) == po {
									if _, isID := unparen(sel.X).(*ast.Ident); isID {
										if fills[hf.Key] == nil {
											fills[hf.Key] = map[string]bool{}
										}
										fills[hf.Key][sel.Sel.Name] = true
									}
								}
							}
						}
						return true
					})
				}
			}
		}
		for _, f := range scope {
			info := f.Info()
			ord := 0
			parents := parentMap(f.Decl.Body)
			ast.Inspect(f.Decl.Body, func(x ast.Node) bool {
				// whole-struct copy: dup := *req
				if se, ok := x.(*ast.StarExpr); ok {
					if tv, ok := info.Types[se]; ok && tv.IsValue() && isT(tv.Type) {
						if _, isPtr := tv.Type.(*types.Pointer); !isPtr {
							if as, ok := parents[se].(*ast.AssignStmt); ok && len(as.Rhs) == 1 && as.Rhs[0] == ast.Expr(se) {
								nSites++
								ord++
								c.OK(rule, fmt.Sprintf("%s: %s site %d (%s)", f.Key, tname, ord, nodeStr(as)), as.Pos(), m, "whole struct copied")
							}
						}
					}
					return true
				}
				// constructor reference
				sel, ok := x.(*ast.SelectorExpr)
				if !ok {
					return true
				}
				fn, ok := info.Uses[sel.Sel].(*types.Func)
				if !ok || fn.Pkg() == nil || fn.Pkg().Name() != "kmsg" || (fn.Name() != "NewPtr"+tname && fn.Name() != "New"+tname) {
					return true
				}
				nSites++
				ord++
				c.Touch(f)
				cons := fmt.Sprintf("%s: %s site %d", f.Key, tname, ord)
				assigned := map[string]ast.Expr{}
				derived := map[string]string{}
				var ctx ast.Node = f.Decl.Body
				var ctxParams []types.Object
				if lit := innermostLit(f, sel); lit != nil {
					ctx = lit.Body
					for _, fl := range lit.Type.Params.List {
						for _, nm := range fl.Names {
							ctxParams = append(ctxParams, info.Defs[nm])
						}
					}
				} else {
					for _, fl := range f.Decl.Type.Params.List {
						for _, nm := range fl.Names {
							ctxParams = append(ctxParams, info.Defs[nm])
						}
					}
				}
				call, isCall := parents[sel].(*ast.CallExpr)
				var R types.Object
				if isCall && call.Fun == ast.Expr(sel) {
					if as, ok := parents[call].(*ast.AssignStmt); ok && len(as.Lhs) == 1 && len(as.Rhs) == 1 {
						R = c23rootObj(info, as.Lhs[0])
					}
					if R == nil {
						c.Undecided(rule, cons, sel.Pos(), m, "the new request is not bound to a local variable")
						return true
					}
					ast.Inspect(ctx, func(y ast.Node) bool {
						switch s2 := y.(type) {
						case *ast.AssignStmt:
							for i, l := range s2.Lhs {
								if ls, ok := unparen(l).(*ast.SelectorExpr); ok && c23rootObj(info, ls.X) == R {
									if _, isID := unparen(ls.X).(*ast.Ident); isID && len(s2.Rhs) == len(s2.Lhs) {
										assigned[ls.Sel.Name] = s2.Rhs[i]
									}
								}
							}
						case *ast.CallExpr:
							if hfn, ok := calleeObj(info, s2).(*types.Func); ok {
								if fl := fills[keyOfObj(hfn)]; fl != nil {
									for _, a := range s2.Args {
										if c23rootObj(info, a) == R {
											for k := range fl {
												derived[k] = keyOfObj(hfn)
											}
										}
									}
								}
							}
						}
						return true
					})
				}
				// (a bare constructor value - mkreq := kmsg.NewPtrT - assigns nothing at construction)
				var missing []string
				nExc := 0
				for _, fd := range scalars {
					key := tname + "." + fd
					if _, isExc := c23scalarExceptions[key]; isExc {
						usedExc[key] = true
						nExc++
						continue
					}
					rhs, has := assigned[fd]
					if !has {
						missing = append(missing, fd+" is left at its default")
						continue
					}
					okSib := false
					if rs, ok := unparen(rhs).(*ast.SelectorExpr); ok && rs.Sel.Name == fd && c23rootObj(info, rs.X) != R {
						if tv, ok := info.Types[rs.X]; ok && isT(tv.Type) {
							okSib = true
						}
					}
					if !okSib {
						// a parameter of the constructing helper: every call passes the sibling field
						if po := c23rootObj(info, rhs); po != nil {
							if _, isID := unparen(rhs).(*ast.Ident); isID {
								for j, p := range ctxParams {
									if p != po || ctx != ast.Node(f.Decl.Body) {
										continue
									}
									all, n := true, 0
									for _, site := range CallSites([]*Func{sh.shard}, f.Obj) {
										n++
										sc := site.Node.(*ast.CallExpr)
										si := site.Fn.Info()
										good := false
										if j < len(sc.Args) {
											if as2, ok := unparen(sc.Args[j]).(*ast.SelectorExpr); ok && as2.Sel.Name == fd {
												if tv, ok := si.Types[as2.X]; ok && isT(tv.Type) {
													good = true
												}
											}
										}
										if !good {
											all = false
										}
									}
									okSib = all && n > 0
								}
							}
						}
					}
					if !okSib {
						missing = append(missing, fd+" is set to `"+exprStr(rhs)+"`, not to the original request's "+fd)
					}
				}
				detail := fmt.Sprintf("%d scalar field(s) copied from the original request, %d tabled exception(s)", len(scalars)-nExc, nExc)
				if len(scalars) == 0 {
					detail = "the type has no scalar fields"
				}
				if len(missing) > 0 {
					// Not part of the C23 statement (which is about items, not request
					// settings): recorded as an observation, never a violation.
					obs := "a request split off a " + tname + " does not carry the caller's settings: " + strings.Join(missing, "; ")
					c23observations = append(c23observations, cons+" ("+m.Position(sel.Pos())+"): "+obs)
					c.OK(rule, cons, sel.Pos(), m, "OBSERVATION (outside the statement of C23, not a violation): "+obs)
				} else {
					c.OK(rule, cons, sel.Pos(), m, detail)
				}
				return true
			})
		}
	}
	for _, k := range sortedKeys(c23scalarExceptions) {
		if !usedExc[k] {
			c.Undecided(rule, "exception "+k, 0, m, "tabled exception matches no field of a sharded request type (stale table entry)")
		}
	}
	c.Floor(rule, nSites, 24)
}

// ---------------------------------------------------------------------------
// (5) merge

// c23mergeExceptions: response item arrays the merge callback does not append.
var c23mergeExceptions = map[string]string{
	"OffsetFetchResponse.Topics":        "v0-v7 single-group mirror: filled from Groups[0] by offsetFetchRespGroupIntoResp when a shard answers for one group",
	"AddPartitionsToTxnResponse.Topics": "v0-v3 mirror: rebuilt from Transactions[0] by addPartitionsTxnToResp(merged) after all shards are merged",
}

func c23merge(c *Ctx, m *Module, shs []c23sharder) {
	rule := "merge-keeps-every-item"
	usedExc := map[string]bool{}
	nFields := 0
	for _, sh := range shs {
		f := sh.merge
		if f == nil || sh.respType == nil {
			continue
		}
		info := f.Info()
		rst, ok := sh.respType.Underlying().(*types.Struct)
		if !ok {
			continue
		}
		rname := sh.respType.Obj().Name()
		var cb *ast.FuncLit
		for _, call := range c22callsDeep(f.Decl.Body, func(call *ast.CallExpr) bool { return calleeName(info, call) == "kgo.firstErrMerger" }) {
			if len(call.Args) == 2 {
				cb, _ = call.Args[1].(*ast.FuncLit)
			}
		}
		if cb == nil {
			c.Undecided(rule, f.Key+"#callback", f.Pos(), m, "merge does not hand a function literal to firstErrMerger")
			continue
		}
		var respVar types.Object
		ast.Inspect(cb.Body, func(x ast.Node) bool {
			if as, ok := x.(*ast.AssignStmt); ok && len(as.Lhs) == 1 && len(as.Rhs) == 1 && respVar == nil {
				if ta, ok := unparen(as.Rhs[0]).(*ast.TypeAssertExpr); ok && ta.Type != nil {
					if n := c23kmsgNamed(info.Types[ta.Type].Type); n != nil && n.Obj() == sh.respType.Obj() {
						respVar = c23rootObj(info, as.Lhs[0])
					}
				}
			}
			return true
		})
		if respVar == nil {
			c.Undecided(rule, f.Key+"#response-var", cb.Pos(), m, "the type-asserted response variable was not found in the merge callback")
			continue
		}
		// the merged response: returned first result
		var merged types.Object
		for _, st := range f.Decl.Body.List {
			if r, ok := st.(*ast.ReturnStmt); ok && len(r.Results) == 2 {
				merged = c23rootObj(info, r.Results[0])
			}
		}
		s := &c23fn{c: c, m: m, f: f, info: info, emitted: map[types.Object]bool{}, closureRoot: map[types.Object]types.Object{}, roots: map[types.Object]ast.Node{}, recordEmit: true, liveSets: map[types.Object]bool{}}
		// sets and maps that a later top-level loop of merge turns into the merged response
		var tail []*ast.RangeStmt
		for _, st := range f.Decl.Body.List {
			if rs, ok := st.(*ast.RangeStmt); ok {
				tail = append(tail, rs)
				if o := c23rootObj(info, rs.X); o != nil {
					s.liveSets[o] = true
				}
			}
		}
		cg := f.LitGraph(cb)
		// first-wins de-duplication: `if _, ok := seen[k]; ok { continue }` with seen a local set
		dedupe := func(from *cfg.Block, k int) bool {
			if k != 0 {
				return false
			}
			cond, tag, ok := cg.condOf(from)
			if !ok || tag != nil {
				return false
			}
			id, ok := unparen(cond).(*ast.Ident)
			if !ok {
				return false
			}
			oko := info.Uses[id]
			isSeen := false
			ast.Inspect(cb.Body, func(x ast.Node) bool {
				as, ok := x.(*ast.AssignStmt)
				if !ok || len(as.Lhs) != 2 || len(as.Rhs) != 1 || c23rootObj(info, as.Lhs[1]) != oko {
					return true
				}
				ix, ok := unparen(as.Rhs[0]).(*ast.IndexExpr)
				if !ok {
					return true
				}
				mo := c23rootObj(info, ix.X)
				mt, isMap := info.Types[ix.X].Type.Underlying().(*types.Map)
				if !isMap || mo == nil || c23within(identNode(mo), cb) {
					return true
				}
				if stt, ok := mt.Elem().Underlying().(*types.Struct); !ok || stt.NumFields() != 0 {
					return true
				}
				// the same key is inserted on the non-duplicate path
				key := nosp(exprStr(ix))
				ast.Inspect(cb.Body, func(y ast.Node) bool {
					if a2, ok := y.(*ast.AssignStmt); ok && len(a2.Lhs) == 1 && nosp(exprStr(a2.Lhs[0])) == key {
						isSeen = true
					}
					return true
				})
				return true
			})
			return isSeen
		}
		for i := 0; i < rst.NumFields(); i++ {
			fd := rst.Field(i)
			if _, isSlice := fd.Type().Underlying().(*types.Slice); !isSlice {
				continue
			}
			key := rname + "." + fd.Name()
			cons := f.Key + ": " + key
			if why, isExc := c23mergeExceptions[key]; isExc {
				usedExc[key] = true
				c.OK(rule, cons, cb.Pos(), m, "exempt: "+why)
				continue
			}
			nFields++
			isField := func(e ast.Expr) bool {
				sel, ok := unparen(e).(*ast.SelectorExpr)
				if !ok || sel.Sel.Name != fd.Name() {
					return false
				}
				_, isID := unparen(sel.X).(*ast.Ident)
				return isID && c23rootObj(info, sel.X) == respVar
			}
			var loops []*ast.RangeStmt
			ast.Inspect(cb.Body, func(x ast.Node) bool {
				if rs, ok := x.(*ast.RangeStmt); ok && isField(rs.X) {
					loops = append(loops, rs)
				}
				return true
			})
			isTransfer := func(n ast.Node) bool {
				for _, rs := range loops {
					if n == ast.Node(rs.X) {
						return true
					}
				}
				as, ok := n.(*ast.AssignStmt)
				if !ok || len(as.Lhs) != 1 || len(as.Rhs) != 1 {
					return false
				}
				app, ok := c23isAppend(info, as.Rhs[0])
				if !ok || !app.Ellipsis.IsValid() || len(app.Args) != 2 || !isField(app.Args[1]) {
					return false
				}
				o := s.effRoot(c23rootObj(info, as.Lhs[0]), 0)
				if o == nil || c23within(identNode(o), cb) {
					return false
				}
				if _, seen := s.roots[o]; !seen {
					s.roots[o] = n
				}
				return true
			}
			path, skip := cg.FindPath(Loc{-1, 0}, SearchOpts{Stop: isTransfer, GoalExit: func(k ExitKind, _ ast.Node) bool { return k != ExitPanic }})
			how := "appended whole on every path"
			if len(loops) > 0 {
				how = "iterated on every path; loop body checked"
			}
			c.Check(!skip, rule, cons, cb.Pos(), m, how, "the merge callback can finish without taking over "+key+" of a shard's response (path: "+pathStr(path)+"): that broker's items are missing from the merged response")
			for _, rs := range loops {
				s.checkLoop(cg, rs, nil, c23emit, rule, "merge ", dedupe)
			}
		}
		// everything collected outside the merged response is emitted into it afterwards
		g := f.Graph()
		s.recordEmit = false
		for _, rs := range tail {
			s.checkLoop(g, rs, nil, c23emit, rule, "emit ", nil)
		}
		var rootObjs []types.Object
		for r := range s.roots {
			rootObjs = append(rootObjs, r)
		}
		sort.Slice(rootObjs, func(i, j int) bool { return rootObjs[i].Pos() < rootObjs[j].Pos() })
		for _, r := range rootObjs {
			ok := r == merged
			for _, rs := range tail {
				if c23rootObj(info, rs.X) == r {
					ok = true
				}
			}
			c.Check(ok && merged != nil, rule, f.Key+": container "+r.Name()+"#emitted", s.roots[r].Pos(), m, "is the merged response or is emitted into it by a later loop", "response items are collected in "+r.Name()+" which never reaches the merged response")
		}
	}
	for _, k := range sortedKeys(c23mergeExceptions) {
		if !usedExc[k] {
			c.Undecided(rule, "exception "+k, 0, m, "tabled exception matches no item array of a sharded response type (stale table entry)")
		}
	}
	c.Floor(rule+"#item-arrays", nFields, 19)
	// firstErrMerger: every shard without an error reaches the callback
	if f := c.NeedFunc(m, "kgo.firstErrMerger"); f != nil {
		info := f.Info()
		g := f.Graph()
		var ps []types.Object
		for _, fl := range f.Decl.Type.Params.List {
			for _, nm := range fl.Names {
				ps = append(ps, info.Defs[nm])
			}
		}
		ok := false
		if len(ps) == 2 {
			for _, st := range f.Decl.Body.List {
				rs, isR := st.(*ast.RangeStmt)
				if !isR || c23rootObj(info, rs.X) != ps[0] || rs.Value == nil {
					continue
				}
				vo := c23rootObj(info, rs.Value)
				isFeed := func(n ast.Node) bool {
					return c22nodeHas(n, func(call *ast.CallExpr) bool {
						id, isID := unparen(call.Fun).(*ast.Ident)
						if !isID || info.Uses[id] != ps[1] || len(call.Args) != 1 {
							return false
						}
						fv := fieldOfSel(info, call.Args[0])
						return fv != nil && fv.Name() == "Resp" && c23rootObj(info, call.Args[0]) == vo
					})
				}
				head, body, done := c23loopBlocks(g, rs)
				if head == nil || body == nil {
					continue
				}
				_, skip := g.FindPath(Loc{int(body.Index), -1}, SearchOpts{
					Stop:      isFeed,
					GoalBlock: func(b *cfg.Block) bool { return b == head || b == done },
					GoalExit:  func(k ExitKind, _ ast.Node) bool { return k != ExitPanic },
					EdgeOK: func(from *cfg.Block, k int, to *cfg.Block) bool {
						cond, tag, okc := g.condOf(from)
						if !okc || tag != nil || k != 0 {
							return true
						}
						be, isB := unparen(cond).(*ast.BinaryExpr)
						if !isB || be.Op != token.NEQ || !c22isNilExpr(info, be.Y) {
							return true
						}
						fv := fieldOfSel(info, be.X)
						return !(fv != nil && fv.Name() == "Err" && c23rootObj(info, be.X) == vo)
					},
				})
				_, miss := g.FindPath(Loc{-1, 0}, SearchOpts{Stop: func(n ast.Node) bool { return n == ast.Node(rs.X) }, GoalExit: func(k ExitKind, _ ast.Node) bool { return k != ExitPanic }})
				ok = !skip && !miss
			}
		}
		c.Check(ok, rule, f.Key, f.Pos(), m, "merge(sresp.Resp) for every shard with Err == nil", "firstErrMerger can skip a shard that has a response: its items are missing from the merged response")
	}
}

// ---------------------------------------------------------------------------
// (6) single-item conversions: the response side reads the item key from a
// request field that the request side assigns

// c23unconditional: the statement is not nested in an if/switch/select (it
// runs on every path that does not leave the function early); loops are fine.
func c23unconditional(parents map[ast.Node]ast.Node, n ast.Node, top ast.Node) bool {
	for p := parents[n]; p != nil && p != top; p = parents[p] {
		switch p.(type) {
		case *ast.IfStmt, *ast.SwitchStmt, *ast.TypeSwitchStmt, *ast.SelectStmt, *ast.CaseClause, *ast.CommClause, *ast.FuncLit:
			return false
		}
	}
	return true
}

// c23assignedFields: fields of struct type T assigned unconditionally through
// the variable obj (obj.F = .. / obj.F = append(obj.F, ..)) under root.
func c23assignedFields(info *types.Info, root ast.Node, obj types.Object, T *types.Named, out map[string]bool) {
	st, ok := T.Underlying().(*types.Struct)
	if !ok || obj == nil {
		return
	}
	isField := map[string]bool{}
	for i := 0; i < st.NumFields(); i++ {
		isField[st.Field(i).Name()] = true
	}
	parents := parentMap(root)
	ast.Inspect(root, func(x ast.Node) bool {
		as, ok := x.(*ast.AssignStmt)
		if !ok {
			return true
		}
		for _, l := range as.Lhs {
			sel, ok := unparen(l).(*ast.SelectorExpr)
			if !ok || !isField[sel.Sel.Name] {
				continue
			}
			if id, isID := unparen(sel.X).(*ast.Ident); !isID || c23rootObj(info, id) != obj {
				continue
			}
			if c23unconditional(parents, as, root) {
				out[sel.Sel.Name] = true
			}
		}
		return true
	})
}

func c23convert(c *Ctx, m *Module, shs []c23sharder) {
	rule := "response-item-key-from-assigned-request-field"
	nKeys := 0
	for _, sh := range shs {
		if sh.shard == nil || sh.onResp == nil || sh.respType == nil {
			continue
		}
		T, R := sh.reqType, sh.respType
		isT := func(t types.Type) bool {
			n := c23kmsgNamed(t)
			return n != nil && n.Obj() == T.Obj()
		}
		tst, ok1 := T.Underlying().(*types.Struct)
		rst, ok2 := R.Underlying().(*types.Struct)
		if !ok1 || !ok2 {
			continue
		}
		tField := map[string]bool{}
		for i := 0; i < tst.NumFields(); i++ {
			tField[tst.Field(i).Name()] = true
		}
		// response item types: element types of R's arrays
		itemT := map[*types.TypeName]bool{}
		for i := 0; i < rst.NumFields(); i++ {
			if sl, ok := rst.Field(i).Type().Underlying().(*types.Slice); ok {
				if n := c23kmsgNamed(sl.Elem()); n != nil {
					itemT[n.Obj()] = true
				}
			}
		}
		// package-level kgo helpers called from a function
		helpersOf := func(f *Func) []*Func {
			var out []*Func
			seen := map[string]bool{}
			for _, call := range c22callsDeep(f.Decl.Body, func(*ast.CallExpr) bool { return true }) {
				fn, ok := calleeObj(f.Info(), call).(*types.Func)
				if !ok || fn.Pkg() == nil || fn.Pkg().Name() != "kgo" || fn.Type().(*types.Signature).Recv() != nil {
					continue
				}
				if hf := m.Func(keyOfObj(fn)); hf != nil && !seen[hf.Key] {
					seen[hf.Key] = true
					out = append(out, hf)
				}
			}
			return out
		}
		// --- request side: fields assigned by the single-item constructions
		assigned := map[string]bool{}
		var srcs []string
		fillers := map[string]bool{} // helpers that fill a *T parameter
		for _, hf := range helpersOf(sh.shard) {
			hi := hf.Info()
			before := len(assigned)
			// (i) builds and returns a *T
			sig := hf.Obj.Type().(*types.Signature)
			if sig.Results().Len() == 1 && isT(sig.Results().At(0).Type()) {
				ast.Inspect(hf.Decl.Body, func(x ast.Node) bool {
					as, ok := x.(*ast.AssignStmt)
					if !ok || len(as.Lhs) != 1 || len(as.Rhs) != 1 {
						return true
					}
					if call, ok := unparen(as.Rhs[0]).(*ast.CallExpr); ok {
						if fn, ok := calleeObj(hi, call).(*types.Func); ok && fn.Pkg() != nil && fn.Pkg().Name() == "kmsg" && strings.HasPrefix(fn.Name(), "New") && strings.HasSuffix(fn.Name(), T.Obj().Name()) {
							c23assignedFields(hi, hf.Decl.Body, c23rootObj(hi, as.Lhs[0]), T, assigned)
						}
					}
					return true
				})
			}
			// (ii) fills a *T parameter
			for _, fl := range hf.Decl.Type.Params.List {
				for _, nm := range fl.Names {
					if po := hi.Defs[nm]; po != nil && isT(po.Type()) {
						n0 := len(assigned)
						c23assignedFields(hi, hf.Decl.Body, po, T, assigned)
						if len(assigned) > n0 {
							fillers[hf.Key] = true
						}
					}
				}
			}
			if len(assigned) > before {
				srcs = append(srcs, hf.Key)
				c.Touch(hf)
			}
		}
		// constructions in shard: handed to a filler, or built once per item inside an item loop
		{
			f := sh.shard
			info := f.Info()
			parents := parentMap(f.Decl.Body)
			ast.Inspect(f.Decl.Body, func(x ast.Node) bool {
				as, ok := x.(*ast.AssignStmt)
				if !ok || len(as.Lhs) != 1 || len(as.Rhs) != 1 {
					return true
				}
				call, ok := unparen(as.Rhs[0]).(*ast.CallExpr)
				if !ok {
					return true
				}
				fn, ok := calleeObj(info, call).(*types.Func)
				if !ok || fn.Pkg() == nil || fn.Pkg().Name() != "kmsg" || !strings.HasPrefix(fn.Name(), "New") || !strings.HasSuffix(fn.Name(), T.Obj().Name()) {
					return true
				}
				ro := c23rootObj(info, as.Lhs[0])
				var ctx ast.Node = f.Decl.Body
				inLoop := false
				for p := parents[as]; p != nil; p = parents[p] {
					if lit, ok := p.(*ast.FuncLit); ok && ctx == ast.Node(f.Decl.Body) {
						ctx = lit.Body
					}
					if rs, ok := p.(*ast.RangeStmt); ok && ctx == ast.Node(f.Decl.Body) {
						inLoop = true
						ctx = rs.Body
					}
				}
				toFiller := containsNode(ctx, false, func(y ast.Node) bool {
					c2, ok := y.(*ast.CallExpr)
					if !ok {
						return false
					}
					if hfn, ok := calleeObj(info, c2).(*types.Func); ok && fillers[keyOfObj(hfn)] {
						for _, a := range c2.Args {
							if c23rootObj(info, a) == ro {
								return true
							}
						}
					}
					return false
				})
				if toFiller || (inLoop && len(srcs) == 0) {
					n0 := len(assigned)
					c23assignedFields(info, ctx, ro, T, assigned)
					if len(assigned) > n0 {
						srcs = append(srcs, f.Key+" (inline)")
					}
				}
				return true
			})
		}
		// --- response side
		respFuncs := []*Func{sh.onResp}
		for _, hf := range helpersOf(sh.onResp) {
			for _, fl := range hf.Decl.Type.Params.List {
				for _, nm := range fl.Names {
					if po := hf.Info().Defs[nm]; po != nil && isT(po.Type()) {
						respFuncs = append(respFuncs, hf)
					}
				}
			}
		}
		for _, rf := range respFuncs {
			info := rf.Info()
			g := rf.Graph()
			reqVars := map[types.Object]bool{}
			for _, fl := range rf.Decl.Type.Params.List {
				for _, nm := range fl.Names {
					if po := info.Defs[nm]; po != nil && isT(po.Type()) {
						reqVars[po] = true
					}
				}
			}
			ast.Inspect(rf.Decl.Body, func(x ast.Node) bool {
				if as, ok := x.(*ast.AssignStmt); ok && len(as.Lhs) == 1 && len(as.Rhs) == 1 {
					if ta, ok := unparen(as.Rhs[0]).(*ast.TypeAssertExpr); ok && ta.Type != nil && isT(info.Types[ta.Type].Type) {
						reqVars[c23rootObj(info, as.Lhs[0])] = true
					}
				}
				return true
			})
			if len(reqVars) == 0 {
				continue
			}
			seen := map[string]int{}
			ast.Inspect(rf.Decl.Body, func(x ast.Node) bool {
				if _, isLit := x.(*ast.FuncLit); isLit {
					return false
				}
				as, ok := x.(*ast.AssignStmt)
				if !ok || len(as.Lhs) != len(as.Rhs) {
					return true
				}
				for i, l := range as.Lhs {
					sel, ok := unparen(l).(*ast.SelectorExpr)
					if !ok {
						continue
					}
					xid, isID := unparen(sel.X).(*ast.Ident)
					if !isID {
						continue
					}
					xo := c23rootObj(info, xid)
					if xo == nil {
						continue
					}
					xn := c23kmsgNamed(xo.Type())
					if xn == nil || !itemT[xn.Obj()] {
						continue
					}
					// request fields read by the right side
					var reads []string
					readSet := map[string]bool{}
					ast.Inspect(as.Rhs[i], func(y ast.Node) bool {
						rs, ok := y.(*ast.SelectorExpr)
						if !ok || !tField[rs.Sel.Name] {
							return true
						}
						if rid, ok := unparen(rs.X).(*ast.Ident); ok && reqVars[c23rootObj(info, rid)] && !readSet[rs.Sel.Name] {
							readSet[rs.Sel.Name] = true
							reads = append(reads, rs.Sel.Name)
						}
						return true
					})
					if len(reads) == 0 {
						continue
					}
					nKeys++
					c.Touch(rf)
					cons := rf.Key + ": " + xn.Obj().Name() + "." + sel.Sel.Name
					seen[cons]++
					if k := seen[cons]; k > 1 {
						cons = fmt.Sprintf("%s #%d", cons, k)
					}
					if len(assigned) == 0 {
						c.Undecided(rule, cons, as.Pos(), m, "no single-item construction of "+T.Obj().Name()+" was recognised on the request side")
						continue
					}
					var bad []string
					for _, fd := range reads {
						if !assigned[fd] {
							bad = append(bad, fd)
						}
					}
					// the key is set before the item leaves the function (returned / appended)
					al, okl := g.LocOf(as)
					always := okl
					nOut := 0
					ast.Inspect(rf.Decl.Body, func(y ast.Node) bool {
						switch st := y.(type) {
						case *ast.FuncLit:
							return false
						case *ast.ReturnStmt:
							for _, r := range st.Results {
								if id, ok := unparen(r).(*ast.Ident); ok && c23rootObj(info, id) == xo {
									nOut++
									if ol, ok := g.LocOf(st); !ok || !g.DominatesReg(al, ol) {
										always = false
									}
								}
							}
						case *ast.AssignStmt:
							for _, r := range st.Rhs {
								if app, ok := c23isAppend(info, r); ok {
									for _, v := range app.Args[1:] {
										if id, ok := unparen(v).(*ast.Ident); ok && c23rootObj(info, id) == xo {
											nOut++
											if ol, ok := g.LocOf(st); !ok || !g.DominatesReg(al, ol) {
												always = false
											}
										}
									}
								}
							}
						}
						return true
					})
					var why []string
					if len(bad) > 0 {
						why = append(why, fmt.Sprintf("the response item's %s is taken from request field(s) %v, which the single-item request construction (%s) does not assign (it assigns %v): for a split request the item is reported under an empty/foreign key, so the requested item appears in no shard", sel.Sel.Name, bad, strings.Join(srcs, ", "), sortedKeys(assigned)))
					}
					if !always || nOut == 0 {
						why = append(why, "the key is not assigned on every path before the converted item is returned/appended")
					}
					c.Check(len(why) == 0, rule, cons, as.Pos(), m, fmt.Sprintf("reads %v, assigned by %s", reads, strings.Join(srcs, ", ")), strings.Join(why, "; "))
				}
				return true
			})
		}
	}
	c.Floor(rule, nKeys, 3)
}

// ---------------------------------------------------------------------------
// (7) a shard method that rebuilds the request's own key array rebuilds it
// duplicate-free (set semantics), never by adjacent-only compaction

func c23dedupe(c *Ctx, m *Module, shs []c23sharder) {
	rule := "rebuilt-item-keys-are-a-set"
	nRebuilt := 0
	isSortCall := func(info *types.Info, call *ast.CallExpr) bool {
		switch calleeName(info, call) {
		case "slices.Sort", "slices.SortFunc", "slices.SortStableFunc", "sort.Strings", "sort.Slice", "sort.SliceStable", "sort.Sort", "sort.Stable":
			return true
		}
		return false
	}
	isCompact := func(info *types.Info, call *ast.CallExpr) bool {
		k := calleeName(info, call)
		return k == "slices.Compact" || k == "slices.CompactFunc"
	}
	// sortedBefore: the compacted operand is a local that a sort call on it dominates, with no write in between
	sortedBefore := func(f *Func, call *ast.CallExpr) bool {
		info := f.Info()
		if len(call.Args) < 1 {
			return false
		}
		id, ok := unparen(call.Args[0]).(*ast.Ident)
		if !ok {
			return false
		}
		o := info.Uses[id]
		g := f.GraphFor(call)
		cl, ok := g.LocOf(call)
		if !ok || o == nil {
			return false
		}
		for _, sc := range c22callsDeep(f.Decl.Body, func(x *ast.CallExpr) bool { return isSortCall(info, x) }) {
			if len(sc.Args) < 1 || c23rootObj(info, sc.Args[0]) != o {
				continue
			}
			if _, isID := unparen(sc.Args[0]).(*ast.Ident); !isID {
				continue
			}
			sl, ok := g.LocOf(sc)
			if !ok || !g.Dominates(sl, cl) {
				continue
			}
			clean := true
			ast.Inspect(f.Decl.Body, func(y ast.Node) bool {
				as, ok := y.(*ast.AssignStmt)
				if !ok {
					return true
				}
				for _, l := range as.Lhs {
					if c23rootObj(info, l) == o {
						wl, okw := g.LocOf(as)
						if okw && g.Dominates(sl, wl) && (g.Dominates(wl, cl) || wl == cl) && !containsNode(as, false, func(z ast.Node) bool { return z == ast.Node(call) }) {
							clean = false
						}
					}
				}
				return true
			})
			if clean {
				return true
			}
		}
		return false
	}
	for _, sh := range shs {
		f := sh.shard
		if f == nil {
			continue
		}
		info := f.Info()
		g := f.Graph()
		T := sh.reqType
		tst, ok := T.Underlying().(*types.Struct)
		if !ok {
			continue
		}
		// every adjacent-only compaction in the sharder operates on sorted data
		for _, fn := range []*Func{sh.shard, sh.onResp, sh.merge} {
			if fn == nil {
				continue
			}
			ord := 0
			for _, call := range c22callsDeep(fn.Decl.Body, func(x *ast.CallExpr) bool { return isCompact(fn.Info(), x) }) {
				ord++
				c.Check(sortedBefore(fn, call), rule, fmt.Sprintf("%s: %s #%d", fn.Key, exprStr(call.Fun), ord), call.Pos(), m, "operand sorted first",
					"slices.Compact removes only adjacent duplicates and its operand is not sorted first: a duplicate item that is not next to its twin survives and is requested (and answered) twice")
			}
		}
		// the request variable
		var reqVar types.Object
		ast.Inspect(f.Decl.Body, func(x ast.Node) bool {
			if as, ok := x.(*ast.AssignStmt); ok && len(as.Lhs) == 1 && len(as.Rhs) == 1 && reqVar == nil {
				if ta, ok := unparen(as.Rhs[0]).(*ast.TypeAssertExpr); ok && ta.Type != nil {
					if n := c23kmsgNamed(info.Types[ta.Type].Type); n != nil && n.Obj() == T.Obj() {
						reqVar = c23rootObj(info, as.Lhs[0])
					}
				}
			}
			return true
		})
		if reqVar == nil {
			continue
		}
		for i := 0; i < tst.NumFields(); i++ {
			fd := tst.Field(i)
			sl, ok := fd.Type().Underlying().(*types.Slice)
			if !ok {
				continue
			}
			if b, ok := sl.Elem().Underlying().(*types.Basic); !ok || b.Info()&types.IsString == 0 {
				continue
			}
			isFieldOfReq := func(e ast.Expr) bool {
				sel, ok := unparen(e).(*ast.SelectorExpr)
				if !ok || sel.Sel.Name != fd.Name() {
					return false
				}
				id, ok := unparen(sel.X).(*ast.Ident)
				return ok && c23rootObj(info, id) == reqVar
			}
			// writes to req.F (outside literals)
			var writes []*ast.AssignStmt
			ast.Inspect(f.Decl.Body, func(x ast.Node) bool {
				if _, isLit := x.(*ast.FuncLit); isLit {
					return false
				}
				if as, ok := x.(*ast.AssignStmt); ok {
					for _, l := range as.Lhs {
						if isFieldOfReq(l) {
							writes = append(writes, as)
						}
					}
				}
				return true
			})
			if len(writes) == 0 {
				continue
			}
			nRebuilt++
			cons := f.Key + ": " + reqVar.Name() + "." + fd.Name()
			parents := parentMap(f.Decl.Body)
			var problems []string
			var sets []types.Object
			nAppend := 0
			for _, as := range writes {
				if len(as.Lhs) != 1 || len(as.Rhs) != 1 {
					problems = append(problems, "unrecognised write `"+nodeStr(as)+"`")
					continue
				}
				rhs := unparen(as.Rhs[0])
				if app, ok := c23isAppend(info, rhs); ok {
					// req.F = append(req.F, key) inside `for key := range set`
					nAppend++
					var loop *ast.RangeStmt
					for p := parents[as]; p != nil; p = parents[p] {
						if rs, ok := p.(*ast.RangeStmt); ok {
							loop = rs
							break
						}
					}
					okSet := false
					if loop != nil && loop.Key != nil && loop.Value == nil && len(app.Args) == 2 && !app.Ellipsis.IsValid() && isFieldOfReq(app.Args[0]) {
						if mt, ok := info.Types[loop.X].Type.Underlying().(*types.Map); ok && types.Identical(mt.Key(), sl.Elem()) {
							if c23rootObj(info, app.Args[1]) == c23rootObj(info, loop.Key) {
								if so := c23rootObj(info, loop.X); so != nil {
									if _, isID := unparen(loop.X).(*ast.Ident); isID {
										okSet = true
										sets = append(sets, so)
									}
								}
							}
						}
					}
					if !okSet {
						problems = append(problems, "`"+nodeStr(as)+"` does not append the keys of a set (a map keyed by the item)")
					}
					continue
				}
				if call, ok := rhs.(*ast.CallExpr); ok {
					if isCompact(info, call) {
						if !sortedBefore(f, call) {
							problems = append(problems, "`"+nodeStr(as)+"` compacts an unsorted slice (only adjacent duplicates are removed)")
						}
						continue
					}
					if id, ok := unparen(call.Fun).(*ast.Ident); ok && id.Name == "make" {
						continue // fresh, empty
					}
					if k := calleeName(info, call); k == "slices.Clone" && len(call.Args) == 1 && isFieldOfReq(call.Args[0]) {
						continue // private copy of the same contents
					}
				}
				if c22isNilExpr(info, rhs) {
					continue
				}
				problems = append(problems, "unrecognised write `"+nodeStr(as)+"`")
			}
			// each set was filled from every original key: a loop over req.F stores each element,
			// and it runs before the array is reset
			for _, so := range sets {
				filled := false
				ast.Inspect(f.Decl.Body, func(x ast.Node) bool {
					rs, ok := x.(*ast.RangeStmt)
					if !ok || !isFieldOfReq(rs.X) || rs.Value == nil {
						return true
					}
					vo := c23rootObj(info, rs.Value)
					isStore := func(n ast.Node) bool {
						as, ok := n.(*ast.AssignStmt)
						if !ok || len(as.Lhs) != 1 {
							return false
						}
						ix, ok := unparen(as.Lhs[0]).(*ast.IndexExpr)
						return ok && c23rootObj(info, ix.X) == so && c23rootObj(info, ix.Index) == vo
					}
					head, body, done := c23loopBlocks(g, rs)
					if head == nil || body == nil {
						return true
					}
					if _, skip := g.FindPath(Loc{int(body.Index), -1}, SearchOpts{
						Stop:      isStore,
						GoalBlock: func(b *cfg.Block) bool { return b == head || b == done },
						GoalExit:  func(k ExitKind, _ ast.Node) bool { return k != ExitPanic },
					}); skip {
						return true
					}
					// the fill loop precedes every write of the array
					before := true
					for _, as := range writes {
						if as.Pos() < rs.End() {
							before = false
						}
					}
					if before {
						filled = true
					}
					return true
				})
				if !filled {
					problems = append(problems, "the set "+so.Name()+" is not filled from every element of the original "+fd.Name()+" before the array is rebuilt")
				}
			}
			if nAppend == 0 && len(problems) == 0 {
				// only resets / compaction: fine
			}
			c.Check(len(problems) == 0, rule, cons, writes[0].Pos(), m, "rebuilt from a set filled with every original key (or a sorted compaction)", strings.Join(dedupeKeepOrder(problems), "; ")+": a key the caller listed twice is requested and answered twice (or a listed key is dropped)")
		}
	}
	c.Floor(rule, nRebuilt, 1)
}
