package main

import (
	"fmt"
	"go/ast"
	"go/token"
	"go/types"
	"strings"
)

func init() {
	register(&Prop{
		ID:        "C28",
		Level:     "other",
		Technique: "revalidation rule for every partitioner method that returns remembered state (the read that flows to the return is dominated by a comparison of the state with n, and every store that can reach it is of a value class bounded by n), dominating-guard bounds proof of the index uses in doPartition, expression-shape rules for the hashers and a reference-shape check of murmur2",
		Explanation: "(1) every built-in Partition/PartitionByBackup method that returns a remembered partition (round-robin cursor, sticky/least-backup/uniform-bytes onPart) re-validates it against the current n before reading it: the read that flows to the return is dominated by a test `state >= n` (or is returned under `state >= 0 && state < n`), and every store to the state that can reach that read is the sentinel -1, 0, rng.Intn(n), an expression modulo n, or an index handed out by the backup iterator; " +
			"(2) in Client.doPartition every use of the partitioner's pick as an index into the partition list is proven in range (pick < 0 || pick >= len(mapping) fails the record first); " +
			"(3) hashers: KafkaHasher is int(hash & 0x7fffffff) % n; SaramaCompatHasher takes int32(hash) % int32(n) first and negates a negative remainder afterwards; SaramaHasher is int(hash) % n with the same post-negation; the keyed partitioners send equal keys through the hasher only; murmur2 has the reference constants, mixing steps and tail handling.",
		NotDecided: "numerical equality with the Java and Sarama clients on all keys (value level) beyond these expression shapes; that user-supplied partitioners and backup iterators honour their contracts.",
		Run:        runC28,
	})
}

func runC28(c *Ctx) {
	m := c.Load("")
	if m == nil {
		return
	}
	c28revalidate(c, m)
	n := boundsRule(c, m, "pick-index-in-range", []string{"kgo.Client.doPartition"}, kgoSummaries, nil)
	c.Floor("pick-index-in-range", n, 2)
	c28hashers(c, m)
}

// validStoreClass: the stored value is within [0, n) (or the -1 sentinel).
func c28validStore(f *Func, rhs ast.Expr) (string, bool) {
	rhs = unparen(rhs)
	if v, ok := constInt(f.Info(), rhs); ok && (v == 0 || v == -1) {
		return fmt.Sprint(v), true
	}
	s := nosp(exprStr(rhs))
	if strings.HasSuffix(s, ".rng.Intn(n)") {
		return "Intn(n)", true
	}
	if b, ok := rhs.(*ast.BinaryExpr); ok && b.Op == token.REM && exprStr(b.Y) == "n" {
		return "% n", true
	}
	// values handed out by the backup iterator: `pick` from backup.Next(), or .n of p.calc entries built from it
	if id, ok := rhs.(*ast.Ident); ok {
		if def := singleDef(f, f.Info().Uses[id]); def != nil {
			if call, ok := unparen(def).(*ast.CallExpr); ok && nosp(exprStr(call.Fun)) == "backup.Next" {
				return "backup index", true
			}
		}
		// multi-value define: pick, backup := backup.Next()
		found := false
		ast.Inspect(f.Decl.Body, func(x ast.Node) bool {
			if as, ok := x.(*ast.AssignStmt); ok && len(as.Rhs) == 1 && len(as.Lhs) == 2 {
				if l0, ok := as.Lhs[0].(*ast.Ident); ok && f.Info().Defs[l0] == f.Info().Uses[id] {
					if call, ok := as.Rhs[0].(*ast.CallExpr); ok && nosp(exprStr(call.Fun)) == "backup.Next" {
						found = true
					}
				}
			}
			return true
		})
		if found {
			return "backup index", true
		}
	}
	if strings.HasSuffix(s, ".n") && (strings.HasPrefix(s, "c.") || strings.HasPrefix(s, "p.calc[")) {
		return "backup index (calc)", true
	}
	if s == "p.onPart" || s == "p.lastPart" {
		return "copy of validated state", true
	}
	return "", false
}

func c28revalidate(c *Ctx, m *Module) {
	rule := "partitioner-state-revalidated"
	nFuncs := 0
	for _, f := range m.FuncsIn("kgo") {
		name := f.Obj.Name()
		if (name != "Partition" && name != "PartitionByBackup") || f.Decl.Recv == nil || len(f.Decl.Recv.List[0].Names) == 0 {
			continue
		}
		info := f.Info()
		g := f.Graph()
		recv := f.Decl.Recv.List[0].Names[0].Name
		// returns whose value is (or was copied from) a receiver field
		for _, rn := range findNodes(f.Decl.Body, false, func(x ast.Node) bool { _, ok := x.(*ast.ReturnStmt); return ok }) {
			r := rn.(*ast.ReturnStmt)
			if len(r.Results) != 1 {
				continue
			}
			res := unparen(r.Results[0])
			var read ast.Expr // the field read
			var readNode ast.Node = r
			if fv := fieldOfSel(info, res); fv != nil && strings.HasPrefix(exprStr(res), recv+".") {
				read = res
			} else if id, ok := res.(*ast.Ident); ok {
				if def := singleDef(f, info.Uses[id]); def != nil {
					if fv := fieldOfSel(info, def); fv != nil && strings.HasPrefix(exprStr(def), recv+".") {
						read = unparen(def)
						ast.Inspect(f.Decl.Body, func(x ast.Node) bool {
							if as, ok := x.(*ast.AssignStmt); ok && len(as.Rhs) == 1 && unparen(as.Rhs[0]) == read {
								readNode = as
							}
							return true
						})
					}
				}
			}
			if read == nil {
				continue
			}
			nFuncs++
			c.Touch(f)
			fld := exprStr(read)
			cons := f.Key + ": return " + fld
			rl, _ := g.LocOf(readNode)
			facts := g.FactsAt(rl)
			// (a) direct: returned under  fld >= 0 && fld < n
			direct := factMatches(facts, func(ft Fact) bool { return ft.Val && nosp(exprStr(ft.Cond)) == fld+"<n" }) &&
				factMatches(facts, func(ft Fact) bool { return ft.Val && nosp(exprStr(ft.Cond)) == fld+">=0" })
			if direct {
				c.OK(rule, cons+"#guarded", r.Pos(), m, "returned under 0 <= state < n")
				continue
			}
			// (b) a dominating test `fld >= n` (possibly in a disjunction with the -1 sentinel)
			dominated := false
			for _, b := range g.C.Blocks {
				if !g.live[b.Index] {
					continue
				}
				cond, _, ok := g.condOf(b)
				if !ok {
					continue
				}
				hasCmp := false
				for _, d := range decompose(cond, false, nil) {
					if s := nosp(exprStr(d.Cond)); s == fld+">=n" || s == fld+"<n" {
						hasCmp = true
					}
				}
				for _, d := range decompose(cond, true, nil) {
					if s := nosp(exprStr(d.Cond)); s == fld+">=n" || s == fld+"<n" {
						hasCmp = true
					}
				}
				cl, okl := g.LocOf(cond)
				if hasCmp && okl && g.Dominates(cl, rl) {
					dominated = true
				}
			}
			// or: the read is dominated by an unconditional valid store (re-pick on every path)
			var badStores []string
			nStores := 0
			fv := fieldOfSel(info, read)
			for _, st := range storesTo(f.Decl.Body, info, fv, false) {
				sl, ok := g.LocOf(st.Node)
				if !ok || !(g.reachFwd(sl, rl) || g.Dominates(sl, rl)) {
					continue // after the read: irrelevant for the returned value
				}
				nStores++
				switch st.Kind {
				case "assign":
					if _, ok := c28validStore(f, st.RHS); !ok {
						badStores = append(badStores, nodeStr(st.Node))
					}
				default:
					badStores = append(badStores, nodeStr(st.Node)+" ("+st.Kind+")")
				}
			}
			// when the test fails (state kept) nothing else may have modified it: covered by badStores
			c.Check(dominated && len(badStores) == 0, rule, cons, r.Pos(), m, "state is compared with n before it is read; every store reaching the read is bounded by n",
				func() string {
					if !dominated {
						return "the remembered partition is read for the return value without first being compared with the current n: when the writable partition count shrinks between calls the method returns an index >= n"
					}
					return "a store that can reach the returned value is not bounded by n: " + strings.Join(badStores, "; ")
				}())
		}
	}
	c.Floor(rule, nFuncs, 4)
	// all stores to onPart/on anywhere are sentinel or valid
	for _, tf := range [][2]string{{"roundRobinTopicPartitioner", "on"}, {"stickyTopicPartitioner", "onPart"}, {"leastBackupTopicPartitioner", "onPart"}, {"uniformBytesTopicPartitioner", "onPart"}} {
		fv := m.Field("kgo", tf[0], tf[1])
		if fv == nil {
			c.Undecided("anchor", "kgo."+tf[0]+"."+tf[1], 0, m, "field not found")
			continue
		}
		for _, st := range StoreSites(m.FuncsIn("kgo"), fv) {
			cons := st.Fn.Key + ": " + nodeStr(st.Node)
			switch st.Kind {
			case "assign", "complit":
				_, ok := c28validStore(st.Fn, st.RHS)
				c.Check(ok, "partitioner-state-stores", cons, st.Node.Pos(), m, "", "stored value is not the sentinel or bounded by n")
			case "inc":
				// the round-robin cursor may run one past the end: it is re-validated on the next call
				c.Check(tf[1] == "on", "partitioner-state-stores", cons, st.Node.Pos(), m, "cursor advance (re-validated on the next call)", "unexpected increment of partitioner state")
			default:
				c.Fail("partitioner-state-stores", cons, st.Node.Pos(), m, "unexpected write ("+st.Kind+")")
			}
		}
	}
}

func c28hashers(c *Ctx, m *Module) {
	rule := "hasher-shape"
	lit := func(key string) (*Func, *ast.FuncLit) {
		f := c.NeedFunc(m, key)
		if f == nil {
			return nil, nil
		}
		var l *ast.FuncLit
		ast.Inspect(f.Decl.Body, func(x ast.Node) bool {
			if fl, ok := x.(*ast.FuncLit); ok && l == nil {
				l = fl
			}
			return true
		})
		return f, l
	}
	stmts := func(l *ast.FuncLit) string {
		var ss []string
		for _, s := range l.Body.List {
			if ifs, ok := s.(*ast.IfStmt); ok {
				var b []string
				for _, t := range ifs.Body.List {
					b = append(b, nosp(nodeStr(t)))
				}
				ss = append(ss, "if "+nosp(exprStr(ifs.Cond))+"{"+strings.Join(b, ";")+"}")
				continue
			}
			ss = append(ss, nosp(nodeStr(s)))
		}
		return strings.Join(ss, ";")
	}
	if f, l := lit("kgo.KafkaHasher"); l != nil {
		got := stmts(l)
		c.Check(got == "returnint(hashFn(key)&0x7fffffff)%n", rule, f.Key, l.Pos(), m, "int(hash & 0x7fffffff) % n", "KafkaHasher computes `"+got+"`")
	}
	if f, l := lit("kgo.SaramaCompatHasher"); l != nil {
		got := stmts(l)
		c.Check(got == "p:=int32(hashFn(key))%int32(n);if p<0{p=-p};returnint(p)", rule, f.Key, l.Pos(), m, "int32 remainder first, negate afterwards",
			"SaramaCompatHasher computes `"+got+"` (Sarama takes the int32 remainder and then negates; negating first overflows for hash 0x80000000 and yields a negative partition)")
	}
	if f, l := lit("kgo.SaramaHasher"); l != nil {
		got := stmts(l)
		c.Check(got == "p:=int(hashFn(key))%n;if p<0{p=-p};returnp", rule, f.Key, l.Pos(), m, "", "SaramaHasher computes `"+got+"`")
	}
	if f := c.NeedFunc(m, "kgo.stickyKeyTopicPartitioner.Partition"); f != nil {
		got := nows(printNode(m.Fset, f.Decl.Body))
		c.Check(got == "{ifr.Key!=nil{returnp.hasher(r.Key,n)}returnp.stickyTopicPartitioner.Partition(r,n)}", rule, f.Key, f.Pos(), m, "keyed records go through the hasher only", "keyed partitioning is `"+got+"`")
	}
	if f := c.NeedFunc(m, "kgo.uniformBytesTopicPartitioner.PartitionByBackup"); f != nil {
		ok := false
		if ifs, isIf := f.Decl.Body.List[0].(*ast.IfStmt); isIf && nosp(exprStr(ifs.Cond)) == "p.u.keys&&r.Key!=nil" && len(ifs.Body.List) == 1 && nosp(nodeStr(ifs.Body.List[0])) == "returnp.u.hasher(r.Key,n)" {
			ok = true
		}
		c.Check(ok, rule, f.Key+"#keys", f.Pos(), m, "", "keyed records are not sent through the hasher first")
	}
	if f := c.NeedFunc(m, "kgo.murmur2"); f != nil {
		info := f.Info()
		consts := map[string]int64{}
		ast.Inspect(f.Decl.Body, func(x ast.Node) bool {
			if vs, ok := x.(*ast.ValueSpec); ok {
				for i, n := range vs.Names {
					if i < len(vs.Values) {
						if v, ok := constInt(info, vs.Values[i]); ok {
							consts[n.Name] = v
						}
					}
				}
			}
			return true
		})
		okC := consts["seed"] == 0x9747b28c && consts["m"] == 0x5bd1e995 && consts["r"] == 24
		c.Check(okC, rule, f.Key+"#constants", f.Pos(), m, "seed 0x9747b28c, m 0x5bd1e995, r 24", fmt.Sprintf("murmur2 constants are %v", consts))
		want := []string{
			"h:=seed^uint32(len(b))", "k:=uint32(b[3])<<24+uint32(b[2])<<16+uint32(b[1])<<8+uint32(b[0])", "b=b[4:]", "k*=m", "k^=k>>r", "h*=m", "h^=k",
			"h^=uint32(b[2])<<16", "h^=uint32(b[1])<<8", "h^=uint32(b[0])", "h^=h>>13", "h^=h>>15", "returnh",
		}
		got := map[string]int{}
		ast.Inspect(f.Decl.Body, func(x ast.Node) bool {
			if s, ok := x.(ast.Stmt); ok {
				got[nosp(nodeStr(s))]++
			}
			return true
		})
		var missing []string
		for _, w := range want {
			if got[w] == 0 {
				missing = append(missing, w)
			}
		}
		// k *= m twice, h *= m three times
		if got["k*=m"] != 2 || got["h*=m"] != 3 {
			missing = append(missing, fmt.Sprintf("multiply counts k*=m:%d h*=m:%d", got["k*=m"], got["h*=m"]))
		}
		okLoop := false
		ast.Inspect(f.Decl.Body, func(x ast.Node) bool {
			if fs, ok := x.(*ast.ForStmt); ok && nosp(exprStr(fs.Cond)) == "len(b)>=4" {
				okLoop = true
			}
			return true
		})
		c.Check(len(missing) == 0 && okLoop, rule, f.Key+"#steps", f.Pos(), m, "reference murmur2 mixing and tail", "murmur2 deviates from the reference: "+strings.Join(missing, "; "))
		// bounds inside murmur2
		n := boundsRule(c, m, "murmur2-bounds", []string{"kgo.murmur2"}, nil, nil)
		c.Floor("murmur2-bounds", n, 5)
	}
	_ = types.Typ
}
