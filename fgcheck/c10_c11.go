package main

import (
	"go/ast"
	"go/token"
	"go/types"
	"golang.org/x/tools/go/cfg"
	"sort"
	"strings"
)

func init() {
	register(&Prop{
		ID:        "C10",
		Level:     "other",
		Technique: "guard-shape and must-pass-through rules over GroupTransactSession.End's CFG (three-valued evaluation of the commit decision and of the return/offset-reset arms), lockset rule at the EndTransaction call, callback-wrapper installation rule, exactly-once counting of the TxnOffsetCommit completion callback, store-guard rule in applySetOffsets, constructor rule for OffsetFetch RequireStable",
		Explanation: "Structural necessary conditions of the exactly-once pipeline, decided on the source: " +
			"(1) NewGroupTransactSession installs onRevoked/onLost wrappers that set s.revoked/s.lost and close the channel once under failMu; failed() reads both; " +
			"(2) in End the offsets are committed only when wantCommit && !failed; tryCommit requires !s.failed(), commitErr == nil, !hasAbortableCommitErr and a successful forced heartbeat (or RebalanceInProgress with KIP-447), evaluated with failMu held, and failMu stays held across EndTransaction; willTryCommit is only ever wantCommit && tryCommit or false; every way back to the retry label stores false first; End returns committed == true only as willTryCommit in the arm where both errors are nil; " +
			"(3) every path from EndTransaction to a return passes the offset reset: setOffsets(CommittedOffsets()) whenever the commit was not tried or failed, setOffsets(postcommit) only when it was tried and succeeded; applySetOffsets writes dirty/head/committed for every consumed partition it is given, not only for those whose dirty offset changes; " +
			"(4) KIP-447: every OffsetFetchRequest kgo constructs for a group carries RequireStable (the constant true at fetchOffsets; copied from the original request in every request the sharder builds); " +
			"(5) commitTransactionOffsets/commitTxn invoke the completion callback exactly once on every path, the callback End passes closes `committed` first-deferred, and End waits for it.",
		NotDecided: "the end-to-end exactly-once statement (needs brokers, schedules and fault sequences); kfake's pending-offset handling.",
		Run:        runC10,
	})
	register(&Prop{
		ID:        "C11",
		Level:     "other",
		Technique: "consume/restore typestate over EndTransaction's CFG (must-pass-through of the restores on every erroring exit), must-pass-through of failProducerID and the unconfirmed marking on the EndTxn error arm, who-may-write table with guard facts for recBuf.addedToTxn / offsetsAddedToTxn / inTxn / endUnconfirmed",
		Explanation: "Structural necessary conditions decided on the source: " +
			"(1) EndTransaction consumes inTxn, endUnconfirmed, every recBuf.addedToTxn (collected in addedSwapped) and offsetsAddedToTxn at entry; on the `commit not attempted` return and after a failed EndTxn each of them is restored before the return; " +
			"(2) after a failed EndTxn request every path to the return passes failProducerID (so nothing more is produced under the old epoch) and stores endUnconfirmed = true and inTxn = true; the success path stores neither; " +
			"(3) with an unconfirmed prior end, EndTxn is never issued: a commit retry returns a non-nil error and an abort returns after the producer-ID reload; " +
			"(4) writers of recBuf.addedToTxn are exactly txnReqBuilder.add (Swap(true), pre-v12), handleReqRespBatch (set on every successful v12+ transactional produce, not conditional on the sink), EndTransaction (consume/restore), undoStagedBatches (clear only for partitions this request newly added) and removeFromTxn; writers of inTxn / endUnconfirmed / offsetsAddedToTxn are BeginTransaction, EndTransaction and commitTransactionOffsets only, under txnMu; BeginTransaction refuses while inTxn.; (7) the transaction marks survive a purge: producer.purgeTopics reads the addedToTxn mark of every recBuf it abandons and transfers it to a producer-level flag that EndTransaction folds into anyAdded (otherwise a topic purged inside a transaction makes EndTransaction skip the EndTxn and the open transaction is merged into the next one - finding F12).",
		NotDecided: "visibility at read_committed consumers and the broker side of EndTxn retries (kfake).",
		Run:        runC11,
	})
}

// localObj finds the object of a local variable by name declared in f's body
// (outside literals unless deep).
func localObj(f *Func, name string) types.Object {
	var obj types.Object
	ast.Inspect(f.Decl.Body, func(x ast.Node) bool {
		if id, ok := x.(*ast.Ident); ok && id.Name == name && obj == nil {
			if o := f.Info().Defs[id]; o != nil {
				obj = o
			}
		}
		return obj == nil
	})
	return obj
}

// assignsTo lists assignments (incl. define and var decls with values) to the local object.
func assignsTo(f *Func, obj types.Object) []ast.Expr {
	var out []ast.Expr
	ast.Inspect(f.Decl.Body, func(x ast.Node) bool {
		switch s := x.(type) {
		case *ast.AssignStmt:
			for i, l := range s.Lhs {
				id, ok := l.(*ast.Ident)
				if !ok {
					continue
				}
				if f.Info().Defs[id] == obj || f.Info().Uses[id] == obj {
					if len(s.Rhs) == len(s.Lhs) {
						out = append(out, s.Rhs[i])
					} else {
						out = append(out, nil)
					}
				}
			}
		case *ast.ValueSpec:
			for i, id := range s.Names {
				if f.Info().Defs[id] == obj && i < len(s.Values) {
					out = append(out, s.Values[i])
				}
			}
		}
		return true
	})
	return out
}

func runC10(c *Ctx) {
	m := c.Load("")
	if m == nil {
		return
	}
	c10wrappers(c, m)
	c10flagWriters(c, m)
	c10end(c, m)
	c10commitResult(c, m)
	c10setOffsets(c, m)
	c10committedView(c, m)
	c10requireStable(c, m)
	c10callback(c, m)
	// exactly-once also needs EndTransaction to be truthful and to heal an
	// unconfirmed end (C11 clauses 1-3): re-derived here
	c11endTransaction(c, m)
}

// c10flagWriters: the abort flags are written only by the installed wrappers
// (true) and by End's deferred reset (false, after the decision was made).
func c10flagWriters(c *Ctx, m *Module) {
	rule := "abort-flag-writers"
	funcs := m.FuncsIn("kgo")
	for _, fld := range []string{"revoked", "lost", "revokedCh", "lostCh"} {
		fv := m.Field("kgo", "GroupTransactSession", fld)
		if fv == nil {
			c.Undecided("anchor", "GroupTransactSession."+fld, 0, m, "field not found")
			continue
		}
		n := 0
		seen := map[string]int{}
		for _, s := range StoreSites(funcs, fv) {
			n++
			cons := s.Fn.Key + ": s." + fld + " = " + exprStr(s.RHS)
			seen[cons]++
			if seen[cons] > 1 {
				cons += "#" + string(rune('0'+seen[cons]))
			}
			switch s.Fn.Key {
			case "kgo.NewGroupTransactSession":
				// the wrappers (checked by abort-flag-wrappers) and the initial literal
				c.OK(rule, cons, s.Node.Pos(), m, "constructor / installed wrapper")
			case "kgo.GroupTransactSession.End":
				// only the reset in the first deferred function: it runs after End decided
				lit := innermostLit(s.Fn, s.Node)
				okDefer := false
				if lit != nil && len(s.Fn.Decl.Body.List) > 0 {
					if d, ok := s.Fn.Decl.Body.List[0].(*ast.DeferStmt); ok && d.Call.Fun == ast.Expr(lit) {
						okDefer = true
					}
				}
				c.Check(okDefer, rule, cons, s.Node.Pos(), m, "reset in End's deferred function (after the commit decision)", "the abort flag is reset in End outside its deferred function: a revoke seen before the decision can be forgotten")
			default:
				c.Fail(rule, cons, s.Node.Pos(), m, "the abort flag is written outside the rebalance wrappers and End's reset: a revoke or loss that happened after the records were polled can be forgotten, and End commits output whose input another member re-processes")
			}
		}
		c.Floor(rule+"/"+fld, n, 2)
	}
}

// c10commitResult: the TxnOffsetCommit callback latches its verdict.
func c10commitResult(c *Ctx, m *Module) {
	f := c.NeedFunc(m, "kgo.GroupTransactSession.End")
	if f == nil {
		return
	}
	info := f.Info()
	rule := "commit-result-latched"
	// hasAbortableCommitErr: every store is the constant true
	if o := localObj(f, "hasAbortableCommitErr"); o != nil {
		n := 0
		for _, rhs := range assignsTo(f, o) {
			v, isC := false, false
			if rhs != nil {
				v, isC = constBool(info, rhs)
			}
			c.Check(isC && v, rule, f.Key+": hasAbortableCommitErr = "+exprStr(rhs)+"#"+ordinal(&n), f.Pos(), m, "only ever set", "hasAbortableCommitErr is assigned a computed value: a later partition without error resets the verdict of an earlier abortable error and End commits with some offsets uncommitted")
		}
		c.Floor(rule+"/abortable-stores", n, 2)
	} else {
		c.Undecided("anchor", f.Key+": hasAbortableCommitErr", f.Pos(), m, "local not found")
	}
	// commitErrs: only appended to
	if o := localObj(f, "commitErrs"); o != nil {
		for _, rhs := range assignsTo(f, o) {
			ok := false
			if call, isCall := rhs.(*ast.CallExpr); isCall && exprStr(call.Fun) == "append" && len(call.Args) >= 2 && exprStr(call.Args[0]) == "commitErrs" {
				ok = true
			}
			c.Check(ok, rule, f.Key+": commitErrs only appended", f.Pos(), m, "", "commitErrs is overwritten: an earlier partition's commit error is lost")
		}
	}
	// every partition error is classified: abortable latch or appended
	var lit *ast.FuncLit
	for _, call := range callsNamed(f.Decl.Body, info, "commitTransactionOffsets", false) {
		if len(call.Args) == 3 {
			lit, _ = call.Args[2].(*ast.FuncLit)
		}
	}
	if lit == nil {
		return
	}
	g := f.LitGraph(lit)
	isVerdict := func(n ast.Node) bool {
		as, ok := n.(*ast.AssignStmt)
		if !ok || len(as.Lhs) != 1 {
			return false
		}
		l := exprStr(as.Lhs[0])
		return l == "hasAbortableCommitErr" || l == "commitErrs"
	}
	nErr := 0
	ast.Inspect(lit.Body, func(x ast.Node) bool {
		ifs, ok := x.(*ast.IfStmt)
		if !ok {
			return true
		}
		// `if err != nil` / `if err := ...; err != nil`
		if nosp(exprStr(ifs.Cond)) != "err!=nil" {
			return true
		}
		path, found := armMustPass(g, ifs, isVerdict)
		c.Check(!found, rule, f.Key+": commit error recorded#"+ordinal(&nErr), ifs.Pos(), m, "every error ends in the abortable latch or in commitErrs", "a TxnOffsetCommit error can pass without being recorded ("+pathStr(path)+"): End would commit with offsets uncommitted")
		return true
	})
	c.Floor(rule+"/error-arms", nErr, 2)
}

func c10wrappers(c *Ctx, m *Module) {
	f := c.NeedFunc(m, "kgo.NewGroupTransactSession")
	if f == nil {
		return
	}
	info := f.Info()
	rule := "abort-flag-wrappers"
	for _, w := range []struct{ cfgField, flag, ch string }{{"onRevoked", "revoked", "revokedCh"}, {"onLost", "lost", "lostCh"}} {
		fv := m.Field("kgo", "cfg", w.cfgField)
		flag := m.Field("kgo", "GroupTransactSession", w.flag)
		if fv == nil || flag == nil {
			c.Undecided("anchor", "cfg."+w.cfgField, f.Pos(), m, "field not found")
			continue
		}
		var lit *ast.FuncLit
		for _, st := range storesTo(f.Decl.Body, info, fv, true) {
			if l, ok := st.RHS.(*ast.FuncLit); ok {
				lit = l
			}
		}
		cons := f.Key + ": cfg." + w.cfgField + " wrapper"
		if lit == nil {
			c.Fail(rule, cons, f.Pos(), m, "NewGroupTransactSession does not install a closure into cfg."+w.cfgField+": a rebalance would no longer abort the transaction")
			continue
		}
		g := f.LitGraph(lit)
		env := newLockEnv(f, nil, nil)
		nSet := 0
		for _, st := range storesTo(lit.Body, info, flag, false) {
			v, isC := constBool(info, st.RHS)
			if !isC || !v {
				c.Fail(rule, cons+": "+nodeStr(st.Node), st.Node.Pos(), m, "the abort flag is stored with something other than true")
				continue
			}
			nSet++
			held, ok := env.HeldAtNode(st.Node)
			c.Check(ok && held.Holds("s.failMu", true), rule, cons+": s."+w.flag+" = true under failMu", st.Node.Pos(), m, "", "s."+w.flag+" is set without s.failMu held")
			l, _ := g.LocOf(st.Node)
			var bad []string
			for _, ft := range g.FactsAt(l) {
				s := nosp(exprStr(ft.Cond))
				switch {
				case s == "s."+w.flag && !ft.Val:
				case w.flag == "revoked" && !ft.Val && strings.Contains(s, "cooperative.Load()") && strings.Contains(s, "len(rev)==0"):
					// cooperative on_revoke with nothing revoked is not a revoke
				default:
					bad = append(bad, s)
				}
			}
			c.Check(len(bad) == 0, rule, cons+": s."+w.flag+" = true guards", st.Node.Pos(), m, "set on every revoke/loss that takes partitions away", "the abort flag is set only under "+strings.Join(bad, ", "))
			// the close of the channel follows and happens once (guarded by the flag)
			closed := false
			for _, call := range callsNamed(lit.Body, info, "close", false) {
				if len(call.Args) == 1 && nosp(exprStr(call.Args[0])) == "s."+w.ch {
					cl, ok := g.LocOf(call)
					once := factMatches(g.FactsAt(cl), func(ft Fact) bool { return !ft.Val && nosp(exprStr(ft.Cond)) == "s."+w.flag })
					if ok && once {
						closed = true
					}
				}
			}
			c.Check(closed, rule, cons+": close(s."+w.ch+")", st.Node.Pos(), m, "closed once (under !s."+w.flag+")", "the wrapper does not close s."+w.ch+" exactly once: End's forced-heartbeat wait would not be interrupted (or a double close panics)")
		}
		c.Check(nSet == 1, rule, cons+"#sets-flag", lit.Pos(), m, "", "the wrapper does not set s."+w.flag)
	}
	if ff := c.NeedFunc(m, "kgo.GroupTransactSession.failed"); ff != nil {
		ok := false
		if len(ff.Decl.Body.List) == 1 {
			if r, isR := ff.Decl.Body.List[0].(*ast.ReturnStmt); isR && len(r.Results) == 1 {
				var atoms []string
				for _, ft := range decompose(r.Results[0], false, nil) {
					if !ft.Val {
						atoms = append(atoms, nosp(exprStr(ft.Cond)))
					}
				}
				sort.Strings(atoms)
				ok = strings.Join(atoms, ",") == "s.lost,s.revoked"
			}
		}
		c.Check(ok, rule, ff.Key, ff.Pos(), m, "revoked || lost", "failed() is not `s.revoked || s.lost`")
	}
}

func c10end(c *Ctx, m *Module) {
	f := c.NeedFunc(m, "kgo.GroupTransactSession.End")
	if f == nil {
		return
	}
	info := f.Info()
	g := f.Graph()
	rule := "commit-decision"
	obj := func(name string) types.Object {
		o := localObj(f, name)
		if o == nil {
			c.Undecided("anchor", f.Key+": local "+name, f.Pos(), m, "local variable not found")
		}
		return o
	}
	wtc, tryC, wantC := obj("willTryCommit"), obj("tryCommit"), obj("wantCommit")
	if wtc == nil || tryC == nil || wantC == nil {
		return
	}
	// wantCommit := bool(commit)
	if d := singleDef(f, wantC); d == nil || nosp(exprStr(d)) != "bool(commit)" {
		c.Fail(rule, f.Key+": wantCommit", f.Pos(), m, "wantCommit is not solely bool(commit)")
	} else {
		c.OK(rule, f.Key+": wantCommit", d.Pos(), m, "bool(commit)")
	}
	// tryCommit conjuncts
	if d := singleDef(f, tryC); d == nil {
		c.Fail(rule, f.Key+": tryCommit", f.Pos(), m, "tryCommit is not defined exactly once")
	} else {
		have := map[string]bool{}
		for _, ft := range decompose(d, true, nil) {
			s := nosp(exprStr(ft.Cond))
			if !ft.Val {
				s = "!" + s
			}
			have[s] = true
		}
		for _, need := range []struct{ atom, why string }{
			{"!s.failed()", "a revoke or loss since the transaction began"},
			{"commitErr==nil", "a failed TxnOffsetCommit"},
			{"!hasAbortableCommitErr", "an abortable TxnOffsetCommit error"},
			{"okHeartbeat||canCommitDespiteRebalance", "a failed forced heartbeat (the member may no longer own its partitions)"},
		} {
			c.Check(have[need.atom], rule, f.Key+": tryCommit requires "+need.atom, d.Pos(), m, "", "tryCommit no longer requires "+need.atom+": End would commit despite "+need.why)
		}
		// evaluated under failMu; failMu held across EndTransaction
		env := newLockEnv(f, nil, nil)
		if st := enclosingStmt(f.Decl.Body, d); st != nil {
			held, ok := env.HeldAtNode(st)
			c.Check(ok && held.Holds("s.failMu", true), rule, f.Key+": tryCommit under failMu", d.Pos(), m, "", "s.failed() is evaluated without s.failMu: a concurrent revoke can be missed")
		}
		for _, call := range callsNamed(f.Decl.Body, info, "EndTransaction", false) {
			held, ok := env.HeldAtNode(call)
			c.Check(ok && held.Holds("s.failMu", true), rule, f.Key+": EndTransaction under failMu", call.Pos(), m, "a rebalance callback cannot complete between the decision and EndTxn", "failMu is not held across EndTransaction: a revoke can complete between the commit decision and the EndTxn")
		}
	}
	// canCommitDespiteRebalance := heartbeatRebalance && kip447
	if o := localObj(f, "canCommitDespiteRebalance"); o != nil {
		d := singleDef(f, o)
		c.Check(d != nil && nosp(exprStr(d)) == "heartbeatRebalance&&kip447", rule, f.Key+": canCommitDespiteRebalance", f.Pos(), m, "", "canCommitDespiteRebalance is not heartbeatRebalance && kip447")
	}
	if o := localObj(f, "okHeartbeat"); o != nil {
		for i, rhs := range assignsTo(f, o) {
			if rhs == nil {
				continue
			}
			s := nosp(exprStr(rhs))
			ok := s == "heartbeatErr==nil"
			if s == "true" {
				l, has := g.LocOf(enclosingStmt(f.Decl.Body, rhs))
				ok = has && factMatches(g.FactsAt(l), func(ft Fact) bool { return ft.Val && nosp(exprStr(ft.Cond)) == "len(postcommit)==0" })
			}
			c.Check(ok, rule, f.Key+": okHeartbeat = "+s+"#"+string(rune('0'+i)), rhs.Pos(), m, "", "okHeartbeat is set without a successful forced heartbeat (and there are offsets to commit)")
		}
	}
	// the offset commit only when wantCommit && !failed
	for _, call := range callsNamed(f.Decl.Body, info, "commitTransactionOffsets", false) {
		l, _ := g.LocOf(call)
		facts := g.FactsAt(l)
		w := factMatches(facts, func(ft Fact) bool { return ft.Val && exprStr(ft.Cond) == "wantCommit" })
		nf := factMatches(facts, func(ft Fact) bool { return !ft.Val && exprStr(ft.Cond) == "failed" })
		fo := localObj(f, "failed")
		var fd ast.Expr
		if fo != nil {
			fd = singleDef(f, fo)
		}
		c.Check(w && nf && fd != nil && nosp(exprStr(fd)) == "s.failed()", rule, f.Key+": commitTransactionOffsets only if wantCommit && !failed", call.Pos(), m, "", "offsets are committed into the transaction although the session already failed (or an abort was requested)")
		c.Check(len(call.Args) == 3 && exprStr(call.Args[1]) == "postcommit", rule, f.Key+": commits postcommit", call.Pos(), m, "", "the transaction does not commit the polled (uncommitted) offsets")
	}
	if o := localObj(f, "postcommit"); o != nil {
		d := singleDef(f, o)
		c.Check(d != nil && nosp(exprStr(d)) == "s.cl.UncommittedOffsets()", rule, f.Key+": postcommit", f.Pos(), m, "", "postcommit is not UncommittedOffsets()")
	}
	// willTryCommit assignments
	n := 0
	for _, rhs := range assignsTo(f, wtc) {
		n++
		if rhs == nil {
			c.Fail(rule, f.Key+": willTryCommit assignment", f.Pos(), m, "multi-value assignment to willTryCommit")
			continue
		}
		s := nosp(exprStr(rhs))
		c.Check(s == "wantCommit&&tryCommit" || s == "false", rule, f.Key+": willTryCommit = "+s, rhs.Pos(), m, "", "willTryCommit is assigned "+s+": it may become true without the commit preconditions")
	}
	c.Floor(rule+"/willTryCommit-assignments", n, 2)
	// EndTransaction(ctx, TransactionEndTry(willTryCommit)) and retry discipline
	var endCall *ast.CallExpr
	for _, call := range callsNamed(f.Decl.Body, info, "EndTransaction", false) {
		if endCall != nil {
			c.Fail(rule, f.Key+": second EndTransaction call", call.Pos(), m, "more than one EndTransaction call in End: rules assume one (update the checker)")
		}
		endCall = call
	}
	if endCall == nil {
		c.Undecided(rule, f.Key+": EndTransaction", f.Pos(), m, "call not found")
		return
	}
	c.Check(len(endCall.Args) == 2 && nosp(exprStr(endCall.Args[1])) == "TransactionEndTry(willTryCommit)", rule, f.Key+": EndTransaction(willTryCommit)", endCall.Pos(), m, "", "EndTransaction is not given willTryCommit")
	endLoc, _ := g.LocOf(endCall)
	isEnd := func(n ast.Node) bool {
		return containsNode(n, false, func(y ast.Node) bool { return y == ast.Node(endCall) })
	}
	isFalseStore := func(n ast.Node) bool {
		as, ok := n.(*ast.AssignStmt)
		if !ok || len(as.Lhs) != 1 || len(as.Rhs) != 1 {
			return false
		}
		id, ok := as.Lhs[0].(*ast.Ident)
		if !ok || info.Uses[id] != wtc {
			return false
		}
		v, isC := constBool(info, as.Rhs[0])
		return isC && !v
	}
	if path, found := g.FindPath(endLoc, SearchOpts{Stop: isFalseStore, GoalNode: isEnd}); found {
		c.Fail("retry-only-as-abort", f.Key+": goto retry", endCall.Pos(), m, "EndTransaction can be retried without first storing willTryCommit = false (path: "+pathStr(path)+"): a commit whose outcome is unknown would be retried as a commit")
	} else {
		c.OK("retry-only-as-abort", f.Key+": goto retry", endCall.Pos(), m, "every way back to EndTransaction stores willTryCommit = false")
	}
	// the retried errors include the unconfirmed ones
	var arms []string
	ast.Inspect(f.Decl.Body, func(x ast.Node) bool {
		cc, ok := x.(*ast.CaseClause)
		if !ok {
			return true
		}
		hasGoto := false
		for _, st := range cc.Body {
			if br, ok := st.(*ast.BranchStmt); ok && br.Tok == token.GOTO {
				hasGoto = true
			}
		}
		if hasGoto {
			for _, e := range cc.List {
				arms = append(arms, nosp(exprStr(e)))
			}
		}
		return true
	})
	for _, need := range []string{"kerr.OperationNotAttempted", "kerr.TransactionAbortable", "kerr.UnknownServerError"} {
		found := false
		for _, a := range arms {
			if a == "errors.Is(endTxnErr,"+need+")" {
				found = true
			}
		}
		c.Check(found, "retry-only-as-abort", f.Key+": retry arm "+need, endCall.Pos(), m, "", "End no longer retries as abort on "+need)
	}
	// returns
	nRet := 0
	ast.Inspect(f.Decl.Body, func(x ast.Node) bool {
		if _, isLit := x.(*ast.FuncLit); isLit {
			return false
		}
		r, ok := x.(*ast.ReturnStmt)
		if !ok {
			return true
		}
		nRet++
		cons := f.Key + ": " + nodeStr(r)
		if len(r.Results) != 2 {
			c.Fail("truthful-return", cons, r.Pos(), m, "bare return in End: committed could carry a stale value")
			return true
		}
		if v, isC := constBool(info, r.Results[0]); isC && !v {
			c.OK("truthful-return", cons, r.Pos(), m, "reports not committed")
			return true
		}
		id, ok := r.Results[0].(*ast.Ident)
		if !ok || info.Uses[id] != wtc {
			c.Fail("truthful-return", cons, r.Pos(), m, "End returns committed = "+exprStr(r.Results[0])+", neither false nor willTryCommit")
			return true
		}
		l, _ := g.LocOf(r)
		facts := g.FactsAt(l)
		bad := ""
		for _, cN := range []bool{true, false} {
			for _, eN := range []bool{true, false} {
				if cN && eN {
					continue
				}
				env := &triEnv{f: f, atom: errNilAtoms(map[string]bool{"commitErr": cN, "endTxnErr": eN})}
				if env.evalFacts(facts) != triF {
					bad += " commitErr==nil:" + boolStr(cN) + ",endTxnErr==nil:" + boolStr(eN)
				}
			}
		}
		c.Check(bad == "" && exprStr(r.Results[1]) == "nil", "truthful-return", cons, r.Pos(), m, "only when commitErr and endTxnErr are both nil", "`return willTryCommit` is reachable with an error set ("+strings.TrimSpace(bad)+"): End would report a commit that failed")
		// reaching this return after EndTransaction: nothing changes willTryCommit except stores of false (checked above)
		return true
	})
	c.Floor("truthful-return/returns", nRet, 6)
	// offsets reset
	rule3 := "offset-reset"
	setOff := m.Method("kgo", "Client", "setOffsets")
	var resetCalls, okCalls []*ast.CallExpr
	for _, call := range callsTo(f.Decl.Body, info, setOff, false) {
		if len(call.Args) < 1 {
			continue
		}
		arg := unparen(call.Args[0])
		if id, ok := arg.(*ast.Ident); ok {
			if info.Uses[id] == localObj(f, "postcommit") {
				okCalls = append(okCalls, call)
				continue
			}
			if d := singleDef(f, info.Uses[id]); d != nil && nosp(exprStr(d)) == "s.cl.CommittedOffsets()" {
				// defined after EndTransaction?
				dl, ok1 := g.LocOf(enclosingStmt(f.Decl.Body, d))
				if ok1 && g.Dominates(endLoc, dl) {
					resetCalls = append(resetCalls, call)
					continue
				}
			}
		}
		if nosp(exprStr(arg)) == "s.cl.CommittedOffsets()" {
			resetCalls = append(resetCalls, call)
			continue
		}
		c.Fail(rule3, f.Key+": "+nodeStr(call), call.Pos(), m, "setOffsets in End with an argument that is neither postcommit nor the committed offsets read after EndTransaction")
	}
	evalAt := func(call *ast.CallExpr, w, eN bool) tri {
		l, _ := g.LocOf(call)
		env := &triEnv{f: f, atom: func(e ast.Expr) (tri, bool) {
			if id, ok := e.(*ast.Ident); ok && info.Uses[id] == wtc {
				return b2tri(w), true
			}
			return errNilAtoms(map[string]bool{"endTxnErr": eN})(e)
		}}
		return env.evalFacts(g.FactsAt(l))
	}
	c.Check(len(resetCalls) == 1 && len(okCalls) == 1, rule3, f.Key+"#setOffsets-calls", f.Pos(), m, "one reset to committed, one advance to postcommit", "expected one setOffsets(committed) and one setOffsets(postcommit) in End")
	if len(resetCalls) == 1 && len(okCalls) == 1 {
		for _, w := range []bool{true, false} {
			for _, eN := range []bool{true, false} {
				success := w && eN
				r, o := evalAt(resetCalls[0], w, eN), evalAt(okCalls[0], w, eN)
				cons := f.Key + ": willTryCommit=" + boolStr(w) + ",endTxnErr==nil:" + boolStr(eN)
				if success {
					c.Check(o == triT && r == triF, rule3, cons, okCalls[0].Pos(), m, "advance to postcommit", "after a successful commit the offsets are not (only) advanced to postcommit")
				} else {
					c.Check(r == triT && o == triF, rule3, cons, resetCalls[0].Pos(), m, "reset to committed", "after an abort or failed EndTxn the consumer is not reset to the committed offsets (records of the aborted transaction would be skipped) or is advanced to postcommit")
				}
			}
		}
		// every path from EndTransaction to a return passes the if that holds the reset
		var ifs *ast.IfStmt
		pm := parentMap(f.Decl.Body)
		for p := pm[resetCalls[0]]; p != nil; p = pm[p] {
			if i, ok := p.(*ast.IfStmt); ok {
				ifs = i
			}
		}
		if ifs == nil {
			c.Fail(rule3, f.Key+"#reset-on-all-paths", resetCalls[0].Pos(), m, "reset not inside an if")
		} else if path, found := g.FindPath(endLoc, SearchOpts{
			Stop:     func(n ast.Node) bool { return n == ast.Node(ifs.Cond) },
			GoalExit: func(kind ExitKind, last ast.Node) bool { return kind != ExitPanic },
		}); found {
			c.Fail(rule3, f.Key+"#reset-on-all-paths", endCall.Pos(), m, "a return after EndTransaction bypasses the offset reset (path: "+pathStr(path)+")")
		} else {
			c.OK(rule3, f.Key+"#reset-on-all-paths", ifs.Pos(), m, "every path from EndTransaction to a return passes the reset decision")
		}
	}
}

func boolStr(b bool) string {
	if b {
		return "T"
	}
	return "F"
}

func b2tri(b bool) tri {
	if b {
		return triT
	}
	return triF
}

// errNilAtoms classifies `<name> == nil` / `<name> != nil` atoms.
func errNilAtoms(isNil map[string]bool) func(e ast.Expr) (tri, bool) {
	return func(e ast.Expr) (tri, bool) {
		be, ok := e.(*ast.BinaryExpr)
		if !ok || (be.Op != token.EQL && be.Op != token.NEQ) || exprStr(be.Y) != "nil" {
			return triU, false
		}
		v, known := isNil[exprStr(be.X)]
		if !known {
			return triU, false
		}
		return b2tri(v == (be.Op == token.EQL)), true
	}
}

func pathStr(path []ast.Node) string {
	var parts []string
	for _, n := range path {
		s := nodeStr(n)
		if len(s) > 50 {
			s = s[:50] + "..."
		}
		parts = append(parts, s)
	}
	if len(parts) > 8 {
		parts = append(parts[:4], append([]string{"..."}, parts[len(parts)-3:]...)...)
	}
	return strings.Join(parts, " -> ")
}

func c10setOffsets(c *Ctx, m *Module) {
	f := c.NeedFunc(m, "kgo.groupConsumer.applySetOffsets")
	if f == nil {
		return
	}
	info := f.Info()
	g := f.Graph()
	rule := "set-offsets-bookkeeping"
	n := 0
	ast.Inspect(f.Decl.Body, func(x ast.Node) bool {
		as, ok := x.(*ast.AssignStmt)
		if !ok || len(as.Lhs) != 1 || len(as.Rhs) != 1 {
			return true
		}
		ix, ok := as.Lhs[0].(*ast.IndexExpr)
		if !ok {
			return true
		}
		lit, ok := as.Rhs[0].(*ast.CompositeLit)
		if !ok {
			return true
		}
		tv := info.Types[lit]
		if tv.Type == nil || !strings.HasSuffix(tv.Type.String(), "kgo.uncommit") {
			return true
		}
		n++
		cons := f.Key + ": " + exprStr(ix) + " = uncommit{...}"
		l, _ := g.LocOf(as)
		var bad []string
		for _, ft := range g.FactsAt(l) {
			s := nosp(exprStr(ft.Cond))
			if strings.Contains(s, "current.") || strings.Contains(s, "epochOffset") || strings.Contains(s, ".dirty") || strings.Contains(s, ".head") || strings.Contains(s, ".committed") {
				bad = append(bad, s)
			}
		}
		c.Check(len(bad) == 0, rule, cons+" unconditional", as.Pos(), m, "written for every consumed partition given", "head/committed are only updated under "+strings.Join(bad, ", ")+": after a transaction commit whose offsets equal the dirty offsets, CommittedOffsets stays stale and the next abort rewinds over committed input")
		fields := map[string]string{}
		for _, e := range lit.Elts {
			if kv, ok := e.(*ast.KeyValueExpr); ok {
				fields[exprStr(kv.Key)] = exprStr(kv.Value)
			}
		}
		var rangeVal string
		pm := parentMap(f.Decl.Body)
		for p := pm[as]; p != nil; p = pm[p] {
			if rs, ok := p.(*ast.RangeStmt); ok && rs.Value != nil {
				rangeVal = exprStr(rs.Value)
				break
			}
		}
		c.Check(rangeVal != "" && fields["dirty"] == rangeVal && fields["head"] == rangeVal && fields["committed"] == rangeVal, rule, cons+" sets dirty, head, committed", as.Pos(), m, "", "applySetOffsets does not set all of dirty/head/committed to the given offset")
		return true
	})
	c.Floor(rule+"/stores", n, 1)
	// setOffsets applies them before assigning
	if sf := c.NeedFunc(m, "kgo.Client.setOffsets"); sf != nil {
		c.Check(len(callsNamed(sf.Decl.Body, sf.Info(), "applySetOffsets", true)) >= 1, rule, sf.Key+": calls applySetOffsets", sf.Pos(), m, "", "setOffsets no longer updates the group bookkeeping")
	}
}

func c10requireStable(c *Ctx, m *Module) {
	rule := "require-stable"
	kp := m.Pkg("kgo")
	if kp == nil {
		return
	}
	n := 0
	for _, f := range m.FuncsIn("kgo") {
		info := f.Info()
		for _, call := range callsNamed(f.Decl.Body, info, "NewPtrOffsetFetchRequest", true) {
			n++
			// the enclosing function body (literal or declaration) stores RequireStable
			var body *ast.BlockStmt = f.Decl.Body
			var params *ast.FieldList = f.Decl.Type.Params
			if lit := innermostLit(f, call); lit != nil {
				body, params = lit.Body, lit.Type.Params
			}
			cons := f.Key + ": NewPtrOffsetFetchRequest()"
			if body != f.Decl.Body {
				cons += " in closure"
			}
			var rhs ast.Expr
			ast.Inspect(body, func(x ast.Node) bool {
				as, ok := x.(*ast.AssignStmt)
				if !ok || len(as.Lhs) != 1 || len(as.Rhs) != 1 {
					return true
				}
				if sel, ok := as.Lhs[0].(*ast.SelectorExpr); ok && sel.Sel.Name == "RequireStable" {
					rhs = as.Rhs[0]
				}
				return true
			})
			if rhs == nil {
				c.Fail(rule, cons, call.Pos(), m, "an OffsetFetchRequest is built without setting RequireStable: the broker may return offsets while a transactional commit is pending (KIP-447), the new owner would re-consume input that is about to commit")
				continue
			}
			if v, isC := constBool(info, rhs); isC {
				c.Check(v, rule, cons, rhs.Pos(), m, "RequireStable = true", "RequireStable is the constant false")
				continue
			}
			if sel, ok := unparen(rhs).(*ast.SelectorExpr); ok && sel.Sel.Name == "RequireStable" {
				c.OK(rule, cons, rhs.Pos(), m, "copied from "+exprStr(rhs))
				continue
			}
			// a parameter: every call site must pass X.RequireStable
			if id, ok := unparen(rhs).(*ast.Ident); ok && body == f.Decl.Body {
				idx := -1
				k := 0
				for _, fl := range params.List {
					for _, nm := range fl.Names {
						if info.Defs[nm] == info.Uses[id] {
							idx = k
						}
						k++
					}
				}
				if idx >= 0 {
					sites := CallSites(m.FuncsIn("kgo"), f.Obj)
					allOK := len(sites) > 0
					for _, s := range sites {
						a := s.Node.(*ast.CallExpr).Args[idx]
						sel, ok := unparen(a).(*ast.SelectorExpr)
						good := ok && sel.Sel.Name == "RequireStable"
						if v, isC := constBool(s.Fn.Info(), a); isC && v {
							good = true
						}
						c.Check(good, rule, s.Fn.Key+": "+f.Decl.Name.Name+"("+exprStr(a)+", ...)", a.Pos(), m, "", "the split OffsetFetch request does not inherit RequireStable from the original request")
						allOK = allOK && good
					}
					c.Check(allOK, rule, cons, rhs.Pos(), m, "parameter fed with RequireStable at every call site", "RequireStable parameter is not fed from the original request")
					continue
				}
			}
			c.Fail(rule, cons, rhs.Pos(), m, "RequireStable is set from "+exprStr(rhs)+", which is not the constant true nor a copy of the original request's value")
		}
	}
	c.Floor(rule+"/constructions", n, 3)
}

func c10callback(c *Ctx, m *Module) {
	rule := "txn-offset-commit-callback-once"
	if f := c.NeedFunc(m, "kgo.Client.commitTransactionOffsets"); f != nil {
		info := f.Info()
		spec := OnceSpec{NilGuard: "onDone", Call: func(call *ast.CallExpr) Event {
			if id, ok := unparen(call.Fun).(*ast.Ident); ok && id.Name == "onDone" {
				return Event{Kind: EvOnce}
			}
			if calleeName(info, call) == "kgo.groupConsumer.commitTxn" {
				return Event{Kind: EvOnce}
			}
			return Event{}
		}}
		onceRule(c, m, rule, f, f.Decl.Body, f.Graph(), f.Key, spec, 7)
		// the wrapper given to commitTxn calls onDone once
		for _, call := range callsNamed(f.Decl.Body, info, "commitTxn", false) {
			ok := false
			if len(call.Args) == 4 {
				if id, isId := call.Args[3].(*ast.Ident); isId {
					if d := singleDef(f, info.Uses[id]); d != nil {
						if lit, isLit := d.(*ast.FuncLit); isLit {
							wspec := OnceSpec{Call: func(call *ast.CallExpr) Event {
								if id, ok := unparen(call.Fun).(*ast.Ident); ok && id.Name == "onDone" {
									return Event{Kind: EvOnce}
								}
								return Event{}
							}}
							r := CheckOnce(f, lit.Body, f.LitGraph(lit), wspec)
							ok = len(r.Problems) == 0 && r.Events >= 1
						}
					} else if id.Name == "onDone" {
						ok = true
					}
				}
			}
			c.Check(ok, rule, f.Key+": commitTxn(..., wrapper)", call.Pos(), m, "the wrapper calls onDone exactly once", "commitTxn is not given a callback that invokes onDone exactly once")
		}
	}
	if f := c.NeedFunc(m, "kgo.groupConsumer.commitTxn"); f != nil {
		var gor *ast.FuncLit
		ast.Inspect(f.Decl.Body, func(x ast.Node) bool {
			if gs, ok := x.(*ast.GoStmt); ok {
				if lit, ok := gs.Call.Fun.(*ast.FuncLit); ok {
					gor = lit
				}
			}
			return true
		})
		if gor == nil {
			c.Undecided(rule, f.Key+"#goroutine", f.Pos(), m, "commit goroutine not found")
		} else {
			spec := OnceSpec{Call: func(call *ast.CallExpr) Event {
				if id, ok := unparen(call.Fun).(*ast.Ident); ok && id.Name == "onDone" {
					return Event{Kind: EvOnce}
				}
				return Event{}
			}}
			onceRule(c, m, rule, f, gor.Body, f.LitGraph(gor), f.Key+"#goroutine", spec, 2)
			// main body: spawns the goroutine on every path (no early return)
			nret := len(findNodes(f.Decl.Body, false, func(x ast.Node) bool { _, ok := x.(*ast.ReturnStmt); return ok }))
			c.Check(nret == 0, rule, f.Key+"#always-spawns", f.Pos(), m, "", "commitTxn has an early return that skips the goroutine: the callback would never run")
			// the nil default
			okNil := false
			ast.Inspect(f.Decl.Body, func(x ast.Node) bool {
				if ifs, ok := x.(*ast.IfStmt); ok && nosp(exprStr(ifs.Cond)) == "onDone==nil" {
					okNil = true
				}
				return true
			})
			c.Check(okNil, rule, f.Key+"#nil-default", f.Pos(), m, "", "nil callback is no longer defaulted (nil call would panic the goroutine)")
		}
	}
	// End's callback closes `committed` first-deferred and End receives from it right after
	if f := c.NeedFunc(m, "kgo.GroupTransactSession.End"); f != nil {
		info := f.Info()
		for _, call := range callsNamed(f.Decl.Body, info, "commitTransactionOffsets", false) {
			ok := false
			if len(call.Args) == 3 {
				if lit, isLit := call.Args[2].(*ast.FuncLit); isLit && len(lit.Body.List) > 0 {
					if d, isD := lit.Body.List[0].(*ast.DeferStmt); isD && nosp(exprStr(d.Call)) == "close(committed)" {
						ok = true
					}
				}
			}
			c.Check(ok, rule, f.Key+": callback closes committed (deferred first)", call.Pos(), m, "", "End's TxnOffsetCommit callback does not close `committed` on every exit")
			// a receive from committed follows on all paths before the heartbeat decision
			g := f.Graph()
			l, _ := g.LocOf(call)
			pm := parentMap(f.Decl.Body)
			isRecv := func(n ast.Node) bool {
				if _, inSelect := pm[n].(*ast.CommClause); inSelect {
					return false // go/cfg lists every comm of a select in its head block: not a must-receive
				}
				return containsNode(n, false, func(y ast.Node) bool {
					u, ok := y.(*ast.UnaryExpr)
					return ok && u.Op == token.ARROW && exprStr(u.X) == "committed"
				})
			}
			_, found := g.FindPath(l, SearchOpts{Stop: isRecv, GoalExit: func(ExitKind, ast.Node) bool { return true }, GoalNode: func(n ast.Node) bool {
				return containsNode(n, false, func(y ast.Node) bool {
					cc, ok := y.(*ast.CallExpr)
					return ok && strings.HasSuffix(nosp(exprStr(cc.Fun)), ".EndTransaction")
				})
			}})
			c.Check(!found, rule, f.Key+": waits for the offset commit", call.Pos(), m, "<-committed before EndTransaction", "End can reach EndTransaction without waiting for the TxnOffsetCommit result")
		}
	}
}

// armMustPass searches, starting on the true edge of ifs.Cond, for a path that
// leaves the if statement (or the function) without passing a stop node.
func armMustPass(g *Graph, ifs *ast.IfStmt, stop func(n ast.Node) bool) ([]ast.Node, bool) {
	cl, ok := g.LocOf(ifs.Cond)
	if !ok {
		return nil, true
	}
	condBlk := g.C.Blocks[cl.B]
	var done *cfg.Block
	for _, b := range g.C.Blocks {
		if b.Stmt == ast.Stmt(ifs) && b.Kind == cfg.KindIfDone {
			done = b
		}
	}
	return g.FindPath(cl, SearchOpts{
		Stop:      stop,
		EdgeOK:    func(from *cfg.Block, k int, to *cfg.Block) bool { return from != condBlk || k == 0 },
		GoalBlock: func(b *cfg.Block) bool { return done != nil && b == done },
		GoalExit:  func(kind ExitKind, last ast.Node) bool { return kind != ExitPanic },
	})
}

func runC11(c *Ctx) {
	m := c.Load("")
	if m == nil {
		return
	}
	c11endTransaction(c, m)
	c11writers(c, m)
	// GroupTransactSession.End's own report (C10 clauses 2, 3 and 5) is part of
	// "end results are truthful": re-derived here
	c10end(c, m)
	c10commitResult(c, m)
	c10callback(c, m)
	// a record reported failed (aborted) must not be in the log: the
	// fail-only-when-safe rules of C02 are re-derived here
	c02failers(c, m)
	c11offsetsFlag(c, m)
	c11purgeMarks(c, m)
}

// c11offsetsFlag: once the group's offsets are part of the transaction -
// explicitly through AddOffsetsToTxn or implicitly through TxnOffsetCommit v5
// (KIP-890 part 2) - offsetsAddedToTxn is set on every path, so that
// EndTransaction issues the EndTxn even when nothing was produced.
func c11offsetsFlag(c *Ctx, m *Module) {
	rule := "offsets-in-txn-flag-set"
	f := c.NeedFunc(m, "kgo.Client.commitTransactionOffsets")
	if f == nil {
		return
	}
	info := f.Info()
	g := f.Graph()
	fv := m.Field("kgo", "groupConsumer", "offsetsAddedToTxn")
	var ifs *ast.IfStmt
	for _, st := range f.Decl.Body.List {
		if i, ok := st.(*ast.IfStmt); ok {
			if u, ok := unparen(i.Cond).(*ast.UnaryExpr); ok && u.Op == token.NOT && sameField(fieldOfSel(info, u.X), fv) {
				ifs = i
			}
		}
	}
	if ifs == nil {
		c.Undecided(rule, f.Key+"#if !offsetsAddedToTxn", f.Pos(), m, "statement not found")
		return
	}
	isSet := func(n ast.Node) bool {
		as, ok := n.(*ast.AssignStmt)
		if !ok {
			return false
		}
		for _, st := range storesTo(as, info, fv, false) {
			if v, isC := constBool(info, st.RHS); isC && v {
				return true
			}
		}
		return false
	}
	// paths that leave the arm normally (not the error return) must have set the flag
	cl, _ := g.LocOf(ifs.Cond)
	condBlk := g.C.Blocks[cl.B]
	var done *cfg.Block
	for _, b := range g.C.Blocks {
		if b.Stmt == ast.Stmt(ifs) && b.Kind == cfg.KindIfDone {
			done = b
		}
	}
	path, found := g.FindPath(cl, SearchOpts{
		Stop:      isSet,
		EdgeOK:    func(from *cfg.Block, k int, to *cfg.Block) bool { return from != condBlk || k == 0 },
		GoalBlock: func(b *cfg.Block) bool { return done != nil && b == done },
	})
	c.Check(!found, rule, f.Key+": flag set whenever the commit proceeds", ifs.Pos(), m, "", "the transactional offset commit can proceed without offsetsAddedToTxn = true ("+pathStr(path)+"): with KIP-890p2 (no AddOffsetsToTxn request) and nothing produced, EndTransaction sees nothing added, skips EndTxn and reports a commit while the offsets stay pending in an open transaction")
}

func c11endTransaction(c *Ctx, m *Module) {
	f := c.NeedFunc(m, "kgo.Client.EndTransaction")
	if f == nil {
		return
	}
	info := f.Info()
	g := f.Graph()
	inTxn := m.Field("kgo", "producer", "inTxn")
	endUnc := m.Field("kgo", "producer", "endUnconfirmed")
	added := m.Field("kgo", "recBuf", "addedToTxn")
	offAdded := m.Field("kgo", "groupConsumer", "offsetsAddedToTxn")
	if inTxn == nil || endUnc == nil || added == nil || offAdded == nil {
		c.Undecided("anchor", "txn state fields", f.Pos(), m, "inTxn / endUnconfirmed / addedToTxn / offsetsAddedToTxn not found")
		return
	}
	rule := "consume-restore"
	// --- consume at entry
	var consumeLoc Loc
	haveConsume := false
	for _, st := range storesTo(f.Decl.Body, info, inTxn, false) {
		if v, isC := constBool(info, st.RHS); isC && !v {
			consumeLoc, haveConsume = g.LocOf(st.Node)
		}
	}
	c.Check(haveConsume, rule, f.Key+": inTxn = false", f.Pos(), m, "", "EndTransaction no longer consumes inTxn at entry")
	if !haveConsume {
		return
	}
	// addedToTxn.Swap(false) collected into addedSwapped
	okSwap := false
	for _, st := range storesTo(f.Decl.Body, info, added, false) {
		if st.Kind != "atomic:Swap" {
			continue
		}
		if v, isC := constBool(info, st.RHS); !isC || v {
			continue
		}
		// the swap is an if condition whose body appends to addedSwapped
		pm := parentMap(f.Decl.Body)
		if ifs, ok := pm[st.Node].(*ast.IfStmt); ok && ifs.Cond == st.Node.(ast.Expr) {
			app := containsNode(ifs.Body, false, func(y ast.Node) bool {
				as, ok := y.(*ast.AssignStmt)
				return ok && len(as.Lhs) == 1 && exprStr(as.Lhs[0]) == "addedSwapped" && strings.HasPrefix(nosp(exprStr(as.Rhs[0])), "append(addedSwapped,")
			})
			anyA := containsNode(ifs.Body, false, func(y ast.Node) bool {
				as, ok := y.(*ast.AssignStmt)
				return ok && len(as.Lhs) == 1 && exprStr(as.Lhs[0]) == "anyAdded" && exprStr(as.Rhs[0]) == "true"
			})
			okSwap = app && anyA
		}
	}
	c.Check(okSwap, rule, f.Key+": addedToTxn.Swap(false) collected", f.Pos(), m, "every consumed flag is remembered in addedSwapped and sets anyAdded", "the consumed addedToTxn flags are not all remembered (they could not be restored) or do not count as `added`")

	// restore units
	isStoreTrue := func(field *types.Var, allowed func(rhs ast.Expr) bool) func(n ast.Node) bool {
		return func(n ast.Node) bool {
			as, ok := n.(*ast.AssignStmt)
			if !ok {
				return false
			}
			for _, st := range storesTo(as, info, field, false) {
				if st.Kind == "assign" && allowed(st.RHS) {
					return true
				}
			}
			return false
		}
	}
	isTrue := func(e ast.Expr) bool { v, isC := constBool(info, e); return isC && v }
	// range over addedSwapped storing true
	restoreRanges := map[ast.Expr]bool{}
	restoreIfs := map[ast.Expr]bool{}
	ast.Inspect(f.Decl.Body, func(x ast.Node) bool {
		switch s := x.(type) {
		case *ast.RangeStmt:
			if exprStr(s.X) != "addedSwapped" || s.Value == nil || len(s.Body.List) == 0 {
				return true
			}
			if es, ok := s.Body.List[0].(*ast.ExprStmt); ok {
				if call, ok := es.X.(*ast.CallExpr); ok {
					sts := storesTo(call, info, added, false)
					if len(sts) == 1 && sts[0].Kind == "atomic:Store" && isTrue(sts[0].RHS) && strings.HasPrefix(exprStr(sts[0].LHS), exprStr(s.Value)+".") {
						restoreRanges[s.X] = true
					}
				}
			}
		case *ast.IfStmt:
			if exprStr(s.Cond) != "offsetsWereAdded" || len(s.Body.List) == 0 {
				return true
			}
			if as, ok := s.Body.List[0].(*ast.AssignStmt); ok {
				sts := storesTo(as, info, offAdded, false)
				if len(sts) == 1 && isTrue(sts[0].RHS) {
					restoreIfs[s.Cond] = true
				}
			}
		}
		return true
	})
	c.Floor(rule+"/restore-loops", len(restoreRanges), 2)
	c.Floor(rule+"/restore-offsets-flag", len(restoreIfs), 2)
	// offsetsWereAdded is set exactly where offsetsAddedToTxn is consumed
	okOff := false
	for _, st := range storesTo(f.Decl.Body, info, offAdded, false) {
		if v, isC := constBool(info, st.RHS); isC && !v {
			l, _ := g.LocOf(st.Node)
			was := factMatches(g.FactsAt(l), func(ft Fact) bool { return ft.Val && nosp(exprStr(ft.Cond)) == "g.offsetsAddedToTxn" })
			blk := innerBlock(f.Decl.Body, st.Node)
			rec := blk != nil && containsNode(blk, false, func(y ast.Node) bool {
				as, ok := y.(*ast.AssignStmt)
				return ok && len(as.Lhs) == 1 && exprStr(as.Lhs[0]) == "offsetsWereAdded" && exprStr(as.Rhs[0]) == "true"
			})
			okOff = was && rec
		}
	}
	c.Check(okOff, rule, f.Key+": offsetsAddedToTxn consumed and remembered", f.Pos(), m, "", "the consumed offsetsAddedToTxn flag is not remembered in offsetsWereAdded")

	units := []struct {
		name string
		stop func(n ast.Node) bool
	}{
		{"inTxn = true", isStoreTrue(inTxn, isTrue)},
		{"addedToTxn restored from addedSwapped", func(n ast.Node) bool { e, ok := n.(ast.Expr); return ok && restoreRanges[e] }},
		{"offsetsAddedToTxn restored", func(n ast.Node) bool { e, ok := n.(ast.Expr); return ok && restoreIfs[e] }},
	}
	// (a) the not-attempted return
	nNA := 0
	ast.Inspect(f.Decl.Body, func(x ast.Node) bool {
		if _, isLit := x.(*ast.FuncLit); isLit {
			return false
		}
		r, ok := x.(*ast.ReturnStmt)
		if !ok || len(r.Results) != 1 || nosp(exprStr(r.Results[0])) != "kerr.OperationNotAttempted" {
			return true
		}
		nNA++
		all := append(units[:len(units):len(units)], struct {
			name string
			stop func(n ast.Node) bool
		}{"endUnconfirmed = unconfirmed", isStoreTrue(endUnc, func(e ast.Expr) bool { return exprStr(e) == "unconfirmed" })})
		for _, u := range all {
			path, found := g.FindPath(consumeLoc, SearchOpts{Stop: u.stop, GoalNode: func(n ast.Node) bool { return n == ast.Node(r) }})
			c.Check(!found, rule, f.Key+": return OperationNotAttempted restores: "+u.name, r.Pos(), m, "", "the `commit not attempted` return is reachable without the restore `"+u.name+"` (path: "+pathStr(path)+"): the transaction stays open on the broker while the client believes it ended, its records merge into the next transaction")
		}
		return true
	})
	c.Floor(rule+"/not-attempted-returns", nNA, 1)

	// (b) the EndTxn error arm
	var endAssign *ast.AssignStmt
	ast.Inspect(f.Decl.Body, func(x ast.Node) bool {
		if _, isLit := x.(*ast.FuncLit); isLit {
			return false
		}
		as, ok := x.(*ast.AssignStmt)
		if ok && len(as.Rhs) == 1 && len(as.Lhs) == 1 && exprStr(as.Lhs[0]) == "err" {
			if call, ok := as.Rhs[0].(*ast.CallExpr); ok && calleeName(info, call) == "kgo.Client.doWithConcurrentTransactions" {
				endAssign = as
			}
		}
		return true
	})
	if endAssign == nil {
		c.Undecided(rule, f.Key+": EndTxn request", f.Pos(), m, "err = cl.doWithConcurrentTransactions(...) not found")
		return
	}
	endLoc, _ := g.LocOf(endAssign)
	var errIf *ast.IfStmt
	for _, st := range f.Decl.Body.List {
		if ifs, ok := st.(*ast.IfStmt); ok && nosp(exprStr(ifs.Cond)) == "err!=nil" && ifs.Pos() > endAssign.Pos() && ifs.Init == nil {
			errIf = ifs
		}
	}
	if errIf == nil {
		c.Fail("unconfirmed-marking", f.Key+": if err != nil after EndTxn", endAssign.Pos(), m, "no `if err != nil` arm follows the EndTxn request: a failed end is not marked unconfirmed")
		return
	}
	// nothing between the request and the arm reassigns err or returns
	if path, found := g.FindPath(endLoc, SearchOpts{Stop: func(n ast.Node) bool { return n == ast.Node(errIf.Cond) }, GoalExit: func(ExitKind, ast.Node) bool { return true }}); found {
		c.Fail("unconfirmed-marking", f.Key+": EndTxn result reaches the error arm", endAssign.Pos(), m, "a return bypasses the error arm after the EndTxn request (path: "+pathStr(path)+")")
	} else {
		c.OK("unconfirmed-marking", f.Key+": EndTxn result reaches the error arm", errIf.Pos(), m, "")
	}
	failPID := m.Method("kgo", "Client", "failProducerID")
	armUnits := append(units[:len(units):len(units)],
		struct {
			name string
			stop func(n ast.Node) bool
		}{"endUnconfirmed = true", isStoreTrue(endUnc, isTrue)},
		struct {
			name string
			stop func(n ast.Node) bool
		}{"failProducerID", func(n ast.Node) bool {
			if _, isDefer := n.(*ast.DeferStmt); isDefer {
				return false
			}
			return len(callsTo(n, info, failPID, false)) > 0
		}},
	)
	for _, u := range armUnits {
		path, found := armMustPass(g, errIf, u.stop)
		r := "unconfirmed-marking"
		if strings.Contains(u.name, "restored") || u.name == "inTxn = true" {
			r = rule
		}
		c.Check(!found, r, f.Key+": failed EndTxn: "+u.name, errIf.Pos(), m, "on every path of the error arm", "after a failed EndTxn request the return is reachable without `"+u.name+"` (path: "+pathStr(path)+")")
	}
	// failProducerID arguments
	for _, call := range callsTo(errIf.Body, info, failPID, false) {
		ok := len(call.Args) == 3 && exprStr(call.Args[0]) == "id" && exprStr(call.Args[1]) == "epoch"
		c.Check(ok, "unconfirmed-marking", f.Key+": "+nodeStr(call), call.Pos(), m, "", "failProducerID is not given the (id, epoch) the EndTxn used")
	}
	// the arm falls to `return err`
	last := f.Decl.Body.List[len(f.Decl.Body.List)-1]
	rs, isRet := last.(*ast.ReturnStmt)
	c.Check(isRet && len(rs.Results) == 1 && exprStr(rs.Results[0]) == "err", "unconfirmed-marking", f.Key+": return err", last.Pos(), m, "the EndTxn error is reported", "EndTransaction does not end in `return err`")
	// (c) marking only on error
	for _, st := range storesTo(f.Decl.Body, info, endUnc, false) {
		if !isTrue(st.RHS) {
			continue
		}
		l, _ := g.LocOf(st.Node)
		onErr := factMatches(g.FactsAt(l), func(ft Fact) bool { return ft.Val && nosp(exprStr(ft.Cond)) == "err!=nil" })
		c.Check(onErr, "unconfirmed-marking", f.Key+": endUnconfirmed = true only on error", st.Node.Pos(), m, "", "endUnconfirmed is set on a path where the EndTxn succeeded")
	}
	nInTxn := 0
	for _, st := range storesTo(f.Decl.Body, info, inTxn, false) {
		if !isTrue(st.RHS) {
			continue
		}
		l, _ := g.LocOf(st.Node)
		onErr := factMatches(g.FactsAt(l), func(ft Fact) bool { return ft.Val && nosp(exprStr(ft.Cond)) == "err!=nil" })
		c.Check(onErr, rule, f.Key+": inTxn = true only on error#"+ordinal(&nInTxn), st.Node.Pos(), m, "", "inTxn is restored on a path without an error: a successfully ended transaction stays open client-side")
	}
	// (d) unconfirmed: EndTxn never issued
	rule3 := "unconfirmed-never-reissued"
	uo := localObj(f, "unconfirmed")
	var ud ast.Expr
	if uo != nil {
		ud = singleDef(f, uo)
	}
	c.Check(ud != nil && sameField(fieldOfSel(info, ud), endUnc), rule3, f.Key+": unconfirmed := endUnconfirmed", f.Pos(), m, "", "`unconfirmed` is not a single read of producer.endUnconfirmed")
	if ud != nil {
		dl, _ := g.LocOf(enclosingStmt(f.Decl.Body, ud))
		for _, st := range storesTo(f.Decl.Body, info, endUnc, false) {
			if v, isC := constBool(info, st.RHS); isC && !v {
				sl, _ := g.LocOf(st.Node)
				c.Check(g.Dominates(dl, sl), rule3, f.Key+": read before clear", st.Node.Pos(), m, "", "endUnconfirmed is cleared before it is read")
			}
		}
	}
	facts := g.FactsAt(endLoc)
	c.Check(factMatches(facts, func(ft Fact) bool { return !ft.Val && exprStr(ft.Cond) == "unconfirmed" }), rule3, f.Key+": EndTxn only if !unconfirmed", endAssign.Pos(), m, "", "EndTxn can be issued although the previous end is unconfirmed: the coordinator may have already completed it, the request would end (or be merged into) the wrong transaction")
	var uncIf *ast.IfStmt
	for _, st := range f.Decl.Body.List {
		if ifs, ok := st.(*ast.IfStmt); ok && exprStr(ifs.Cond) == "unconfirmed" {
			uncIf = ifs
		}
	}
	if uncIf == nil {
		c.Fail(rule3, f.Key+": if unconfirmed", f.Pos(), m, "arm not found")
	} else {
		nr := 0
		ast.Inspect(uncIf.Body, func(x ast.Node) bool {
			r, ok := x.(*ast.ReturnStmt)
			if !ok {
				return true
			}
			nr++
			l, _ := g.LocOf(r)
			isCommit := factMatches(g.FactsAt(l), func(ft Fact) bool { return ft.Val && exprStr(ft.Cond) == "commit" })
			if isCommit {
				c.Check(len(r.Results) == 1 && exprStr(r.Results[0]) != "nil", rule3, f.Key+": unconfirmed commit retry returns an error", r.Pos(), m, "", "a commit retry of an unconfirmed end returns nil: the caller believes the transaction committed")
			}
			return true
		})
		c.Check(nr >= 2, rule3, f.Key+": unconfirmed arm returns", uncIf.Pos(), m, "", "unconfirmed arm lost a return")
	}
	// the producer-ID reload (epoch bump) precedes the unconfirmed decision
	pid := m.Method("kgo", "Client", "producerID")
	okReload := false
	for _, call := range callsTo(f.Decl.Body, info, pid, false) {
		l, ok := g.LocOf(call)
		if ok && uncIf != nil {
			ul, _ := g.LocOf(uncIf.Cond)
			okReload = g.Dominates(l, ul)
		}
	}
	c.Check(okReload, rule3, f.Key+": producerID() before the unconfirmed decision", f.Pos(), m, "the reload after failProducerID(errReloadProducerID) bumps the epoch and fences the unconfirmed transaction", "the producer ID is not (re)loaded before the unconfirmed arm returns")
	// commit flag: transmitted as given, overridden only to abort
	for _, as := range findNodes(f.Decl.Body, false, func(x ast.Node) bool {
		a, ok := x.(*ast.AssignStmt)
		return ok && len(a.Lhs) == 1 && exprStr(a.Lhs[0]) == "commit"
	}) {
		a := as.(*ast.AssignStmt)
		c.Check(exprStr(a.Rhs[0]) == "TryAbort", "commit-flag", f.Key+": "+nodeStr(a), a.Pos(), m, "", "the commit flag is overridden with something other than TryAbort")
	}
	okFlag := false
	ast.Inspect(endAssign, func(x ast.Node) bool {
		if as, ok := x.(*ast.AssignStmt); ok && len(as.Lhs) == 1 && nosp(exprStr(as.Lhs[0])) == "req.Commit" && nosp(exprStr(as.Rhs[0])) == "bool(commit)" {
			okFlag = true
		}
		return true
	})
	c.Check(okFlag, "commit-flag", f.Key+": req.Commit = bool(commit)", endAssign.Pos(), m, "", "EndTxn request's Commit is not the requested flag")

	// GroupTransactSession.End reports the EndTransaction outcome: covered by C10 truthful-return.
	// BeginTransaction refuses while inTxn
	if bf := c.NeedFunc(m, "kgo.Client.BeginTransaction"); bf != nil {
		bg := bf.Graph()
		for _, st := range storesTo(bf.Decl.Body, bf.Info(), inTxn, false) {
			l, _ := bg.LocOf(st.Node)
			ok := isTrueIn(bf, st.RHS) && factMatches(bg.FactsAt(l), func(ft Fact) bool { return !ft.Val && sameField(fieldOfSel(bf.Info(), ft.Cond), inTxn) })
			c.Check(ok, "begin-refuses-open-txn", bf.Key+": inTxn = true only if !inTxn", st.Node.Pos(), m, "", "BeginTransaction starts a transaction while one (possibly unconfirmed) is still open")
		}
	}
}

func isTrueIn(f *Func, e ast.Expr) bool { v, isC := constBool(f.Info(), e); return isC && v }

// innerBlock returns the innermost block statement containing n.
func innerBlock(root ast.Node, n ast.Node) *ast.BlockStmt {
	pm := parentMap(root)
	for p := pm[n]; p != nil; p = pm[p] {
		if b, ok := p.(*ast.BlockStmt); ok {
			return b
		}
	}
	return nil
}

func c11writers(c *Ctx, m *Module) {
	rule := "txn-state-writers"
	funcs := m.FuncsIn("kgo")
	type want struct {
		kind  string                                   // store kind
		val   string                                   // "true"/"false"/other expr
		guard func(f *Func, g *Graph, st Store) string // returns problem or ""
	}
	factsOf := func(f *Func, n ast.Node) ([]Fact, bool) {
		g := f.GraphFor(n)
		if g == nil {
			return nil, false
		}
		st := enclosingStmt(f.Decl.Body, n)
		l, ok := g.LocOf(n)
		if !ok && st != nil {
			l, ok = g.LocOf(st)
		}
		if !ok {
			return nil, false
		}
		return g.FactsAt(l), true
	}
	added := m.Field("kgo", "recBuf", "addedToTxn")
	if added == nil {
		c.Undecided("anchor", "recBuf.addedToTxn", 0, m, "field not found")
		return
	}
	n := 0
	seen := map[string]int{}
	for _, s := range StoreSites(funcs, added) {
		n++
		val := exprStr(s.RHS)
		cons := s.Fn.Key + ": addedToTxn." + strings.TrimPrefix(s.Kind, "atomic:") + "(" + val + ")"
		seen[cons]++
		if seen[cons] > 1 {
			cons += "#" + string(rune('0'+seen[cons]))
		}
		facts, okF := factsOf(s.Fn, s.Node)
		var fs []string
		for _, ft := range facts {
			x := nosp(exprStr(ft.Cond))
			if ft.Tag != nil {
				x = nosp(exprStr(ft.Tag)) + "==" + x
			}
			if !ft.Val {
				x = "!(" + x + ")"
			}
			fs = append(fs, x)
		}
		has := func(sub string) bool {
			for _, x := range fs {
				if strings.Contains(x, sub) {
					return true
				}
			}
			return false
		}
		switch s.Fn.Key {
		case "kgo.txnReqBuilder.add":
			// the last operand of `t.txnID == nil || t.pv12 || rb.addedToTxn.Swap(true)`
			ok := false
			pm := parentMap(s.Fn.Decl.Body)
			var top ast.Node = s.Node
			for {
				p, isB := pm[top].(*ast.BinaryExpr)
				if !isB || p.Op != token.LOR {
					break
				}
				top = p
			}
			if e, isE := top.(ast.Expr); isE {
				atoms := decompose(e, false, nil)
				var names []string
				for _, a := range atoms {
					names = append(names, nosp(exprStr(a.Cond)))
				}
				if len(names) >= 2 && names[len(names)-1] == nosp(exprStr(s.Node)) {
					for _, nm := range names[:len(names)-1] {
						if nm == "t.pv12" {
							ok = true
						}
					}
				}
			}
			c.Check(ok && val == "true" && s.Kind == "atomic:Swap", rule, cons, s.Node.Pos(), m, "pre-v12 only, evaluated after the pv12 test", "txnReqBuilder.add marks a partition as added without (or before) the pv12 test: with produce v12+ a partition would count as added while its produce fails")
		case "kgo.sink.handleReqRespBatch":
			var bad []string
			for _, x := range fs {
				// guards confirmed by reading: the error classification switch, the
				// version/txn test, and the two early exits for a batch that is no
				// longer the partition's first batch or is moving to another sink
				if strings.Contains(x, "err") || strings.Contains(x, "resp.Version") || strings.Contains(x, "txnID") || x == "batch.isOwnersFirstBatch()" || x == "!(moving)" {
					continue
				}
				bad = append(bad, x)
			}
			okv := okF && val == "true" && has("resp.Version>=12") && has("txnID!=nil") && has("!(err!=nil)")
			c.Check(okv && len(bad) == 0, rule, cons, s.Node.Pos(), m, "set on every successful v12+ transactional produce", "a successful v12+ produce marks the partition as part of the transaction only under "+strings.Join(bad, ", ")+" (facts: "+strings.Join(fs, ", ")+"): EndTransaction would see nothing added and skip the EndTxn, leaving the records in an open transaction that merges into the next one")
		case "kgo.Client.EndTransaction":
			c.OK(rule, cons, s.Node.Pos(), m, "consume/restore (see consume-restore rule)")
		case "kgo.produceRequest.undoStagedBatches":
			okv := val == "false" && has("txnReq!=nil") && has("txnReqContains(")
			c.Check(okv, rule, cons, s.Node.Pos(), m, "cleared only for partitions this request newly added", "undoStagedBatches clears addedToTxn for partitions that an earlier request already added: their records would be produced without the partition being re-added, or EndTransaction skips EndTxn")
		case "kgo.recBatch.removeFromTxn":
			c.Check(val == "false" && len(fs) == 0, rule, cons, s.Node.Pos(), m, "", "removeFromTxn changed")
		default:
			c.Fail(rule, cons, s.Node.Pos(), m, "unexpected writer of recBuf.addedToTxn (writers are txnReqBuilder.add, handleReqRespBatch, EndTransaction, undoStagedBatches, removeFromTxn)")
		}
	}
	c.Floor(rule+"/addedToTxn-writers", n, 7)
	// removeFromTxn is only used for partitions stripped from an AddPartitionsToTxn response
	if rm := m.Method("kgo", "recBatch", "removeFromTxn"); rm != nil {
		for _, s := range CallSites(funcs, rm) {
			c.Check(s.Fn.Key == "kgo.sink.issueTxnReq", rule, s.Fn.Key+": removeFromTxn()", s.Node.Pos(), m, "", "removeFromTxn called outside issueTxnReq")
		}
		// method values
		for _, f := range funcs {
			ast.Inspect(f.Decl.Body, func(x ast.Node) bool {
				sel, ok := x.(*ast.SelectorExpr)
				if ok && sel.Sel.Name == "removeFromTxn" && f.Info().Uses[sel.Sel] == types.Object(rm) {
					c.Check(f.Key == "kgo.sink.issueTxnReq", rule, f.Key+": removeFromTxn reference", sel.Pos(), m, "", "removeFromTxn referenced outside issueTxnReq")
				}
				return true
			})
		}
	}
	// undoStagedBatches callers: the epoch recheck in produce and doTxnReq's failure defer
	if us := m.Method("kgo", "produceRequest", "undoStagedBatches"); us != nil {
		k := 0
		for _, s := range CallSites(funcs, us) {
			k++
			c.Check(s.Fn.Key == "kgo.sink.produce" || s.Fn.Key == "kgo.sink.doTxnReq", rule, s.Fn.Key+": undoStagedBatches(txnReq)", s.Node.Pos(), m, "", "undoStagedBatches called from an unexpected function")
			call := s.Node.(*ast.CallExpr)
			c.Check(len(call.Args) == 1 && exprStr(call.Args[0]) == "txnReq", rule, s.Fn.Key+": undoStagedBatches arg", call.Pos(), m, "", "undoStagedBatches is not given the request's txnReq")
		}
		c.Floor(rule+"/undo-callers", k, 2)
	}
	if df := c.NeedFunc(m, "kgo.sink.doTxnReq"); df != nil {
		ok := false
		if len(df.Decl.Body.List) > 0 {
			if d, isD := df.Decl.Body.List[0].(*ast.DeferStmt); isD {
				if lit, isL := d.Call.Fun.(*ast.FuncLit); isL {
					for _, call := range callsNamed(lit.Body, df.Info(), "undoStagedBatches", false) {
						g := df.LitGraph(lit)
						l, _ := g.LocOf(call)
						fs := g.FactsAt(l)
						ok = len(fs) == 1 && fs[0].Val && nosp(exprStr(fs[0].Cond)) == "err!=nil"
					}
				}
			}
		}
		c.Check(ok, rule, df.Key+": deferred rewind on error", df.Pos(), m, "", "a failed AddPartitionsToTxn no longer rewinds the staged batches (addedToTxn stays set for partitions the coordinator never added)")
	}
	// plain fields guarded by txnMu with fixed writers
	for _, fw := range []struct {
		typ, field string
		writers    map[string]bool
	}{
		{"producer", "inTxn", map[string]bool{"kgo.Client.BeginTransaction": true, "kgo.Client.EndTransaction": true}},
		{"producer", "endUnconfirmed", map[string]bool{"kgo.Client.EndTransaction": true}},
		{"groupConsumer", "offsetsAddedToTxn", map[string]bool{"kgo.Client.EndTransaction": true, "kgo.Client.commitTransactionOffsets": true}},
	} {
		fv := m.Field("kgo", fw.typ, fw.field)
		if fv == nil {
			c.Undecided("anchor", fw.typ+"."+fw.field, 0, m, "field not found")
			continue
		}
		k := 0
		seen := map[string]int{}
		for _, s := range StoreSites(funcs, fv) {
			k++
			cons := s.Fn.Key + ": " + fw.field + " = " + exprStr(s.RHS)
			seen[cons]++
			if seen[cons] > 1 {
				cons += "#" + string(rune('0'+seen[cons]))
			}
			if !fw.writers[s.Fn.Key] {
				c.Fail(rule, cons, s.Node.Pos(), m, "unexpected writer of "+fw.typ+"."+fw.field)
				continue
			}
			env := newLockEnv(s.Fn, nil, nil)
			held, ok := env.HeldAtNode(s.Node)
			c.Check(ok && held.Holds("cl.producer.txnMu", true), rule, cons+" under txnMu", s.Node.Pos(), m, "", fw.typ+"."+fw.field+" written without cl.producer.txnMu (must-lockset: "+held.String()+")")
		}
		c.Floor(rule+"/"+fw.field+"-writers", k, 2)
	}
	// commitTransactionOffsets: offsetsAddedToTxn = true only after AddOffsetsToTxn succeeded (or v5 TxnOffsetCommit) and before txnMu is released
	if f := c.NeedFunc(m, "kgo.Client.commitTransactionOffsets"); f != nil {
		g := f.Graph()
		fv := m.Field("kgo", "groupConsumer", "offsetsAddedToTxn")
		nOff := 0
		for _, st := range storesTo(f.Decl.Body, f.Info(), fv, false) {
			l, _ := g.LocOf(st.Node)
			addCalls := callsNamed(f.Decl.Body, f.Info(), "addOffsetsToTxn", false)
			ok := len(addCalls) == 1
			if ok {
				// no path from the failing addOffsetsToTxn (err != nil) to the store
				var ifs *ast.IfStmt
				pm := parentMap(f.Decl.Body)
				for p := pm[addCalls[0]]; p != nil; p = pm[p] {
					if i, isIf := p.(*ast.IfStmt); isIf && i.Init != nil && containsNode(i.Init, false, func(y ast.Node) bool { return y == ast.Node(addCalls[0]) }) {
						ifs = i
						break
					}
				}
				if ifs == nil {
					ok = false
				} else {
					_, leaks := armMustPass(g, ifs, func(n ast.Node) bool { return false })
					// armMustPass with no stop: a path leaving the if arm without returning exists?
					ok = !leaksToDone(g, ifs)
					_ = leaks
				}
			}
			if factMatches(g.FactsAt(l), func(ft Fact) bool { return ft.Val && nosp(exprStr(ft.Cond)) == "err!=nil" }) {
				ok = false
			}
			c.Check(ok && isTrueIn(f, st.RHS), rule, f.Key+": offsetsAddedToTxn = true after AddOffsetsToTxn#"+ordinal(&nOff), st.Node.Pos(), m, "a failed AddOffsetsToTxn returns before the flag is set", "offsetsAddedToTxn is set although AddOffsetsToTxn failed: EndTransaction would issue EndTxn for a transaction the coordinator never began")
			// precedes unlockTxn()
			for _, call := range callsNamed(f.Decl.Body, f.Info(), "unlockTxn", false) {
				if isDeferred(f, call) {
					continue
				}
				ul, _ := g.LocOf(call)
				c.Check(!g.reachFwd(ul, l), rule, f.Key+": flag set before unlockTxn()", call.Pos(), m, "", "offsetsAddedToTxn is written after txnMu was released")
			}
		}
	}
	// producedInTxn
	if pv := m.Field("kgo", "producer", "producedInTxn"); pv != nil {
		k := 0
		for _, s := range StoreSites(funcs, pv) {
			k++
			val := exprStr(s.RHS)
			switch s.Fn.Key {
			case "kgo.Client.BeginTransaction":
				c.Check(val == "false", rule, s.Fn.Key+": producedInTxn.Store("+val+")", s.Node.Pos(), m, "", "BeginTransaction must reset producedInTxn")
			case "kgo.Client.produce":
				// the guarding if tests only txnID != nil && !producedInTxn.Load(), and every
				// path to the buffering step (loadPartsAndPartition) passes it
				pm := parentMap(s.Fn.Decl.Body)
				var ifs *ast.IfStmt
				for p := pm[s.Node]; p != nil && ifs == nil; p = pm[p] {
					ifs, _ = p.(*ast.IfStmt)
				}
				okCond := false
				if ifs != nil {
					var atoms []string
					for _, ft := range decompose(ifs.Cond, true, nil) {
						x := nosp(exprStr(ft.Cond))
						if !ft.Val {
							x = "!" + x
						}
						atoms = append(atoms, x)
					}
					sort.Strings(atoms)
					okCond = strings.Join(atoms, ",") == "!p.producedInTxn.Load(),cl.cfg.txnID!=nil"
				}
				okPath := false
				if ifs != nil {
					g := s.Fn.Graph()
					_, found := g.FindPath(Loc{B: -1}, SearchOpts{
						Stop: func(n ast.Node) bool { return n == ast.Node(ifs.Cond) },
						GoalNode: func(n ast.Node) bool {
							return len(callsNamed(n, s.Fn.Info(), "loadPartsAndPartition", false)) > 0
						},
					})
					okPath = !found
				}
				c.Check(val == "true" && okCond && okPath, rule, s.Fn.Key+": producedInTxn.Store("+val+")", s.Node.Pos(), m, "set before every transactional record is buffered", "producedInTxn is not set for every buffered transactional record: a KIP-890p2 transaction whose produces all failed would skip the abort and leave partitions registered")
			default:
				c.Fail(rule, s.Fn.Key+": producedInTxn.Store("+val+")", s.Node.Pos(), m, "unexpected writer of producedInTxn")
			}
		}
		c.Floor(rule+"/producedInTxn-writers", k, 2)
	}
}

// leaksToDone reports whether the body of the if statement can complete
// normally (reach the statement after the if) on the true edge.
func leaksToDone(g *Graph, ifs *ast.IfStmt) bool {
	cl, ok := g.LocOf(ifs.Cond)
	if !ok {
		return true
	}
	condBlk := g.C.Blocks[cl.B]
	var done *cfg.Block
	for _, b := range g.C.Blocks {
		if b.Stmt == ast.Stmt(ifs) && b.Kind == cfg.KindIfDone {
			done = b
		}
	}
	if done == nil {
		return false
	}
	_, found := g.FindPath(cl, SearchOpts{
		EdgeOK:    func(from *cfg.Block, k int, to *cfg.Block) bool { return from != condBlk || k == 0 },
		GoalBlock: func(b *cfg.Block) bool { return b == done },
	})
	return found
}

// ordinal numbers otherwise identical constructs of one function in source order.
func ordinal(n *int) string {
	*n++
	return string(rune('0' + *n))
}

// c10committedView: End rewinds an aborted transaction with
// setOffsets(CommittedOffsets()).  CommittedOffsets must therefore contain an
// entry for EVERY partition the member tracks - also the never-committed ones,
// whose sentinel entry is what seeks them back to the start: in
// getUncommittedLocked no partition is skipped when head == false.
func c10committedView(c *Ctx, m *Module) {
	rule := "committed-view-complete"
	f := c.NeedFunc(m, "kgo.groupConsumer.getUncommittedLocked")
	if f == nil {
		return
	}
	g := f.Graph()
	info := f.Info()
	var head types.Object
	for _, fl := range f.Decl.Type.Params.List {
		for _, nm := range fl.Names {
			if nm.Name == "head" {
				head = info.Defs[nm]
			}
		}
	}
	if head == nil {
		c.Undecided(rule, f.Key+"#head", f.Pos(), m, "parameter head not found")
		return
	}
	n, k := 0, 0
	ast.Inspect(f.Decl.Body, func(x ast.Node) bool {
		br, ok := x.(*ast.BranchStmt)
		if !ok || br.Tok != token.CONTINUE {
			return true
		}
		n++
		// the enclosing if condition(s) evaluated with head == false
		env := &triEnv{f: f, atom: func(e ast.Expr) (tri, bool) {
			if id, ok := e.(*ast.Ident); ok && info.Uses[id] == head {
				return triF, true
			}
			return triU, false
		}}
		pm := parentMap(f.Decl.Body)
		reach := triT
		for p := pm[br]; p != nil; p = pm[p] {
			if ifs, ok := p.(*ast.IfStmt); ok {
				// is br in the then-branch?
				inThen := br.Pos() >= ifs.Body.Pos() && br.End() <= ifs.Body.End()
				v := env.eval(ifs.Cond)
				if !inThen {
					v = v.not()
				}
				reach = triAnd(reach, v)
			}
		}
		_ = g
		c.Check(reach == triF, rule, f.Key+": partitions are skipped only when head is requested#"+ordinal(&k), br.Pos(), m, "", "getUncommittedLocked can skip a partition when the committed view is requested (head == false): CommittedOffsets then lacks never-committed partitions, the rewind after an aborted transaction does not seek them back, and their aborted input is never re-processed")
		return true
	})
	c.Floor(rule+"/continues", n, 1)
	// CommittedOffsets asks for the committed view
	if cf := c.NeedFunc(m, "kgo.Client.CommittedOffsets"); cf != nil {
		okc := false
		for _, call := range callsNamed(cf.Decl.Body, cf.Info(), "getUncommittedLocked", false) {
			if len(call.Args) == 2 {
				a, ok1 := constBool(cf.Info(), call.Args[0])
				okc = ok1 && !a
			}
		}
		c.Check(okc, rule, cf.Key+": getUncommittedLocked(false, _)", cf.Pos(), m, "", "CommittedOffsets does not request the committed view")
	}
}
