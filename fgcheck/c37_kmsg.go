package main

import (
	"fmt"
	"go/ast"
	"go/token"
	"go/types"
	"sort"
	"strings"

	"golang.org/x/tools/go/cfg"
)

// C37 rule (4): the wire decoder truncates a reused slice unconditionally.
//
// kmsg decoders decode an array field into the slice the destination struct
// already holds (`v := s.Headers; a := v; ...; a = a[:0]; if l > 0 { a =
// append(a, make(...)...) }; ...; s.Headers = v`).  kgo recycles kmsg.Records
// through PoolKRecords with their Headers slices kept at full length and
// relies on the decoder's truncation; a record that carries no header must
// come out with no header, otherwise the kotel carrier lists phantom keys (or,
// for direct kmsg users, the previous record's trace context).
//
// The rule is a forward may-dataflow over the CFG of every kmsg function that
// stores a slice into a struct field.  Every slice-typed local carries two
// bits: ORIGIN (derived from reading a slice field, i.e. a reused slice) and
// STALE (derived from it without having passed a reslice-to-zero `x[:0]`).
// A store `s.F = x` with STALE set on some path is a violation.

const (
	c37origin = 1
	c37stale  = 2
	// c37direct: the field is read inside the very expression being evaluated
	// (`s.F = s.F[:n]`, the in-place resize idiom of the hand-written
	// StickyMemberMetadata decoder), not through a local alias.  Such stores
	// resize to the exact wire count and overwrite every element; they are
	// outside this rule.
	c37direct = 4
	// c37resized: a stale value went through a reslice with a non-constant
	// upper bound (`a[:l]`): possibly an exact-length resize; not proven
	// either way, reported as undecided.
	c37resized = 8
)

type c37flow struct {
	f    *Func
	info *types.Info
}

func (d *c37flow) isSlice(e ast.Expr) bool {
	tv, ok := d.info.Types[e]
	if !ok || tv.Type == nil {
		return false
	}
	_, ok = tv.Type.Underlying().(*types.Slice)
	return ok
}

func (d *c37flow) obj(e ast.Expr) *types.Var {
	id, ok := unparen(e).(*ast.Ident)
	if !ok {
		return nil
	}
	if v, ok := d.info.Defs[id].(*types.Var); ok {
		return v
	}
	if v, ok := d.info.Uses[id].(*types.Var); ok {
		return v
	}
	return nil
}

// eval returns the bits of a slice-typed expression under state st.
func (d *c37flow) eval(st map[*types.Var]uint8, e ast.Expr) uint8 {
	e = unparen(e)
	if !d.isSlice(e) {
		return 0
	}
	switch x := e.(type) {
	case *ast.Ident:
		if v := d.obj(x); v != nil {
			return st[v]
		}
	case *ast.SelectorExpr:
		if fieldOfSel(d.info, x) != nil {
			return c37origin | c37stale | c37direct
		}
	case *ast.CallExpr:
		if b, ok := calleeObj(d.info, x).(*types.Builtin); ok && b.Name() == "append" && len(x.Args) > 0 {
			return d.eval(st, x.Args[0])
		}
	case *ast.SliceExpr:
		b := d.eval(st, x.X)
		if x.High != nil {
			if v, ok := constInt(d.info, x.High); ok && v == 0 {
				return b &^ (c37stale | c37resized)
			}
			if b&c37stale != 0 {
				return b | c37resized
			}
		}
		return b
	}
	return 0
}

// transfer applies node n to st (in place); onStore is called for every store
// of a slice into a struct field with the bits of the stored value.
func (d *c37flow) transfer(st map[*types.Var]uint8, n ast.Node, onStore func(as *ast.AssignStmt, lhs ast.Expr, fld *types.Var, bits uint8)) {
	switch s := n.(type) {
	case *ast.AssignStmt:
		if s.Tok != token.ASSIGN && s.Tok != token.DEFINE {
			return
		}
		bits := make([]uint8, len(s.Lhs))
		if len(s.Lhs) == len(s.Rhs) {
			for i := range s.Lhs {
				bits[i] = d.eval(st, s.Rhs[i])
			}
		}
		for i, l := range s.Lhs {
			if fld := fieldOfSel(d.info, l); fld != nil {
				if _, ok := fld.Type().Underlying().(*types.Slice); ok && onStore != nil {
					onStore(s, l, fld, bits[i])
				}
				continue
			}
			if v := d.obj(l); v != nil {
				if bits[i] == 0 {
					delete(st, v)
				} else {
					st[v] = bits[i] &^ c37direct
				}
			}
		}
	case *ast.DeclStmt:
		gd, ok := s.Decl.(*ast.GenDecl)
		if !ok {
			return
		}
		for _, sp := range gd.Specs {
			vs, ok := sp.(*ast.ValueSpec)
			if !ok {
				continue
			}
			for i, nm := range vs.Names {
				v, _ := d.info.Defs[nm].(*types.Var)
				if v == nil {
					continue
				}
				var b uint8
				if len(vs.Values) == len(vs.Names) {
					b = d.eval(st, vs.Values[i])
				}
				if b == 0 {
					delete(st, v)
				} else {
					st[v] = b &^ c37direct
				}
			}
		}
	}
}

type c37store struct {
	pos   token.Pos
	fld   *types.Var
	owner string
	bits  uint8
	text  string
}

// c37analyse runs the dataflow on f and returns every slice-field store with
// the bits its value may carry.
func c37analyse(f *Func) []c37store {
	d := &c37flow{f: f, info: f.Info()}
	// plain go/cfg graph: the generated decoders have thousands of blocks and
	// the dominator tables of Graph are not needed here
	g := cfg.New(f.Decl.Body, noReturnCall(f.Info()))
	nb := len(g.Blocks)
	in := make([]map[*types.Var]uint8, nb)
	for i := range in {
		in[i] = map[*types.Var]uint8{}
	}
	work := []int{0}
	queued := make([]bool, nb)
	queued[0] = true
	visited := make([]bool, nb)
	for len(work) > 0 {
		b := work[0]
		work = work[1:]
		queued[b] = false
		visited[b] = true
		st := map[*types.Var]uint8{}
		for k, v := range in[b] {
			st[k] = v
		}
		for _, n := range g.Blocks[b].Nodes {
			d.transfer(st, n, nil)
		}
		for _, sb := range g.Blocks[b].Succs {
			s := int(sb.Index)
			changed := !visited[s]
			for k, v := range st {
				if in[s][k]|v != in[s][k] {
					in[s][k] |= v
					changed = true
				}
			}
			if changed && !queued[s] {
				queued[s] = true
				work = append(work, s)
			}
		}
	}
	var out []c37store
	for b := 0; b < nb; b++ {
		if !visited[b] {
			continue
		}
		st := map[*types.Var]uint8{}
		for k, v := range in[b] {
			st[k] = v
		}
		for _, n := range g.Blocks[b].Nodes {
			d.transfer(st, n, func(as *ast.AssignStmt, lhs ast.Expr, fld *types.Var, bits uint8) {
				owner := "?"
				if sel, ok := unparen(lhs).(*ast.SelectorExpr); ok {
					if tv, ok := d.info.Types[sel.X]; ok && tv.Type != nil {
						t := tv.Type
						if p, ok := t.Underlying().(*types.Pointer); ok {
							t = p.Elem()
						}
						if nt, ok := t.(*types.Named); ok {
							owner = nt.Obj().Name()
						}
					}
				}
				out = append(out, c37store{as.Pos(), fld, owner, bits, nosp(nodeStr(as))})
			})
		}
	}
	return out
}

func c37kmsgDecoder(c *Ctx) {
	k := c.Load("pkg/kmsg")
	if k == nil {
		return
	}
	rule := "decoder-truncates-reused-slice"
	// candidate functions: every kmsg function with a store into a slice-typed struct field
	hasSliceStore := func(f *Func) bool {
		info := f.Info()
		return containsNode(f.Decl.Body, false, func(x ast.Node) bool {
			as, ok := x.(*ast.AssignStmt)
			if !ok {
				return false
			}
			for _, l := range as.Lhs {
				if fld := fieldOfSel(info, l); fld != nil {
					if _, ok := fld.Type().Underlying().(*types.Slice); ok {
						return true
					}
				}
			}
			return false
		})
	}
	type agg struct {
		pos     token.Pos
		n       int
		bad     []string
		badPos  token.Pos
		resized bool
	}
	nReuse, nHeaders, nDirect := 0, 0, 0
	rec := c.NeedFunc(k, "kmsg.Record.readFrom")
	for _, f := range k.FuncsIn("kmsg") {
		if f.Decl.Body == nil || !hasSliceStore(f) {
			continue
		}
		if containsNode(f.Decl.Body, false, func(x ast.Node) bool { _, ok := x.(*ast.FuncLit); return ok }) {
			// a closure could write the locals behind the dataflow's back
			if f == rec {
				c.Undecided(rule, f.Key+"#closure", f.Pos(), k, "the record decoder contains a function literal: local slice flow not decided")
			}
			continue
		}
		stores := c37analyse(f)
		per := map[string]*agg{}
		for _, s := range stores {
			isHeaders := f == rec && s.owner == "Record" && s.fld.Name() == "Headers"
			if s.bits&c37direct != 0 && !isHeaders {
				nDirect++
				continue
			}
			if s.bits&c37origin == 0 && !isHeaders {
				continue
			}
			key := s.owner + "." + s.fld.Name()
			a := per[key]
			if a == nil {
				a = &agg{pos: s.pos}
				per[key] = a
			}
			a.n++
			if isHeaders {
				nHeaders++
			}
			if s.bits&c37stale != 0 {
				a.bad = append(a.bad, k.Position(s.pos))
				a.resized = a.resized || s.bits&c37resized != 0
				if a.badPos == token.NoPos {
					a.badPos = s.pos
				}
			}
		}
		if len(per) == 0 {
			continue
		}
		c.Touch(f)
		keys := make([]string, 0, len(per))
		for key := range per {
			keys = append(keys, key)
		}
		sort.Strings(keys)
		for _, key := range keys {
			a := per[key]
			nReuse += a.n
			if len(a.bad) == 0 {
				c.OK(rule, f.Key+": "+key, a.pos, k, fmt.Sprintf("%d store(s); the reused slice is resliced to [:0] on every path before it is stored back", a.n))
				continue
			}
			if a.resized {
				c.Undecided(rule, f.Key+": "+key, a.badPos, k, "the slice read from "+key+" is resliced with a non-constant bound before it is stored back (store at "+strings.Join(a.bad, ", ")+"): cannot prove that its length equals the wire count on every path and that every kept element is overwritten")
				continue
			}
			c.Fail(rule, f.Key+": "+key, a.badPos, k, "on some path (e.g. wire length 0) the slice read from "+key+" is stored back without having been resliced to [:0] (store at "+strings.Join(a.bad, ", ")+
				"): decoding into a reused struct keeps the previous contents; a pooled kmsg.Record decoded from a header-less record keeps stale headers and the kotel carrier's Keys()/Get() report headers that never crossed the wire")
		}
	}
	c.Floor(rule, nReuse, 400)
	c.Set("in_place_resize_stores_not_covered", nDirect)
	if rec != nil {
		c.Check(nHeaders >= 1, rule, rec.Key+"#stores-Headers", rec.Pos(), k, "", "Record.readFrom no longer stores the decoded header list into Record.Headers")
	}
}
