package main

// Return-value summaries used by the bounds prover.  Each is justified by a
// rule that checks the callee itself (C17 verifies the kbin decoders' shape:
// every `return x, k` is guarded by len(in) >= k and failure returns n <= 0).

func uvarintSummary(maxN int64) calleeSummary {
	return func(res, args []string) []dbc {
		if len(res) < 2 || len(args) < 1 {
			return nil
		}
		n := res[1]
		in := "len(" + args[0] + ")"
		return []dbc{
			{in, n, 0, "callee: n <= len(in)"},
			{"", n, -maxN, "callee: n <= max"},
			{n, "", -maxN, "callee: n >= -max"},
		}
	}
}

var kbinSummaries = map[string]calleeSummary{
	"kbin.Uvarint":  uvarintSummary(5),
	"kbin.Varint":   uvarintSummary(5),
	"kbin.Varlong":  uvarintSummary(10),
	"kbin.uvarlong": uvarintSummary(10),
	// encoding/binary: n <= len(buf), |n| <= 10
	"binary.Uvarint": uvarintSummary(10),
	"binary.Varint":  uvarintSummary(10),
	// copy returns 0 <= n <= len(dst), n <= len(src)
	"copy": func(res, args []string) []dbc {
		if len(res) < 1 || len(args) < 2 {
			return nil
		}
		return []dbc{{res[0], "", 0, "copy >= 0"}, {"len(" + args[0] + ")", res[0], 0, "copy <= len(dst)"}, {"len(" + args[1] + ")", res[0], 0, "copy <= len(src)"}}
	},
}

// kgoSummaries adds summaries of kgo helpers (each verified by a shape rule
// in the property that uses it).
var kgoSummaries = func() map[string]calleeSummary {
	m := map[string]calleeSummary{}
	for k, v := range kbinSummaries {
		m[k] = v
	}
	// ensureLen(s, n) returns a slice of length exactly n
	m["kgo.ensureLen"] = func(res, args []string) []dbc {
		if len(res) < 1 || len(args) < 2 {
			return nil
		}
		l := "len(" + res[0] + ")"
		return []dbc{{l, args[1], 0, "ensureLen: len == n"}, {args[1], l, 0, "ensureLen: len == n"}}
	}
	// readRawRecordsInto(rs, in) returns a prefix of rs and a non-negative header count
	m["kgo.readRawRecordsInto"] = func(res, args []string) []dbc {
		if len(res) < 2 || len(args) < 1 {
			return nil
		}
		return []dbc{{"len(" + args[0] + ")", "len(" + res[0] + ")", 0, "readRawRecordsInto: result is a prefix of rs"}, {res[1], "", 0, "readRawRecordsInto: header count >= 0"}}
	}
	return m
}()
