package main

// Return-value summaries used by the bounds prover.  Each is justified by a
// rule that checks the callee itself (C17 verifies the kbin decoders' shape:
// every `return x, k` is guarded by len(in) >= k and failure returns n <= 0).

func uvarintSummary(maxN int64) calleeSummary {
	return func(res, args []string) []dbc {
		if len(res) < 2 || len(args) < 1 {
			return nil
		}
		n := res[1]
		in := "len(" + args[0] + ")"
		return []dbc{
			{in, n, 0, "callee: n <= len(in)"},
			{"", n, -maxN, "callee: n <= max"},
			{n, "", -maxN, "callee: n >= -max"},
		}
	}
}

var kbinSummaries = map[string]calleeSummary{
	"kbin.Uvarint":  uvarintSummary(5),
	"kbin.Varint":   uvarintSummary(5),
	"kbin.Varlong":  uvarintSummary(10),
	"kbin.uvarlong": uvarintSummary(10),
	// encoding/binary: n <= len(buf), |n| <= 10
	"binary.Uvarint": uvarintSummary(10),
	"binary.Varint":  uvarintSummary(10),
	// copy returns 0 <= n <= len(dst), n <= len(src)
	"copy": func(res, args []string) []dbc {
		if len(res) < 1 || len(args) < 2 {
			return nil
		}
		return []dbc{{res[0], "", 0, "copy >= 0"}, {"len(" + args[0] + ")", res[0], 0, "copy <= len(dst)"}, {"len(" + args[1] + ")", res[0], 0, "copy <= len(src)"}}
	},
}
