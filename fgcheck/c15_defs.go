package main

// C15, part 1: an independent reader of the protocol definition DSL
// (generate/definitions/*, grammar documented in generate/README.md) and an
// interpreter that turns one struct definition into the linear wire schema of
// a concrete version. Nothing here is shared with generate/parse.go or
// generate/gen.go: the parser is indentation/regexp driven and the
// interpreter knows the Kafka wire format from the README (sizes, compact
// encodings from the flexible version on, tag sections).

import (
	"fmt"
	"go/token"
	"os"
	"path/filepath"
	"regexp"
	"sort"
	"strconv"
	"strings"
)

// c15Type is the type of one field of a definition.
type c15Type struct {
	// Kind: prim | string | nullable-string | bytes | nullable-bytes |
	// varint-string | varint-bytes | array | struct | enum | raw
	Kind string
	Prim string // wire primitive for prim/enum (Bool, Int8, ... Uuid)

	// NullableFrom is the first version at which a nullable string / array is
	// nullable on the wire (0: always).
	NullableFrom int
	Nullable     bool // arrays and structs
	VarintLen    bool // arrays with a varint length
	Elem         *c15Type
	Struct       *c15Struct // resolved struct (anonymous or named)
	Ref          string     // named struct reference before resolution
	Enum         string
	LenField     string // raw: length-field-minus
	Minus        int

	HasDefault bool
	Default    string // literal as written: -1, true, null, 0x7fffffff, 3.14
}

type c15Field struct {
	Name      string
	T         *c15Type
	Min, Max  int  // Max -1: unbounded
	Versioned bool // a vN comment was present
	Tag       int  // -1: not tagged
	Special   string
	Switchup  int // ThrottleMillis(N)
	Line      int
}

type c15Struct struct {
	Name             string // definition name; anonymous structs: parent name + "." + field
	File             string
	Line             int
	Fields           []*c15Field
	Anonymous        bool
	TopLevel         bool
	IsRequest        bool
	IsResponse       bool
	Key              int
	MaxVersion       int
	FlexibleAt       int // -1: never flexible
	WithVersionField bool
	NoEncoding       bool
	Flags            []string
}

type c15Enum struct {
	Name string
	Prim string
}

type c15Defs struct {
	Structs []*c15Struct // named structs in file order (top level and not top level)
	ByName  map[string]*c15Struct
	Enums   map[string]*c15Enum
	Files   []string
	Errs    []string // anything the parser could not classify
	NAnon   int
}

var c15Prims = map[string]string{
	"bool": "Bool", "int8": "Int8", "int16": "Int16", "uint16": "Uint16", "int32": "Int32", "int64": "Int64",
	"float64": "Float64", "uint32": "Uint32", "varint": "Varint", "varlong": "Varlong", "uuid": "Uuid",
}

// c15FixedSize is the number of bytes of the fixed-size primitives on the wire (README "Primitives").
var c15FixedSize = map[string]int{
	"Bool": 1, "Int8": 1, "Int16": 2, "Uint16": 2, "Int32": 4, "Uint32": 4, "Int64": 8, "Float64": 8, "Uuid": 16,
}

var (
	c15reHeader   = regexp.MustCompile(`^([A-Za-z][A-Za-z0-9]*) =>(?: (.*))?$`)
	c15reField    = regexp.MustCompile(`^([A-Za-z][A-Za-z0-9]*): (.+)$`)
	c15reSpecial  = regexp.MustCompile(`^(ThrottleMillis|TimeoutMillis)(?:\((\d+)\))?$`)
	c15reVerPlus  = regexp.MustCompile(`^v(\d+)\+$`)
	c15reVerRange = regexp.MustCompile(`^v(\d+)-v(\d+)$`)
	c15reTag      = regexp.MustCompile(`^tag (\d+)$`)
	c15reArray    = regexp.MustCompile(`^(varint|nullable|nullable-v(\d+)\+)?\[(.+)\](?:\(([^()]*)\))?$`)
	c15reDefault  = regexp.MustCompile(`^([^()]+)\(([^()]*)\)$`)
	c15reNSV      = regexp.MustCompile(`^nullable-string-v(\d+)\+$`)
	c15reRaw      = regexp.MustCompile(`^length-field-minus => ([A-Za-z0-9]+) - (\d+)$`)
	c15reEnumHead = regexp.MustCompile(`^([A-Za-z][A-Za-z0-9]*) ([a-z0-9]+) (?:camelcase )?\($`)
	c15reIdent    = regexp.MustCompile(`^[A-Z][A-Za-z0-9]*$`)
	c15reEnumVal  = regexp.MustCompile(`^  (\d+): [A-Za-z_]+$`)
)

func (d *c15Defs) errf(file string, line int, f string, a ...any) {
	d.Errs = append(d.Errs, fmt.Sprintf("%s:%d: %s", filepath.Base(file), line, fmt.Sprintf(f, a...)))
}

// c15LoadDefs reads every file of dir.
func c15LoadDefs(dir string) (*c15Defs, error) {
	ents, err := os.ReadDir(dir)
	if err != nil {
		return nil, err
	}
	d := &c15Defs{ByName: map[string]*c15Struct{}, Enums: map[string]*c15Enum{}}
	var names []string
	for _, e := range ents {
		if e.IsDir() || strings.HasPrefix(e.Name(), ".") {
			continue
		}
		names = append(names, e.Name())
	}
	sort.Strings(names)
	for _, n := range names {
		raw, err := os.ReadFile(filepath.Join(dir, n))
		if err != nil {
			return nil, err
		}
		d.Files = append(d.Files, n)
		if n == "enums" {
			d.parseEnums(n, string(raw))
		}
	}
	for _, n := range names {
		if n == "enums" {
			continue
		}
		raw, _ := os.ReadFile(filepath.Join(dir, n))
		d.parseFile(n, string(raw))
	}
	d.resolve()
	return d, nil
}

func (d *c15Defs) parseEnums(file, src string) {
	lines := strings.Split(src, "\n")
	for i := 0; i < len(lines); i++ {
		ln := lines[i]
		if ln == "" || strings.HasPrefix(ln, "//") {
			continue
		}
		m := c15reEnumHead.FindStringSubmatch(ln)
		if m == nil {
			d.errf(file, i+1, "unrecognised enum header %q", ln)
			continue
		}
		p, ok := c15Prims[m[2]]
		if !ok {
			d.errf(file, i+1, "enum %s: unknown backing type %q", m[1], m[2])
		}
		if _, dup := d.Enums[m[1]]; dup {
			d.errf(file, i+1, "enum %s defined twice", m[1])
		}
		d.Enums[m[1]] = &c15Enum{Name: m[1], Prim: p}
		closed := false
		for i++; i < len(lines); i++ {
			l := lines[i]
			if l == ")" {
				closed = true
				break
			}
			if strings.HasPrefix(l, "  //") || c15reEnumVal.MatchString(l) {
				continue
			}
			d.errf(file, i+1, "unrecognised enum line %q", l)
		}
		if !closed {
			d.errf(file, len(lines), "enum %s not closed", m[1])
		}
	}
}

// parseFile parses one definition file: blank-line separated struct
// definitions, nested by two-space indentation.
func (d *c15Defs) parseFile(file, src string) {
	lines := strings.Split(src, "\n")
	type frame struct {
		s      *c15Struct
		indent int // indentation of this struct's fields
	}
	var stack []frame
	var lastReq *c15Struct
	for i, raw := range lines {
		no := i + 1
		if raw == "" {
			stack = nil
			continue
		}
		if strings.HasSuffix(raw, " ") {
			d.errf(file, no, "trailing space")
		}
		trim := strings.TrimLeft(raw, " ")
		indent := len(raw) - len(trim)
		if strings.HasPrefix(trim, "//") {
			continue
		}
		if indent == 0 {
			if len(stack) != 0 {
				d.errf(file, no, "struct header %q not preceded by a blank line", raw)
			}
			s := d.parseHeader(file, no, raw, &lastReq)
			if s == nil {
				stack = nil
				continue
			}
			stack = []frame{{s, 2}}
			continue
		}
		if len(stack) == 0 {
			d.errf(file, no, "field line %q outside any struct", raw)
			continue
		}
		if indent%2 != 0 {
			d.errf(file, no, "odd indentation")
			continue
		}
		for len(stack) > 0 && stack[len(stack)-1].indent > indent {
			stack = stack[:len(stack)-1]
		}
		if len(stack) == 0 || stack[len(stack)-1].indent != indent {
			d.errf(file, no, "indentation %d does not match an open struct", indent)
			continue
		}
		cur := stack[len(stack)-1].s
		f, sub := d.parseFieldLine(file, no, trim, cur)
		if f == nil {
			continue
		}
		for _, o := range cur.Fields {
			if o.Name == f.Name {
				d.errf(file, no, "struct %s: field %s defined twice", cur.Name, f.Name)
			}
		}
		cur.Fields = append(cur.Fields, f)
		if sub != nil {
			stack = append(stack, frame{sub, indent + 2})
		}
	}
}

func (d *c15Defs) parseHeader(file string, no int, line string, lastReq **c15Struct) *c15Struct {
	m := c15reHeader.FindStringSubmatch(line)
	if m == nil {
		d.errf(file, no, "unrecognised struct header %q", line)
		return nil
	}
	s := &c15Struct{Name: m[1], File: file, Line: no, Key: -1, FlexibleAt: -1, MaxVersion: -1}
	mods := m[2]
	flex := func(p string) bool {
		if !strings.HasPrefix(p, "flexible v") || !strings.HasSuffix(p, "+") {
			return false
		}
		n, err := strconv.Atoi(p[len("flexible v") : len(p)-1])
		if err != nil || n < 0 {
			d.errf(file, no, "bad flexible version in %q", p)
			return true
		}
		s.FlexibleAt = n
		return true
	}
	switch {
	case mods == "":
		// a response: must directly follow its request
		req := *lastReq
		if !strings.HasSuffix(s.Name, "Response") || req == nil || req.Name != strings.TrimSuffix(s.Name, "Response")+"Request" {
			d.errf(file, no, "%s has no modifiers and does not follow its request", s.Name)
			return nil
		}
		s.TopLevel, s.IsResponse = true, true
		s.Key, s.MaxVersion, s.FlexibleAt = req.Key, req.MaxVersion, req.FlexibleAt
		*lastReq = nil
	case strings.HasPrefix(mods, "not top level"):
		for k, p := range strings.Split(mods, ", ") {
			switch {
			case k == 0 && p == "not top level":
			case p == "with version field":
				s.WithVersionField = true
			case p == "no encoding":
				s.NoEncoding = true
			case flex(p):
			default:
				d.errf(file, no, "unknown modifier %q", p)
			}
		}
		if s.WithVersionField && s.NoEncoding {
			d.errf(file, no, "%s: with version field and no encoding are exclusive", s.Name)
		}
		*lastReq = nil
	default:
		s.TopLevel, s.IsRequest = true, true
		for _, p := range strings.Split(mods, ", ") {
			switch {
			case strings.HasPrefix(p, "key "):
				n, err := strconv.Atoi(p[4:])
				if err != nil {
					d.errf(file, no, "bad key %q", p)
				}
				s.Key = n
			case strings.HasPrefix(p, "max version "):
				n, err := strconv.Atoi(p[len("max version "):])
				if err != nil {
					d.errf(file, no, "bad max version %q", p)
				}
				s.MaxVersion = n
			case p == "admin", p == "group coordinator", p == "txn coordinator", p == "share coordinator":
				s.Flags = append(s.Flags, p)
			case flex(p):
			default:
				d.errf(file, no, "unknown modifier %q", p)
			}
		}
		if s.Key < 0 || s.MaxVersion < 0 {
			d.errf(file, no, "request %s lacks key or max version", s.Name)
		}
		*lastReq = s
	}
	if _, dup := d.ByName[s.Name]; dup {
		d.errf(file, no, "struct %s defined twice", s.Name)
	}
	d.ByName[s.Name] = s
	d.Structs = append(d.Structs, s)
	return s
}

// parseFieldLine parses `Name: type[(default)] [// vA+|vA-vB|tag N|vA+, tag N]`
// or a ThrottleMillis / TimeoutMillis line. sub is the anonymous struct opened
// by the line, if any.
func (d *c15Defs) parseFieldLine(file string, no int, line string, parent *c15Struct) (f *c15Field, sub *c15Struct) {
	f = &c15Field{Max: -1, Tag: -1, Line: no}
	body := line
	if k := strings.Index(line, " // "); k >= 0 {
		body = line[:k]
		for _, part := range strings.Split(line[k+4:], ", ") {
			if m := c15reVerPlus.FindStringSubmatch(part); m != nil && !f.Versioned {
				f.Min, _ = strconv.Atoi(m[1])
				f.Versioned = true
			} else if m := c15reVerRange.FindStringSubmatch(part); m != nil && !f.Versioned {
				f.Min, _ = strconv.Atoi(m[1])
				f.Max, _ = strconv.Atoi(m[2])
				f.Versioned = true
				if f.Max < f.Min {
					d.errf(file, no, "version range %s is empty", part)
				}
			} else if m := c15reTag.FindStringSubmatch(part); m != nil && f.Tag < 0 {
				f.Tag, _ = strconv.Atoi(m[1])
			} else {
				d.errf(file, no, "unrecognised field comment %q", line[k+4:])
				return nil, nil
			}
		}
	}
	if m := c15reSpecial.FindStringSubmatch(body); m != nil {
		f.Name, f.Special = m[1], m[1]
		f.T = &c15Type{Kind: "prim", Prim: "Int32"}
		if f.Tag >= 0 || f.Max >= 0 {
			d.errf(file, no, "%s with a tag or a max version", m[1])
		}
		if m[1] == "ThrottleMillis" {
			if m[2] != "" {
				f.Switchup, _ = strconv.Atoi(m[2])
			}
		} else {
			f.T.HasDefault, f.T.Default = true, "15000"
			if m[2] != "" {
				f.T.Default = m[2]
			}
		}
		return f, nil
	}
	m := c15reField.FindStringSubmatch(body)
	if m == nil {
		d.errf(file, no, "unrecognised field line %q", line)
		return nil, nil
	}
	f.Name = m[1]
	t, sub := d.parseType(file, no, m[2], parent, f.Name)
	if t == nil {
		return nil, nil
	}
	f.T = t
	return f, sub
}

func (d *c15Defs) anon(parent *c15Struct, field, file string, no int) *c15Struct {
	d.NAnon++
	return &c15Struct{Name: parent.Name + "." + field, File: file, Line: no, Anonymous: true, Key: -1, MaxVersion: -1, FlexibleAt: -1}
}

func (d *c15Defs) parseType(file string, no int, s string, parent *c15Struct, field string) (*c15Type, *c15Struct) {
	if m := c15reRaw.FindStringSubmatch(s); m != nil {
		n, _ := strconv.Atoi(m[2])
		return &c15Type{Kind: "raw", LenField: m[1], Minus: n}, nil
	}
	if m := c15reArray.FindStringSubmatch(s); m != nil {
		t := &c15Type{Kind: "array"}
		switch {
		case m[1] == "varint":
			t.VarintLen = true
		case m[1] == "nullable":
			t.Nullable = true
		case m[1] != "":
			t.Nullable = true
			t.NullableFrom, _ = strconv.Atoi(m[2])
		}
		if m[4] != "" || strings.HasSuffix(s, "()") {
			if m[4] != "null" {
				d.errf(file, no, "array default %q is not null", m[4])
			}
			t.HasDefault, t.Default = true, "null"
		}
		inner := m[3]
		if strings.HasPrefix(inner, "=>") {
			// anonymous element struct, optionally followed by a name hint (irrelevant for the wire)
			sub := d.anon(parent, field, file, no)
			t.Elem = &c15Type{Kind: "struct", Struct: sub}
			return t, sub
		}
		if strings.ContainsAny(inner, "[]") {
			d.errf(file, no, "nested arrays are not modelled: %q", s)
			return nil, nil
		}
		e, sub := d.parseType(file, no, inner, parent, field)
		if e == nil || sub != nil {
			return nil, nil
		}
		if e.HasDefault {
			d.errf(file, no, "array element with a default: %q", s)
		}
		t.Elem = e
		return t, nil
	}
	if s == "=>" || s == "nullable=>" {
		sub := d.anon(parent, field, file, no)
		return &c15Type{Kind: "struct", Struct: sub, Nullable: s != "=>"}, sub
	}
	t := &c15Type{}
	name := s
	if m := c15reDefault.FindStringSubmatch(s); m != nil {
		name = m[1]
		t.HasDefault, t.Default = true, m[2]
	}
	switch {
	case c15Prims[name] != "":
		t.Kind, t.Prim = "prim", c15Prims[name]
		if name == "uuid" && t.HasDefault {
			d.errf(file, no, "uuid with a default")
		}
	case name == "string", name == "bytes", name == "varint-string", name == "varint-bytes":
		t.Kind = name
		if t.HasDefault {
			d.errf(file, no, "%s with a default", name)
		}
	case name == "nullable-string", name == "nullable-bytes":
		t.Kind = name
		if t.HasDefault && t.Default != "null" {
			d.errf(file, no, "%s default %q is not null", name, t.Default)
		}
	case c15reNSV.MatchString(name):
		t.Kind = "nullable-string"
		t.NullableFrom, _ = strconv.Atoi(c15reNSV.FindStringSubmatch(name)[1])
		if t.HasDefault && t.Default != "null" {
			d.errf(file, no, "%s default %q is not null", name, t.Default)
		}
	case strings.HasPrefix(name, "enum-"):
		e := d.Enums[name[5:]]
		if e == nil {
			d.errf(file, no, "unknown enum %q", name)
			return nil, nil
		}
		t.Kind, t.Enum, t.Prim = "enum", e.Name, e.Prim
	case regexp.MustCompile(`^[A-Z][A-Za-z0-9]*$`).MatchString(name):
		if t.HasDefault {
			d.errf(file, no, "struct reference with a default: %q", s)
		}
		t.Kind, t.Ref = "struct", name
	default:
		d.errf(file, no, "unknown type %q", s)
		return nil, nil
	}
	return t, nil
}

// resolve binds named struct references and validates tags.
func (d *c15Defs) resolve() {
	var walk func(s *c15Struct, seen map[*c15Struct]bool)
	walk = func(s *c15Struct, seen map[*c15Struct]bool) {
		if seen[s] {
			d.errf(s.File, s.Line, "struct %s is circular", s.Name)
			return
		}
		seen[s] = true
		defer delete(seen, s)
		tags := map[int]string{}
		for _, f := range s.Fields {
			t := f.T
			if t.Kind == "array" {
				t = t.Elem
			}
			if t.Kind == "struct" {
				if t.Struct == nil {
					t.Struct = d.ByName[t.Ref]
					if t.Struct == nil {
						d.errf(s.File, f.Line, "field %s: unknown struct %q", f.Name, t.Ref)
						t.Struct = &c15Struct{Name: "?" + t.Ref, FlexibleAt: -1, Key: -1, MaxVersion: -1}
					} else if t.Struct.TopLevel {
						d.errf(s.File, f.Line, "field %s embeds top level struct %q", f.Name, t.Ref)
					}
				}
				walk(t.Struct, seen)
			}
			if f.Tag >= 0 {
				if o, dup := tags[f.Tag]; dup {
					d.errf(s.File, f.Line, "struct %s: tag %d used by %s and %s", s.Name, f.Tag, o, f.Name)
				}
				tags[f.Tag] = f.Name
			}
		}
		for k := 0; k < len(tags); k++ {
			if _, ok := tags[k]; !ok {
				d.errf(s.File, s.Line, "struct %s: %d tags but no tag %d", s.Name, len(tags), k)
			}
		}
		if s.WithVersionField {
			if len(s.Fields) == 0 || s.Fields[0].Name != "Version" || s.Fields[0].T.Kind != "prim" || s.Fields[0].T.Prim != "Int16" {
				d.errf(s.File, s.Line, "struct %s: with version field but the first field is not Version: int16", s.Name)
			}
		}
	}
	for _, s := range d.Structs {
		walk(s, map[*c15Struct]bool{})
	}
}

// versionsOf returns the versions at which a struct with its own codec is
// compared: 0..MaxVersion for requests and responses; for other structs every
// version up to one past the largest version mentioned anywhere inside (the
// schema is constant beyond it).
func (s *c15Struct) versionsOf() []int {
	max := s.MaxVersion
	if !s.TopLevel {
		max = 0
		var walk func(x *c15Struct, depth int)
		walk = func(x *c15Struct, depth int) {
			if depth > 20 {
				return
			}
			for _, f := range x.Fields {
				for _, n := range []int{f.Min, f.Max, f.T.NullableFrom} {
					if n > max {
						max = n
					}
				}
				t := f.T
				if t.Kind == "array" {
					t = t.Elem
				}
				if t.NullableFrom > max {
					max = t.NullableFrom
				}
				if t.Kind == "struct" && t.Struct != nil {
					walk(t.Struct, depth+1)
				}
			}
		}
		walk(s, 0)
		if s.FlexibleAt > max {
			max = s.FlexibleAt
		}
		max++
		if !s.WithVersionField {
			max = 0 // no version variable at all: one schema
		}
	}
	var out []int
	for v := 0; v <= max; v++ {
		out = append(out, v)
	}
	return out
}

// ---------------------------------------------------------------------------
// Wire schema IR shared by the three sides of the comparison.

// c15Op is one step of a linear wire schema.
type c15Op struct {
	// K: a primitive kind (Bool ... Uuid, String, CompactString,
	// NullableString, CompactNullableString, Bytes, CompactBytes,
	// NullableBytes, CompactNullableBytes, VarintString, VarintBytes), Array,
	// NullableStruct, Raw, Tags, Default (reader only).
	K    string
	Path string
	// Aux: enum=T, ptr (string kept behind a pointer field), len=Field-N (raw), for arrays len=Int32|Compact|Varint,nullable=bool
	Aux     string
	Body    []*c15Op
	Tags    []*c15Tag
	Unknown string // Tags: where unknown tags are kept
	Src     string // file:line of the code that produced it (not compared)
	Pos     token.Pos
	stored  bool
}

type c15Tag struct {
	N    int
	Cond string // writer: condition under which the tag is written
	Size string // writer: how the size prefix is computed
	Body []*c15Op
	Src  string
	Pos  token.Pos
}

// c15Lines renders ops one per line. strip drops what only one side knows
// (Default steps, raw length expression, tag conditions and sizes).
func c15Lines(ops []*c15Op, strip bool) (lines []string, poss []token.Pos) {
	var walk func(ops []*c15Op, ind string)
	add := func(s string, p token.Pos) { lines = append(lines, s); poss = append(poss, p) }
	walk = func(ops []*c15Op, ind string) {
		for _, o := range ops {
			switch o.K {
			case "Default":
				if !strip {
					add(ind+"Default "+c15p(o.Path), o.Pos)
				}
			case "Array", "NullableStruct":
				add(ind+o.K+" "+c15p(o.Path)+" "+o.Aux+" {", o.Pos)
				walk(o.Body, ind+"  ")
				add(ind+"}", o.Pos)
			case "Tags":
				add(ind+"Tags of "+c15p(o.Path)+" {", o.Pos)
				for _, t := range o.Tags {
					h := fmt.Sprintf("%s  Tag %d", ind, t.N)
					if !strip {
						h += " written-when=" + t.Cond + " size=" + t.Size
					}
					add(h+" {", t.Pos)
					walk(t.Body, ind+"    ")
					add(ind+"  }", t.Pos)
				}
				add(ind+"  UnknownTags -> "+c15p(o.Unknown), o.Pos)
				add(ind+"}", o.Pos)
			case "Raw":
				if strip {
					add(ind+"Raw "+c15p(o.Path), o.Pos)
				} else {
					add(ind+"Raw "+c15p(o.Path)+" "+o.Aux, o.Pos)
				}
			default:
				s := ind + o.K + " " + c15p(o.Path)
				if o.Aux != "" {
					s += " " + o.Aux
				}
				add(s, o.Pos)
			}
		}
	}
	walk(ops, "")
	return
}

func c15p(p string) string {
	if p == "" {
		return "(message)"
	}
	return p
}

func c15join(p, f string) string {
	if p == "" {
		return f
	}
	return p + "." + f
}

// ---------------------------------------------------------------------------
// The interpreter: definition -> schema at one version.

type c15Interp struct {
	d      *c15Defs
	reader bool // produce the decode-side schema (Default steps, raw lengths; no tag conditions)
	errs   []string
}

func (in *c15Interp) errf(f string, a ...any) { in.errs = append(in.errs, fmt.Sprintf(f, a...)) }

// Schema returns the schema of root at version v.
func (in *c15Interp) Schema(root *c15Struct, v int) []*c15Op {
	flex := root.FlexibleAt >= 0 && v >= root.FlexibleAt
	var ops []*c15Op
	if in.reader {
		ops = append(ops, &c15Op{K: "Default", Path: ""})
	}
	return append(ops, in.structOps(root, root, "", v, flex, 0)...)
}

func (in *c15Interp) structOps(root, s *c15Struct, path string, v int, flex bool, depth int) []*c15Op {
	if depth > 20 {
		in.errf("%s: nesting too deep", s.Name)
		return nil
	}
	if s != root && !s.Anonymous {
		// a named struct embedded in a message follows the enclosing message's
		// flexibility; the definitions must agree on it
		if s.FlexibleAt != root.FlexibleAt {
			in.errf("named struct %s (flexible %d) is embedded in %s (flexible %d): compact encoding is ambiguous", s.Name, s.FlexibleAt, root.Name, root.FlexibleAt)
		}
		if s.WithVersionField || s.TopLevel {
			in.errf("struct %s with its own version is embedded in %s", s.Name, root.Name)
		}
	}
	var ops []*c15Op
	var tagged []*c15Field
	for _, f := range s.Fields {
		if f.Tag >= 0 {
			if f.Versioned {
				in.errf("%s.%s: a field that is both versioned and tagged is not modelled", s.Name, f.Name)
			}
			if root.FlexibleAt < 0 {
				in.errf("%s.%s: tagged field in a message that is never flexible", s.Name, f.Name)
			}
			tagged = append(tagged, f)
			continue
		}
		if v < f.Min || (f.Max >= 0 && v > f.Max) {
			continue
		}
		ops = append(ops, in.typeOps(root, f.T, c15join(path, f.Name), v, flex, depth)...)
	}
	if !flex {
		return ops
	}
	sort.SliceStable(tagged, func(i, j int) bool { return tagged[i].Tag < tagged[j].Tag })
	t := &c15Op{K: "Tags", Path: path, Unknown: c15join(path, "UnknownTags")}
	for _, f := range tagged {
		tg := &c15Tag{N: f.Tag, Body: in.typeOps(root, f.T, c15join(path, f.Name), v, flex, depth)}
		if !in.reader {
			tg.Cond, tg.Size = in.tagCondSize(f, v)
		}
		t.Tags = append(t.Tags, tg)
	}
	return append(ops, t)
}

// c15NormConst renders a definition default canonically.
func c15NormConst(lit string) (string, bool) {
	switch lit {
	case "true", "false":
		return lit, true
	case "null":
		return "nil", true
	}
	if n, err := strconv.ParseInt(lit, 0, 64); err == nil {
		return strconv.FormatInt(n, 10), true
	}
	if u, err := strconv.ParseUint(lit, 0, 64); err == nil {
		return strconv.FormatUint(u, 10), true
	}
	if f, err := strconv.ParseFloat(lit, 64); err == nil {
		return strconv.FormatFloat(f, 'g', -1, 64), true
	}
	return lit, false
}

// tagCondSize: a tagged field is written only when it differs from its
// default (explicit, else the zero value), prefixed with its byte size.
func (in *c15Interp) tagCondSize(f *c15Field, v int) (cond, size string) {
	t := f.T
	size = "backpatched"
	switch t.Kind {
	case "prim", "enum":
		if n, ok := c15FixedSize[t.Prim]; ok {
			size = fmt.Sprintf("fixed:%d", n)
		} else {
			size = t.Prim + "Len"
		}
		switch {
		case t.Prim == "Uuid":
			cond = "!=zero-uuid"
		case t.HasDefault:
			c, ok := c15NormConst(t.Default)
			if !ok {
				in.errf("field %s: default %q not understood", f.Name, t.Default)
			}
			cond = "!=" + c
		case t.Prim == "Bool":
			cond = "!=false"
		default:
			cond = "!=0"
		}
	case "nullable-string", "nullable-bytes":
		cond = "!=nil"
	case "string", "bytes", "varint-string", "varint-bytes":
		cond = "always"
	case "array":
		if t.Nullable && v >= t.NullableFrom {
			cond = "!=nil"
		} else {
			cond = "len>0"
		}
	case "struct":
		if t.Nullable {
			cond = "!=nil"
		} else {
			cond = "!=struct-default"
		}
	default:
		in.errf("field %s: tagged %s is not modelled", f.Name, t.Kind)
	}
	return
}

func (in *c15Interp) typeOps(root *c15Struct, t *c15Type, path string, v int, flex bool, depth int) []*c15Op {
	c := func(k string) string {
		if flex {
			return "Compact" + k
		}
		return k
	}
	switch t.Kind {
	case "prim":
		return []*c15Op{{K: t.Prim, Path: path}}
	case "enum":
		return []*c15Op{{K: t.Prim, Path: path, Aux: "enum=" + t.Enum}}
	case "string":
		return []*c15Op{{K: c("String"), Path: path}}
	case "bytes":
		return []*c15Op{{K: c("Bytes"), Path: path}}
	case "nullable-bytes":
		return []*c15Op{{K: c("NullableBytes"), Path: path}}
	case "nullable-string":
		if v < t.NullableFrom {
			return []*c15Op{{K: c("String"), Path: path, Aux: "ptr"}}
		}
		return []*c15Op{{K: c("NullableString"), Path: path}}
	case "varint-string":
		return []*c15Op{{K: "VarintString", Path: path}}
	case "varint-bytes":
		return []*c15Op{{K: "VarintBytes", Path: path}}
	case "raw":
		o := &c15Op{K: "Raw", Path: path}
		if in.reader {
			o.Aux = fmt.Sprintf("len=%s-%d", t.LenField, t.Minus)
		}
		return []*c15Op{o}
	case "array":
		ln := "Int32"
		if t.VarintLen {
			ln = "Varint"
		} else if flex {
			ln = "Compact"
		}
		o := &c15Op{K: "Array", Path: path, Aux: fmt.Sprintf("len=%s,nullable=%v", ln, t.Nullable && v >= t.NullableFrom)}
		ep := path + "[]"
		if t.Elem.Kind == "struct" {
			if t.Elem.Nullable {
				in.errf("%s: array of nullable structs is not modelled", path)
			}
			if in.reader {
				o.Body = append(o.Body, &c15Op{K: "Default", Path: ep})
			}
			o.Body = append(o.Body, in.structOps(root, t.Elem.Struct, ep, v, flex, depth+1)...)
		} else {
			o.Body = in.typeOps(root, t.Elem, ep, v, flex, depth+1)
		}
		return []*c15Op{o}
	case "struct":
		var body []*c15Op
		if in.reader {
			body = append(body, &c15Op{K: "Default", Path: path})
		}
		body = append(body, in.structOps(root, t.Struct, path, v, flex, depth+1)...)
		if t.Nullable {
			return []*c15Op{{K: "NullableStruct", Path: path, Aux: "marker=int8", Body: body}}
		}
		return body
	}
	in.errf("%s: type kind %q is not modelled", path, t.Kind)
	return nil
}

// c15DefaultsOf lists the non-zero defaults a fresh value of s must carry:
// explicit defaults of its fields, and recursively those of embedded
// (non-nullable, non-array) structs.
func c15DefaultsOf(s *c15Struct, skipVersion bool) (map[string]string, []string) {
	out := map[string]string{}
	var errs []string
	var walk func(s *c15Struct, path string, depth int, skip bool)
	walk = func(s *c15Struct, path string, depth int, skip bool) {
		if depth > 20 {
			return
		}
		for i, f := range s.Fields {
			if skip && i == 0 {
				continue
			}
			t := f.T
			switch {
			case t.Kind == "struct" && !t.Nullable:
				if t.Struct != nil {
					walk(t.Struct, c15join(path, f.Name), depth+1, false)
				}
			case t.HasDefault:
				c, ok := c15NormConst(t.Default)
				if !ok {
					errs = append(errs, fmt.Sprintf("%s: default %q not understood", c15join(path, f.Name), t.Default))
				}
				out[c15join(path, f.Name)] = c
			}
		}
	}
	walk(s, "", 0, skipVersion)
	return out, errs
}
