package main

import (
	"fmt"
	"go/ast"
	"go/token"
	"go/types"
	"strings"
)

func (e *c20env) ioErr(x ast.Expr, name string) bool {
	o := c19objOf(e.info, selOrIdent(x))
	return o != nil && o.Pkg() != nil && o.Pkg().Path() == "io" && o.Name() == name
}

func selOrIdent(x ast.Expr) ast.Expr {
	if s, ok := unparen(x).(*ast.SelectorExpr); ok {
		return s.Sel
	}
	return x
}

// ---------- (5) buf-owned ----------

func (e *c20env) ruleBuf() {
	c, m := e.c, e.m
	rule := "buf-owned"
	info := e.info
	buf := m.Field("kgo", "RecordReader", "buf")
	if buf == nil {
		c.Undecided(rule, "RecordReader.buf", token.NoPos, m, "field not found")
		return
	}
	isBuf := func(x ast.Expr) bool {
		x = unparen(x)
		if se, ok := x.(*ast.SliceExpr); ok {
			x = unparen(se.X)
		}
		return sameField(fieldOfSel(info, x), buf)
	}
	n := 0
	cnt := map[string]int{}
	for _, s := range StoreSites(m.FuncsIn("kgo"), buf) {
		n++
		cnt[s.Fn.Key]++
		cons := fmt.Sprintf("%s: store #%d", s.Fn.Key, cnt[s.Fn.Key])
		c.Touch(s.Fn)
		if s.Kind == "addr" || s.Kind == "complit" && s.RHS != nil && !c19isNil(info, s.RHS) {
			c.Fail(rule, cons, s.Node.Pos(), m, "RecordReader.buf escapes or is initialised from foreign memory (`"+nodeStr(s.Node)+"`)")
			continue
		}
		rhs := s.RHS
		ok, how := false, ""
		switch {
		case rhs == nil:
		case c19isNil(info, rhs):
			ok, how = true, "nil"
		case isBuf(rhs):
			ok, how = true, "reslice of r.buf"
		default:
			if call, isCall := unparen(rhs).(*ast.CallExpr); isCall {
				if id, isId := unparen(call.Fun).(*ast.Ident); isId && id.Name == "append" && len(call.Args) >= 1 && isBuf(call.Args[0]) {
					if _, isB := info.Uses[id].(*types.Builtin); isB {
						ok, how = true, "append to r.buf"
					}
				}
			}
			if o := c19objOf(info, rhs); o != nil && !ok {
				// variable defined by io.ReadAll
				ast.Inspect(s.Fn.Decl.Body, func(x ast.Node) bool {
					as, isAs := x.(*ast.AssignStmt)
					if !isAs || len(as.Rhs) != 1 || len(as.Lhs) < 1 || c19objOf(info, as.Lhs[0]) != o {
						return true
					}
					if call, isCall := unparen(as.Rhs[0]).(*ast.CallExpr); isCall {
						if fn, _ := calleeObj(info, call).(*types.Func); fn != nil && keyOfObj(fn) == "io.ReadAll" {
							ok, how = true, "fresh slice from io.ReadAll"
						}
					}
					return true
				})
				if len(assignsTo(s.Fn, o)) != 1 {
					ok = false
				}
			}
		}
		c.Check(ok, rule, cons, s.Node.Pos(), m, how,
			"`"+nodeStr(s.Node)+"` makes RecordReader.buf alias memory the reader does not own (e.g. bufio.Reader's internal buffer via Peek): next() truncates r.buf to [:0] and the read paths append to it, which then overwrites not-yet-consumed input; fields straddling a buffer refill read back corrupted")
	}
	c.Floor(rule, n, 8)
	// copy-out: record byte fields never alias the parse buffer parameter
	fr := c.NeedFunc(m, "kgo.RecordReader.parseReadLayout")
	nc := 0
	if fr != nil {
		for _, st := range e.recStores(fr.Decl.Body) {
			lit := innermostLit(fr, st.node)
			if lit == nil {
				continue
			}
			rhs := unparen(st.rhs)
			isParam := func(x ast.Expr) bool {
				o := c19objOf(info, x)
				if o == nil {
					return false
				}
				for _, fl := range lit.Type.Params.List {
					for _, id := range fl.Names {
						if info.Defs[id] == o {
							if sl, ok := o.Type().Underlying().(*types.Slice); ok {
								_ = sl
								return true
							}
						}
					}
				}
				return false
			}
			var arg ast.Expr
			if call, ok := rhs.(*ast.CallExpr); ok && len(call.Args) == 1 {
				arg = call.Args[0]
			}
			switch {
			case isParam(rhs):
				nc++
				c.Fail("buf-owned", "copy-out "+st.field, st.node.Pos(), m, "Record."+st.field+" is set to the reader's scratch buffer itself: the next field read overwrites it")
			case arg != nil && isParam(arg):
				nc++
				call := rhs.(*ast.CallExpr)
				good := false
				if tv, ok := info.Types[call.Fun]; ok && tv.IsType() {
					if b, ok := tv.Type.Underlying().(*types.Basic); ok && b.Info()&types.IsString != 0 {
						good = true // string(b) copies
					}
				} else if fn, _ := calleeObj(info, call).(*types.Func); fn != nil && keyOfObj(fn) == "kgo.dupslice" {
					good = true
				}
				c.Check(good, "buf-owned", "copy-out "+st.field, st.node.Pos(), m, "copied out of the scratch buffer", "Record."+st.field+" = "+exprStr(rhs)+" does not copy the scratch buffer")
			}
		}
	}
	c.Floor("buf-owned/copy-out", nc, 3)
	if f := c.NeedFunc(m, "kgo.dupslice"); f != nil {
		var mk types.Object
		copied, returned := false, false
		p0 := f.Info().Defs[f.Decl.Type.Params.List[0].Names[0]]
		ast.Inspect(f.Decl.Body, func(x ast.Node) bool {
			switch s := x.(type) {
			case *ast.AssignStmt:
				if len(s.Rhs) == 1 {
					if call, ok := unparen(s.Rhs[0]).(*ast.CallExpr); ok && exprStr(call.Fun) == "make" {
						mk = c19objOf(info, s.Lhs[0])
					}
				}
			case *ast.CallExpr:
				if exprStr(s.Fun) == "copy" && len(s.Args) == 2 && c19objOf(info, s.Args[0]) == mk && mk != nil && c19objOf(info, s.Args[1]) == p0 {
					copied = true
				}
			case *ast.ReturnStmt:
				if len(s.Results) == 1 && !c19isNil(info, s.Results[0]) {
					returned = c19objOf(info, s.Results[0]) == mk && mk != nil
				}
			}
			return true
		})
		c.Check(copied && returned, "buf-owned", "kgo.dupslice", f.Pos(), m, "make + copy + return the copy", "dupslice does not return a fresh copy of its argument")
	}
}

// ---------- (6) parse-guard ----------

func (e *c20env) ruleParseGuard() {
	c, m := e.c, e.m
	rule := "parse-guard"
	info := e.info
	fr := c.NeedFunc(m, "kgo.RecordReader.parseReadSize")
	fn := c.NeedFunc(m, "kgo.RecordReader.next")
	fs := c.NeedFunc(m, "kgo.RecordReader.readSize")
	if fr == nil || fn == nil || fs == nil {
		return
	}
	n := 0
	if sr := c20stringSwitch(fr); sr != nil {
		for _, st := range sr.Body.List {
			cc := st.(*ast.CaseClause)
			if cc.List == nil {
				continue
			}
			name, _ := c20str(info, cc.List[0])
			r := e.readerClass(fr, cc)
			if r.lit == nil || r.size == nil {
				continue
			}
			var entry []dbc
			if len(r.lit.Type.Params.List) > 0 && len(r.lit.Type.Params.List[0].Names) > 0 {
				id := r.lit.Type.Params.List[0].Names[0]
				if o := info.Defs[id]; o != nil {
					entry = []dbc{{fmt.Sprintf("len(%s#%d)", id.Name, o.Pos()), "", int64(r.n), "next(): len(r.buf) >= fn.read.size"}}
				}
			}
			sinks := BoundsCheck(fr, r.lit.Body, fr.LitGraph(r.lit), BoundsOpts{Sums: kgoSummaries, Entry: entry}, nil)
			n++
			var bad []string
			for _, s := range sinks {
				if !s.OK {
					bad = append(bad, s.Desc+": "+s.Why)
				}
			}
			c.Check(len(bad) == 0, rule, "parseReadSize["+name+"]", r.lit.Pos(), m, fmt.Sprintf("%d sinks in bounds given len(b) >= %d", len(sinks), r.n),
				fmt.Sprintf("the parser needs more bytes than its readKind.size %d guarantees: %s", r.n, strings.Join(bad, "; ")))
		}
	}
	c.Floor(rule+"/parsers", n, 12)
	// next(): fn.parse(r.buf, rec) guarded
	buf := m.Field("kgo", "RecordReader", "buf")
	sizeF := m.Field("kgo", "readKind", "size")
	g := fn.Graph()
	np := 0
	isSizeSel := func(x ast.Expr) bool { return sameField(fieldOfSel(info, c19strip(info, x)), sizeF) }
	isLenBuf := func(x ast.Expr) bool {
		call, ok := c19strip(info, x).(*ast.CallExpr)
		return ok && exprStr(call.Fun) == "len" && len(call.Args) == 1 && sameField(fieldOfSel(info, call.Args[0]), buf)
	}
	for _, x := range findNodes(fn.Decl.Body, false, func(x ast.Node) bool {
		call, ok := x.(*ast.CallExpr)
		if !ok {
			return false
		}
		fv := fieldOfSel(info, call.Fun)
		return fv != nil && fv.Name() == "parse"
	}) {
		call := x.(*ast.CallExpr)
		np++
		l, _ := g.LocOf(call)
		guarded := false
		for _, ft := range g.FactsAt(l) {
			if ft.Val || ft.Tag != nil {
				continue
			}
			cj := c19conj(ft.Cond, nil)
			hasLen, clean := false, true
			for _, a := range cj {
				be, ok := a.(*ast.BinaryExpr)
				if !ok {
					clean = false
					continue
				}
				switch {
				case be.Op == token.LSS && isLenBuf(be.X) && isSizeSel(be.Y), be.Op == token.GTR && isSizeSel(be.X) && isLenBuf(be.Y):
					hasLen = true
				case be.Op == token.GTR && isSizeSel(be.X), be.Op == token.NEQ && isSizeSel(be.X):
					if v, ok := constInt(info, be.Y); !ok || v != 0 {
						clean = false
					}
				default:
					clean = false
				}
			}
			if hasLen && clean {
				guarded = true
			}
		}
		okArg := len(call.Args) >= 1 && sameField(fieldOfSel(info, call.Args[0]), buf)
		c.Check(guarded && okArg, rule, fn.Key+": fn.parse call", call.Pos(), m, "len(r.buf) >= fn.read.size established for fixed-width fields",
			"fn.parse is reachable with len(r.buf) < fn.read.size (or is not given r.buf): the fixed-width parsers index the buffer at constant offsets and panic on a stream truncated at a record's last field")
	}
	c.Floor(rule+"/parse-call", np, 1)
	// readSize(fn.read.size) under fn.read.size > 0
	nr := 0
	for _, call := range callsNamed(fn.Decl.Body, info, "readSize", false) {
		if len(call.Args) != 1 || !isSizeSel(call.Args[0]) {
			continue
		}
		nr++
		l, _ := g.LocOf(call)
		pos := factMatches(g.FactsAt(l), func(ft Fact) bool {
			be, ok := unparen(ft.Cond).(*ast.BinaryExpr)
			if !ok || !ft.Val || be.Op != token.GTR || !isSizeSel(be.X) {
				return false
			}
			v, okc := constInt(info, be.Y)
			return okc && v == 0
		})
		c.Check(pos, rule, fn.Key+": readSize(fn.read.size)", call.Pos(), m, "fixed-width fields are read with readSize(size)", "readSize(fn.read.size) is not selected by fn.read.size > 0")
	}
	c.Floor(rule+"/fixed-read", nr, 1)
	// readSize returns nil only with len(r.buf) >= n
	gs := fs.Graph()
	nParam := fs.Info().Defs[fs.Decl.Type.Params.List[0].Names[0]]
	nn := 0
	for _, x := range findNodes(fs.Decl.Body, false, func(x ast.Node) bool { _, ok := x.(*ast.ReturnStmt); return ok }) {
		rs := x.(*ast.ReturnStmt)
		if len(rs.Results) != 1 || !c19isNil(info, rs.Results[0]) {
			continue
		}
		nn++
		l, _ := gs.LocOf(rs)
		full := false
		for _, r := range c19upper(gs.FactsAt(l)) {
			// n <= len(r.buf)
			if c19objOf(info, r.a) == nParam && isLenBuf(r.b) {
				full = true
			}
		}
		c.Check(full, rule, fs.Key+": return nil", rs.Pos(), m, "success only with len(r.buf) >= n", "readSize can report success with fewer than n bytes in r.buf")
	}
	c.Floor(rule+"/readSize-success", nn, 1)
}

// ---------- (7) eof-boundary ----------

func (e *c20env) ruleEOF() {
	c, m := e.c, e.m
	rule := "eof-boundary"
	info := e.info
	fn := c.NeedFunc(m, "kgo.RecordReader.next")
	fi := c.NeedFunc(m, "kgo.RecordReader.ReadRecordInto")
	fs := c.NeedFunc(m, "kgo.RecordReader.readSize")
	if fn == nil || fi == nil || fs == nil {
		return
	}
	done := m.Field("kgo", "RecordReader", "done")
	buf := m.Field("kgo", "RecordReader", "buf")
	g := fn.Graph()
	// the clause of `switch err` listing io.EOF
	var eofCl, defCl *ast.CaseClause
	ast.Inspect(fn.Decl.Body, func(x ast.Node) bool {
		sw, ok := x.(*ast.SwitchStmt)
		if !ok || sw.Tag == nil {
			return true
		}
		if t := info.TypeOf(sw.Tag); t == nil || t.String() != "error" {
			return true
		}
		for _, st := range sw.Body.List {
			cc := st.(*ast.CaseClause)
			if cc.List == nil {
				defCl = cc
			}
			for _, ce := range cc.List {
				if e.ioErr(ce, "EOF") {
					eofCl = cc
				}
			}
		}
		return true
	})
	if eofCl == nil {
		c.Undecided(rule, fn.Key+"#eof-arm", fn.Pos(), m, "no `case io.EOF` arm in a switch over the read error")
		return
	}
	both := false
	for _, ce := range eofCl.List {
		if e.ioErr(ce, "ErrUnexpectedEOF") {
			both = true
		}
	}
	c.Check(both, rule, fn.Key+"#eof-arm", eofCl.Pos(), m, "io.EOF and io.ErrUnexpectedEOF end the stream", "io.ErrUnexpectedEOF from a partial field is not handled with io.EOF")
	// done first
	first := false
	if len(eofCl.Body) > 0 {
		if as, ok := eofCl.Body[0].(*ast.AssignStmt); ok && len(as.Lhs) == 1 && sameField(fieldOfSel(info, as.Lhs[0]), done) {
			v, okb := constBool(info, as.Rhs[0])
			first = okb && v
		}
	}
	c.Check(first, rule, fn.Key+"#done", eofCl.Pos(), m, "r.done = true before any return of the EOF arm", "the EOF arm does not mark the reader done first: a later ReadRecord reads past the end instead of returning io.EOF")
	// returns
	nEOF := 0
	for _, x := range findNodes(fn.Decl.Body, true, func(x ast.Node) bool { _, ok := x.(*ast.ReturnStmt); return ok }) {
		rs := x.(*ast.ReturnStmt)
		if len(rs.Results) != 1 {
			continue
		}
		in := eofCl.Pos() <= rs.Pos() && rs.End() <= eofCl.End()
		switch {
		case e.ioErr(rs.Results[0], "EOF"):
			nEOF++
			cons := fmt.Sprintf("%s#return-io.EOF-%d", fn.Key, nEOF)
			if !in {
				c.Fail(rule, cons, rs.Pos(), m, "io.EOF is returned outside the EOF arm")
				continue
			}
			l, _ := g.LocOf(rs)
			facts := g.FactsAt(l)
			empty := factMatches(facts, func(ft Fact) bool {
				be, ok := unparen(ft.Cond).(*ast.BinaryExpr)
				if !ok || !ft.Val || be.Op != token.EQL {
					return false
				}
				call, ok := unparen(be.X).(*ast.CallExpr)
				v, okc := constInt(info, be.Y)
				return ok && okc && v == 0 && exprStr(call.Fun) == "len" && sameField(fieldOfSel(info, call.Args[0]), buf)
			})
			firstField := factMatches(facts, func(ft Fact) bool {
				if !ft.Val {
					return false
				}
				// i == 0 || r.fns[i-1].read.noread
				var dj []ast.Expr
				var split func(x ast.Expr)
				split = func(x ast.Expr) {
					if b, ok := unparen(x).(*ast.BinaryExpr); ok && b.Op == token.LOR {
						split(b.X)
						split(b.Y)
						return
					}
					dj = append(dj, unparen(x))
				}
				split(ft.Cond)
				if len(dj) != 2 {
					return false
				}
				z, nr := false, false
				for _, d := range dj {
					if be, ok := d.(*ast.BinaryExpr); ok && be.Op == token.EQL {
						if v, okc := constInt(info, be.Y); okc && v == 0 {
							z = true
						}
					}
					if fv := fieldOfSel(info, d); fv != nil && fv.Name() == "noread" {
						nr = true
					}
				}
				return z && nr
			})
			c.Check(empty && firstField, rule, cons, rs.Pos(), m, "only with an empty buffer at the first reading field",
				"io.EOF is returned without `len(r.buf) == 0 && (i == 0 || r.fns[i-1].read.noread)`: a stream cut inside a record ends cleanly instead of with io.ErrUnexpectedEOF, or the end of the stream is not reported as io.EOF")
		case in:
			c.Check(e.ioErr(rs.Results[0], "ErrUnexpectedEOF"), rule, fn.Key+"#mid-record", rs.Pos(), m, "mid-record EOF is io.ErrUnexpectedEOF", "the EOF arm returns `"+exprStr(rs.Results[0])+"`")
		}
	}
	c.Floor(rule+"/return-eof", nEOF, 1)
	// other errors are returned as they are
	good := false
	if defCl != nil && len(defCl.Body) == 1 {
		if rs, ok := defCl.Body[0].(*ast.ReturnStmt); ok && len(rs.Results) == 1 && info.TypeOf(rs.Results[0]).String() == "error" {
			good = true
		}
	}
	c.Check(good, rule, fn.Key+"#other-errors", fn.Pos(), m, "other read errors are returned", "read errors other than EOF are not returned")
	// ReadRecordInto
	gi := fi.Graph()
	nc := 0
	for _, call := range callsNamed(fi.Decl.Body, info, "next", false) {
		nc++
		l, _ := gi.LocOf(call)
		notDone := factMatches(gi.FactsAt(l), func(ft Fact) bool { return !ft.Val && sameField(fieldOfSel(info, ft.Cond), done) })
		c.Check(notDone, rule, fi.Key+"#done-check", call.Pos(), m, "next() only while not done", "ReadRecordInto reads on after the end of the stream was seen")
	}
	eofRet := false
	for _, x := range findNodes(fi.Decl.Body, false, func(x ast.Node) bool { _, ok := x.(*ast.ReturnStmt); return ok }) {
		rs := x.(*ast.ReturnStmt)
		l, _ := gi.LocOf(rs)
		if factMatches(gi.FactsAt(l), func(ft Fact) bool { return ft.Val && sameField(fieldOfSel(info, ft.Cond), done) }) {
			eofRet = len(rs.Results) == 1 && e.ioErr(rs.Results[0], "EOF")
		}
	}
	c.Check(eofRet && nc == 1, rule, fi.Key+"#eof-when-done", fi.Pos(), m, "io.EOF once done", "ReadRecordInto does not return io.EOF when the reader is done")
	// readSize: partial field -> ErrUnexpectedEOF
	gs := fs.Graph()
	conv := false
	ast.Inspect(fs.Decl.Body, func(x ast.Node) bool {
		as, ok := x.(*ast.AssignStmt)
		if !ok || len(as.Rhs) != 1 || !e.ioErr(as.Rhs[0], "ErrUnexpectedEOF") {
			return true
		}
		l, _ := gs.LocOf(as)
		facts := gs.FactsAt(l)
		isEOF := factMatches(facts, func(ft Fact) bool {
			be, ok := unparen(ft.Cond).(*ast.BinaryExpr)
			return ok && ft.Val && be.Op == token.EQL && e.ioErr(be.Y, "EOF")
		})
		partial := factMatches(facts, func(ft Fact) bool {
			be, ok := unparen(ft.Cond).(*ast.BinaryExpr)
			if !ok || !ft.Val || be.Op != token.GTR {
				return false
			}
			call, okc := unparen(be.X).(*ast.CallExpr)
			v, okv := constInt(info, be.Y)
			return okc && okv && v == 0 && exprStr(call.Fun) == "len" && sameField(fieldOfSel(info, call.Args[0]), buf)
		})
		if isEOF && partial {
			conv = true
		}
		return true
	})
	c.Check(conv, rule, fs.Key+"#partial-field", fs.Pos(), m, "EOF after a partial field becomes io.ErrUnexpectedEOF", "readSize does not turn io.EOF after a partially read field into io.ErrUnexpectedEOF")
}

// ---------- (8) reader-bounds ----------

func (e *c20env) ruleBounds() {
	c, m := e.c, e.m
	rule := "reader-bounds"
	info := e.info
	ex := map[string]string{}
	// bufio Peek: P, err := X.Peek(N); P[k] with k < N after err == nil
	if f := c.NeedFunc(m, "kgo.RecordReader.readCondition"); f != nil {
		g := f.Graph()
		for _, x := range findNodes(f.Decl.Body, false, func(x ast.Node) bool { _, ok := x.(*ast.IndexExpr); return ok }) {
			ix := x.(*ast.IndexExpr)
			k, okk := constInt(info, ix.Index)
			o := c19objOf(info, ix.X)
			if !okk || o == nil {
				continue
			}
			var def *ast.AssignStmt
			ast.Inspect(f.Decl.Body, func(y ast.Node) bool {
				if as, ok := y.(*ast.AssignStmt); ok && len(as.Lhs) == 2 && len(as.Rhs) == 1 && c19objOf(info, as.Lhs[0]) == o {
					def = as
				}
				return true
			})
			if def == nil || len(assignsTo(f, o)) != 0 && false {
				continue
			}
			call, ok := unparen(def.Rhs[0]).(*ast.CallExpr)
			if !ok {
				continue
			}
			fn, _ := calleeObj(info, call).(*types.Func)
			if fn == nil || keyOfObj(fn) != "bufio.Reader.Peek" || len(call.Args) != 1 {
				continue
			}
			nv, okn := constInt(info, call.Args[0])
			l, _ := g.LocOf(ix)
			if okn && k >= 0 && k < nv && c19errNil(info, g.FactsAt(l), c19objOf(info, def.Lhs[1])) {
				dl, _ := g.LocOf(def)
				if g.Dominates(dl, l) {
					ex[f.Key+": "+exprStr(ix)] = fmt.Sprintf("bufio contract: Peek(%d) with err == nil returns %d bytes", nv, nv)
				}
			}
		}
	}
	// readSize chunk loop
	if f := c.NeedFunc(m, "kgo.RecordReader.readSize"); f != nil {
		e.readSizeShape(f, ex)
	}
	// decodeBase64 / decodeHex: n, err := ENC.Decode(b[:ENC.DecodedLen(len(b))], b); return b[:n], err
	for _, key := range []string{"kgo.decodeBase64", "kgo.decodeHex"} {
		f := c.NeedFunc(m, key)
		if f == nil || len(f.Decl.Body.List) != 2 {
			continue
		}
		as, ok1 := f.Decl.Body.List[0].(*ast.AssignStmt)
		rs, ok2 := f.Decl.Body.List[1].(*ast.ReturnStmt)
		if !ok1 || !ok2 || len(as.Lhs) != 2 || len(as.Rhs) != 1 || len(rs.Results) != 2 {
			continue
		}
		p0 := info.Defs[f.Decl.Type.Params.List[0].Names[0]]
		call, ok := unparen(as.Rhs[0]).(*ast.CallExpr)
		if !ok || len(call.Args) != 2 {
			continue
		}
		dfn, _ := calleeObj(info, call).(*types.Func)
		se, ok := unparen(call.Args[0]).(*ast.SliceExpr)
		if dfn == nil || dfn.Name() != "Decode" || !ok || se.Low != nil || se.High == nil || c19objOf(info, se.X) != p0 || c19objOf(info, call.Args[1]) != p0 {
			continue
		}
		hc, ok := unparen(se.High).(*ast.CallExpr)
		if !ok || len(hc.Args) != 1 || nosp(exprStr(hc.Args[0])) != "len("+p0.Name()+")" {
			continue
		}
		hfn, _ := calleeObj(info, hc).(*types.Func)
		if hfn == nil || hfn.Name() != "DecodedLen" || hfn.Pkg() != dfn.Pkg() {
			continue
		}
		ex[key+": "+exprStr(se)] = "encoding contract: DecodedLen(len(b)) <= len(b)"
		if rse, ok := unparen(rs.Results[0]).(*ast.SliceExpr); ok && c19objOf(info, rse.X) == p0 && rse.Low == nil && c19objOf(info, rse.High) == c19objOf(info, as.Lhs[0]) {
			ex[key+": "+exprStr(rse)] = "encoding contract: Decode returns 0 <= n <= len(dst) <= len(b)"
		}
	}
	keys := []string{"kgo.RecordReader.next", "kgo.RecordReader.readSize", "kgo.RecordReader.readExact", "kgo.RecordReader.readCondition", "kgo.dupslice", "kgo.decodeBase64", "kgo.decodeHex", "kgo.RecordReader.ReadRecordInto", "kgo.RecordReader.ReadRecord"}
	n := boundsRuleX(c, m, rule, keys, kgoSummaries, ex, 1<<62)
	c.Floor(rule, n, 9)
}

// readSizeShape recognises
//
//	for len(BUF) < n { start := len(BUF); BUF = append(BUF, make([]byte, min(n-start, C))...)
//	                   nn, err := io.ReadFull(_, BUF[start:]); BUF = BUF[:start+nn]; ... }
//
// and records the side arguments for its three sinks.
func (e *c20env) readSizeShape(f *Func, ex map[string]string) {
	info := e.info
	buf := e.m.Field("kgo", "RecordReader", "buf")
	isBuf := func(x ast.Expr) bool { return sameField(fieldOfSel(info, x), buf) }
	isLenBuf := func(x ast.Expr) bool {
		call, ok := unparen(x).(*ast.CallExpr)
		return ok && exprStr(call.Fun) == "len" && len(call.Args) == 1 && isBuf(call.Args[0])
	}
	nParam := info.Defs[f.Decl.Type.Params.List[0].Names[0]]
	for _, x := range findNodes(f.Decl.Body, false, func(x ast.Node) bool { _, ok := x.(*ast.ForStmt); return ok }) {
		fs := x.(*ast.ForStmt)
		be, ok := unparen(fs.Cond).(*ast.BinaryExpr)
		if !ok || be.Op != token.LSS || !isLenBuf(be.X) || c19objOf(info, be.Y) != nParam || len(fs.Body.List) < 4 {
			continue
		}
		s1, ok1 := fs.Body.List[0].(*ast.AssignStmt)
		s2, ok2 := fs.Body.List[1].(*ast.AssignStmt)
		s3, ok3 := fs.Body.List[2].(*ast.AssignStmt)
		s4, ok4 := fs.Body.List[3].(*ast.AssignStmt)
		if !ok1 || !ok2 || !ok3 || !ok4 {
			continue
		}
		// s1: start := len(BUF)
		if s1.Tok != token.DEFINE || len(s1.Lhs) != 1 || !isLenBuf(s1.Rhs[0]) {
			continue
		}
		start := c19objOf(info, s1.Lhs[0])
		if len(assignsTo(f, start)) != 1 {
			continue
		}
		// s2: BUF = append(BUF, make([]byte, min(n-start, C))...)
		ap, ok := unparen(s2.Rhs[0]).(*ast.CallExpr)
		if !ok || len(s2.Lhs) != 1 || !isBuf(s2.Lhs[0]) || exprStr(ap.Fun) != "append" || len(ap.Args) != 2 || !isBuf(ap.Args[0]) || !ap.Ellipsis.IsValid() {
			continue
		}
		mk, ok := unparen(ap.Args[1]).(*ast.CallExpr)
		if !ok || exprStr(mk.Fun) != "make" || len(mk.Args) != 2 {
			continue
		}
		mn, ok := unparen(mk.Args[1]).(*ast.CallExpr)
		if !ok || exprStr(mn.Fun) != "min" || len(mn.Args) != 2 {
			continue
		}
		if _, isB := info.Uses[mn.Fun.(*ast.Ident)].(*types.Builtin); !isB {
			continue
		}
		sub, ok := unparen(mn.Args[0]).(*ast.BinaryExpr)
		cst, okc := constInt(info, mn.Args[1])
		if !ok || sub.Op != token.SUB || c19objOf(info, sub.X) != nParam || c19objOf(info, sub.Y) != start || !okc || cst <= 0 || cst > 1<<20 {
			continue
		}
		// s3: nn, err := io.ReadFull(_, BUF[start:])
		rf, ok := unparen(s3.Rhs[0]).(*ast.CallExpr)
		if !ok || len(s3.Lhs) != 2 || len(rf.Args) != 2 {
			continue
		}
		if fn, _ := calleeObj(info, rf).(*types.Func); fn == nil || keyOfObj(fn) != "io.ReadFull" {
			continue
		}
		sl, ok := unparen(rf.Args[1]).(*ast.SliceExpr)
		if !ok || !isBuf(sl.X) || sl.High != nil || c19objOf(info, sl.Low) != start {
			continue
		}
		nn := c19objOf(info, s3.Lhs[0])
		// s4: BUF = BUF[:start+nn]
		rsl, ok := unparen(s4.Rhs[0]).(*ast.SliceExpr)
		if !ok || len(s4.Lhs) != 1 || !isBuf(s4.Lhs[0]) || !isBuf(rsl.X) || rsl.Low != nil || rsl.High == nil {
			continue
		}
		add, ok := unparen(rsl.High).(*ast.BinaryExpr)
		if !ok || add.Op != token.ADD || !(c19objOf(info, add.X) == start && c19objOf(info, add.Y) == nn || c19objOf(info, add.X) == nn && c19objOf(info, add.Y) == start) {
			continue
		}
		ex[f.Key+": "+exprStr(mk)] = fmt.Sprintf("loop condition len(buf) < n with start == len(buf): 1 <= min(n-start, %d) <= %d", cst, cst)
		ex[f.Key+": "+exprStr(sl)] = "start == len(buf) before the append and append never shrinks"
		ex[f.Key+": "+exprStr(rsl)] = "io.ReadFull contract: 0 <= nn <= len(buf[start:]), so start+nn <= len(buf)"
	}
}
