package main

import (
	"go/ast"
	"go/token"
	"go/types"
	"strings"

	"golang.org/x/tools/go/cfg"
)

func init() {
	register(&Prop{
		ID:        "C36",
		Level:     "other",
		Technique: "dominating-guard bounds and allocation-size proof over the sr header decoders; writer/reader constant agreement (magic byte, big-endian ID, zero shortcut, varint kind); decision-site rules in Serde.decodeFind; defer-aware happens-before ordering of the type-table delete/insert in Serde.Register; dominating non-nil guard facts for reflect constructors and codec function fields; must-assign path search in DecodeNew",
		Explanation: "(1) every index, slice, binary.BigEndian access and make() size in ConfluentHeader.DecodeID/UpdateID/DecodeIndex, bReader.ReadByte and Serde.decodeFind/Decode/DecodeNew is proven in bounds from dominating guards; the index-count allocation must be bounded by the remaining input or a constant on every path (never panics, bounded memory); " +
			"(2) writer/reader agreement: AppendEncode emits magic byte 0 then the ID as four bytes with descending shifts 24,16,8,0 and DecodeID requires b[0]==0 (else ErrBadHeader), reads binary.BigEndian.Uint32(b[1:5]) and returns b[5:]; the single-zero shortcut is emitted exactly for index == [0] and decoded from count 0 to [0]; both sides use the signed varint routines for count and indices; a negative count is rejected; " +
			"(3) Serde.decodeFind indexes only maps with decoded values, returns ErrNotRegistered when the entry does not exist or has no decoder, and propagates DecodeID/DecodeIndex errors before using their results; Decode/DecodeNew return decodeFind's error before calling the decoder; " +
			"(4) Serde.Register (rule sr-register-table-order): in the cloned type table the delete of the previous registration's type (<node>.typeof under <node>.exists) can never execute after the insert of the new registration (key reflect.TypeOf(v)); the order is decided on the CFG with directly deferred closures placed at function exit in reverse registration order, a delete after the insert is tolerated only under a `removed key != inserted key` guard; every write to the inserted tserde variable precedes the insert (the table holds the final id/index/codec); " +
			"(5) rule sr-reflect-type-nonnil: every reflect.New/Zero/MakeSlice/... call with a reflect.Type argument and every reflect.Type method call on a tserde.typeof value in pkg/sr is dominated by the branch fact `X != nil` (Register(id, nil, ...) records a nil type); rule sr-codec-call-nonnil: every call through tserde.gen/encode/appendEncode is dominated by a non-nil test of that field (one propositional step !(A&&B), B => !A is applied), tserde.decode is called only on the entry returned by decodeFind; local aliases of the fields (gen, typ := t.gen, t.typeof) are followed; " +
			"(6) rule sr-decodenew-instantiate: the decoder's destination in DecodeNew is assigned on every path reaching t.decode, only from t.gen() or reflect.New(t.typeof).Interface(), both sources are present, and ErrNotRegistered is returned exactly on an arm where gen == nil and typeof == nil (and such an arm exists); " +
			"(7) rule sr-id-width-agree (round 4): type-resolved conversion chains between the Go-side ID/index values and the wire: the ID returned by ConfluentHeader.DecodeID is traced back through conversions and single-definition locals to binary.BigEndian.Uint32 and every step must hold all of uint32 (uint32/uint/uint64/uintptr/int64/int; int32 or narrower fails); DecodeIndex elements trace to binary.ReadVarint through int/int64 only; on the way out Register's tserde.id store, Serde.AppendEncode's int(t.id) argument, the header's id parameter and the AppendVarint arguments keep at least 32 bits (int/int64 for index values); Serde.Decode returns only decodeFind's error before handing the payload to the registered decoder (sr-decode-find #no-extra-reject); non-nil guards also recognise short-circuit guards inside one expression (A != nil && f(A)).",
		NotDecided: "round-trip equality through user-supplied encode/decode functions (value-level); custom SerdeHeader implementations; Register's ID-tree clone (tserdeMapClone, subindexDepth bookkeeping) beyond the ordering/finality of the type-table update; inserts or deletes of the type table inside closures that are not directly deferred literals are reported undecided; concurrent Register/Encode interleavings (the copy-on-write publication is assumed atomic).",
		Run:        runC36,
	})
}

func runC36(c *Ctx) {
	m := c.Load("pkg/sr")
	if m == nil {
		return
	}
	keys := []string{"sr.ConfluentHeader.DecodeID", "sr.ConfluentHeader.UpdateID", "sr.ConfluentHeader.DecodeIndex", "sr.bReader.ReadByte", "sr.Serde.decodeFind", "sr.Serde.Decode", "sr.Serde.DecodeNew", "sr.Serde.DecodeID", "sr.Serde.DecodeIndex", "sr.ConfluentHeader.AppendEncode"}
	n := boundsRuleX(c, m, "sr-header-bounds", keys, kbinSummaries, nil, 1<<16)
	c.Floor("sr-header-bounds", n, 8)

	rule := "sr-header-writer-reader-agree"
	// writer
	if f := c.NeedFunc(m, "sr.ConfluentHeader.AppendEncode"); f != nil {
		info := f.Info()
		var first *ast.CallExpr
		for _, n := range findNodes(f.Decl.Body, false, func(x ast.Node) bool {
			call, ok := x.(*ast.CallExpr)
			return ok && exprStr(call.Fun) == "append"
		}) {
			first = n.(*ast.CallExpr)
			break
		}
		var problems []string
		if first == nil || len(first.Args) != 6 {
			problems = append(problems, "first append does not emit exactly 5 header bytes")
		} else {
			if v, ok := constInt(info, first.Args[1]); !ok || v != 0 {
				problems = append(problems, "magic byte is "+exprStr(first.Args[1]))
			}
			for j, want := range []int64{24, 16, 8, 0} {
				arg, ok := convArg(first.Args[2+j], "byte")
				good := false
				if ok {
					if x, y, okb := binop(arg, token.SHR); okb && exprStr(x) == "id" {
						sv, okc := constInt(info, y)
						good = okc && sv == want
					} else if want == 0 && exprStr(unparen(arg)) == "id" {
						good = true
					}
				}
				if !good {
					problems = append(problems, "ID byte "+string(rune('0'+j))+" is `"+exprStr(first.Args[2+j])+"`")
				}
			}
		}
		c.Check(len(problems) == 0, rule, f.Key+"#id", f.Pos(), m, "0, id>>24, id>>16, id>>8, id", strings.Join(problems, "; "))
		// shortcut: append(b, 0) under len(index)==1 && index[0]==0; otherwise AppendVarint(count) + AppendVarint(each)
		g := f.Graph()
		sc, nv := false, 0
		for _, n := range findNodes(f.Decl.Body, false, func(x ast.Node) bool { _, ok := x.(*ast.CallExpr); return ok }) {
			call := n.(*ast.CallExpr)
			l, ok := g.LocOf(call)
			if !ok {
				continue
			}
			facts := g.FactsAt(l)
			isShort := factMatches(facts, func(ft Fact) bool { return ft.Val && nosp(exprStr(ft.Cond)) == "len(index)==1" }) &&
				factMatches(facts, func(ft Fact) bool { return ft.Val && nosp(exprStr(ft.Cond)) == "index[0]==0" })
			switch exprStr(call.Fun) {
			case "append":
				if call == first {
					continue
				}
				if len(call.Args) == 2 {
					v, okc := constInt(info, call.Args[1])
					c.Check(isShort && okc && v == 0, rule, f.Key+"#shortcut", call.Pos(), m, "single 0 for index [0]", "a raw byte is appended outside the [0] shortcut or is not 0")
					sc = true
				}
			case "binary.AppendVarint":
				nv++
				c.Check(!isShort, rule, f.Key+": "+exprStr(call), call.Pos(), m, "", "varint emitted on the shortcut arm")
			case "binary.AppendUvarint", "binary.PutUvarint", "binary.PutVarint":
				c.Fail(rule, f.Key+": "+exprStr(call), call.Pos(), m, "index path is not written with the signed varint routine the reader uses")
			}
		}
		c.Check(sc && nv == 2, rule, f.Key+"#index", f.Pos(), m, "shortcut + count + each index as varint", "writer does not emit shortcut, count and indices as expected")
	}
	// reader: DecodeID
	if f := c.NeedFunc(m, "sr.ConfluentHeader.DecodeID"); f != nil {
		info := f.Info()
		g := f.Graph()
		for _, rn := range findNodes(f.Decl.Body, false, func(x ast.Node) bool { _, ok := x.(*ast.ReturnStmt); return ok }) {
			r := rn.(*ast.ReturnStmt)
			if len(r.Results) != 3 {
				continue
			}
			l, _ := g.LocOf(r)
			facts := g.FactsAt(l)
			if exprStr(r.Results[2]) == "nil" {
				magic := factMatches(facts, func(ft Fact) bool { return !ft.Val && nosp(exprStr(ft.Cond)) == "b[0]!=0" })
				okRest := nosp(exprStr(r.Results[1])) == "b[5:]"
				idOK := false
				ast.Inspect(f.Decl.Body, func(x ast.Node) bool {
					if call, ok := x.(*ast.CallExpr); ok {
						if fn, ok := calleeObj(info, call).(*types.Func); ok && keyOfObj(fn) == "binary.bigEndian.Uint32" && nosp(exprStr(call.Args[0])) == "b[1:5]" {
							idOK = true
						}
					}
					return true
				})
				c.Check(magic && okRest && idOK, rule, f.Key+"#success", r.Pos(), m, "magic 0, BigEndian.Uint32(b[1:5]), rest b[5:]", "success return does not require magic 0 / read b[1:5] big-endian / return b[5:]")
			} else {
				c.Check(exprStr(r.Results[2]) == "ErrBadHeader", rule, f.Key+"#error", r.Pos(), m, "", "malformed header returns "+exprStr(r.Results[2]))
			}
		}
	}
	// reader: DecodeIndex
	if f := c.NeedFunc(m, "sr.ConfluentHeader.DecodeIndex"); f != nil {
		info := f.Info()
		g := f.Graph()
		nRead := 0
		for _, n := range findNodes(f.Decl.Body, false, func(x ast.Node) bool { _, ok := x.(*ast.CallExpr); return ok }) {
			call := n.(*ast.CallExpr)
			switch exprStr(call.Fun) {
			case "binary.ReadVarint":
				nRead++
			case "binary.ReadUvarint", "binary.Uvarint", "binary.Varint":
				c.Fail(rule, f.Key+": "+exprStr(call), call.Pos(), m, "index path is not read with binary.ReadVarint (the writer uses AppendVarint)")
			}
		}
		c.Check(nRead == 2, rule, f.Key+"#varints", f.Pos(), m, "count and each index via ReadVarint", "expected two ReadVarint sites (count, index)")
		sawShort, sawNeg := false, false
		for _, rn := range findNodes(f.Decl.Body, false, func(x ast.Node) bool { _, ok := x.(*ast.ReturnStmt); return ok }) {
			r := rn.(*ast.ReturnStmt)
			if len(r.Results) != 3 {
				continue
			}
			l, _ := g.LocOf(r)
			facts := g.FactsAt(l)
			zero := factMatches(facts, func(ft Fact) bool { return ft.Val && nosp(exprStr(ft.Cond)) == "l==0" })
			neg := factMatches(facts, func(ft Fact) bool { return ft.Val && nosp(exprStr(ft.Cond)) == "l<0" })
			if zero {
				sawShort = true
				single0 := false
				if cl, ok := unparen(r.Results[0]).(*ast.CompositeLit); ok && len(cl.Elts) == 1 {
					v, okc := constInt(info, cl.Elts[0])
					single0 = okc && v == 0
				}
				c.Check(single0 && exprStr(r.Results[2]) == "nil", rule, f.Key+"#shortcut", r.Pos(), m, "count 0 -> [0]", "count 0 decodes to "+exprStr(r.Results[0]))
			}
			if neg {
				sawNeg = true
				c.Check(exprStr(r.Results[2]) != "nil", rule, f.Key+"#negative", r.Pos(), m, "negative count rejected", "negative count is accepted")
			}
			// every error from ReadVarint is propagated: `err != nil` arms return err
			if factMatches(facts, func(ft Fact) bool { return ft.Val && nosp(exprStr(ft.Cond)) == "err!=nil" }) {
				c.Check(exprStr(r.Results[2]) == "err", rule, f.Key+"#err", r.Pos(), m, "", "read error is not propagated")
			}
		}
		c.Check(sawShort && sawNeg, rule, f.Key+"#arms", f.Pos(), m, "", "shortcut or negative-count arm missing")
		_ = info
	}
	// decodeFind
	if f := c.NeedFunc(m, "sr.Serde.decodeFind"); f != nil {
		info := f.Info()
		g := f.Graph()
		rule3 := "sr-decode-find"
		for _, n := range findNodes(f.Decl.Body, false, func(x ast.Node) bool { _, ok := x.(*ast.IndexExpr); return ok }) {
			ix := n.(*ast.IndexExpr)
			tv := info.Types[ix.X]
			_, isMap := tv.Type.Underlying().(*types.Map)
			c.Check(isMap, rule3, f.Key+": "+exprStr(ix), ix.Pos(), m, "map lookup (cannot panic)", "decoded value indexes a non-map")
		}
		okFinal := false
		for _, rn := range findNodes(f.Decl.Body, false, func(x ast.Node) bool { _, ok := x.(*ast.ReturnStmt); return ok }) {
			r := rn.(*ast.ReturnStmt)
			if len(r.Results) != 3 {
				continue
			}
			l, _ := g.LocOf(r)
			facts := g.FactsAt(l)
			if exprStr(r.Results[2]) == "nil" {
				ex := factMatches(facts, func(ft Fact) bool {
					return !ft.Val && nosp(exprStr(ft.Cond)) == "!t.exists" || ft.Val && nosp(exprStr(ft.Cond)) == "t.exists"
				})
				dec := factMatches(facts, func(ft Fact) bool { return !ft.Val && nosp(exprStr(ft.Cond)) == "t.decode==nil" })
				noErr := !factMatches(facts, func(ft Fact) bool { return ft.Val && nosp(exprStr(ft.Cond)) == "err!=nil" })
				okFinal = ex && dec && noErr
				c.Check(okFinal, rule3, f.Key+"#success", r.Pos(), m, "only for an existing entry with a decoder", "success return without t.exists && t.decode != nil")
			}
		}
		c.Check(okFinal, rule3, f.Key+"#has-success", f.Pos(), m, "", "no guarded success return found")
		// results of DecodeID / DecodeIndex are used only after err == nil
		for _, n := range findNodes(f.Decl.Body, false, func(x ast.Node) bool { _, ok := x.(*ast.AssignStmt); return ok }) {
			as := n.(*ast.AssignStmt)
			if len(as.Rhs) != 1 || len(as.Lhs) != 3 {
				continue
			}
			call, ok := as.Rhs[0].(*ast.CallExpr)
			if !ok {
				continue
			}
			// next statement must be `if err != nil { return ... err }`
			blk := enclosingBlock(f.Decl.Body, as)
			good := false
			if blk != nil {
				for i, st := range blk.List {
					if st == ast.Stmt(as) && i+1 < len(blk.List) {
						if ifs, ok := blk.List[i+1].(*ast.IfStmt); ok && nosp(exprStr(ifs.Cond)) == "err!=nil" && len(ifs.Body.List) == 1 {
							if r, ok := ifs.Body.List[0].(*ast.ReturnStmt); ok && len(r.Results) == 3 && exprStr(r.Results[2]) == "err" {
								good = true
							}
						}
					}
				}
			}
			c.Check(good, rule3, f.Key+": "+exprStr(call.Fun)+"#err-checked", as.Pos(), m, "error checked before use", "result of "+exprStr(call.Fun)+" is used without an immediate error check")
		}
	}
	// the index walk descends on every element: a miss must never keep the parent entry
	if f := c.NeedFunc(m, "sr.Serde.decodeFind"); f != nil {
		g := f.Graph()
		nLoops := 0
		ast.Inspect(f.Decl.Body, func(x ast.Node) bool {
			rs, ok := x.(*ast.RangeStmt)
			if !ok || exprStr(rs.X) != "index" || rs.Value == nil {
				return true
			}
			nLoops++
			idx := exprStr(rs.Value)
			var head, done *cfg.Block
			for _, b := range g.C.Blocks {
				if b.Stmt == ast.Stmt(rs) {
					switch b.Kind {
					case cfg.KindRangeLoop:
						head = b
					case cfg.KindRangeDone:
						done = b
					}
				}
			}
			if head == nil || len(head.Succs) == 0 {
				c.Undecided("sr-decode-find", f.Key+"#index-walk", rs.Pos(), m, "loop blocks not found")
				return true
			}
			body := head.Succs[0]
			_, skip := g.FindPath(Loc{int(body.Index), -1}, SearchOpts{
				Stop: func(n ast.Node) bool {
					as, ok := n.(*ast.AssignStmt)
					return ok && len(as.Lhs) == 1 && exprStr(as.Lhs[0]) == "t" && nosp(exprStr(as.Rhs[0])) == "t.subindex["+idx+"]"
				},
				GoalBlock: func(b *cfg.Block) bool { return b == head || b == done },
				GoalExit: func(k ExitKind, last ast.Node) bool {
					if r, ok := last.(*ast.ReturnStmt); ok && len(r.Results) == 3 && exprStr(r.Results[2]) == "ErrNotRegistered" {
						return false
					}
					return k != ExitPanic
				},
			})
			c.Check(!skip, "sr-decode-find", f.Key+"#index-walk", rs.Pos(), m, "every index element descends (t = t.subindex[idx]) or rejects", "the index walk can stop or continue without descending: an unregistered path under a registered prefix is decoded with the prefix's decoder")
			return true
		})
		c.Check(nLoops == 1, "sr-decode-find", f.Key+"#index-walk-exists", f.Pos(), m, "", "index walk loop not found")
	}
	for _, key := range []string{"sr.Serde.Decode", "sr.Serde.DecodeNew"} {
		f := c.NeedFunc(m, key)
		if f == nil {
			continue
		}
		g := f.Graph()
		for _, n := range findNodes(f.Decl.Body, false, func(x ast.Node) bool {
			call, ok := x.(*ast.CallExpr)
			return ok && exprStr(call.Fun) == "t.decode"
		}) {
			l, _ := g.LocOf(n)
			noErr := factMatches(g.FactsAt(l), func(ft Fact) bool { return !ft.Val && nosp(exprStr(ft.Cond)) == "err!=nil" })
			c.Check(noErr, "sr-decode-find", key+"#decode-after-find", n.Pos(), m, "", "decoder is invoked without checking decodeFind's error")
		}
	}
	c36round3(c, m)
	c36round4(c, m)
}

// enclosingBlock returns the innermost block statement containing n directly.
func enclosingBlock(root ast.Node, n ast.Node) *ast.BlockStmt {
	var best *ast.BlockStmt
	ast.Inspect(root, func(x ast.Node) bool {
		if b, ok := x.(*ast.BlockStmt); ok {
			for _, s := range b.List {
				if s == n {
					best = b
				}
			}
		}
		return true
	})
	return best
}
