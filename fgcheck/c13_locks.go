package main

import (
	"fmt"
	"go/ast"
	"go/token"
	"strings"

	"golang.org/x/tools/go/cfg"
)

// ---------------------------------------------------------------------------
// C13 rule loop-lock-balance: a lock acquired inside the body of a long-lived
// loop is released (or its release is handed to a run-exactly-once callback)
// on every path to the next iteration and to every exit of the function.
//
// A path that reaches the loop's back edge with the lock still held leaks one
// acquisition per iteration: for a sync.RWMutex a leaked RLock blocks every
// later Lock() forever (loopCommit's noCommitDuringJoinAndSync read lock vs.
// joinAndSync's write lock: the manage goroutine never finishes the rejoin,
// g.left is never closed and Close never returns); for a Mutex the next
// iteration self-deadlocks.
// ---------------------------------------------------------------------------

// c13handOver lists the callees that accept a callback which they invoke
// exactly once on every path; a release inside such a callback counts as a
// release at the call.
var c13handOver = map[string]string{
	"kgo.groupConsumer.commit": "C09 proves onDone is invoked exactly once (inline `go onDone` for the empty commit, once in the commit goroutine otherwise)",
}

func c13releaseOp(acq string) string {
	if acq == "RLock" {
		return "RUnlock"
	}
	return "Unlock"
}

// c13litAlwaysReleases: every non-panicking exit of the literal has passed a
// release of path/op.
func c13litAlwaysReleases(fn *Func, lit *ast.FuncLit, path, op string) bool {
	g := fn.LitGraph(lit)
	_, skip := g.FindPath(Loc{-1, 0}, SearchOpts{
		Stop: func(n ast.Node) bool {
			return containsNode(n, false, func(y ast.Node) bool {
				call, ok := y.(*ast.CallExpr)
				if !ok {
					return false
				}
				p, o, isLock := lockOp(fn, call)
				return isLock && p == path && o == op
			})
		},
		GoalExit: func(k ExitKind, last ast.Node) bool { return k != ExitPanic },
	})
	return !skip
}

func c13loopLocks(c *Ctx, m *Module) {
	rule := "loop-lock-balance"
	nAcq := 0
	for _, fn := range m.FuncsIn("kgo") {
		loops := c13loopsOf(fn)
		var inScope []*c13loop
		for _, lp := range loops {
			if lp.InScope() {
				inScope = append(inScope, lp)
			}
		}
		gotos := c13gotoLoopsOf(fn)
		if len(inScope) == 0 && len(gotos) == 0 {
			continue
		}
		labels := map[string]*ast.LabeledStmt{}
		ast.Inspect(fn.Decl.Body, func(x ast.Node) bool {
			if ls, ok := x.(*ast.LabeledStmt); ok {
				labels[ls.Label.Name] = ls
			}
			return true
		})
		seen := map[*ast.CallExpr]bool{}
		ord := map[string]int{}
		check := func(region ast.Node, regionKey string, isBackEdge func(b *cfg.Block, call *ast.CallExpr) bool) {
			ast.Inspect(region, func(x ast.Node) bool {
				if _, isLit := x.(*ast.FuncLit); isLit {
					return false // literals are separate bodies (their own loops are scanned on their own)
				}
				call, ok := x.(*ast.CallExpr)
				if !ok || seen[call] {
					return true
				}
				path, op, isLock := lockOp(fn, call)
				if !isLock || (op != "Lock" && op != "RLock") {
					return true
				}
				if isDeferred(fn, call) {
					return true
				}
				seen[call] = true
				nAcq++
				c.Touch(fn)
				rel := c13releaseOp(op)
				g := fn.GraphFor(call)
				l, okL := g.LocOf(call)
				ord[regionKey+path+op]++
				cons := fmt.Sprintf("%s: %s.%s()#%d", regionKey, path, op, ord[regionKey+path+op]-1)
				if !okL {
					c.Undecided(rule, cons, call.Pos(), m, "cannot locate the acquire in the CFG")
					return true
				}
				var badHand []string
				released := func(n ast.Node) bool {
					// a defer of the release registered after the acquire also settles it
					hit := false
					ast.Inspect(n, func(y ast.Node) bool {
						if y == nil || hit {
							return false
						}
						if _, isLit := y.(*ast.FuncLit); isLit {
							return false
						}
						c2, ok := y.(*ast.CallExpr)
						if !ok {
							return true
						}
						if p, o, isL := lockOp(fn, c2); isL && p == path && o == rel {
							hit = true
							return false
						}
						// hand-over: a callback argument that always releases
						for _, a := range c2.Args {
							lit, isLit := unparen(a).(*ast.FuncLit)
							if !isLit || !c13litAlwaysReleases(fn, lit, path, rel) {
								continue
							}
							key := c13callKey(fn.Info(), c2)
							if _, okT := c13handOver[key]; okT {
								hit = true
							} else {
								badHand = append(badHand, key)
							}
						}
						return true
					})
					return hit
				}
				pth, leak := g.FindPath(l, SearchOpts{
					Stop:      released,
					GoalExit:  func(k ExitKind, last ast.Node) bool { return k != ExitPanic },
					GoalBlock: func(b *cfg.Block) bool { return isBackEdge(b, call) },
				})
				if len(badHand) > 0 && leak {
					c.Undecided(rule, cons, call.Pos(), m, "the release of "+path+" is handed to a callback of "+strings.Join(badHand, ", ")+", which is not in the table of callees known to run their callback exactly once")
					return true
				}
				how := ""
				if leak {
					how = " (path: " + pathStr(pth) + ")"
				}
				c.Check(!leak, rule, cons, call.Pos(), m, rel+" or hand-over on every path of the iteration",
					"the "+op+"() of "+path+" taken inside the long-lived loop is still held on a path that reaches the next iteration or leaves the function"+how+": every such iteration leaks one acquisition; a leaked read lock blocks the next writer forever (joinAndSync's Lock(): the group never finishes rejoining, g.left is never closed, Close hangs) and a leaked mutex deadlocks the next iteration")
				return true
			})
		}
		for _, lp := range inScope {
			lp := lp
			check(lp.For.Body, lp.Key, func(b *cfg.Block, call *ast.CallExpr) bool {
				// back edge / continue target of any for/range statement that encloses the acquire
				switch s := b.Stmt.(type) {
				case *ast.ForStmt:
					if !(s.Pos() <= call.Pos() && call.End() <= s.End()) {
						return false
					}
					switch b.Kind {
					case cfg.KindForLoop, cfg.KindForPost:
						return true
					case cfg.KindForBody:
						return s.Cond == nil
					}
				case *ast.RangeStmt:
					return b.Kind == cfg.KindRangeLoop && s.Body.Pos() <= call.Pos() && call.End() <= s.Body.End()
				}
				return false
			})
		}
		for _, gl := range gotos {
			gl := gl
			ls := labels[gl.Label]
			if ls == nil {
				continue
			}
			// region: statements between the label and the goto, in the goto's own body
			var body ast.Node = fn.Decl.Body
			if lit := innermostLit(fn, gl.Goto); lit != nil {
				body = lit.Body
			}
			region := &c13region{body: body, from: ls.Pos(), to: gl.Goto.End()}
			check(region.block(), gl.Key, func(b *cfg.Block, call *ast.CallExpr) bool {
				return b.Kind == cfg.KindLabel && b.Stmt == ast.Stmt(ls)
			})
		}
	}
	c.Floor(rule+"#acquires", nAcq, 10)
}

// c13region selects the top-level statements of a body inside [from,to].
type c13region struct {
	body     ast.Node
	from, to token.Pos
}

func (r *c13region) block() *ast.BlockStmt {
	out := &ast.BlockStmt{}
	ast.Inspect(r.body, func(x ast.Node) bool {
		if x == nil {
			return false
		}
		if x == r.body {
			return true
		}
		if x.End() < r.from || x.Pos() > r.to {
			return false
		}
		if s, ok := x.(ast.Stmt); ok && x.Pos() >= r.from && x.End() <= r.to {
			out.List = append(out.List, s)
			return false
		}
		return true
	})
	return out
}
