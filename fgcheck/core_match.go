package main

import (
	"go/ast"
	"go/constant"
	"go/token"
	"go/types"
	"sort"
	"strings"
)

// calleeObj resolves the called object of a call expression: a *types.Func
// (function, method, interface method), a *types.Var (call through a func
// valued field or variable), a *types.Builtin, or nil (conversion, literal).
func calleeObj(info *types.Info, call *ast.CallExpr) types.Object {
	fun := unparen(call.Fun)
	for {
		switch f := fun.(type) {
		case *ast.IndexExpr:
			fun = unparen(f.X)
			continue
		case *ast.IndexListExpr:
			fun = unparen(f.X)
			continue
		}
		break
	}
	switch f := fun.(type) {
	case *ast.Ident:
		return info.Uses[f]
	case *ast.SelectorExpr:
		if sel := info.Selections[f]; sel != nil {
			return sel.Obj()
		}
		return info.Uses[f.Sel]
	}
	return nil
}

// origin maps instantiated generic methods to their origin.
func origin(o types.Object) types.Object {
	switch x := o.(type) {
	case *types.Func:
		return x.Origin()
	case *types.Var:
		return x.Origin()
	}
	return o
}

func sameObj(a, b types.Object) bool {
	if a == nil || b == nil {
		return false
	}
	if origin(a) == origin(b) {
		return true
	}
	// Objects imported from export data and from source of another load differ
	// in identity; compare by qualified name as a fallback for package-level
	// and method objects.
	fa, ok1 := a.(*types.Func)
	fb, ok2 := b.(*types.Func)
	if ok1 && ok2 {
		return fa.FullName() == fb.FullName()
	}
	return false
}

// isCallTo reports whether call's callee is obj.
func isCallTo(info *types.Info, call *ast.CallExpr, obj types.Object) bool {
	return sameObj(calleeObj(info, call), obj)
}

// callsTo returns the calls to obj under root.
func callsTo(root ast.Node, info *types.Info, obj types.Object, deep bool) []*ast.CallExpr {
	var out []*ast.CallExpr
	for _, n := range findNodes(root, deep, func(x ast.Node) bool {
		c, ok := x.(*ast.CallExpr)
		return ok && isCallTo(info, c, obj)
	}) {
		out = append(out, n.(*ast.CallExpr))
	}
	return out
}

// callsNamed returns calls whose callee is a func/method/var with the name.
func callsNamed(root ast.Node, info *types.Info, name string, deep bool) []*ast.CallExpr {
	var out []*ast.CallExpr
	for _, n := range findNodes(root, deep, func(x ast.Node) bool {
		c, ok := x.(*ast.CallExpr)
		if !ok {
			return false
		}
		o := calleeObj(info, c)
		return o != nil && o.Name() == name
	}) {
		out = append(out, n.(*ast.CallExpr))
	}
	return out
}

// fieldOfSel returns the field a selector expression denotes, or nil.
func fieldOfSel(info *types.Info, e ast.Expr) *types.Var {
	e = unparen(e)
	sel, ok := e.(*ast.SelectorExpr)
	if !ok {
		return nil
	}
	if s := info.Selections[sel]; s != nil && s.Kind() == types.FieldVal {
		if v, ok := s.Obj().(*types.Var); ok {
			return v
		}
	}
	return nil
}

func sameField(a, b *types.Var) bool {
	if a == nil || b == nil {
		return false
	}
	if a.Origin() == b.Origin() {
		return true
	}
	return a.Name() == b.Name() && a.Pos() == b.Pos() && a.Pkg() != nil && b.Pkg() != nil && a.Pkg().Path() == b.Pkg().Path()
}

// Store is one write to a struct field.
type Store struct {
	Node ast.Node // the statement / call / key-value
	LHS  ast.Expr // the selector written (nil for composite literals)
	RHS  ast.Expr // the stored value when there is one
	Kind string   // assign, opassign:+=, inc, dec, atomic:Store, complit, addr
	Tok  token.Token
}

var atomicWriters = map[string]bool{"Store": true, "Swap": true, "Add": true, "CompareAndSwap": true, "And": true, "Or": true}

// storesTo lists every write to field under root.
func storesTo(root ast.Node, info *types.Info, field *types.Var, deep bool) []Store {
	var out []Store
	visit := func(x ast.Node) bool {
		switch s := x.(type) {
		case *ast.AssignStmt:
			for i, l := range s.Lhs {
				if sameField(fieldOfSel(info, l), field) {
					st := Store{Node: s, LHS: l, Tok: s.Tok}
					if len(s.Rhs) == len(s.Lhs) {
						st.RHS = s.Rhs[i]
					} else if len(s.Rhs) == 1 {
						st.RHS = s.Rhs[0]
					}
					if s.Tok == token.ASSIGN || s.Tok == token.DEFINE {
						st.Kind = "assign"
					} else {
						st.Kind = "opassign:" + s.Tok.String()
					}
					out = append(out, st)
				}
			}
		case *ast.IncDecStmt:
			if sameField(fieldOfSel(info, s.X), field) {
				k := "inc"
				if s.Tok == token.DEC {
					k = "dec"
				}
				out = append(out, Store{Node: s, LHS: s.X, Kind: k, Tok: s.Tok})
			}
		case *ast.CallExpr:
			if sel, ok := unparen(s.Fun).(*ast.SelectorExpr); ok && atomicWriters[sel.Sel.Name] {
				if sameField(fieldOfSel(info, sel.X), field) {
					st := Store{Node: s, LHS: sel.X, Kind: "atomic:" + sel.Sel.Name}
					if len(s.Args) > 0 {
						st.RHS = s.Args[len(s.Args)-1]
					}
					out = append(out, st)
				}
			}
		case *ast.KeyValueExpr:
			if id, ok := s.Key.(*ast.Ident); ok {
				if v, ok := info.Uses[id].(*types.Var); ok && v.IsField() && sameField(v, field) {
					out = append(out, Store{Node: s, RHS: s.Value, Kind: "complit"})
				}
			}
		case *ast.CompositeLit:
			// positional struct literal
			if len(s.Elts) > 0 {
				if _, isKV := s.Elts[0].(*ast.KeyValueExpr); !isKV {
					if tv, ok := info.Types[s]; ok && tv.Type != nil {
						if stt, ok := tv.Type.Underlying().(*types.Struct); ok {
							for i, e := range s.Elts {
								if i < stt.NumFields() && sameField(stt.Field(i), field) {
									out = append(out, Store{Node: s, RHS: e, Kind: "complit"})
								}
							}
						}
					}
				}
			}
		case *ast.UnaryExpr:
			if s.Op == token.AND && sameField(fieldOfSel(info, s.X), field) {
				out = append(out, Store{Node: s, LHS: s.X, Kind: "addr"})
			}
		case *ast.RangeStmt:
			for _, l := range []ast.Expr{s.Key, s.Value} {
				if l != nil && sameField(fieldOfSel(info, l), field) {
					out = append(out, Store{Node: s, LHS: l, Kind: "assign"})
				}
			}
		}
		return true
	}
	findNodes(root, deep, func(x ast.Node) bool { visit(x); return false })
	return out
}

// readsOf lists selector expressions under root that denote field.
func readsOf(root ast.Node, info *types.Info, field *types.Var, deep bool) []ast.Node {
	return findNodes(root, deep, func(x ast.Node) bool {
		e, ok := x.(ast.Expr)
		return ok && sameField(fieldOfSel(info, e), field)
	})
}

// mentionsObj reports whether root uses the object (identifier use or field selection).
func mentionsObj(root ast.Node, info *types.Info, obj types.Object, deep bool) bool {
	return containsNode(root, deep, func(x ast.Node) bool {
		switch e := x.(type) {
		case *ast.Ident:
			if u := info.Uses[e]; u != nil && (origin(u) == origin(obj)) {
				return true
			}
			if d := info.Defs[e]; d != nil && d == obj {
				return true
			}
		}
		return false
	})
}

// mentionsField reports whether root contains a selection of the field.
func mentionsField(root ast.Node, info *types.Info, field *types.Var, deep bool) bool {
	return containsNode(root, deep, func(x ast.Node) bool {
		e, ok := x.(ast.Expr)
		return ok && sameField(fieldOfSel(info, e), field)
	})
}

// mentionsName reports whether root contains an identifier or selector with the name.
func mentionsName(root ast.Node, name string, deep bool) bool {
	return containsNode(root, deep, func(x ast.Node) bool {
		id, ok := x.(*ast.Ident)
		return ok && id.Name == name
	})
}

func exprStr(e ast.Node) string {
	if e == nil {
		return ""
	}
	if x, ok := e.(ast.Expr); ok {
		return types.ExprString(x)
	}
	return nodeStr(e)
}

func nodeStr(n ast.Node) string {
	switch s := n.(type) {
	case ast.Expr:
		return types.ExprString(s)
	case *ast.ExprStmt:
		return types.ExprString(s.X)
	case *ast.AssignStmt:
		var l, r []string
		for _, e := range s.Lhs {
			l = append(l, types.ExprString(e))
		}
		for _, e := range s.Rhs {
			r = append(r, types.ExprString(e))
		}
		return strings.Join(l, ", ") + " " + s.Tok.String() + " " + strings.Join(r, ", ")
	case *ast.IncDecStmt:
		return types.ExprString(s.X) + s.Tok.String()
	case *ast.ReturnStmt:
		var r []string
		for _, e := range s.Results {
			r = append(r, types.ExprString(e))
		}
		return "return " + strings.Join(r, ", ")
	case *ast.DeferStmt:
		return "defer " + types.ExprString(s.Call)
	case *ast.GoStmt:
		return "go " + types.ExprString(s.Call)
	case *ast.SendStmt:
		return types.ExprString(s.Chan) + " <- " + types.ExprString(s.Value)
	case *ast.BranchStmt:
		if s.Label != nil {
			return s.Tok.String() + " " + s.Label.Name
		}
		return s.Tok.String()
	case *ast.ValueSpec:
		var l []string
		for _, e := range s.Names {
			l = append(l, e.Name)
		}
		return "var " + strings.Join(l, ", ")
	case *ast.KeyValueExpr:
		return types.ExprString(s.Key) + ": " + types.ExprString(s.Value)
	}
	return "?"
}

// constInt returns the constant integer value of e when it has one.
func constInt(info *types.Info, e ast.Expr) (int64, bool) {
	tv, ok := info.Types[e]
	if !ok || tv.Value == nil {
		return 0, false
	}
	v := constant.ToInt(tv.Value)
	if v.Kind() != constant.Int {
		return 0, false
	}
	i, exact := constant.Int64Val(v)
	return i, exact
}

func constBool(info *types.Info, e ast.Expr) (bool, bool) {
	tv, ok := info.Types[e]
	if !ok || tv.Value == nil || tv.Value.Kind() != constant.Bool {
		return false, false
	}
	return constant.BoolVal(tv.Value), true
}

func sortedKeys[V any](m map[string]V) []string {
	out := make([]string, 0, len(m))
	for k := range m {
		out = append(out, k)
	}
	sort.Strings(out)
	return out
}

// Site is a located occurrence inside a function.
type Site struct {
	Fn   *Func
	Node ast.Node
	// Lit is the innermost function literal containing the node, or nil.
	Lit *ast.FuncLit
}

// innermostLit finds the innermost FuncLit of fn containing node.
func innermostLit(fn *Func, node ast.Node) *ast.FuncLit {
	var best *ast.FuncLit
	ast.Inspect(fn.Decl.Body, func(x ast.Node) bool {
		if x == nil {
			return false
		}
		if x.Pos() > node.Pos() || x.End() < node.End() {
			return false
		}
		if l, ok := x.(*ast.FuncLit); ok && l != node {
			best = l
		}
		return true
	})
	return best
}

// GraphFor returns the CFG of the body (function or literal) containing node.
func (f *Func) GraphFor(node ast.Node) *Graph {
	lit := innermostLit(f, node)
	if lit == nil {
		return f.Graph()
	}
	return f.LitGraph(lit)
}

var litGraphs = map[*ast.FuncLit]*Graph{}

func (f *Func) Graph() *Graph {
	if f.g == nil {
		f.g = NewGraph(f.Decl.Body, f.Info())
	}
	return f.g
}

func (f *Func) LitGraph(l *ast.FuncLit) *Graph {
	if g, ok := litGraphs[l]; ok {
		return g
	}
	g := NewGraph(l.Body, f.Info())
	litGraphs[l] = g
	return g
}

// CallSites lists all calls to obj in the given functions (deep: including
// function literals).
func CallSites(funcs []*Func, obj types.Object) []Site {
	var out []Site
	for _, f := range funcs {
		for _, c := range callsTo(f.Decl.Body, f.Info(), obj, true) {
			out = append(out, Site{Fn: f, Node: c, Lit: innermostLit(f, c)})
		}
	}
	return out
}

// StoreSites lists all writes to a field in the given functions.
type StoreSite struct {
	Fn *Func
	Store
}

func StoreSites(funcs []*Func, field *types.Var) []StoreSite {
	var out []StoreSite
	for _, f := range funcs {
		for _, s := range storesTo(f.Decl.Body, f.Info(), field, true) {
			out = append(out, StoreSite{Fn: f, Store: s})
		}
	}
	return out
}

// factMatches reports whether some fact at the location satisfies pred.
func factMatches(facts []Fact, pred func(Fact) bool) bool {
	for _, f := range facts {
		if pred(f) {
			return true
		}
	}
	return false
}

// enclosingStmtOf finds the innermost statement in body containing n.
func enclosingStmt(body ast.Node, n ast.Node) ast.Stmt {
	var best ast.Stmt
	ast.Inspect(body, func(x ast.Node) bool {
		if x == nil {
			return false
		}
		if x.Pos() > n.Pos() || x.End() < n.End() {
			return false
		}
		if s, ok := x.(ast.Stmt); ok {
			best = s
		}
		return true
	})
	return best
}

// parentMap builds child->parent for a subtree.
func parentMap(root ast.Node) map[ast.Node]ast.Node {
	m := map[ast.Node]ast.Node{}
	var stack []ast.Node
	ast.Inspect(root, func(x ast.Node) bool {
		if x == nil {
			stack = stack[:len(stack)-1]
			return false
		}
		if len(stack) > 0 {
			m[x] = stack[len(stack)-1]
		}
		stack = append(stack, x)
		return true
	})
	return m
}
