package main

import (
	"fmt"
	"go/ast"
	"go/token"
	"go/types"
	"strings"

	"golang.org/x/tools/go/cfg"
)

func init() {
	register(&Prop{
		ID:        "C32",
		Level:     "other",
		Technique: "who-may-write tables with guard facts and stored-value shapes for the partition offsets; edge-dominance facts on both fetch batch walks; dominance / must-pass rules on the duplicate window; three-valued path exploration of handleProduce's per-batch decision; guard whitelists on the fetch-session bookkeeping",
		Explanation: "(1) partData.highWatermark is written only by pushBatch (`+= int64(b.NumRecords)`, after the single store b.FirstOffset = pd.highWatermark that dominates the segment write and the increment; the returned offset is b.FirstOffset) and by the two loaders; " +
			"partData.lastStableOffset only by pushBatch (same increment, under the fact len(pd.uncommittedPIDs)==0, after the transactional registration), recalculateLSO (= highWatermark when no transaction is open; otherwise a local that starts at highWatermark and is only lowered under off < lso over uncommittedPIDs; the loop visits every entry - no break/return/goto - and every path through its body either lowers the candidate to the entry or carries the fact off >= lso) and the loaders; " +
			"every other mutation of uncommittedPIDs (delete / index store) is followed on all paths by recalculateLSO; abortedTxns entries are appended only under !commit && had-uncommitted with firstOffset from uncommittedPIDs and lastOffset from pushBatch; " +
			"partData.logStartOffset only by delete-records (lo <= to <= hwm facts), compaction, retention (monotone) - each followed by the trim/rebuild - and the loaders. " +
			"(2) in handleFetch every use of a batch (batchMeta.nbytes, readBatchRaw) in both walks carries the fact !(readCommitted && m.firstOffset >= pd.lastStableOffset) with readCommitted := IsolationLevel == 1; the response reports the three partData offsets in the matching fields; AbortedTransactions entries are built from pd.abortedTxns (producerID, firstOffset) under readCommitted. " +
			"(3) in pidwindow.pushAndValidate the duplicate scan ranges over s.count, is guarded only by the nil / first-batch / epoch tests, dominates the out-of-order rejection and the accepting stores, and every stored pidEntry carries the baseOffset parameter, which handleProduce passes as pd.highWatermark of the partition it appends to; on every path of handleProduce that answers a duplicate (dup true) with error 0, pushBatch was not called for that batch (C29 checks the complementary guard and the returned offset). " +
			"(4) session.updatePartition is called for every request partition, guarded at most by a `topic != \"\" || ...` test, with the request's own fields, and stores the updated entry back; the incremental merge appends every session partition under exactly session != nil && !newSession && !inRequest[key]; updateAndFilterResponse keeps a partition when it has records, an error, or a changed high watermark / log start, and new session partitions start with -1 baselines.",
		NotDecided: "the history-level statements themselves (that every execution yields contiguous offsets, LSO <= HWM, exactly the committed data); values inside the loaders; eviction from the 5-entry window; memory model of the single run goroutine.",
		Assumptions: []string{
			"all partData mutation happens on the Cluster.run goroutine (no concurrent writer)",
			"go/cfg does not split short-circuit conditions: an if condition is one node",
		},
		Run: runC32,
	})
}

const c32pkg = "kfake"

// ---------- small shared helpers (also used by c33.go) ----------

// c32strip removes parentheses and type conversions.
func c32strip(info *types.Info, e ast.Expr) ast.Expr {
	for {
		e = unparen(e)
		call, ok := e.(*ast.CallExpr)
		if !ok || len(call.Args) != 1 {
			return e
		}
		if tv, ok := info.Types[call.Fun]; ok && tv.IsType() {
			e = call.Args[0]
			continue
		}
		return e
	}
}

// c32isField: e (conversions stripped) selects the given field.
func c32isField(info *types.Info, e ast.Expr, field *types.Var) bool {
	if e == nil || field == nil {
		return false
	}
	return sameField(fieldOfSel(info, c32strip(info, e)), field)
}

// c32fieldNamed: e selects a field with the name whose owner struct type has the given name ("" = any).
func c32fieldNamed(info *types.Info, e ast.Expr, owner, name string) bool {
	if e == nil {
		return false
	}
	sel, ok := c32strip(info, e).(*ast.SelectorExpr)
	if !ok {
		return false
	}
	v := fieldOfSel(info, sel)
	if v == nil || v.Name() != name {
		return false
	}
	if owner == "" {
		return true
	}
	t := info.TypeOf(sel.X)
	for {
		if p, ok := t.(*types.Pointer); ok {
			t = p.Elem()
			continue
		}
		break
	}
	if n, ok := t.(*types.Named); ok {
		return n.Obj().Name() == owner
	}
	return false
}

// c32baseObj returns the object of the identifier at the root of a selector chain x.a.b / x[i].a.
func c32baseObj(info *types.Info, e ast.Expr) types.Object {
	for {
		e = unparen(e)
		switch x := e.(type) {
		case *ast.SelectorExpr:
			e = x.X
		case *ast.IndexExpr:
			e = x.X
		case *ast.StarExpr:
			e = x.X
		case *ast.UnaryExpr:
			e = x.X
		case *ast.Ident:
			if o := info.Uses[x]; o != nil {
				return o
			}
			return info.Defs[x]
		default:
			return nil
		}
	}
}

func c32identObj(info *types.Info, e ast.Expr) types.Object {
	id, ok := unparen(e).(*ast.Ident)
	if !ok {
		return nil
	}
	if o := info.Uses[id]; o != nil {
		return o
	}
	return info.Defs[id]
}

// c32hasCall: the node contains (outside nested literals) a call to obj.
func c32hasCall(info *types.Info, n ast.Node, obj types.Object) bool {
	return containsNode(n, false, func(x ast.Node) bool {
		c, ok := x.(*ast.CallExpr)
		return ok && isCallTo(info, c, obj)
	})
}

func c32factsStr(facts []Fact) string {
	var s []string
	for _, f := range facts {
		p := ""
		if !f.Val {
			p = "NOT "
		}
		if f.Tag != nil {
			s = append(s, p+exprStr(f.Tag)+"=="+exprStr(f.Cond))
		} else {
			s = append(s, p+"("+exprStr(f.Cond)+")")
		}
	}
	return strings.Join(s, " & ")
}

// c32cmp matches a binary comparison fact: returns (op normalised so that the
// fact reads `x op y` as TRUE).
func c32cmp(f Fact) (x, y ast.Expr, op token.Token, ok bool) {
	if f.Tag != nil {
		return nil, nil, 0, false
	}
	b, isB := unparen(f.Cond).(*ast.BinaryExpr)
	if !isB {
		return nil, nil, 0, false
	}
	op = b.Op
	if !f.Val {
		switch b.Op {
		case token.EQL:
			op = token.NEQ
		case token.NEQ:
			op = token.EQL
		case token.LSS:
			op = token.GEQ
		case token.GEQ:
			op = token.LSS
		case token.GTR:
			op = token.LEQ
		case token.LEQ:
			op = token.GTR
		default:
			return nil, nil, 0, false
		}
	}
	switch op {
	case token.EQL, token.NEQ, token.LSS, token.GEQ, token.GTR, token.LEQ:
		return b.X, b.Y, op, true
	}
	return nil, nil, 0, false
}

// c32factCmp: some fact states `X op Y` (or the mirrored form) with the operand predicates.
func c32factCmp(facts []Fact, op token.Token, px, py func(ast.Expr) bool) bool {
	mirror := map[token.Token]token.Token{token.EQL: token.EQL, token.NEQ: token.NEQ, token.LSS: token.GTR, token.GTR: token.LSS, token.LEQ: token.GEQ, token.GEQ: token.LEQ}
	for _, f := range facts {
		x, y, o, ok := c32cmp(f)
		if !ok {
			continue
		}
		if o == op && px(x) && py(y) {
			return true
		}
		if mirror[o] == op && px(y) && py(x) {
			return true
		}
	}
	return false
}

// c32escapes searches a path from just after node n (in the body containing it)
// to a function exit (or goal node) that does not pass a stop node.
func c32escapes(f *Func, n ast.Node, stop func(ast.Node) bool, goal func(ast.Node) bool, edgeOK func(*cfg.Block, int, *cfg.Block) bool) ([]ast.Node, bool, bool) {
	g := f.GraphFor(n)
	l, ok := g.LocOf(n)
	if !ok {
		return nil, false, false
	}
	o := SearchOpts{Stop: stop, EdgeOK: edgeOK}
	if goal != nil {
		o.GoalNode = goal
	} else {
		o.GoalExit = func(k ExitKind, _ ast.Node) bool { return k != ExitPanic }
	}
	p, found := g.FindPath(l, o)
	return p, found, true
}

// c32topStmt returns the top-level statement of f's body that contains n.
func c32topStmt(f *Func, n ast.Node) ast.Node {
	for _, s := range f.Decl.Body.List {
		if s.Pos() <= n.Pos() && n.End() <= s.End() {
			return s
		}
	}
	return f.Decl.Body
}

// c32factsWithin keeps the facts whose condition is written inside region
// (facts established by earlier early-exit tests of the function are dropped:
// they abort the whole request, they do not skip the construct).
func c32factsWithin(facts []Fact, region ast.Node) []Fact {
	var out []Fact
	for _, ft := range facts {
		if ft.Cond.Pos() >= region.Pos() && ft.Cond.End() <= region.End() {
			out = append(out, ft)
		}
	}
	return out
}

type c32keys map[string]int

// uniq makes construct keys unique without using positions.
func (k c32keys) uniq(s string) string {
	k[s]++
	if k[s] > 1 {
		return fmt.Sprintf("%s#%d", s, k[s])
	}
	return s
}

func c32paramOfType(f *Func, typeName string) types.Object {
	sig := f.Obj.Type().(*types.Signature)
	for i := 0; i < sig.Params().Len(); i++ {
		p := sig.Params().At(i)
		t := p.Type()
		if pt, ok := t.(*types.Pointer); ok {
			t = pt.Elem()
		}
		if n, ok := t.(*types.Named); ok && n.Obj().Name() == typeName {
			return p
		}
	}
	return nil
}

func c32structField(t types.Type, name string) *types.Var {
	if p, ok := t.(*types.Pointer); ok {
		t = p.Elem()
	}
	st, ok := t.Underlying().(*types.Struct)
	if !ok {
		return nil
	}
	for i := 0; i < st.NumFields(); i++ {
		if st.Field(i).Name() == name {
			return st.Field(i)
		}
	}
	return nil
}

// ---------- the property ----------

type c32env struct {
	c      *Ctx
	m      *Module
	funcs  []*Func
	hwm    *types.Var
	lso    *types.Var
	lstart *types.Var
	uncom  *types.Var
	abtx   *types.Var
	keys   c32keys
}

var c32loaders = map[string]bool{
	"kfake.Cluster.loadPartitionFromSnapshot": true,
	"kfake.Cluster.loadPartitionFullReplay":   true,
}

func runC32(c *Ctx) {
	m := c.Load("pkg/kfake")
	if m == nil {
		return
	}
	// the aborted-transaction lookup of handleFetch (shared with C05 clause 5):
	// read_committed fetches return exactly the committed data only if every
	// overlapping aborted transaction is reported
	c05kfakeAbortedIndex(c)
	e := &c32env{c: c, m: m, funcs: m.FuncsIn(c32pkg), keys: c32keys{}}
	e.hwm = m.Field(c32pkg, "partData", "highWatermark")
	e.lso = m.Field(c32pkg, "partData", "lastStableOffset")
	e.lstart = m.Field(c32pkg, "partData", "logStartOffset")
	e.uncom = m.Field(c32pkg, "partData", "uncommittedPIDs")
	e.abtx = m.Field(c32pkg, "partData", "abortedTxns")
	for n, v := range map[string]*types.Var{"highWatermark": e.hwm, "lastStableOffset": e.lso, "logStartOffset": e.lstart, "uncommittedPIDs": e.uncom, "abortedTxns": e.abtx} {
		if v == nil {
			c.Undecided("anchor", "kfake.partData."+n, token.NoPos, m, "field not found")
			return
		}
	}
	e.hwmWriters()
	e.lsoWriters()
	e.uncommittedThenRecalc()
	e.abortedSource()
	e.logStartWriters()
	e.fetchWalks()
	e.dupWindow()
	e.dupArm()
	e.session()
}

// ---- clause 1: highWatermark ----

func (e *c32env) hwmWriters() {
	c, m := e.c, e.m
	rule := "hwm-writers"
	n := 0
	var inc *StoreSite
	for _, st := range StoreSites(e.funcs, e.hwm) {
		st := st
		n++
		c.Touch(st.Fn)
		cons := e.keys.uniq(st.Fn.Key + ": " + nodeStr(st.Node))
		switch {
		case st.Fn.Key == "kfake.Cluster.pushBatch":
			if inc != nil {
				c.Fail(rule, cons, st.Node.Pos(), m, "second write to highWatermark in pushBatch: the append must advance it exactly once")
				continue
			}
			inc = &st
			b := c32paramOfType(st.Fn, "RecordBatch")
			ok := st.Kind == "opassign:+=" && b != nil && c32fieldNamed(st.Fn.Info(), st.RHS, "RecordBatch", "NumRecords") && c32baseObj(st.Fn.Info(), c32strip(st.Fn.Info(), st.RHS)) == b
			c.Check(ok, rule, cons, st.Node.Pos(), m, "+= int64(b.NumRecords)", "the append must advance highWatermark by exactly the appended batch's NumRecords (`+= int64(b.NumRecords)`), found "+st.Kind+" "+exprStr(st.RHS)+": the next batch would not start where this one ends")
		case c32loaders[st.Fn.Key]:
			c.OK(rule, cons, st.Node.Pos(), m, "loader")
		default:
			c.Fail(rule, cons, st.Node.Pos(), m, "highWatermark is written outside pushBatch and the loaders: offsets handed out by appends would no longer be contiguous")
		}
	}
	c.Floor(rule, n, 5)

	f := c.NeedFunc(m, "kfake.Cluster.pushBatch")
	if f == nil {
		return
	}
	rule = "append-contiguous"
	info := f.Info()
	g := f.Graph()
	b := c32paramOfType(f, "RecordBatch")
	pd := c32paramOfType(f, "partData")
	if b == nil || pd == nil {
		c.Undecided(rule, f.Key+"#params", f.Pos(), m, "pushBatch no longer takes (*partData, kmsg.RecordBatch)")
		return
	}
	fo := c32structField(b.Type(), "FirstOffset")
	var foStores []Store
	for _, s := range storesTo(f.Decl.Body, info, fo, true) {
		if c32baseObj(info, s.LHS) == b {
			foStores = append(foStores, s)
		}
	}
	if len(foStores) != 1 {
		c.Fail(rule, f.Key+"#FirstOffset-store", f.Pos(), m, fmt.Sprintf("expected exactly one store to b.FirstOffset, found %d", len(foStores)))
		return
	}
	fs := foStores[0]
	okv := fs.Kind == "assign" && c32isField(info, fs.RHS, e.hwm) && c32baseObj(info, fs.RHS) == pd
	c.Check(okv, rule, f.Key+"#FirstOffset=highWatermark", fs.Node.Pos(), m, "b.FirstOffset = pd.highWatermark", "the appended batch's first offset is `"+exprStr(fs.RHS)+"`, not the partition's high watermark: appended offsets are not contiguous")
	fl, _ := g.LocOf(fs.Node)
	persist := m.Method(c32pkg, "Cluster", "persistBatchToSegment")
	for _, call := range callsTo(f.Decl.Body, info, persist, false) {
		cl, _ := g.LocOf(call)
		c.Check(g.Dominates(fl, cl), rule, f.Key+"#offset-assigned-before-write", call.Pos(), m, "", "the batch is written to the segment before its first offset is assigned")
	}
	if inc != nil {
		il, _ := g.LocOf(inc.Node)
		c.Check(g.Dominates(fl, il), rule, f.Key+"#offset-assigned-before-advance", inc.Node.Pos(), m, "", "highWatermark is advanced on a path where b.FirstOffset was not yet taken from it")
	} else {
		c.Fail(rule, f.Key+"#advance", f.Pos(), m, "pushBatch does not advance highWatermark")
	}
	// returned offset
	nret := 0
	for _, rn := range findNodes(f.Decl.Body, false, func(x ast.Node) bool { _, ok := x.(*ast.ReturnStmt); return ok }) {
		r := rn.(*ast.ReturnStmt)
		if len(r.Results) != 1 {
			continue
		}
		if v, isC := constInt(info, r.Results[0]); isC && v < 0 {
			continue
		}
		nret++
		res := r.Results[0]
		good := false
		if sameField(fieldOfSel(info, res), fo) && c32baseObj(info, res) == b {
			good = true
		} else if o := c32identObj(info, res); o != nil {
			if def := singleDef(f, o); def != nil && sameField(fieldOfSel(info, def), fo) && c32baseObj(info, def) == b {
				// the copy is taken after the store
				dl, ok := g.LocOf(def)
				good = ok && g.Dominates(fl, dl)
			}
		}
		c.Check(good, rule, e.keys.uniq(f.Key+"#returns-assigned-offset"), r.Pos(), m, "returns b.FirstOffset", "pushBatch returns `"+exprStr(res)+"`, not the first offset it assigned to the batch")
	}
	c.Floor(rule+"/returns", nret, 1)
}

// ---- clause 1: lastStableOffset ----

func (e *c32env) lenUncommittedZero(info *types.Info) func(facts []Fact) bool {
	return func(facts []Fact) bool {
		return c32factCmp(facts, token.EQL, func(x ast.Expr) bool {
			call, ok := unparen(x).(*ast.CallExpr)
			if !ok || len(call.Args) != 1 {
				return false
			}
			if id, ok := call.Fun.(*ast.Ident); !ok || id.Name != "len" {
				return false
			}
			return c32isField(info, call.Args[0], e.uncom)
		}, func(y ast.Expr) bool { v, ok := constInt(info, y); return ok && v == 0 })
	}
}

func (e *c32env) lsoWriters() {
	c, m := e.c, e.m
	rule := "lso-writers"
	n := 0
	for _, st := range StoreSites(e.funcs, e.lso) {
		n++
		c.Touch(st.Fn)
		info := st.Fn.Info()
		cons := e.keys.uniq(st.Fn.Key + ": " + nodeStr(st.Node))
		g := st.Fn.GraphFor(st.Node)
		loc, _ := g.LocOf(st.Node)
		facts := g.FactsAt(loc)
		switch {
		case st.Fn.Key == "kfake.Cluster.pushBatch":
			b := c32paramOfType(st.Fn, "RecordBatch")
			shape := st.Kind == "opassign:+=" && c32fieldNamed(info, st.RHS, "RecordBatch", "NumRecords") && c32baseObj(info, c32strip(info, st.RHS)) == b
			c.Check(shape, rule, cons, st.Node.Pos(), m, "+= int64(b.NumRecords)", "the last stable offset must advance by the appended batch's NumRecords, found "+st.Kind+" "+exprStr(st.RHS))
			guard := e.lenUncommittedZero(info)(facts)
			c.Check(guard, rule, cons+"#no-open-txn", st.Node.Pos(), m, "under len(pd.uncommittedPIDs) == 0",
				"the last stable offset is advanced on append without the fact len(pd.uncommittedPIDs) == 0 (facts here: "+c32factsStr(facts)+"): with a transaction open at offset F on the partition, an append moves the LSO past F and read_committed fetches return the undecided transaction's batches")
			// after the transactional registration: no path from here to a store into uncommittedPIDs
			p, found, _ := c32escapes(st.Fn, st.Node, nil, func(x ast.Node) bool { return e.isUncommittedMutation(info, x) }, nil)
			c.Check(!found, rule, cons+"#after-registration", st.Node.Pos(), m, "", "the LSO is advanced before the transactional producer is registered in uncommittedPIDs ("+pathStr(p)+"): the first batch of a transaction would be counted as stable")
		case st.Fn.Key == "kfake.partData.recalculateLSO":
			e.recalcStore(st, cons, facts)
		case c32loaders[st.Fn.Key]:
			c.OK(rule, cons, st.Node.Pos(), m, "loader")
		default:
			c.Fail(rule, cons, st.Node.Pos(), m, "lastStableOffset is written outside pushBatch, recalculateLSO and the loaders")
		}
	}
	c.Floor(rule, n, 6)
}

func (e *c32env) recalcStore(st StoreSite, cons string, facts []Fact) {
	c, m := e.c, e.m
	rule := "lso-writers"
	f := st.Fn
	info := f.Info()
	if st.Kind != "assign" {
		c.Fail(rule, cons, st.Node.Pos(), m, "recalculateLSO must assign, found "+st.Kind)
		return
	}
	if c32isField(info, st.RHS, e.hwm) {
		c.Check(e.lenUncommittedZero(info)(facts), rule, cons, st.Node.Pos(), m, "= highWatermark when no transaction is open", "LSO is set to the high watermark although a transaction may be open (facts: "+c32factsStr(facts)+")")
		return
	}
	o := c32identObj(info, st.RHS)
	if o == nil {
		c.Fail(rule, cons, st.Node.Pos(), m, "LSO is set to `"+exprStr(st.RHS)+"`: must be the high watermark or the minimum over uncommittedPIDs")
		return
	}
	// every assignment to the local: `:= pd.highWatermark` or `= off` under off < local, off ranging over uncommittedPIDs
	good := true
	why := ""
	nInit, nLower := 0, 0
	ast.Inspect(f.Decl.Body, func(x ast.Node) bool {
		as, ok := x.(*ast.AssignStmt)
		if !ok {
			return true
		}
		for i, l := range as.Lhs {
			if c32identObj(info, l) != o {
				continue
			}
			if len(as.Rhs) != len(as.Lhs) || (as.Tok != token.ASSIGN && as.Tok != token.DEFINE) {
				good, why = false, "unrecognised assignment "+nodeStr(as)
				continue
			}
			rhs := as.Rhs[i]
			if c32isField(info, rhs, e.hwm) {
				nInit++
				continue
			}
			if cl, ok := unparen(rhs).(*ast.CallExpr); ok && len(cl.Args) == 2 && exprStr(cl.Fun) == "min" {
				a0, a1 := c32identObj(info, cl.Args[0]), c32identObj(info, cl.Args[1])
				if (a0 == o && a1 != nil && e.rangesOverUncommitted(f, a1)) || (a1 == o && a0 != nil && e.rangesOverUncommitted(f, a0)) {
					nLower++
					continue
				}
			}
			ro := c32identObj(info, rhs)
			g := f.Graph()
			loc, _ := g.LocOf(as)
			lower := ro != nil && c32factCmp(g.FactsAt(loc), token.LSS, func(a ast.Expr) bool { return c32identObj(info, a) == ro }, func(b ast.Expr) bool { return c32identObj(info, b) == o })
			if lower && e.rangesOverUncommitted(f, ro) {
				nLower++
				continue
			}
			good, why = false, "`"+nodeStr(as)+"` is not `lso = off` under `off < lso` with off ranging over pd.uncommittedPIDs"
		}
		return true
	})
	if nInit == 0 && good {
		good, why = false, "the minimum does not start from pd.highWatermark"
	}
	if nLower == 0 && good {
		good, why = false, "the candidate is never lowered to an open transaction's first offset"
	}
	c.Check(good, rule, cons, st.Node.Pos(), m, "min(highWatermark, first offsets of open transactions)", "recalculateLSO: "+why+": the LSO would not stop at the first offset of an open transaction")
	e.recalcCoversEveryTxn(f, o, cons)
}

// recalcCoversEveryTxn: the minimum loop of recalculateLSO must leave every
// iteration with lso <= off for the entry it visited: on every path through
// the body of `for _, off := range pd.uncommittedPIDs` that reaches the next
// iteration, either an edge asserts off >= lso or `lso = off` (or
// lso = min(lso, off)) is executed; the body never leaves the loop early.
func (e *c32env) recalcCoversEveryTxn(f *Func, lso types.Object, cons string) {
	c, m := e.c, e.m
	rule := "lso-min-covers-every-open-txn"
	info := f.Info()
	g := f.Graph()
	var rs *ast.RangeStmt
	ast.Inspect(f.Decl.Body, func(x ast.Node) bool {
		if r, ok := x.(*ast.RangeStmt); ok && rs == nil && c32isField(info, r.X, e.uncom) {
			rs = r
		}
		return rs == nil
	})
	if rs == nil || rs.Value == nil {
		c.Fail(rule, f.Key+"#loop", f.Pos(), m, "recalculateLSO has no `for _, off := range pd.uncommittedPIDs` loop over the first offsets of the open transactions")
		return
	}
	off := c32identObj(info, rs.Value)
	isOff := func(x ast.Expr) bool { return off != nil && c32identObj(info, x) == off }
	isLso := func(x ast.Expr) bool { return c32identObj(info, x) == lso }
	// no early exit from the loop
	var early []string
	ast.Inspect(rs.Body, func(x ast.Node) bool {
		switch s := x.(type) {
		case *ast.FuncLit:
			return false
		case *ast.ReturnStmt:
			early = append(early, nodeStr(s))
		case *ast.BranchStmt:
			if s.Tok == token.BREAK || s.Tok == token.GOTO {
				early = append(early, nodeStr(s))
			}
		}
		return true
	})
	c.Check(len(early) == 0, rule, f.Key+"#no-early-exit", rs.Pos(), m, "every entry is visited", "the loop over the open transactions is left early ("+strings.Join(early, ", ")+"): map iteration order is random, the remaining open transactions are not considered and the LSO can lie past their first offset")
	lowers := func(n ast.Node) bool {
		as, ok := n.(*ast.AssignStmt)
		if !ok || len(as.Lhs) != 1 || len(as.Rhs) != 1 || as.Tok != token.ASSIGN || !isLso(as.Lhs[0]) {
			return false
		}
		if isOff(as.Rhs[0]) {
			return true
		}
		if cl, ok := unparen(as.Rhs[0]).(*ast.CallExpr); ok && len(cl.Args) == 2 {
			if id, ok := cl.Fun.(*ast.Ident); ok && id.Name == "min" {
				if _, isB := info.Uses[id].(*types.Builtin); isB {
					return (isOff(cl.Args[0]) && isLso(cl.Args[1])) || (isOff(cl.Args[1]) && isLso(cl.Args[0]))
				}
			}
		}
		return false
	}
	var body, head, done *cfg.Block
	for _, b := range g.C.Blocks {
		if b.Stmt != ast.Stmt(rs) {
			continue
		}
		switch b.Kind {
		case cfg.KindRangeBody:
			body = b
		case cfg.KindRangeLoop:
			head = b
		case cfg.KindRangeDone:
			done = b
		}
	}
	if body == nil || head == nil {
		c.Undecided(rule, f.Key+"#every-entry-bounds-lso", rs.Pos(), m, "range loop not found in the CFG")
		return
	}
	p, found := g.FindPath(Loc{B: int(body.Index), I: -1}, SearchOpts{
		Stop: lowers,
		EdgeOK: func(from *cfg.Block, k int, to *cfg.Block) bool {
			cond, tag, ok := g.condOf(from)
			if !ok || tag != nil {
				return true
			}
			// an edge that establishes off >= lso needs no assignment
			return !c32factCmp(decompose(cond, k == 0, nil), token.GEQ, isOff, isLso)
		},
		GoalBlock: func(b *cfg.Block) bool { return b == head || b == done },
		GoalExit:  func(ExitKind, ast.Node) bool { return true },
	})
	c.Check(!found, rule, f.Key+"#every-entry-bounds-lso", rs.Pos(), m, "each iteration ends with lso <= off", "an open transaction's first offset `"+exprStr(rs.Value)+"` can be passed over without lowering the candidate to it and without the fact "+exprStr(rs.Value)+" >= lso ("+pathStr(p)+"): that transaction no longer holds the last stable offset back, the LSO moves past its first offset and read_committed fetches return its still-undecided records")
}

// rangesOverUncommitted: obj is the value variable of `for _, obj := range X.uncommittedPIDs`.
func (e *c32env) rangesOverUncommitted(f *Func, obj types.Object) bool {
	found := false
	ast.Inspect(f.Decl.Body, func(x ast.Node) bool {
		rs, ok := x.(*ast.RangeStmt)
		if ok && rs.Value != nil && c32identObj(f.Info(), rs.Value) == obj && c32isField(f.Info(), rs.X, e.uncom) {
			found = true
		}
		return !found
	})
	return found
}

// isUncommittedMutation: node contains `X.uncommittedPIDs[k] = v` or delete(X.uncommittedPIDs, k).
func (e *c32env) isUncommittedMutation(info *types.Info, n ast.Node) bool {
	return containsNode(n, false, func(x ast.Node) bool { return e.uncommittedMutationNode(info, x) })
}

func (e *c32env) uncommittedMutationNode(info *types.Info, x ast.Node) bool {
	switch s := x.(type) {
	case *ast.AssignStmt:
		for _, l := range s.Lhs {
			if ix, ok := unparen(l).(*ast.IndexExpr); ok && c32isField(info, ix.X, e.uncom) {
				return true
			}
		}
	case *ast.CallExpr:
		if id, ok := s.Fun.(*ast.Ident); ok && id.Name == "delete" && len(s.Args) == 2 && c32isField(info, s.Args[0], e.uncom) {
			if _, isB := info.Uses[id].(*types.Builtin); isB {
				return true
			}
		}
	}
	return false
}

func (e *c32env) uncommittedThenRecalc() {
	c, m := e.c, e.m
	rule := "txn-set-change-then-recalculate"
	recalc := m.Method(c32pkg, "partData", "recalculateLSO")
	if recalc == nil {
		c.Undecided("anchor", "kfake.partData.recalculateLSO", token.NoPos, m, "method not found")
		return
	}
	n := 0
	for _, f := range e.funcs {
		if f.Key == "kfake.Cluster.pushBatch" {
			continue // registration there keeps LSO <= FirstOffset; checked by lso-writers
		}
		info := f.Info()
		for _, x := range findNodes(f.Decl.Body, true, func(x ast.Node) bool { return e.uncommittedMutationNode(info, x) }) {
			n++
			c.Touch(f)
			cons := e.keys.uniq(f.Key + ": " + nodeStr(x))
			p, found, ok := c32escapes(f, x, func(y ast.Node) bool { return c32hasCall(info, y, recalc) }, nil, nil)
			if !ok {
				c.Undecided(rule, cons, x.Pos(), m, "cannot locate the statement in the control-flow graph")
				continue
			}
			c.Check(!found, rule, cons, x.Pos(), m, "followed by recalculateLSO on every path", "the set of open transactions changes and the function can return without recalculateLSO ("+pathStr(p)+"): the LSO stays at the ended transaction's first offset or past an open one")
		}
	}
	c.Floor(rule, n, 4)
}

func (e *c32env) abortedSource() {
	c, m := e.c, e.m
	rule := "aborted-index-source"
	pb := m.Method(c32pkg, "Cluster", "pushBatch")
	n := 0
	for _, st := range StoreSites(e.funcs, e.abtx) {
		if c32loaders[st.Fn.Key] {
			continue
		}
		call, ok := unparen(st.RHS).(*ast.CallExpr)
		if !ok {
			continue // re-slicing (trim)
		}
		if id, ok := call.Fun.(*ast.Ident); !ok || id.Name != "append" || len(call.Args) != 2 {
			continue
		}
		lit, ok := unparen(call.Args[1]).(*ast.CompositeLit)
		if !ok {
			c.Undecided(rule, e.keys.uniq(st.Fn.Key+": "+nodeStr(st.Node)), st.Node.Pos(), m, "appended value is not a composite literal")
			continue
		}
		n++
		f := st.Fn
		c.Touch(f)
		info := f.Info()
		cons := e.keys.uniq(f.Key + ": append abortedTxns")
		vals := map[string]ast.Expr{}
		for _, el := range lit.Elts {
			if kv, ok := el.(*ast.KeyValueExpr); ok {
				vals[exprStr(kv.Key)] = kv.Value
			}
		}
		// the map read `first, had := pd.uncommittedPIDs[..]`
		var firstObj, hadObj, ctlObj types.Object
		var body ast.Node = f.Decl.Body
		if l := innermostLit(f, st.Node); l != nil {
			body = l.Body
		}
		ast.Inspect(body, func(x ast.Node) bool {
			as, ok := x.(*ast.AssignStmt)
			if !ok || len(as.Rhs) != 1 {
				return true
			}
			if ix, ok := unparen(as.Rhs[0]).(*ast.IndexExpr); ok && len(as.Lhs) == 2 && c32isField(info, ix.X, e.uncom) {
				firstObj, hadObj = c32identObj(info, as.Lhs[0]), c32identObj(info, as.Lhs[1])
			}
			if cl, ok := unparen(as.Rhs[0]).(*ast.CallExpr); ok && len(as.Lhs) == 1 && isCallTo(info, cl, pb) {
				ctlObj = c32identObj(info, as.Lhs[0])
			}
			return true
		})
		g := f.GraphFor(st.Node)
		loc, _ := g.LocOf(st.Node)
		facts := g.FactsAt(loc)
		notCommit := factMatches(facts, func(ft Fact) bool {
			o := c32identObj(info, ft.Cond)
			return ft.Tag == nil && o != nil && !ft.Val && o.Name() == "commit" && types.Identical(o.Type(), types.Typ[types.Bool])
		})
		had := hadObj != nil && factMatches(facts, func(ft Fact) bool { return ft.Tag == nil && ft.Val && c32identObj(info, ft.Cond) == hadObj })
		c.Check(notCommit && had, rule, cons+"#guard", st.Node.Pos(), m, "under !commit && had-uncommitted", "an aborted-transaction entry is recorded without the facts !commit and had-open-transaction (facts: "+c32factsStr(facts)+"): read_committed consumers would drop committed data or miss aborted data")
		c.Check(firstObj != nil && c32identObj(info, vals["firstOffset"]) == firstObj, rule, cons+"#firstOffset", st.Node.Pos(), m, "firstOffset from uncommittedPIDs", "firstOffset of the aborted range is `"+exprStr(vals["firstOffset"])+"`, not the first uncommitted offset read from pd.uncommittedPIDs")
		c.Check(ctlObj != nil && c32identObj(info, vals["lastOffset"]) == ctlObj, rule, cons+"#lastOffset", st.Node.Pos(), m, "lastOffset = control batch offset", "lastOffset of the aborted range is `"+exprStr(vals["lastOffset"])+"`, not the offset pushBatch returned for the abort marker")
	}
	c.Floor(rule, n, 2)
}

// ---- clause 1: logStartOffset ----

func (e *c32env) logStartWriters() {
	c, m := e.c, e.m
	rule := "logstart-writers"
	trim := m.Method(c32pkg, "Cluster", "trimLeft")
	rebuild := m.Method(c32pkg, "Cluster", "rebuildSegments")
	n := 0
	for _, st := range StoreSites(e.funcs, e.lstart) {
		n++
		c.Touch(st.Fn)
		f := st.Fn
		info := f.Info()
		cons := e.keys.uniq(f.Key + ": " + nodeStr(st.Node))
		if c32loaders[f.Key] {
			c.OK(rule, cons, st.Node.Pos(), m, "loader")
			continue
		}
		g := f.GraphFor(st.Node)
		loc, _ := g.LocOf(st.Node)
		facts := g.FactsAt(loc)
		isLS := func(x ast.Expr) bool { return c32isField(info, x, e.lstart) }
		isHW := func(x ast.Expr) bool { return c32isField(info, x, e.hwm) }
		ro := c32identObj(info, st.RHS)
		isR := func(x ast.Expr) bool { return ro != nil && c32identObj(info, x) == ro }
		var follow types.Object
		switch f.Key {
		case "kfake.Cluster.handleDeleteRecords":
			ok := st.Kind == "assign" && ro != nil && c32factCmp(facts, token.GEQ, isR, isLS) && c32factCmp(facts, token.LEQ, isR, isHW)
			c.Check(ok, rule, cons, st.Node.Pos(), m, "logStartOffset <= to <= highWatermark", "delete-records moves the log start to `"+exprStr(st.RHS)+"` without both range facts to >= logStartOffset and to <= highWatermark (facts: "+c32factsStr(facts)+"): the log start could move backwards or past the end of the log")
			follow = trim
		case "kfake.Cluster.applyRetention":
			ok := st.Kind == "assign" && ro != nil && c32factCmp(facts, token.GTR, isR, isLS)
			c.Check(ok, rule, cons, st.Node.Pos(), m, "only advanced", "retention sets the log start without the fact new > logStartOffset")
			follow = trim
		case "kfake.Cluster.compact":
			ok := st.Kind == "assign" && c32fieldNamed(info, st.RHS, "", "FirstOffset")
			c.Check(ok, rule, cons, st.Node.Pos(), m, "first kept batch", "compaction sets the log start to `"+exprStr(st.RHS)+"`, not the first offset of the first kept batch")
			follow = rebuild
		default:
			c.Fail(rule, cons, st.Node.Pos(), m, "logStartOffset is written outside delete-records, compaction, retention and the loaders")
			continue
		}
		if follow != nil {
			p, found, _ := c32escapes(f, st.Node, func(y ast.Node) bool { return c32hasCall(info, y, follow) }, nil, nil)
			c.Check(!found, rule, cons+"#then-trim", st.Node.Pos(), m, "followed by "+follow.Name(), "the log start moves but the batches below it are not trimmed ("+pathStr(p)+")")
		}
	}
	c.Floor(rule, n, 6)
}

// ---- clause 2: fetch ----

func (e *c32env) fetchWalks() {
	c, m := e.c, e.m
	f := c.NeedFunc(m, "kfake.Cluster.handleFetch")
	if f == nil {
		return
	}
	info := f.Info()
	g := f.Graph()
	rule := "fetch-stops-at-lso"
	nbytes := m.Field(c32pkg, "batchMeta", "nbytes")
	first := m.Field(c32pkg, "batchMeta", "firstOffset")
	readRaw := m.Method(c32pkg, "Cluster", "readBatchRaw")
	if nbytes == nil || first == nil || readRaw == nil {
		c.Undecided("anchor", "kfake.batchMeta.nbytes/firstOffset/readBatchRaw", token.NoPos, m, "not found")
		return
	}
	// readCommitted: local whose single definition is IsolationLevel == 1
	isRC := func(x ast.Expr) bool {
		o := c32identObj(info, x)
		if o == nil {
			return false
		}
		def := singleDef(f, o)
		b, ok := unparen(def).(*ast.BinaryExpr)
		if def == nil || !ok || b.Op != token.EQL {
			return false
		}
		v, isC := constInt(info, b.Y)
		return isC && v == 1 && c32fieldNamed(info, b.X, "FetchRequest", "IsolationLevel")
	}
	// `mobj.firstOffset >= X.lastStableOffset`
	isStop := func(x ast.Expr, mobj types.Object) bool {
		b, ok := unparen(x).(*ast.BinaryExpr)
		if !ok {
			return false
		}
		l, r := b.X, b.Y
		switch b.Op {
		case token.GEQ:
		case token.LEQ:
			l, r = r, l
		default:
			return false
		}
		return c32isField(info, l, first) && c32baseObj(info, l) == mobj && c32isField(info, r, e.lso)
	}
	guarded := func(facts []Fact, mobj types.Object) bool {
		for _, ft := range facts {
			if ft.Tag != nil {
				continue
			}
			cond := unparen(ft.Cond)
			if !ft.Val {
				if isStop(cond, mobj) {
					return true
				}
				if b, ok := cond.(*ast.BinaryExpr); ok && b.Op == token.LAND {
					if (isRC(b.X) && isStop(b.Y, mobj)) || (isRC(b.Y) && isStop(b.X, mobj)) {
						return true
					}
				}
			} else if b, ok := cond.(*ast.BinaryExpr); ok && (b.Op == token.LSS || b.Op == token.GTR) {
				l, r := b.X, b.Y
				if b.Op == token.GTR {
					l, r = r, l
				}
				if c32isField(info, l, first) && c32baseObj(info, l) == mobj && c32isField(info, r, e.lso) {
					return true
				}
			}
		}
		return false
	}
	var uses []ast.Node
	for _, x := range readsOf(f.Decl.Body, info, nbytes, false) {
		uses = append(uses, x)
	}
	for _, x := range callsTo(f.Decl.Body, info, readRaw, false) {
		uses = append(uses, x)
	}
	loops := map[token.Pos]bool{}
	pm := parentMap(f.Decl.Body)
	for _, u := range uses {
		var mobj types.Object
		if call, ok := u.(*ast.CallExpr); ok {
			if len(call.Args) == 3 {
				mobj = c32identObj(info, call.Args[2])
			}
		} else {
			mobj = c32baseObj(info, u.(ast.Expr))
		}
		st := enclosingStmt(f.Decl.Body, u)
		cons := e.keys.uniq(f.Key + ": " + nodeStr(st) + " uses " + exprStr(u))
		loc, ok := g.LocOf(u)
		if !ok || mobj == nil {
			c.Undecided(rule, cons, u.Pos(), m, "cannot locate the batch use / its batchMeta variable")
			continue
		}
		facts := g.FactsAt(loc)
		c.Check(guarded(facts, mobj), rule, cons, u.Pos(), m, "under !(readCommitted && m.firstOffset >= pd.lastStableOffset)",
			"a batch is counted/returned without the fact that a read_committed fetch stopped at m.firstOffset >= pd.lastStableOffset (facts: "+c32factsStr(facts)+"): read_committed consumers receive batches of a still-open transaction")
		for p := pm[u]; p != nil; p = pm[p] {
			if fs, ok := p.(*ast.ForStmt); ok {
				loops[fs.Pos()] = true
				break
			}
		}
	}
	c.Floor(rule, len(uses), 5)
	c.Floor(rule+"/walks", len(loops), 2)

	// response offsets
	rule = "fetch-reports-partition-offsets"
	want := map[string]*types.Var{"HighWatermark": e.hwm, "LastStableOffset": e.lso, "LogStartOffset": e.lstart}
	n := 0
	ast.Inspect(f.Decl.Body, func(x ast.Node) bool {
		as, ok := x.(*ast.AssignStmt)
		if !ok || len(as.Lhs) != 1 || len(as.Rhs) != 1 {
			return true
		}
		for name, fld := range want {
			if c32fieldNamed(info, as.Lhs[0], "FetchResponseTopicPartition", name) {
				n++
				c.Check(c32isField(info, as.Rhs[0], fld), rule, e.keys.uniq(f.Key+": "+name), as.Pos(), m, "= pd."+fld.Name(), "response field "+name+" is set from `"+exprStr(as.Rhs[0])+"`, not pd."+fld.Name())
			}
		}
		return true
	})
	c.Floor(rule, n, 3)

	// aborted transactions
	rule = "fetch-aborted-from-index"
	n = 0
	ast.Inspect(f.Decl.Body, func(x ast.Node) bool {
		as, ok := x.(*ast.AssignStmt)
		if !ok || len(as.Lhs) != 1 || len(as.Rhs) != 1 {
			return true
		}
		lhs := as.Lhs[0]
		switch {
		case c32fieldNamed(info, lhs, "FetchResponseTopicPartitionAbortedTransaction", "ProducerID"):
			n++
			c.Check(c32fieldNamed(info, as.Rhs[0], "abortedTxnEntry", "producerID"), rule, e.keys.uniq(f.Key+": ProducerID"), as.Pos(), m, "", "aborted transaction ProducerID is `"+exprStr(as.Rhs[0])+"`, not the index entry's producerID")
		case c32fieldNamed(info, lhs, "FetchResponseTopicPartitionAbortedTransaction", "FirstOffset"):
			n++
			c.Check(c32fieldNamed(info, as.Rhs[0], "abortedTxnEntry", "firstOffset"), rule, e.keys.uniq(f.Key+": FirstOffset"), as.Pos(), m, "", "aborted transaction FirstOffset is `"+exprStr(as.Rhs[0])+"`, not the index entry's firstOffset: consumers would filter from the wrong offset")
		case c32fieldNamed(info, lhs, "FetchResponseTopicPartition", "AbortedTransactions"):
			n++
			loc, _ := g.LocOf(as)
			facts := g.FactsAt(loc)
			rc := factMatches(facts, func(ft Fact) bool { return ft.Tag == nil && ft.Val && isRC(ft.Cond) })
			c.Check(rc, rule, e.keys.uniq(f.Key+": AbortedTransactions"), as.Pos(), m, "under readCommitted", "AbortedTransactions is filled without the readCommitted fact")
		}
		return true
	})
	c.Floor(rule, n, 3)
}

// ---- clause 3: duplicate window ----

func (e *c32env) dupWindow() {
	c, m := e.c, e.m
	f := c.NeedFunc(m, "kfake.pidwindow.pushAndValidate")
	if f == nil {
		return
	}
	info := f.Info()
	g := f.Graph()
	rule := "dup-scan-unconditional"
	sig := f.Obj.Type().(*types.Signature)
	if sig.Params().Len() != 4 || sig.Recv() == nil {
		c.Undecided(rule, f.Key+"#signature", f.Pos(), m, "pushAndValidate no longer takes (epoch, firstSeq, numRecs, baseOffset)")
		return
	}
	var recv types.Object
	if len(f.Decl.Recv.List) > 0 && len(f.Decl.Recv.List[0].Names) > 0 {
		recv = info.Defs[f.Decl.Recv.List[0].Names[0]]
	}
	epochP, baseP := sig.Params().At(0), sig.Params().At(3)
	count := m.Field(c32pkg, "pidwindow", "count")
	entries := m.Field(c32pkg, "pidwindow", "entries")
	seen := m.Field(c32pkg, "pidwindow", "seen")
	epochF := m.Field(c32pkg, "pidwindow", "epoch")
	nextSeq := m.Field(c32pkg, "pidwindow", "nextSeq")
	if count == nil || entries == nil || seen == nil || epochF == nil || nextSeq == nil {
		c.Undecided("anchor", "kfake.pidwindow fields", token.NoPos, m, "not found")
		return
	}
	pm := parentMap(f.Decl.Body)
	var dupRet *ast.ReturnStmt
	for _, rn := range findNodes(f.Decl.Body, false, func(x ast.Node) bool { _, ok := x.(*ast.ReturnStmt); return ok }) {
		r := rn.(*ast.ReturnStmt)
		if len(r.Results) == 3 {
			if v, ok := constBool(info, r.Results[1]); ok && v {
				dupRet = r
			}
		}
	}
	if dupRet == nil {
		c.Fail(rule, f.Key+"#dup-return", f.Pos(), m, "no return with dup == true: a retried batch is never recognised")
		return
	}
	var loop ast.Node
	var rangeX ast.Expr
	for p := pm[dupRet]; p != nil; p = pm[p] {
		if rs, ok := p.(*ast.RangeStmt); ok {
			loop, rangeX = rs, rs.X
			break
		}
		if _, ok := p.(*ast.ForStmt); ok {
			loop = p
			break
		}
	}
	if loop == nil || rangeX == nil {
		c.Undecided(rule, f.Key+"#scan-loop", dupRet.Pos(), m, "the duplicate return is not inside a `for ... range` scan of the window")
		return
	}
	c.Check(c32isField(info, rangeX, count) || c32isField(info, rangeX, entries), rule, f.Key+"#scan-range", loop.Pos(), m, "range s.count", "the duplicate scan ranges over `"+exprStr(rangeX)+"`, not all s.count stored entries: a retry of a batch outside the scanned part is appended again or rejected")
	ll, ok := g.LocOf(rangeX)
	if !ok {
		c.Undecided(rule, f.Key+"#scan-loc", loop.Pos(), m, "loop not in the CFG")
		return
	}
	// guard whitelist
	facts := g.FactsAt(ll)
	var bad []string
	for _, ft := range facts {
		okf := ft.Tag == nil
		if okf {
			ast.Inspect(ft.Cond, func(x ast.Node) bool {
				switch y := x.(type) {
				case *ast.SelectorExpr:
					v := fieldOfSel(info, y)
					if !(sameField(v, seen) || sameField(v, epochF)) {
						okf = false
					}
					if c32identObj(info, y.X) != recv {
						okf = false
					}
					return false
				case *ast.Ident:
					o := c32identObj(info, y)
					if o != recv && o != epochP && y.Name != "nil" {
						okf = false
					}
				}
				return true
			})
		}
		if !okf {
			bad = append(bad, c32factsStr([]Fact{ft}))
		}
	}
	c.Check(len(bad) == 0, rule, f.Key+"#scan-guards", loop.Pos(), m, "guarded only by nil / first batch / epoch tests", "the duplicate scan is skipped unless "+strings.Join(bad, " & ")+": a retried batch for which this does not hold is not recognised as a duplicate (answered OUT_OF_ORDER_SEQUENCE_NUMBER, or appended a second time after an epoch bump)")
	// the scan dominates the rejection and the accepting stores on the same (non-reset) path
	nonReset := func(n ast.Node) bool {
		l, ok := g.LocOf(n)
		if !ok {
			return false
		}
		return c32factCmp(g.FactsAt(l), token.EQL, func(x ast.Expr) bool { return c32identObj(info, x) == epochP }, func(y ast.Expr) bool { return c32isField(info, y, epochF) })
	}
	nd := 0
	for _, rn := range findNodes(f.Decl.Body, false, func(x ast.Node) bool { _, ok := x.(*ast.ReturnStmt); return ok }) {
		r := rn.(*ast.ReturnStmt)
		if r == dupRet || !nonReset(r) {
			continue
		}
		nd++
		rl, _ := g.LocOf(r)
		c.Check(g.Dominates(ll, rl), "dup-scan-before-decision", e.keys.uniq(f.Key+": "+nodeStr(r)), r.Pos(), m, "", "`"+nodeStr(r)+"` is reachable without scanning the window for a duplicate first")
	}
	for _, st := range storesTo(f.Decl.Body, info, nextSeq, false) {
		if !nonReset(st.Node) {
			continue
		}
		nd++
		sl, _ := g.LocOf(st.Node)
		c.Check(g.Dominates(ll, sl), "dup-scan-before-decision", e.keys.uniq(f.Key+": "+nodeStr(st.Node)), st.Node.Pos(), m, "", "the batch is accepted as new without scanning the window for a duplicate first")
	}
	c.Floor("dup-scan-before-decision", nd, 3)

	// stored entries carry the caller's base offset
	rule = "dup-window-stores-append-offset"
	n := 0
	for _, ln := range findNodes(f.Decl.Body, false, func(x ast.Node) bool {
		cl, ok := x.(*ast.CompositeLit)
		if !ok {
			return false
		}
		t := info.TypeOf(cl)
		nt, ok := t.(*types.Named)
		return ok && nt.Obj().Name() == "pidEntry"
	}) {
		cl := ln.(*ast.CompositeLit)
		var off ast.Expr
		for i, el := range cl.Elts {
			if kv, ok := el.(*ast.KeyValueExpr); ok {
				if exprStr(kv.Key) == "offset" {
					off = kv.Value
				}
			} else if i == 2 {
				off = el
			}
		}
		n++
		c.Check(off != nil && c32identObj(info, off) == baseP, rule, e.keys.uniq(f.Key+": pidEntry literal"), cl.Pos(), m, "offset = baseOffset", "the window entry stores offset `"+exprStr(off)+"`, not the baseOffset the batch is appended at: a retry is answered with a wrong offset")
	}
	c.Floor(rule, n, 2)

	// the caller passes the high watermark of the partition it appends to
	hp := c.NeedFunc(m, "kfake.Cluster.handleProduce")
	pb := m.Method(c32pkg, "Cluster", "pushBatch")
	if hp == nil || pb == nil {
		return
	}
	hinfo := hp.Info()
	n = 0
	for _, call := range callsTo(hp.Decl.Body, hinfo, f.Obj, true) {
		n++
		if len(call.Args) != 4 {
			continue
		}
		arg := call.Args[3]
		pdo := c32baseObj(hinfo, arg)
		same := false
		for _, pc := range callsTo(hp.Decl.Body, hinfo, pb, true) {
			if len(pc.Args) > 0 && c32identObj(hinfo, pc.Args[0]) == pdo && pdo != nil {
				same = true
			}
		}
		c.Check(c32isField(hinfo, arg, e.hwm) && same, rule, e.keys.uniq(hp.Key+": pushAndValidate baseOffset argument"), call.Pos(), m, "pd.highWatermark", "handleProduce records `"+exprStr(arg)+"` as the batch's offset in the duplicate window; the batch is appended at pd.highWatermark")
	}
	c.Floor(rule+"/caller", n, 1)
}

// ---- clause 3: per-batch decision of handleProduce (shared with C33) ----

type c32pst struct {
	errZ, dup tri
	pushed    int8 // 0 not called, 1 called and result >= 0, 2 called and failed, 3 called, result unchecked
}

type c32ack struct {
	call *ast.CallExpr
	st   c32pst
	zero bool // the error code argument is the constant 0
}

// c32produceWalk explores handleProduce's main body with a three-valued
// abstraction of (errCode == 0, dup, pushBatch outcome for the current batch)
// and returns every reachable response call that can carry error code 0.
func c32produceWalk(c *Ctx, m *Module, rule string) (f *Func, acks []c32ack, ok bool) {
	f = c.NeedFunc(m, "kfake.Cluster.handleProduce")
	if f == nil {
		return nil, nil, false
	}
	info := f.Info()
	pb := m.Method(c32pkg, "Cluster", "pushBatch")
	pv := m.Method(c32pkg, "pidwindow", "pushAndValidate")
	if pb == nil || pv == nil {
		c.Undecided("anchor", "kfake pushBatch/pushAndValidate", token.NoPos, m, "not found")
		return f, nil, false
	}
	// the per-partition response closure: local func value returning *kmsg.ProduceResponseTopicPartition
	var donep types.Object
	codeIdx := -1
	for id, o := range info.Defs {
		v, isV := o.(*types.Var)
		if !isV || id.Pos() < f.Decl.Body.Pos() || id.Pos() > f.Decl.Body.End() {
			continue
		}
		sig, isS := v.Type().(*types.Signature)
		if !isS || sig.Results().Len() != 1 {
			continue
		}
		if pt, isP := sig.Results().At(0).Type().(*types.Pointer); isP {
			if nt, isN := pt.Elem().(*types.Named); isN && nt.Obj().Name() == "ProduceResponseTopicPartition" {
				donep = v
				for i := 0; i < sig.Params().Len(); i++ {
					if bt, isB := sig.Params().At(i).Type().(*types.Basic); isB && bt.Kind() == types.Int16 {
						codeIdx = i
					}
				}
			}
		}
	}
	if donep == nil || codeIdx < 0 {
		c.Undecided(rule, f.Key+"#response-closure", f.Pos(), m, "cannot find the per-partition response closure (func(..., errCode int16, ...) *kmsg.ProduceResponseTopicPartition)")
		return f, nil, false
	}
	// dup variable: second result of pushAndValidate; batch variable: third argument of pushBatch
	var dupObj, errObj, batchObj types.Object
	ast.Inspect(f.Decl.Body, func(x ast.Node) bool {
		if _, isLit := x.(*ast.FuncLit); isLit {
			return false
		}
		switch s := x.(type) {
		case *ast.AssignStmt:
			if len(s.Rhs) == 1 && len(s.Lhs) == 3 {
				if cl, ok := unparen(s.Rhs[0]).(*ast.CallExpr); ok && isCallTo(info, cl, pv) {
					dupObj = c32identObj(info, s.Lhs[1])
				}
			}
		case *ast.CallExpr:
			if isCallTo(info, s, pb) && len(s.Args) == 4 {
				batchObj = c32identObj(info, s.Args[2])
			}
			if c32identObj(info, s.Fun) == donep && codeIdx < len(s.Args) {
				if o := c32identObj(info, s.Args[codeIdx]); o != nil {
					if _, isC := constInt(info, s.Args[codeIdx]); !isC {
						if errObj != nil && errObj != o {
							errObj = nil
							return false
						}
						errObj = o
					}
				}
			}
		}
		return true
	})
	if dupObj == nil || errObj == nil || batchObj == nil {
		c.Undecided(rule, f.Key+"#decision-variables", f.Pos(), m, "cannot identify the dup / errCode / batch variables of the produce loop")
		return f, nil, false
	}
	g := f.Graph()
	isPushLt0 := func(x ast.Expr) bool {
		b, ok := unparen(x).(*ast.BinaryExpr)
		if !ok || b.Op != token.LSS {
			return false
		}
		cl, ok := unparen(b.X).(*ast.CallExpr)
		v, isC := constInt(info, b.Y)
		return ok && isCallTo(info, cl, pb) && isC && v == 0
	}
	errCmp := func(x ast.Expr) (isEq bool, ok bool) {
		b, isB := unparen(x).(*ast.BinaryExpr)
		if !isB || (b.Op != token.EQL && b.Op != token.NEQ) {
			return false, false
		}
		v, isC := constInt(info, b.Y)
		if c32identObj(info, b.X) == errObj && isC && v == 0 {
			return b.Op == token.EQL, true
		}
		return false, false
	}
	var eval func(x ast.Expr, s c32pst) tri
	eval = func(x ast.Expr, s c32pst) tri {
		x = unparen(x)
		if v, ok := constBool(info, x); ok {
			return b2tri(v)
		}
		if c32identObj(info, x) == dupObj {
			return s.dup
		}
		if eq, ok := errCmp(x); ok {
			if eq {
				return s.errZ
			}
			return s.errZ.not()
		}
		switch y := x.(type) {
		case *ast.UnaryExpr:
			if y.Op == token.NOT {
				return eval(y.X, s).not()
			}
		case *ast.BinaryExpr:
			if y.Op == token.LAND {
				return triAnd(eval(y.X, s), eval(y.Y, s))
			}
			if y.Op == token.LOR {
				return triOr(eval(y.X, s), eval(y.Y, s))
			}
		}
		return triU
	}
	var refine func(x ast.Expr, val bool, s *c32pst)
	refine = func(x ast.Expr, val bool, s *c32pst) {
		x = unparen(x)
		if c32identObj(info, x) == dupObj {
			s.dup = b2tri(val)
			return
		}
		if eq, ok := errCmp(x); ok {
			s.errZ = b2tri(eq == val)
			return
		}
		if isPushLt0(x) {
			if val {
				s.pushed = 2
			} else {
				s.pushed = 1
			}
			return
		}
		switch y := x.(type) {
		case *ast.UnaryExpr:
			if y.Op == token.NOT {
				refine(y.X, !val, s)
			}
		case *ast.BinaryExpr:
			if (y.Op == token.LAND && val) || (y.Op == token.LOR && !val) {
				refine(y.X, val, s)
				refine(y.Y, val, s)
			} else if y.Op == token.LAND || y.Op == token.LOR {
				// A && B is false (A || B is true): if one side is known to be the neutral value the other side decides
				neutral := triT
				if y.Op == token.LOR {
					neutral = triF
				}
				if eval(y.X, *s) == neutral {
					refine(y.Y, val, s)
				} else if eval(y.Y, *s) == neutral {
					refine(y.X, val, s)
				}
			}
		}
	}
	isErrCodeValue := func(x ast.Expr) tri { // is the assigned value zero?
		if v, ok := constInt(info, x); ok {
			return b2tri(v == 0)
		}
		if sel, ok := unparen(x).(*ast.SelectorExpr); ok && sel.Sel.Name == "Code" {
			if t := info.TypeOf(sel.X); t != nil && strings.HasSuffix(t.String(), "kerr.Error") {
				if bs, ok := unparen(sel.X).(*ast.SelectorExpr); ok && bs.Sel.Name != "NoError" {
					return triF // a kerr error variable: codes of exported kerr errors are non-zero
				}
			}
		}
		return triU
	}
	seenAck := map[string]bool{}
	transfer := func(n ast.Node, s *c32pst, isCond bool) {
		switch x := n.(type) {
		case *ast.ValueSpec:
			for i, id := range x.Names {
				o := info.Defs[id]
				if i < len(x.Values) {
					continue
				}
				switch o {
				case errObj:
					s.errZ = triT
				case dupObj:
					s.dup = triF
				case batchObj:
					s.pushed = 0
				}
			}
		case *ast.AssignStmt:
			for i, l := range x.Lhs {
				o := c32identObj(info, l)
				switch o {
				case errObj:
					if len(x.Rhs) == len(x.Lhs) && x.Tok == token.ASSIGN {
						s.errZ = isErrCodeValue(x.Rhs[i])
					} else {
						s.errZ = triU
					}
				case dupObj:
					s.dup = triU
					if len(x.Rhs) == len(x.Lhs) {
						if v, ok := constBool(info, x.Rhs[i]); ok {
							s.dup = b2tri(v)
						}
					}
				case batchObj:
					if o != nil {
						s.pushed = 0
					}
				}
			}
		}
		// pushBatch calls whose result is not tested by this very condition
		if !(isCond && func() bool {
			e, ok := n.(ast.Expr)
			return ok && containsNode(e, false, func(y ast.Node) bool { ye, ok := y.(ast.Expr); return ok && isPushLt0(ye) })
		}()) {
			if c32hasCall(info, n, pb) {
				s.pushed = 3
			}
		}
		// response calls
		for _, cn := range findNodes(n, false, func(y ast.Node) bool {
			cl, ok := y.(*ast.CallExpr)
			return ok && c32identObj(info, cl.Fun) == donep && codeIdx < len(cl.Args)
		}) {
			cl := cn.(*ast.CallExpr)
			arg := cl.Args[codeIdx]
			zero := false
			if v, isC := constInt(info, arg); isC {
				if v != 0 {
					continue
				}
				zero = true
			} else if c32identObj(info, arg) == errObj {
				if s.errZ == triF {
					continue
				}
			} else {
				continue // a kerr code selected directly
			}
			k := fmt.Sprintf("%d|%v", cl.Pos(), *s)
			if !seenAck[k] {
				seenAck[k] = true
				acks = append(acks, c32ack{call: cl, st: *s, zero: zero})
			}
		}
	}
	type key struct {
		b int
		s c32pst
	}
	visited := map[key]bool{}
	var walk func(b int, s c32pst)
	walk = func(b int, s c32pst) {
		k := key{b, s}
		if visited[k] {
			return
		}
		visited[k] = true
		blk := g.C.Blocks[b]
		cond, tag, isCond := g.condOf(blk)
		for i, n := range blk.Nodes {
			transfer(n, &s, isCond && i == len(blk.Nodes)-1)
		}
		if isCond && tag == nil && len(blk.Succs) == 2 {
			v := eval(cond, s)
			if v != triF {
				s2 := s
				refine(cond, true, &s2)
				walk(int(blk.Succs[0].Index), s2)
			}
			if v != triT {
				s2 := s
				refine(cond, false, &s2)
				walk(int(blk.Succs[1].Index), s2)
			}
			return
		}
		for _, sc := range g.succs[b] {
			walk(sc, s)
		}
	}
	walk(0, c32pst{})
	return f, acks, true
}

func (e *c32env) dupArm() {
	c, m := e.c, e.m
	rule := "dup-arm-no-second-append"
	f, acks, ok := c32produceWalk(c, m, rule)
	if !ok {
		return
	}
	n := 0
	seen := map[string]bool{}
	for _, a := range acks {
		if a.st.dup != triT {
			continue
		}
		n++
		cons := f.Key + ": " + exprStr(a.call) + " with dup"
		if seen[cons] && a.st.pushed == 0 {
			continue
		}
		seen[cons] = true
		c.Check(a.st.pushed == 0, rule, e.keys.uniq(cons), a.call.Pos(), m, "pushBatch not called for a duplicate", "a batch recognised as a duplicate (dup == true) is acknowledged on a path on which pushBatch was also called for it: the retried batch is appended a second time")
	}
	c.Floor(rule, n, 1)
}

// ---- clause 4: fetch sessions ----

func (e *c32env) session() {
	c, m := e.c, e.m
	f := c.NeedFunc(m, "kfake.Cluster.handleFetch")
	up := c.NeedFunc(m, "kfake.fetchSession.updatePartition")
	flt := c.NeedFunc(m, "kfake.fetchSession.updateAndFilterResponse")
	if f == nil || up == nil || flt == nil {
		return
	}
	info := f.Info()
	g := f.Graph()
	rule := "session-update-every-request-partition"
	calls := callsTo(f.Decl.Body, info, up.Obj, false)
	pm := parentMap(f.Decl.Body)
	for _, call := range calls {
		cons := e.keys.uniq(f.Key + ": session.updatePartition")
		// inside range over X.Partitions inside range over req.Topics
		var inner, outer *ast.RangeStmt
		for p := pm[call]; p != nil; p = pm[p] {
			if rs, ok := p.(*ast.RangeStmt); ok {
				if inner == nil {
					inner = rs
				} else if outer == nil {
					outer = rs
				}
			}
		}
		loopsOK := inner != nil && outer != nil && c32fieldNamed(info, inner.X, "FetchRequestTopic", "Partitions") && c32fieldNamed(info, outer.X, "FetchRequest", "Topics")
		c.Check(loopsOK, rule, cons+"#loops", call.Pos(), m, "for req.Topics / rt.Partitions", "updatePartition is not called from the loop over every request topic's partitions")
		// arguments
		wantArgs := []string{"Topic", "TopicID", "Partition", "FetchOffset", "PartitionMaxBytes", "CurrentLeaderEpoch"}
		argsOK := len(call.Args) == len(wantArgs)
		if argsOK {
			for i, w := range wantArgs {
				if !c32fieldNamed(info, call.Args[i], "", w) {
					argsOK = false
				}
			}
		}
		c.Check(argsOK, rule, cons+"#args", call.Pos(), m, "request fields", "updatePartition is not passed the request partition's Topic, TopicID, Partition, FetchOffset, PartitionMaxBytes, CurrentLeaderEpoch in that order: "+exprStr(call))
		// guards
		loc, _ := g.LocOf(call)
		var bad []string
		var recvObj types.Object
		if sel, ok := call.Fun.(*ast.SelectorExpr); ok {
			recvObj = c32identObj(info, sel.X)
		}
		for _, ft := range c32factsWithin(g.FactsAt(loc), c32topStmt(f, call)) {
			if !e.sessionGuardOK(info, ft, recvObj) {
				bad = append(bad, c32factsStr([]Fact{ft}))
			}
		}
		c.Check(len(bad) == 0, rule, cons+"#guards", call.Pos(), m, "guarded at most by topic != \"\" || ...", "the session is updated only when "+strings.Join(bad, " & ")+": request partitions for which this does not hold keep their old fetch offset (or never enter the session) and later incremental fetches miss or re-send their data")
	}
	c.Floor(rule, len(calls), 1)

	// updatePartition body
	rule = "session-update-stores-entry"
	uinfo := up.Info()
	ug := up.Graph()
	parts := m.Field(c32pkg, "fetchSession", "partitions")
	sig := up.Obj.Type().(*types.Signature)
	if parts == nil || sig.Params().Len() != 6 {
		c.Undecided(rule, up.Key, up.Pos(), m, "fetchSession.partitions / signature changed")
		return
	}
	// map stores s.partitions[key] = v
	var mapStores []*ast.AssignStmt
	ast.Inspect(up.Decl.Body, func(x ast.Node) bool {
		if as, ok := x.(*ast.AssignStmt); ok && len(as.Lhs) == 1 {
			if ix, ok := unparen(as.Lhs[0]).(*ast.IndexExpr); ok && c32isField(uinfo, ix.X, parts) {
				mapStores = append(mapStores, as)
			}
		}
		return true
	})
	// every path from entry with a non-nil receiver reaches a map store
	isStore := func(n ast.Node) bool {
		for _, s := range mapStores {
			if n == ast.Node(s) {
				return true
			}
		}
		return false
	}
	var recvU types.Object
	if len(up.Decl.Recv.List) > 0 && len(up.Decl.Recv.List[0].Names) > 0 {
		recvU = uinfo.Defs[up.Decl.Recv.List[0].Names[0]]
	}
	p, found := ug.FindPath(Loc{B: -1}, SearchOpts{Stop: isStore, GoalExit: func(k ExitKind, last ast.Node) bool {
		if k == ExitPanic {
			return false
		}
		// the nil-session early return is fine
		if last != nil {
			if l, ok := ug.LocOf(last); ok {
				if c32factCmp(ug.FactsAt(l), token.EQL, func(x ast.Expr) bool { return c32identObj(uinfo, x) == recvU }, func(y ast.Expr) bool { id, ok := unparen(y).(*ast.Ident); return ok && id.Name == "nil" }) {
					return false
				}
			}
		}
		return true
	}})
	c.Check(!found, rule, up.Key+"#stored-back", up.Pos(), m, "every path stores s.partitions[key]", "updatePartition can return without storing the entry into s.partitions ("+pathStr(p)+"): map values are copies, the new fetch offset is lost")
	// the fields fetchOffset/maxBytes/currentEpoch/topicID written from the parameters on both arms
	fsp := []string{"topicID", "fetchOffset", "maxBytes", "currentEpoch"}
	pidx := map[string]int{"topicID": 1, "fetchOffset": 3, "maxBytes": 4, "currentEpoch": 5}
	nw := 0
	for _, name := range fsp {
		fld := m.Field(c32pkg, "fetchSessionPartition", name)
		if fld == nil {
			c.Undecided("anchor", "kfake.fetchSessionPartition."+name, token.NoPos, m, "field not found")
			continue
		}
		sts := storesTo(up.Decl.Body, uinfo, fld, false)
		for _, st := range sts {
			nw++
			c.Check(c32identObj(uinfo, st.RHS) == sig.Params().At(pidx[name]), rule, e.keys.uniq(up.Key+": "+name), st.Node.Pos(), m, "", "session field "+name+" is set from `"+exprStr(st.RHS)+"`, not the "+sig.Params().At(pidx[name]).Name()+" parameter")
		}
		c.Check(len(sts) >= 2, rule, up.Key+": "+name+" written on both arms", up.Pos(), m, "", fmt.Sprintf("session field %s is written on %d arms, want the existing-entry arm and the new-entry arm", name, len(sts)))
	}
	c.Floor(rule, nw, 8)
	// new entries start with -1 baselines
	for _, name := range []string{"lastHighWatermark", "lastLogStartOffset"} {
		fld := m.Field(c32pkg, "fetchSessionPartition", name)
		okb := false
		for _, st := range storesTo(up.Decl.Body, uinfo, fld, false) {
			if v, isC := constInt(uinfo, st.RHS); isC && v == -1 && st.Kind == "complit" {
				okb = true
			}
		}
		c.Check(okb, "session-new-partition-always-answered", up.Key+": "+name, up.Pos(), m, "-1 baseline", "a partition added to the session does not start with "+name+" = -1: it is filtered from the first incremental response when its offsets happen to equal the baseline")
	}

	// incremental merge
	rule = "session-incremental-adds-all"
	toFetch := localObj(f, "toFetch")
	n := 0
	ast.Inspect(f.Decl.Body, func(x ast.Node) bool {
		as, ok := x.(*ast.AssignStmt)
		if !ok || len(as.Lhs) != 1 || len(as.Rhs) != 1 || toFetch == nil || c32identObj(info, as.Lhs[0]) != toFetch {
			return true
		}
		call, ok := unparen(as.Rhs[0]).(*ast.CallExpr)
		if !ok || len(call.Args) != 2 {
			return true
		}
		// which loop?
		var rs *ast.RangeStmt
		for p := pm[as]; p != nil; p = pm[p] {
			if r, ok := p.(*ast.RangeStmt); ok {
				rs = r
				break
			}
		}
		if rs == nil || !c32isField(info, rs.X, parts) {
			return true
		}
		n++
		keyObj := c32identObj(info, rs.Key)
		var spObj types.Object
		if rs.Value != nil {
			spObj = c32identObj(info, rs.Value)
		}
		loc, _ := g.LocOf(as)
		var bad []string
		hasNotIn := false
		for _, ft := range c32factsWithin(g.FactsAt(loc), c32topStmt(f, as)) {
			if ft.Tag != nil {
				bad = append(bad, c32factsStr([]Fact{ft}))
				continue
			}
			cond := unparen(ft.Cond)
			// session != nil
			if b, ok := cond.(*ast.BinaryExpr); ok && b.Op == token.NEQ && ft.Val {
				if id, ok := unparen(b.Y).(*ast.Ident); ok && id.Name == "nil" && c32baseObj(info, rs.X) == c32identObj(info, b.X) {
					continue
				}
			}
			// !newSession: a bool local assigned from getOrCreate
			if o := c32identObj(info, cond); o != nil && !ft.Val && o.Name() == "newSession" {
				continue
			}
			// !inRequest[key]
			if ix, ok := cond.(*ast.IndexExpr); ok && !ft.Val && c32identObj(info, ix.Index) == keyObj {
				if e.inRequestComplete(f, g, c32identObj(info, ix.X), toFetch) {
					hasNotIn = true
					continue
				}
			}
			bad = append(bad, c32factsStr([]Fact{ft}))
		}
		cons := e.keys.uniq(f.Key + ": incremental append to toFetch")
		c.Check(len(bad) == 0 && hasNotIn, rule, cons+"#guards", as.Pos(), m, "session != nil && !newSession && !inRequest[key]", "a session partition is added to an incremental fetch only when "+strings.Join(bad, " & ")+" (besides session != nil, !newSession, !inRequest[key]): session partitions for which this does not hold are never answered although their data changed")
		// the appended partition uses the session's stored state
		if lit, ok := unparen(call.Args[1]).(*ast.CompositeLit); ok {
			vals := map[string]ast.Expr{}
			for _, el := range lit.Elts {
				if kv, ok := el.(*ast.KeyValueExpr); ok {
					vals[exprStr(kv.Key)] = kv.Value
				}
			}
			okv := c32fieldNamed(info, vals["fetchOffset"], "fetchSessionPartition", "fetchOffset") && c32baseObj(info, vals["fetchOffset"]) == spObj &&
				c32fieldNamed(info, vals["maxBytes"], "fetchSessionPartition", "maxBytes") &&
				c32fieldNamed(info, vals["partition"], "tp", "p") && c32baseObj(info, vals["partition"]) == keyObj
			c.Check(okv, rule, cons+"#values", as.Pos(), m, "stored fetchOffset/maxBytes, key.p", "the merged partition is not fetched at the session's stored fetchOffset / maxBytes for key.p: "+exprStr(lit))
		} else {
			c.Undecided(rule, cons+"#values", as.Pos(), m, "appended value is not a composite literal")
		}
		return true
	})
	c.Floor(rule, n, 1)

	// response filter
	rule = "session-filter-keeps-changed"
	finfo := flt.Info()
	fg := flt.Graph()
	inc := localObj(flt, "include")
	var def ast.Expr
	if inc != nil {
		def = singleDef(flt, inc)
	}
	if def == nil {
		c.Undecided(rule, flt.Key+"#include", flt.Pos(), m, "no single-definition `include` decision found")
		return
	}
	var disj []ast.Expr
	var split func(x ast.Expr)
	split = func(x ast.Expr) {
		x = unparen(x)
		if b, ok := x.(*ast.BinaryExpr); ok && b.Op == token.LOR {
			split(b.X)
			split(b.Y)
			return
		}
		disj = append(disj, x)
	}
	split(def)
	type want struct {
		name string
		pred func(x ast.Expr) bool
	}
	cmpF := func(op token.Token, l func(ast.Expr) bool, r func(ast.Expr) bool) func(ast.Expr) bool {
		return func(x ast.Expr) bool {
			b, ok := x.(*ast.BinaryExpr)
			return ok && b.Op == op && ((l(b.X) && r(b.Y)) || (op == token.NEQ && l(b.Y) && r(b.X)))
		}
	}
	zero := func(x ast.Expr) bool { v, ok := constInt(finfo, x); return ok && v == 0 }
	fld := func(owner, name string) func(ast.Expr) bool {
		return func(x ast.Expr) bool { return c32fieldNamed(finfo, x, owner, name) }
	}
	wants := []want{
		{"has records", func(x ast.Expr) bool {
			b, ok := x.(*ast.BinaryExpr)
			if !ok || !(b.Op == token.GTR || b.Op == token.NEQ) || !zero(b.Y) {
				return false
			}
			cl, ok := unparen(b.X).(*ast.CallExpr)
			return ok && len(cl.Args) == 1 && exprStr(cl.Fun) == "len" && c32fieldNamed(finfo, cl.Args[0], "FetchResponseTopicPartition", "RecordBatches")
		}},
		{"has error", cmpF(token.NEQ, fld("FetchResponseTopicPartition", "ErrorCode"), zero)},
		{"high watermark changed", cmpF(token.NEQ, fld("FetchResponseTopicPartition", "HighWatermark"), fld("fetchSessionPartition", "lastHighWatermark"))},
		{"log start changed", cmpF(token.NEQ, fld("FetchResponseTopicPartition", "LogStartOffset"), fld("fetchSessionPartition", "lastLogStartOffset"))},
	}
	for _, w := range wants {
		okw := false
		for _, d := range disj {
			if w.pred(d) {
				okw = true
			}
		}
		c.Check(okw, rule, flt.Key+"#include: "+w.name, def.Pos(), m, "", "the keep-partition decision `"+exprStr(def)+"` has no top-level disjunct for \""+w.name+"\": an incremental fetch drops a partition whose data changed")
	}
	// partitions are kept exactly under include
	nk := 0
	ast.Inspect(flt.Decl.Body, func(x ast.Node) bool {
		as, ok := x.(*ast.AssignStmt)
		if !ok || len(as.Lhs) != 1 {
			return true
		}
		ix, ok := unparen(as.Lhs[0]).(*ast.IndexExpr)
		if !ok || !c32fieldNamed(finfo, ix.X, "FetchResponseTopic", "Partitions") {
			return true
		}
		nk++
		loc, _ := fg.LocOf(as)
		var bad []string
		okInc := false
		for _, ft := range fg.FactsAt(loc) {
			if ft.Tag == nil && ft.Val && c32identObj(finfo, ft.Cond) == inc {
				okInc = true
				continue
			}
			// s == nil early return
			if c32factCmp([]Fact{ft}, token.NEQ, func(x ast.Expr) bool { return true }, func(y ast.Expr) bool { id, ok := unparen(y).(*ast.Ident); return ok && id.Name == "nil" }) {
				continue
			}
			bad = append(bad, c32factsStr([]Fact{ft}))
		}
		c.Check(okInc && len(bad) == 0, rule, e.keys.uniq(flt.Key+": keep partition"), as.Pos(), m, "kept under include", "a response partition is kept only when "+strings.Join(bad, " & ")+" besides include")
		return true
	})
	c.Floor(rule, nk+len(wants), 5)
}

// sessionGuardOK: the fact cannot exclude a request partition whose topic resolves.
func (e *c32env) sessionGuardOK(info *types.Info, ft Fact, recv types.Object) bool {
	if ft.Tag != nil {
		return false
	}
	topicNonEmpty := func(x ast.Expr) bool {
		b, ok := unparen(x).(*ast.BinaryExpr)
		if !ok || b.Op != token.NEQ {
			return false
		}
		s, isS := unparen(b.Y).(*ast.BasicLit)
		return isS && s.Value == `""` && c32fieldNamed(info, b.X, "FetchRequestTopic", "Topic")
	}
	cond := unparen(ft.Cond)
	if ft.Val {
		// any disjunction containing `topic != ""`
		var has func(x ast.Expr) bool
		has = func(x ast.Expr) bool {
			x = unparen(x)
			if topicNonEmpty(x) {
				return true
			}
			if b, ok := x.(*ast.BinaryExpr); ok && b.Op == token.LOR {
				return has(b.X) || has(b.Y)
			}
			return false
		}
		if has(cond) {
			return true
		}
		// receiver != nil
		if b, ok := cond.(*ast.BinaryExpr); ok && b.Op == token.NEQ && recv != nil && c32identObj(info, b.X) == recv {
			if id, ok := unparen(b.Y).(*ast.Ident); ok && id.Name == "nil" {
				return true
			}
		}
	}
	return false
}

// inRequestComplete: the set object is filled by `set[tp{fp.topic, fp.partition}] = true`
// in a loop over every element of toFetch, guarded by nothing that depends on the element.
func (e *c32env) inRequestComplete(f *Func, g *Graph, set types.Object, toFetch types.Object) bool {
	if set == nil || toFetch == nil {
		return false
	}
	info := f.Info()
	ok := false
	pm := parentMap(f.Decl.Body)
	ast.Inspect(f.Decl.Body, func(x ast.Node) bool {
		as, isA := x.(*ast.AssignStmt)
		if !isA || len(as.Lhs) != 1 || len(as.Rhs) != 1 {
			return true
		}
		ix, isI := unparen(as.Lhs[0]).(*ast.IndexExpr)
		if !isI || c32identObj(info, ix.X) != set {
			return true
		}
		if v, isC := constBool(info, as.Rhs[0]); !isC || !v {
			return true
		}
		rs, _ := pm[pm[as]].(*ast.RangeStmt)
		if rs == nil || c32identObj(info, rs.X) != toFetch || rs.Value == nil {
			return true
		}
		el := c32identObj(info, rs.Value)
		lit, isL := unparen(ix.Index).(*ast.CompositeLit)
		if !isL || len(lit.Elts) != 2 {
			return true
		}
		if !(c32fieldNamed(info, lit.Elts[0], "fetchPartition", "topic") && c32baseObj(info, lit.Elts[0]) == el && c32fieldNamed(info, lit.Elts[1], "fetchPartition", "partition") && c32baseObj(info, lit.Elts[1]) == el) {
			return true
		}
		// the store is the loop body's only statement (no per-element guard)
		if body := rs.Body; len(body.List) == 1 && body.List[0] == ast.Stmt(as) {
			ok = true
		}
		return true
	})
	return ok
}
